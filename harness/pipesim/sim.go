package pipesim

import (
	"context"
	"errors"
	"fmt"
	"regexp"
	"runtime"
	"sort"
	"strings"
	"sync"
	"sync/atomic"
	"testing/synctest"
	"time"

	"github.com/ozontech/file.d/pipeline"
	"github.com/ozontech/file.d/zzverif/fdkit"
)

// Failure is one oracle failure found while running / at quiescence.
type Failure struct {
	Prop string
	Sig  string
	Msg  string
}

// H is one history entry.
type H struct {
	Seq  int64  `json:"seq"`
	What string `json:"what"`
	ID   int    `json:"id,omitempty"`
	Info string `json:"info,omitempty"`
}

type evState struct {
	rec    *Record
	kid    *Kid
	parent int
	source uint64
	stream string
	offset int64

	offered    bool
	inReturned bool
	accepted   bool
	dropped    int
	dropHow    string
	held       bool
	split      bool
	acked      bool
	ackBy      string // main | dq | giveup
	gaveUp     bool   // main output gave the event up (dead queue may still deliver it)
	committed  int
	commitBy   string
	sentTo     map[string]int // role -> times carried by a successful or failed send
	dqHanded   int
}

// Result is what a run reports.
type Result struct {
	Failures           []Failure
	History            []H
	Quiesced           bool
	Accepted           int
	Committed          int
	Dropped            int
	MaxInFlight        int
	SpamRefused        int // records refused by the antispammer
	Inversions         int // a later send returned before an earlier one
	DropBehind         int // a drop happened while an earlier event of the same stream was unresolved
	RetriesSeen        int
	GiveUps            int
	DQDelivered        int
	Timeouts           int
	HeldFlushed        int
	ConstraintsDropped int
	ConcurrentStreams  bool
	Splits             int
	PoolInUseAtEnd     int64
	PoolSaturated      bool
	Elapsed            time.Duration // virtual or real
	StreamerDump       string
	LoggedPanic        string
	BreakBypass        int // a "break" skipped an action that was holding an event
	TimeoutToNonHolder int
	FedAtHeartbeat     int // records handed to In between the heartbeat's snapshot and tryUnblock
}

// Sim is one execution of a plan.
type Sim struct {
	plan *Plan
	p    *pipeline.Pipeline
	ctl  pipeline.InputPluginController

	mu               sync.Mutex
	seq              int64
	ev               map[int]*evState
	order            map[string][]int // (source|stream) -> ids in read order
	lastCommitOffset map[string]int64
	lastCommitDQ     map[string]bool
	hist             []H
	fails            []Failure
	failed           map[string]bool
	inFlight         int
	res              Result
	ptrOwner         map[*pipeline.Event]int
	start            time.Time
	procsActive      map[string]int
	procActions      map[pipeline.ActionPluginController][]*simAction
	multiHold        bool
	inAttachStall    atomic.Int32
	unattendedSeen   bool
	gateOn           bool
	hbMu             sync.Mutex
	hbSlot           []*pendingFeed

	outMain *simOutput
	outDQ   *simOutput
}

func key(source uint64, stream string) string { return fmt.Sprintf("%d|%s", source, stream) }

func (s *Sim) note(what string, id int, info string) {
	// caller holds mu
	s.seq++
	if len(s.hist) < 4000 {
		s.hist = append(s.hist, H{Seq: s.seq, What: what, ID: id, Info: info})
	}
}

func (s *Sim) failf(prop, sig, format string, args ...any) {
	// caller holds mu; first failure per (prop) only
	if s.failed[prop] {
		return
	}
	if s.res.BreakBypass > 0 && (prop == "C01" || prop == "C02" || prop == "C04" || prop == "C05") && !strings.HasSuffix(sig, ":dead-queue") {
		// known-finding class: a scripted "break" in front of an action that currently holds an earlier
		// event of the stream overtakes the held event (no shipped plugin does this: split, the only
		// one returning ActionBreak, flushes busy actions through Spawn first)
		sig += ":break-bypass"
	} else if s.multiHold && (prop == "C01" || prop == "C02" || prop == "C04") && !strings.HasSuffix(sig, ":dead-queue") {
		// known-finding class: two actions of one chain request sequential events (hold / collapse)
		sig += ":multi-hold"
	}
	s.failed[prop] = true
	s.fails = append(s.fails, Failure{Prop: prop, Sig: sig, Msg: fmt.Sprintf(format, args...)})
}

func (s *Sim) resolved(st *evState) bool {
	// acknowledged by an output, deliberately dropped, or refused at the entrance
	if st.inReturned && !st.accepted {
		return true
	}
	if st.dropped > 0 || st.acked {
		return true
	}
	if st.split {
		for _, k := range st.rec.Kids {
			ks := s.ev[k.ID]
			if !(ks.acked || ks.dropped > 0) {
				return false
			}
		}
		return true
	}
	return false
}

// ------------------------------------------------------------------ input plugin

type simInput struct{ sim *Sim }

func (i *simInput) Start(_ pipeline.AnyConfig, params *pipeline.InputPluginParams) {
	i.sim.ctl = params.Controller
}
func (i *simInput) Stop() {}
func (i *simInput) PassEvent(e *pipeline.Event) bool {
	return e.Root.Dig("pf") == nil
}

func (i *simInput) Commit(e *pipeline.Event) {
	s := i.sim
	s.mu.Lock()
	defer s.mu.Unlock()
	if e.IsChildKind() || e.IsTimeoutKind() {
		s.note("commit-nonregular", 0, "")
		s.failf("C02", "nonregular-event-committed", "a child / time-out event reached InputPlugin.Commit")
		return
	}
	idNode := e.Root.Dig("id")
	if idNode == nil {
		s.failf("C02", "unknown-event-committed", "an event without id reached InputPlugin.Commit: %s", e.Root.EncodeToString())
		return
	}
	id := idNode.AsInt()
	st := s.ev[id]
	if st == nil || st.kid != nil {
		s.failf("C02", "unknown-event-committed", "event id %d (not an input record) reached InputPlugin.Commit", id)
		return
	}
	st.committed++
	s.note("commit", id, st.commitBy)
	// once a batch was given up into a dead queue, the dead-queue batcher commits
	// independently of the main batcher (known-finding class, see KNOWN_FINDINGS.txt)
	viaDQ := s.plan.DeadQueue != nil && s.res.GiveUps > 0
	suffix := ""
	if viaDQ {
		suffix = ":dead-queue"
	}
	if st.committed > 1 {
		s.failf("C02", "commit-twice"+suffix, "event %d committed %d times", id, st.committed)
	}
	if st.committed == 1 {
		s.inFlight--
		s.res.Committed++
	}
	if e.Offset != st.offset || uint64(e.SourceID) != st.source {
		s.failf("C02", "commit-wrong-offset", "event %d committed with source %d offset %d, was read from source %d at offset %d", id, e.SourceID, e.Offset, st.source, st.offset)
	}
	if st.rec.Refuse != "" {
		s.failf("C02", "refused-event-committed", "record %d (refused: %s) was committed", id, st.rec.Refuse)
	}
	if st.dropped > 0 {
		s.failf("C02", "dropped-and-committed", "event %d was dropped (%s) and also committed", id, st.dropHow)
	}
	// C01 (a): the committed event itself is acknowledged
	if !s.resolvedForCommit(st) {
		s.failf("C01", "commit-before-ack"+suffix, "event %d (source %d stream %q offset %d) committed but no output acknowledged it", id, st.source, st.stream, st.offset)
	}
	// C01 (b): nothing read earlier from the same source and stream is unfinished
	k := key(st.source, st.stream)
	for _, eid := range s.order[k] {
		if eid == id {
			break
		}
		es := s.ev[eid]
		if !s.resolved(es) {
			sfx := suffix
			s.failf("C01", "commit-passes-unfinished"+sfx, "event %d (offset %d) committed while event %d (offset %d) of the same source %d and stream %q is neither acknowledged nor dropped (gave_up_to_dead_queue=%v)", id, st.offset, eid, es.offset, st.source, st.stream, es.gaveUp)
			break
		}
	}
	// C02: per (source, stream) strictly increasing offsets
	if last, ok := s.lastCommitOffset[k]; ok && st.offset <= last {
		sfx := suffix
		s.failf("C02", "commit-order"+sfx, "source %d stream %q: event %d at offset %d committed after offset %d", st.source, st.stream, id, st.offset, last)
	}
	if st.offset > s.lastCommitOffset[k] {
		s.lastCommitOffset[k] = st.offset
		s.lastCommitDQ[k] = viaDQ
	}
	delete(s.ptrOwner, e)
}

func (s *Sim) resolvedForCommit(st *evState) bool {
	if st.split {
		return s.resolved(st)
	}
	return st.acked
}

// ------------------------------------------------------------------ scripted action

type simAction struct {
	sim  *Sim
	idx  int
	held *pipeline.Event
	ctl  pipeline.ActionPluginController
}

func (a *simAction) Start(_ pipeline.AnyConfig, params *pipeline.ActionPluginParams) {
	a.ctl = params.Controller
	a.idx = params.Index
	a.sim.mu.Lock()
	if a.sim.procActions == nil {
		a.sim.procActions = map[pipeline.ActionPluginController][]*simAction{}
	}
	a.sim.procActions[a.ctl] = append(a.sim.procActions[a.ctl], a)
	a.sim.mu.Unlock()
}

// laterHolder reports whether an action behind this one (same processor) holds an event.
// Only called from the processor goroutine that owns these actions.
func (a *simAction) laterHolder() bool {
	a.sim.mu.Lock()
	peers := a.sim.procActions[a.ctl]
	a.sim.mu.Unlock()
	for _, o := range peers {
		if o.idx > a.idx && o.held != nil {
			return true
		}
	}
	return false
}
func (a *simAction) Stop() {}

func (a *simAction) flush() {
	if a.held != nil {
		h := a.held
		a.held = nil
		a.sim.mu.Lock()
		a.sim.res.HeldFlushed++
		a.sim.mu.Unlock()
		a.ctl.Propagate(h)
	}
}

func (a *simAction) Do(e *pipeline.Event) pipeline.ActionResult {
	s := a.sim
	if e.IsTimeoutKind() {
		s.mu.Lock()
		s.res.Timeouts++
		if a.held == nil {
			s.res.TimeoutToNonHolder++
		}
		s.note("timeout", 0, fmt.Sprintf("action=%d holding=%v", a.idx, a.held != nil))
		s.mu.Unlock()
		a.flush()
		return pipeline.ActionDiscard
	}
	idNode := e.Root.Dig("id")
	if idNode == nil {
		return pipeline.ActionPass
	}
	id := idNode.AsInt()
	st := s.ev[id]
	if st == nil {
		return pipeline.ActionPass
	}
	var ops []string
	stall := 0
	if st.kid != nil {
		ops = st.kid.Ops
	} else {
		ops = st.rec.Ops
		if a.idx < len(st.rec.Stall) {
			stall = st.rec.Stall[a.idx]
		}
	}
	op := "pass"
	if a.idx < len(ops) {
		op = ops[a.idx]
	}
	s.mu.Lock()
	if st.kid == nil {
		if owner, ok := s.ptrOwner[e]; ok && owner != id && !s.resolved(s.ev[owner]) && s.ev[owner].committed == 0 {
			s.failf("C05", "event-object-shared", "event object %p is processed as record %d while record %d still owns it", e, id, owner)
		}
		s.ptrOwner[e] = id
	}
	s.note("do", id, fmt.Sprintf("a%d:%s", a.idx, op))
	s.mu.Unlock()
	switch {
	case stall > 0:
		for i := 0; i < stall; i++ {
			runtime.Gosched()
		}
	case stall < 0:
		if s.plan.Virtual {
			time.Sleep(time.Millisecond)
		} else {
			time.Sleep(200 * time.Microsecond)
		}
	}
	switch op {
	case "discard":
		a.flush()
		s.drop(id, "discard")
		return pipeline.ActionDiscard
	case "break":
		a.flush()
		if a.laterHolder() {
			s.mu.Lock()
			s.res.BreakBypass++
			s.mu.Unlock()
		}
		return pipeline.ActionBreak
	case "split":
		a.flush()
		if st.kid != nil || len(st.rec.Kids) == 0 {
			return pipeline.ActionPass
		}
		kids := e.Root.Dig("kids")
		if kids == nil || !kids.IsArray() {
			return pipeline.ActionPass
		}
		s.mu.Lock()
		if st.split {
			s.mu.Unlock()
			return pipeline.ActionPass // one split per record
		}
		st.split = true
		s.res.Splits++
		s.note("split", id, "")
		s.mu.Unlock()
		a.ctl.Spawn(e, kids.AsArray())
		return pipeline.ActionBreak
	case "start":
		// (a child of a split may be held as well: Spawn ends with a time-out event to every busy action)
		a.flush()
		a.held = e
		s.mu.Lock()
		st.held = true
		s.note("hold", id, "")
		s.mu.Unlock()
		return pipeline.ActionHold
	case "cont":
		if a.held != nil {
			s.drop(id, "collapse")
			return pipeline.ActionCollapse
		}
		a.flush()
		return pipeline.ActionPass
	default:
		a.flush()
		return pipeline.ActionPass
	}
}

func (s *Sim) drop(id int, how string) {
	s.mu.Lock()
	defer s.mu.Unlock()
	st := s.ev[id]
	st.dropped++
	st.dropHow = how
	s.note("drop", id, how)
	if st.kid != nil {
		return
	}
	if st.dropped == 1 {
		s.inFlight--
		s.res.Dropped++
	} else {
		s.failf("C02", "dropped-twice", "event %d dropped twice", id)
	}
	// class: drop while an earlier event of the same stream is still unresolved
	for _, eid := range s.order[key(st.source, st.stream)] {
		if eid == id {
			break
		}
		if !s.resolved(s.ev[eid]) {
			s.res.DropBehind++
			break
		}
	}
}

// ------------------------------------------------------------------ scripted output

type sendState struct {
	k       int
	attempt int
	done    bool
	ids     []int
}

type simOutput struct {
	sim     *Sim
	plan    *OutputPlan
	role    string
	ctl     pipeline.OutputPluginController
	router  *pipeline.Router
	batcher *pipeline.RetriableBatcher
	cancel  context.CancelFunc

	mu       sync.Mutex
	cur      map[*pipeline.Batch]*sendState
	byEvent  map[*pipeline.Event]*sendState
	returned map[int]chan struct{}
	nextK    int
	retOrder []int
}

type commitCtl struct {
	out   *simOutput
	inner pipeline.OutputPluginController
}

func (c *commitCtl) Commit(e *pipeline.Event) {
	s := c.out.sim
	if n := e.Root.Dig("id"); n != nil {
		s.mu.Lock()
		if st := s.ev[n.AsInt()]; st != nil {
			if st.commitBy != "" && st.commitBy != c.out.role {
				s.failf("C09", "committed-by-both-outputs", "event %d committed by %s and by %s", n.AsInt(), st.commitBy, c.out.role)
			}
			st.commitBy = c.out.role
			if c.out.role == "main" && st.gaveUp && s.plan.DeadQueue != nil {
				s.failf("C09", "main-committed-dead-queue-event", "event %d was handed to the dead queue but the main output committed it", n.AsInt())
			}
		}
		s.mu.Unlock()
	}
	c.inner.Commit(e)
}
func (c *commitCtl) Error(err string) { c.inner.Error(err) }

func (o *simOutput) Start(_ pipeline.AnyConfig, params *pipeline.OutputPluginParams) {
	o.ctl = &commitCtl{out: o, inner: params.Controller}
	o.router = params.Router
	o.cur = map[*pipeline.Batch]*sendState{}
	o.byEvent = map[*pipeline.Event]*sendState{}
	o.returned = map[int]chan struct{}{}
	if o.plan.Sync {
		return
	}
	opts := &pipeline.BatcherOptions{
		PipelineName:   params.PipelineName,
		OutputType:     "sim_" + o.role,
		Controller:     o.ctl,
		Workers:        o.plan.Workers,
		BatchSizeCount: o.plan.BatchCount,
		BatchSizeBytes: o.plan.BatchBytes,
		FlushTimeout:   time.Duration(o.plan.FlushMs) * time.Millisecond,
		MetricCtl:      params.MetricCtl,
	}
	backoff := pipeline.BackoffOpts{
		MinRetention:         time.Duration(o.plan.RetentionUs) * time.Microsecond,
		Multiplier:           1.5,
		AttemptNum:           o.plan.Retries,
		IsDeadQueueAvailable: o.role == "main" && o.router.IsDeadQueueAvailable(),
	}
	o.batcher = pipeline.NewRetriableBatcher(opts, o.send, backoff, o.onError)
	ctx, cancel := context.WithCancel(context.Background())
	o.cancel = cancel
	o.batcher.Start(ctx)
}

func (o *simOutput) Stop() {
	if o.batcher != nil {
		o.batcher.Stop()
		o.cancel()
	}
}

func (o *simOutput) Out(e *pipeline.Event) {
	if o.plan.Sync {
		s := o.sim
		if n := e.Root.Dig("id"); n != nil {
			s.mu.Lock()
			if st := s.ev[n.AsInt()]; st != nil {
				st.acked = true
				st.ackBy = o.role
				s.note("ack-sync", n.AsInt(), o.role)
			}
			s.mu.Unlock()
		}
		o.ctl.Commit(e)
		return
	}
	if o.role == "dq" {
		s := o.sim
		if n := e.Root.Dig("id"); n != nil {
			s.mu.Lock()
			if st := s.ev[n.AsInt()]; st != nil {
				st.dqHanded++
				s.note("dq-in", n.AsInt(), "")
				if st.dqHanded > 1 {
					s.failf("C09", "dead-queue-handed-twice", "event %d handed to the dead queue %d times", n.AsInt(), st.dqHanded)
				}
			}
			s.mu.Unlock()
		}
	}
	o.batcher.Add(e)
}

var errScripted = errors.New("scripted send failure")

func (o *simOutput) send(_ *pipeline.WorkerData, batch *pipeline.Batch) error {
	s := o.sim
	var ids []int
	var first *pipeline.Event
	batch.ForEach(func(e *pipeline.Event) {
		if first == nil {
			first = e
		}
		if n := e.Root.Dig("id"); n != nil {
			ids = append(ids, n.AsInt())
		}
	})
	o.mu.Lock()
	st := o.cur[batch]
	if st == nil || st.done {
		st = &sendState{k: o.nextK, ids: ids}
		o.nextK++
		o.cur[batch] = st
		if first != nil {
			o.byEvent[first] = st
		}
		if o.returned[st.k] == nil {
			o.returned[st.k] = make(chan struct{})
		}
	}
	st.attempt++
	script := SendScript{WaitFor: -1}
	if st.k < len(o.plan.Sends) {
		script = o.plan.Sends[st.k]
	}
	var waitCh chan struct{}
	if script.WaitFor >= 0 && script.WaitFor != st.k {
		waitCh = o.returned[script.WaitFor]
		if waitCh == nil {
			waitCh = make(chan struct{})
			o.returned[script.WaitFor] = waitCh
		}
	}
	attempt := st.attempt
	o.mu.Unlock()

	s.mu.Lock()
	s.note("send", 0, fmt.Sprintf("%s#%d try%d %v", o.role, st.k, attempt, ids))
	for _, id := range ids {
		if es := s.ev[id]; es != nil {
			if es.sentTo == nil {
				es.sentTo = map[string]int{}
			}
			es.sentTo[o.role]++
			if o.role == "main" && es.gaveUp {
				s.failf("C09", "sent-after-give-up", "event %d was sent by the main output again after it was given up", id)
			}
		}
	}
	if attempt > 1 {
		s.res.RetriesSeen++
	}
	s.mu.Unlock()

	if script.Fails < 0 || attempt <= script.Fails {
		return errScripted
	}
	if waitCh != nil {
		select {
		case <-waitCh:
		case <-time.After(100 * time.Millisecond):
			s.mu.Lock()
			s.res.ConstraintsDropped++
			s.mu.Unlock()
		}
	}
	// acknowledged: recorded before the send function returns
	s.mu.Lock()
	for _, id := range ids {
		if es := s.ev[id]; es != nil {
			es.acked = true
			es.ackBy = o.role
			if o.role == "dq" {
				s.res.DQDelivered++
			}
		}
	}
	s.note("ack", 0, fmt.Sprintf("%s#%d %v", o.role, st.k, ids))
	s.mu.Unlock()
	o.mu.Lock()
	st.done = true
	for _, prev := range o.retOrder {
		if prev > st.k {
			s.mu.Lock()
			s.res.Inversions++
			s.mu.Unlock()
			break
		}
	}
	o.retOrder = append(o.retOrder, st.k)
	if first != nil {
		delete(o.byEvent, first)
	}
	close(o.returned[st.k])
	o.mu.Unlock()
	return nil
}

func (o *simOutput) onError(err error, events []*pipeline.Event) {
	s := o.sim
	o.mu.Lock()
	var st *sendState
	for _, e := range events {
		if x := o.byEvent[e]; x != nil {
			st = x
			delete(o.byEvent, e)
			break
		}
	}
	if st != nil && !st.done {
		st.done = true
		close(o.returned[st.k])
	}
	o.mu.Unlock()
	dq := o.role == "main" && o.router.IsDeadQueueAvailable()
	s.mu.Lock()
	s.res.GiveUps++
	k := -1
	if st != nil {
		k = st.k
		want := o.plan.Retries + 1
		if o.plan.Retries >= 0 && st.attempt < want {
			s.failf("C09", "gave-up-too-early", "%s send #%d given up after %d attempts, configured retries %d require at least %d", o.role, st.k, st.attempt, o.plan.Retries, want)
		}
	}
	s.note("giveup", 0, fmt.Sprintf("%s#%d dq=%v n=%d", o.role, k, dq, len(events)))
	for _, e := range events {
		if n := e.Root.Dig("id"); n != nil {
			if es := s.ev[n.AsInt()]; es != nil {
				if es.gaveUp {
					s.failf("C09", "error-callback-twice", "event %d reported through the error callback twice", n.AsInt())
				}
				es.gaveUp = true
				if !dq {
					// no dead queue: the failure is reported and the main output commits the events (C09);
					// for C01 this is a deliberate, reported drop
					es.acked = true
					es.ackBy = "giveup"
				}
			}
		}
	}
	s.mu.Unlock()
	for i := range events {
		o.router.Fail(events[i])
	}
}

// ------------------------------------------------------------------ run

// Run executes the plan (in real time, or inside the caller's synctest bubble
// when plan.Virtual) and returns the result.
func Run(plan *Plan) *Result {
	fdkit.InstallLogger()
	s := &Sim{
		plan: plan, ev: map[int]*evState{}, order: map[string][]int{},
		lastCommitOffset: map[string]int64{}, lastCommitDQ: map[string]bool{},
		failed: map[string]bool{}, ptrOwner: map[*pipeline.Event]int{},
	}
	for si := range plan.Sources {
		src := &plan.Sources[si]
		off := int64(0)
		for ri := range src.Records {
			r := &src.Records[ri]
			off += int64(len(r.Render(true)))
			s.ev[r.ID] = &evState{rec: r, source: src.ID, stream: r.Stream, offset: off}
			if r.Refuse == "" || r.Refuse == "passfalse" {
				k := key(src.ID, r.Stream)
				s.order[k] = append(s.order[k], r.ID)
			}
			for ki := range r.Kids {
				kd := &r.Kids[ki]
				s.ev[kd.ID] = &evState{kid: kd, parent: r.ID, source: src.ID, stream: r.Stream}
			}
		}
	}
	holders := map[int]bool{}
	for _, src := range plan.Sources {
		for _, r := range src.Records {
			for a, op := range r.Ops {
				if op == "start" {
					holders[a] = true
				}
			}
		}
	}
	s.multiHold = len(holders) >= 2
	settings := fdkit.DefaultSettings()
	settings.Capacity = plan.Capacity
	settings.EventTimeout = time.Duration(plan.EventTimeoutMs) * time.Millisecond
	if plan.Pool == "low_memory" {
		settings.Pool = pipeline.PoolTypeLowMem
	} else {
		settings.Pool = pipeline.PoolTypeStd
	}
	settings.MaintenanceInterval = time.Hour
	settings.Antispam.MaintenanceInterval = time.Hour
	if plan.AntispamThreshold > 0 {
		settings.Antispam.Threshold = plan.AntispamThreshold
	}
	for _, src := range plan.Sources {
		for _, r := range src.Records {
			if r.Refuse == "oversize" {
				settings.MaxEventSize = OversizeLimit // records above it are refused (no cut-off)
			}
		}
	}
	name := fdkit.UniqueName("sim")
	p := fdkit.NewPipeline(name, settings)
	s.p = p
	if plan.SingleProc {
		p.DisableParallelism()
	}
	in := &simInput{sim: s}
	p.SetInput(&pipeline.InputPluginInfo{
		PluginStaticInfo:  &pipeline.PluginStaticInfo{Type: "sim_input"},
		PluginRuntimeInfo: &pipeline.PluginRuntimeInfo{Plugin: in, ID: "sim_input"},
	})
	for a := 0; a < plan.Actions; a++ {
		p.AddAction(&pipeline.ActionPluginStaticInfo{
			PluginStaticInfo: &pipeline.PluginStaticInfo{
				Type:    "sim_action",
				Factory: func() (pipeline.AnyPlugin, pipeline.AnyConfig) { return &simAction{sim: s}, nil },
			},
			// every scripted action is conditioned on its own field (records without it skip the action
			// unless the action is busy); children of a split carry no such field
			MatchConditions: pipeline.MatchConditions{{Field: []string{fmt.Sprintf("m%d", a)}, Values: []string{"1"}}},
			MatchMode:       pipeline.MatchModeAnd,
			// the optional per-action event counter with labels taken from event fields: every processor
			// resolves (and sometimes creates) label series concurrently
			MetricName:   fmt.Sprintf("sim_action_%d", a),
			MetricLabels: []string{"stream", "m0"},
		})
	}
	s.outMain = &simOutput{sim: s, plan: &plan.Output, role: "main"}
	p.SetOutput(&pipeline.OutputPluginInfo{
		PluginStaticInfo:  &pipeline.PluginStaticInfo{Type: "sim_output"},
		PluginRuntimeInfo: &pipeline.PluginRuntimeInfo{Plugin: s.outMain, ID: "sim_output"},
	})
	if plan.DeadQueue != nil {
		s.outDQ = &simOutput{sim: s, plan: plan.DeadQueue, role: "dq"}
		p.SetDeadQueueOutput(&pipeline.OutputPluginInfo{
			PluginStaticInfo:  &pipeline.PluginStaticInfo{Type: "sim_dq"},
			PluginRuntimeInfo: &pipeline.PluginRuntimeInfo{Plugin: s.outDQ, ID: "sim_dq"},
		})
	}
	hasAtHB := false
	for _, src := range plan.Sources {
		for _, r := range src.Records {
			hasAtHB = hasAtHB || r.AtHeartbeat
		}
	}
	if plan.HeartbeatStallUs > 0 || hasAtHB || plan.AttachStallUs > 0 || plan.PoolWaitStallUs > 0 {
		s.gateOn = plan.HeartbeatStallUs > 0 || hasAtHB
		pipeline.VerifSetGate(func(point string) {
			switch point {
			case "streamer.heartbeat.beforeUnblock":
				if s.gateOn {
					s.heartbeatGate()
				}
			case "streamer.join.beforeAttach":
				if plan.AttachStallUs > 0 {
					s.inAttachStall.Add(1)
					time.Sleep(time.Duration(plan.AttachStallUs) * time.Microsecond)
					s.inAttachStall.Add(-1)
				}
			case "pool.std.beforeWait", "pool.lowmem.beforeWait":
				if plan.PoolWaitStallUs > 0 && !plan.Virtual {
					time.Sleep(time.Duration(plan.PoolWaitStallUs) * time.Microsecond)
				}
			}
		})
		defer pipeline.VerifSetGate(nil)
	}
	if !plan.Virtual {
		// real time: shorten the pools' waiter heartbeat (default 5 s) so that a rescued lost wake-up
		// costs 100 ms instead of 5 s of wall time; the bounded-resume clause itself is checked with the
		// default period in virtual time and by the gated pool unit
		p.VerifSetPoolWakeupInterval(100 * time.Millisecond)
	}
	s.start = time.Now()
	fdkit.TakeLoggedPanics()
	panicCh := make(chan struct{}, 1)
	fdkit.SetPanicNotify(panicCh)
	defer fdkit.SetPanicNotify(nil)
	// real time: a logger.Panic in a file.d goroutine is recorded and only that goroutine ends;
	// virtual time: it crashes the process (the driver reports the crash with the in-flight case),
	// because a goroutine that dies holding a mutex would wedge the bubble for good.
	fdkit.SetPanicCapture(!plan.Virtual)
	defer fdkit.SetPanicCapture(false)
	p.Start()

	var wg sync.WaitGroup
	var feedersDone atomic.Int32
	for si := range plan.Sources {
		src := &plan.Sources[si]
		wg.Add(1)
		go func() {
			defer wg.Done()
			defer feedersDone.Add(1)
			s.feed(src)
		}()
	}
	// wait for quiescence
	deadline := 20 * time.Second
	if plan.Virtual {
		deadline = 120 * time.Second // virtual seconds; far above every bounded-time clause
		// a send that fails for ever under unlimited retries is ended by the backoff library after ~15 min
		for _, sc := range plan.Output.Sends {
			if sc.Fails < 0 && plan.Output.Retries < 0 {
				deadline += 16 * time.Minute
			}
		}
	}
	step := 300 * time.Microsecond
	if plan.Virtual {
		step = 5 * time.Millisecond
	}
	// progress-based: the run fails only when nothing moved (no record offered / accepted / finalized)
	// for the whole deadline; a plain wall-clock bound would turn repeated, individually bounded
	// waits (e.g. a 5 s pool wake-up per record with capacity 1) or machine load into false alarms
	lastProgress := time.Now()
	lastMark := -1
	hardStop := 10 * deadline
	for {
		if int(feedersDone.Load()) == len(plan.Sources) && s.idle() {
			s.res.Quiesced = true
			break
		}
		s.mu.Lock()
		mark := int(s.seq)
		s.mu.Unlock()
		if mark != lastMark {
			lastMark, lastProgress = mark, time.Now()
		}
		if time.Since(lastProgress) > deadline || time.Since(s.start) > hardStop {
			break
		}
		if plan.Virtual && !s.unattendedSeen {
			s.checkUnattended()
		}
		if msgs := fdkit.TakeLoggedPanics(); len(msgs) > 0 {
			s.mu.Lock()
			s.note("file.d-panic", 0, msgs[0])
			s.res.LoggedPanic = msgs[0]
			s.mu.Unlock()
			break
		}
		// (a captured panic wakes us without the clock: in a bubble the clock cannot advance
		// while some goroutine waits for a mutex the dead goroutine still holds)
		tm := time.NewTimer(step)
		select {
		case <-panicCh:
		case <-tm.C:
		}
		tm.Stop()
	}
	s.res.Elapsed = time.Since(s.start)
	s.mu.Lock()
	if s.res.LoggedPanic != "" {
		s.res.StreamerDump = p.VerifStreamerDump()
		s.failf("C04", "filed-panic:"+panicKind(s.res.LoggedPanic), "file.d goroutine panicked (would take the process down): %s", s.res.LoggedPanic)
	} else if !s.res.Quiesced {
		s.res.StreamerDump = p.VerifStreamerDump()
		var pending []int
		for id, st := range s.ev {
			if st.kid == nil && st.accepted && st.committed == 0 && st.dropped == 0 {
				pending = append(pending, id)
			}
		}
		sort.Ints(pending)
		feeders := int(feedersDone.Load())
		s.failf("C04", "not-finalized", "pipeline made no progress for %v: %d of %d feeders finished, accepted events never finalized: %v (in use %d, waiters %d)", deadline, feeders, len(plan.Sources), pending, p.VerifPoolInUse(), p.VerifPoolWaiters())
		s.failf("C02", "unaccounted-events", "accepted events neither committed nor dropped when the run ended: %v", pending)
		if plan.DeadQueue != nil && s.res.GiveUps > 0 {
			// dead-queue routing of one batch must leave the other main batches alone: an event whose
			// send succeeded on the main output is committed by the main output
			var lost []int
			for id, st := range s.ev {
				if st.kid == nil && st.acked && st.ackBy == "main" && !st.gaveUp && st.committed == 0 {
					lost = append(lost, id)
				}
			}
			sort.Ints(lost)
			if len(lost) > 0 {
				s.failf("C09", "main-batch-never-committed-after-a-give-up", "events %v were sent successfully by the main output and never committed; %d batch(es) were given up to the dead queue in this run", lost, s.res.GiveUps)
			}
		}
		if feeders == len(plan.Sources) && p.VerifPoolWaiters() == 0 {
			// nothing is being read, nothing moved for the whole deadline (far above the event time-out and
			// every flush interval): the pipeline is idle, yet events are still out of the pool
			s.failf("C05", "events-in-use-when-idle", "all input is read, nothing moved for %v, but %d events are still in use (never finalized: %v)", deadline, p.VerifPoolInUse(), pending)
		}
	} else {
		s.res.PoolInUseAtEnd = p.VerifPoolInUse()
		// everything is accounted for; the in-use count must be back to zero (allow the
		// commit callback -> pool.back gap to close)
		s.mu.Unlock()
		for i := 0; i < 200 && p.VerifPoolInUse() != 0; i++ {
			time.Sleep(step)
		}
		s.mu.Lock()
		s.res.PoolInUseAtEnd = p.VerifPoolInUse()
		if s.res.PoolInUseAtEnd != 0 {
			s.failf("C05", "in-use-not-zero-when-idle", "every accepted event is finalized but the pool reports %d events in use", s.res.PoolInUseAtEnd)
		}
	}
	s.mu.Unlock()
	if (s.res.Quiesced || plan.Virtual) && s.res.LoggedPanic == "" {
		// (a bubble must be torn down even after a failure, otherwise synctest reports the leftovers)
		p.Stop()
		p.VerifWakeProcessors()
	}
	if s.res.Quiesced {
		wg.Wait()
	}
	s.finalChecks()
	s.mu.Lock()
	defer s.mu.Unlock()
	s.res.Failures = s.fails
	s.res.History = s.hist
	return &s.res
}

// checkUnattended (virtual time only): once every goroutine of the bubble is durably blocked, a stream
// that waits for a processor (charged) and a processor that sleeps in joinStream cannot coexist - the
// stream would stay unattended until some other processor happens to finish its own stream (C04: no
// stream with pending events unattended while a processor is asleep).
func (s *Sim) checkUnattended() {
	sleepers := func() (int, int32) {
		charged, procs, active := s.p.VerifStreamerLoad()
		return charged, procs - active - s.inAttachStall.Load()
	}
	if c, sl := sleepers(); c == 0 || sl <= 0 {
		return
	}
	synctest.Wait()
	if c, sl := sleepers(); c > 0 && sl > 0 {
		s.unattendedSeen = true
		s.mu.Lock()
		s.failf("C04", "stream-unattended-while-processor-asleep", "all goroutines are blocked, %d stream(s) with pending events wait for a processor and %d processor(s) sleep in joinStream\n%s", c, sl, s.p.VerifStreamerDump())
		s.mu.Unlock()
	}
}

var reNum = regexp.MustCompile(`[0-9]+`)

func panicKind(msg string) string {
	if i := strings.IndexByte(msg, '\n'); i >= 0 {
		msg = msg[:i]
	}
	m := reNum.ReplaceAllString(msg, "N")
	if i := strings.IndexAny(m, "?,"); i > 0 {
		m = m[:i]
	}
	m = strings.ReplaceAll(strings.TrimSpace(m), " ", "-")
	if len(m) > 50 {
		m = m[:50]
	}
	return m
}

func (s *Sim) idle() bool {
	s.mu.Lock()
	defer s.mu.Unlock()
	for _, st := range s.ev {
		if st.kid != nil {
			continue
		}
		if st.offered && !st.inReturned {
			return false
		}
		if st.accepted && st.committed == 0 && st.dropped == 0 {
			return false
		}
	}
	return true
}

type pendingFeed struct {
	src   *Source
	ri    int
	taken bool
	done  chan struct{}
}

func (s *Sim) feed(src *Source) {
	for ri := range src.Records {
		r := &src.Records[ri]
		if r.GapUs > 0 {
			if r.GapUs <= 1 {
				runtime.Gosched()
			} else {
				time.Sleep(time.Duration(r.GapUs) * time.Microsecond)
			}
		}
		if r.AtHeartbeat && s.gateOn {
			pf := &pendingFeed{src: src, ri: ri, done: make(chan struct{})}
			s.hbMu.Lock()
			s.hbSlot = append(s.hbSlot, pf)
			s.hbMu.Unlock()
			tm := time.NewTimer(260 * time.Millisecond) // one heartbeat period + slack
			select {
			case <-pf.done:
				tm.Stop()
				continue
			case <-tm.C:
			}
			s.hbMu.Lock()
			withdrawn := !pf.taken
			pf.taken = true
			s.hbMu.Unlock()
			if !withdrawn {
				<-pf.done
				continue
			}
		}
		s.feedRecord(src, ri)
	}
}

// heartbeatGate runs in the streamer heartbeat goroutine right before a tryUnblock call.
func (s *Sim) heartbeatGate() {
	s.hbMu.Lock()
	var pf *pendingFeed
	for _, x := range s.hbSlot {
		if !x.taken {
			x.taken = true
			pf = x
			break
		}
	}
	s.hbMu.Unlock()
	if pf != nil {
		s.mu.Lock()
		s.res.FedAtHeartbeat++
		s.mu.Unlock()
		// In may block on a full pool and the heartbeat must not be held up by that (held events are
		// only flushed by its time-outs): feed from a helper goroutine and go on after a short while
		fed := make(chan struct{})
		go func() {
			s.feedRecord(pf.src, pf.ri)
			close(pf.done)
			close(fed)
		}()
		tm := time.NewTimer(2 * time.Millisecond)
		select {
		case <-fed:
		case <-tm.C:
		}
		tm.Stop()
	}
	if s.plan.HeartbeatStallUs > 0 {
		time.Sleep(time.Duration(s.plan.HeartbeatStallUs) * time.Microsecond)
	}
}

func (s *Sim) feedRecord(src *Source, ri int) {
	r := &src.Records[ri]
	{
		st := s.ev[r.ID]
		data := r.Render(true)
		s.mu.Lock()
		st.offered = true
		s.note("in", r.ID, "")
		s.mu.Unlock()
		seq := s.ctl.In(pipeline.SourceID(src.ID), fmt.Sprintf("src%d", src.ID), pipeline.NewOffsets(st.offset, nil), data, ri == 0, nil)
		s.mu.Lock()
		st.inReturned = true
		st.accepted = seq != 0
		s.note("in-ret", r.ID, fmt.Sprint(seq))
		if seq != 0 {
			s.res.Accepted++
			// the event may already be finalized; in-flight is counted from the moment In returned
			if st.committed == 0 && st.dropped == 0 {
				s.inFlight++
			} else {
				// already finalized before In returned: undo the decrement done there
				s.inFlight++
			}
			if s.inFlight > s.res.MaxInFlight {
				s.res.MaxInFlight = s.inFlight
			}
			if s.inFlight > s.plan.Capacity {
				s.failf("C05", "capacity-exceeded", "%d events read but not finalized with capacity %d", s.inFlight, s.plan.Capacity)
			}
			if s.inFlight == s.plan.Capacity {
				s.res.PoolSaturated = true
			}
			if r.Refuse != "" {
				s.failf("C20", "refusable-record-accepted", "record %d (%s) was accepted", r.ID, r.Refuse)
			}
		} else if r.Refuse == "" {
			// the antispammer counts every record of a source after the first one and bans the source at the threshold
			counted := 0
			for i := 1; i < len(src.Records); i++ {
				if s.ev[src.Records[i].ID].offered {
					counted++
				}
			}
			if s.plan.AntispamThreshold > 0 && ri > 0 && counted >= s.plan.AntispamThreshold {
				s.res.SpamRefused++
			} else {
				s.failf("C20", "valid-record-refused", "record %d is valid but Pipeline.In returned 0", r.ID)
			}
		}
		s.mu.Unlock()
	}
}

func (s *Sim) finalChecks() {
	s.mu.Lock()
	defer s.mu.Unlock()
	if !s.res.Quiesced {
		return
	}
	streamsSeen := map[uint64]map[string]bool{}
	for id, st := range s.ev {
		if st.kid != nil {
			if st.committed > 0 {
				s.failf("C02", "nonregular-event-committed", "child %d was committed to the input", id)
			}
			continue
		}
		if st.accepted {
			if streamsSeen[st.source] == nil {
				streamsSeen[st.source] = map[string]bool{}
			}
			streamsSeen[st.source][st.stream] = true
			if st.committed+st.dropped != 1 {
				s.failf("C02", "not-exactly-one-end", "event %d: %d commits and %d drops (want exactly one end)", id, st.committed, st.dropped)
			}
		} else if st.committed > 0 {
			s.failf("C02", "refused-event-committed", "record %d was refused by In but committed", id)
		}
		// C09 routing clauses
		if st.gaveUp && s.plan.DeadQueue != nil {
			if st.dqHanded != 1 {
				s.failf("C09", "dead-queue-handed-count", "event %d of a given-up batch handed to the dead queue %d times (want 1)", id, st.dqHanded)
			}
			if st.committed == 1 && st.commitBy != "dq" {
				s.failf("C09", "dead-queue-event-not-committed-by-dq", "event %d of a given-up batch was committed by %q", id, st.commitBy)
			}
		}
		if st.gaveUp && s.plan.DeadQueue == nil && st.committed == 1 && st.commitBy != "main" {
			s.failf("C09", "given-up-event-not-committed-by-main", "event %d committed by %q", id, st.commitBy)
		}
		if !st.gaveUp && st.dqHanded > 0 {
			s.failf("C09", "dead-queue-got-unfailed-event", "event %d reached the dead queue although its batch was never given up", id)
		}
	}
	for _, m := range streamsSeen {
		if len(m) >= 2 {
			s.res.ConcurrentStreams = true
		}
	}
	s.res.Inversions += 0
}
