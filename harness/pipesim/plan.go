// Package pipesim runs a real pipeline.Pipeline whose input, actions and
// output are scripted by a generated Plan, and records a history with global
// sequence numbers. Oracles are predicates on that history.
package pipesim

import (
	"fmt"
	"strings"

	"pgregory.net/rapid"
)

// Plan is one generated scenario (plain, JSON-serialisable).
type Plan struct {
	Pool           string `json:"pool"` // "std" | "low_memory"
	Capacity       int    `json:"capacity"`
	SingleProc     bool   `json:"single_proc"`
	EventTimeoutMs int    `json:"event_timeout_ms"`
	// AntispamThreshold > 0 switches the antispammer on: from its AntispamThreshold-th record after the
	// first one a source is banned and Pipeline.In refuses its records (the ban outlives the run).
	AntispamThreshold int         `json:"antispam_threshold,omitempty"`
	Actions           int         `json:"actions"` // number of scripted actions in the chain
	Sources           []Source    `json:"sources"`
	Output            OutputPlan  `json:"output"`
	DeadQueue         *OutputPlan `json:"dead_queue,omitempty"`
	Virtual           bool        `json:"virtual"` // run inside a synctest bubble
	// HeartbeatStallUs > 0: the streamer heartbeat pauses that long between taking its snapshot of
	// blocked streams and each tryUnblock (gate streamer.heartbeat.beforeUnblock), which widens the
	// window in which a stream of the snapshot is no longer blocked.
	HeartbeatStallUs int `json:"heartbeat_stall_us,omitempty"`
	// AttachStallUs > 0: a processor pauses that long between popping a charged stream and attaching to
	// it (gate streamer.join.beforeAttach). PoolWaitStallUs > 0: a reader pauses between finding the pool
	// full and waiting on its condition (gates pool.*.beforeWait; real time only, the low-memory pool's
	// window lies inside a mutex).
	AttachStallUs   int `json:"attach_stall_us,omitempty"`
	PoolWaitStallUs int `json:"pool_wait_stall_us,omitempty"`
}

// Source is one input source (like one file): records with increasing offsets.
type Source struct {
	ID      uint64   `json:"id"`
	Records []Record `json:"records"`
}

// Record is one input record.
type Record struct {
	ID     int    `json:"id"`     // globally unique, > 0
	Stream string `json:"stream"` // "" = stream field absent
	// Ops[i] is what scripted action i does with this event:
	// pass | discard | break | split | start | cont
	Ops    []string `json:"ops"`
	Stall  []int    `json:"stall,omitempty"`  // per action: 0 none, n>0 = n Gosched calls, -1 = sleep 200us (real) / 1ms (virtual)
	Refuse string   `json:"refuse,omitempty"` // "", "empty", "undecodable", "passfalse"
	Pad    int      `json:"pad,omitempty"`    // extra payload bytes
	GapUs  int      `json:"gap_us,omitempty"` // feeder pause before this record (microseconds; virtual: exact)
	Kids   []Kid    `json:"kids,omitempty"`   // children spawned by a "split" op
	// NoMatch[i]: the record lacks the field scripted action i is conditioned on (match_fields), so the
	// processor calls action i for it only while that action is busy (waiting for the next sequential event)
	NoMatch []bool `json:"no_match,omitempty"`
	// AtHeartbeat: the record is handed to Pipeline.In from inside the streamer heartbeat's gate, i.e.
	// between the heartbeat's snapshot of blocked streams and its tryUnblock call (falls back to a
	// normal feed when no heartbeat with a blocked stream comes by within a second)
	AtHeartbeat bool `json:"at_heartbeat,omitempty"`
}

// Kid is a child of a split.
type Kid struct {
	ID  int      `json:"id"`
	Ops []string `json:"ops"` // per action: pass | discard | break; behind the split at a join-like action also start | cont
}

// OutputPlan configures the scripted output.
type OutputPlan struct {
	Sync        bool         `json:"sync"` // commit inside Out (like devnull)
	Workers     int          `json:"workers"`
	BatchCount  int          `json:"batch_count"`
	BatchBytes  int          `json:"batch_bytes"`
	FlushMs     int          `json:"flush_ms"`
	Retries     int          `json:"retries"` // AttemptNum (-1 = forever)
	RetentionUs int          `json:"retention_us"`
	Sends       []SendScript `json:"sends,omitempty"` // by send ordinal (order in which batches first reach the send function)
}

// SendScript tells what the send function does with the k-th batch.
type SendScript struct {
	Fails   int `json:"fails"`    // failing attempts before the first success; -1 = fail until given up
	WaitFor int `json:"wait_for"` // >=0: do not return (successfully) before send #WaitFor has returned; -1 none
}

// Render builds the record's bytes as the input hands them to Pipeline.In.
func (r *Record) Render(newline bool) []byte {
	var sb strings.Builder
	switch r.Refuse {
	case "empty":
		if newline {
			return []byte("\n")
		}
		return []byte{}
	case "undecodable":
		fmt.Fprintf(&sb, `{"id":%d,"stream":`, r.ID)
	default:
		fmt.Fprintf(&sb, `{"id":%d`, r.ID)
		if r.Stream != "" {
			fmt.Fprintf(&sb, `,"stream":%q`, r.Stream)
		}
		if r.Refuse == "passfalse" {
			sb.WriteString(`,"pf":true`)
		}
		for a := range r.Ops {
			if a >= len(r.NoMatch) || !r.NoMatch[a] {
				fmt.Fprintf(&sb, `,"m%d":"1"`, a)
			}
		}
		if len(r.Kids) > 0 {
			sb.WriteString(`,"kids":[`)
			for i, k := range r.Kids {
				if i > 0 {
					sb.WriteByte(',')
				}
				fmt.Fprintf(&sb, `{"id":%d,"m0":"1","m1":"1","m2":"1"}`, k.ID)
			}
			sb.WriteByte(']')
		}
		if r.Refuse == "oversize" {
			fmt.Fprintf(&sb, `,"big":"%s"`, strings.Repeat("y", OversizeLimit))
		}
		if r.Pad > 0 {
			fmt.Fprintf(&sb, `,"pad":"%s"`, strings.Repeat("x", r.Pad))
		}
		sb.WriteByte('}')
	}
	if newline {
		sb.WriteByte('\n')
	}
	return []byte(sb.String())
}

// OversizeLimit is the max_event_size of plans that contain an "oversize" record (every other record
// stays far below it).
const OversizeLimit = 2048

// GenOpts restricts the plan generator.
type GenOpts struct {
	Virtual           bool
	AllowSync         bool
	AllowBatched      bool
	AllowFailures     bool
	AllowDQ           bool
	AllowSplit        bool
	AllowHold         bool
	AllowRefuse       bool
	AllowWaitFor      bool
	MaxRecords        int
	MaxSources        int
	MinCapacity       int
	MaxCapacity       int
	TimeoutFlush      bool // allow a held event at the end of a stream (flushed only by a time-out)
	MultiHold         bool // allow two actions of the chain to hold / collapse (known-finding class)
	BreakBeforeHolder bool // allow "break" at an action in front of the holding action
	// RetryStorm (virtual time only): failing sends incl. "retry for ever / fail for ever" (ended by the
	// backoff library's 15 min cap) are allowed; to keep the bubble from wedging on Batcher.mu the pool
	// capacity stays below the number of batches (capacity <= workers-1, workers = 4): then Add never
	// has to wait for a free batch while holding the mutex.
	RetryStorm bool
	// AllowNoMatch: scripted actions carry a match_fields condition and some records do not satisfy it
	AllowNoMatch bool
	// ManyHolders: three sources x three streams, each (source, stream) ends with a record that the join-like
	// action holds until its time-out (300 ms): more streams are occupied at the same time than there
	// are processors at the start, so the processor pool has to grow (growProcs / expandProcs) and every
	// stream must still be attended.
	ManyHolders bool
}

// GenPlan draws a plan.
func GenPlan(t *rapid.T, g GenOpts) Plan {
	p := Plan{Virtual: g.Virtual}
	p.Pool = rapid.SampledFrom([]string{"std", "low_memory"}).Draw(t, "pool")
	if g.MaxCapacity == 0 {
		g.MaxCapacity = 16
	}
	if g.MinCapacity == 0 {
		g.MinCapacity = 1
	}
	if g.RetryStorm {
		g.MaxCapacity = 3
		g.AllowFailures = true
		g.AllowSync = false
		g.AllowBatched = true
	}
	p.Capacity = rapid.IntRange(g.MinCapacity, g.MaxCapacity).Draw(t, "capacity")
	p.SingleProc = rapid.IntRange(0, 3).Draw(t, "single") == 0
	p.EventTimeoutMs = rapid.SampledFrom([]int{20, 50, 300}).Draw(t, "event_timeout")
	if rapid.IntRange(0, 5).Draw(t, "antispam") == 0 {
		p.AntispamThreshold = rapid.SampledFrom([]int{1, 2, 4, 8}).Draw(t, "antispam_threshold")
	}
	p.Actions = rapid.IntRange(1, 3).Draw(t, "actions")
	nsrc := rapid.IntRange(1, max(1, g.MaxSources)).Draw(t, "nsources")
	nextID := 1
	streams := []string{"", "a", "b"}
	nstreams := rapid.IntRange(1, 3).Draw(t, "nstreams")
	if g.ManyHolders {
		nsrc, nstreams = 3, 3
		g.AllowHold, g.TimeoutFlush = true, true
		p.SingleProc = false
		p.EventTimeoutMs = 300
		p.AntispamThreshold = 0
		if p.Capacity < 16 {
			p.Capacity = 16
		}
	}
	maxRec := g.MaxRecords
	if maxRec == 0 {
		maxRec = 24
	}
	// the dead queue is decided first: with a dead queue no split is generated, because children that
	// sit in the dead-queue batcher are released when their parent is committed by the main batcher
	// (consequence of the known finding "dead-queue batcher commits independently", see KNOWN_FINDINGS.txt)
	hasDQ := g.AllowDQ && g.AllowBatched && rapid.IntRange(0, 2).Draw(t, "dq") == 0
	if hasDQ {
		g.AllowSplit = false
		g.AllowSync = false
	}
	holdUsed := false
	// at most one action of the chain requests sequential events (join-like), unless MultiHold
	holder, holder2 := -1, -1
	if g.AllowHold && (rapid.IntRange(0, 3).Draw(t, "hasholder") > 0 || g.ManyHolders) {
		holder = rapid.IntRange(0, p.Actions-1).Draw(t, "holder")
		if g.MultiHold && p.Actions >= 2 {
			holder2 = rapid.IntRange(0, p.Actions-1).Draw(t, "holder2")
		}
	}
	for s := 0; s < nsrc; s++ {
		src := Source{ID: uint64(s + 1)}
		n := rapid.IntRange(1, max(1, maxRec/nsrc)).Draw(t, "nrecords")
		// per stream: is some action currently holding? (to keep start/cont meaningful)
		for i := 0; i < n; i++ {
			r := Record{ID: nextID}
			nextID++
			r.Stream = streams[rapid.IntRange(0, nstreams-1).Draw(t, "stream")]
			if g.AllowRefuse && rapid.IntRange(0, 11).Draw(t, "refuse") == 0 {
				r.Refuse = rapid.SampledFrom([]string{"empty", "undecodable", "passfalse", "oversize"}).Draw(t, "refuse_kind")
			}
			for a := 0; a < p.Actions; a++ {
				op := "pass"
				switch k := rapid.IntRange(0, 19).Draw(t, "op"); {
				case k < 9:
					op = "pass"
				case k < 12:
					op = "discard"
				case k < 13:
					if a >= holder || g.BreakBeforeHolder {
						op = "break"
					}
				case k < 14:
					if g.AllowSplit {
						op = "split"
					}
				case k < 17:
					if a == holder || a == holder2 {
						op = "start"
						holdUsed = true
					}
				default:
					if a == holder || a == holder2 {
						op = "cont"
					}
				}
				r.Ops = append(r.Ops, op)
				r.NoMatch = append(r.NoMatch, g.AllowNoMatch && rapid.IntRange(0, 6).Draw(t, "nomatch") == 0)
				st := 0
				switch rapid.IntRange(0, 9).Draw(t, "stall") {
				case 0:
					st = rapid.IntRange(1, 5).Draw(t, "gosched")
				case 1:
					st = -1
				}
				r.Stall = append(r.Stall, st)
				if op == "split" && len(r.Kids) == 0 {
					nk := rapid.IntRange(1, 3).Draw(t, "nkids")
					for k := 0; k < nk; k++ {
						kid := Kid{ID: nextID}
						nextID++
						for a2 := 0; a2 < p.Actions; a2++ {
							kop := rapid.SampledFrom([]string{"pass", "pass", "pass", "discard", "break"}).Draw(t, "kidop")
							// split -> join: children continue (or start) a run of the join-like action behind the split
							if a2 > a && (a2 == holder || a2 == holder2) {
								kop = rapid.SampledFrom([]string{"cont", "cont", "start", "pass", "discard"}).Draw(t, "kidholdop")
								if kop == "start" {
									holdUsed = true
								}
							}
							kid.Ops = append(kid.Ops, kop)
						}
						r.Kids = append(r.Kids, kid)
					}
				}
			}
			if holder >= 0 && i > 0 && rapid.IntRange(0, 11).Draw(t, "at_hb") == 0 {
				r.AtHeartbeat = true
			}
			r.Pad = rapid.SampledFrom([]int{0, 0, 0, 10, 100}).Draw(t, "pad")
			if rapid.IntRange(0, 5).Draw(t, "hasgap") == 0 {
				r.GapUs = rapid.SampledFrom([]int{1, 50, 300, 1500}).Draw(t, "gap")
			}
			src.Records = append(src.Records, r)
		}
		if g.AllowSplit && holder >= 1 && rapid.IntRange(0, 5).Draw(t, "split_into_run") == 0 {
			// motif "split -> join": a record starts a run at the join-like action, the next record of the
			// stream is split in front of it and all its children continue (or leave alone) that run
			stream := streams[rapid.IntRange(0, nstreams-1).Draw(t, "motif_stream")]
			r1 := Record{ID: nextID, Stream: stream}
			nextID++
			r2 := Record{ID: nextID, Stream: stream}
			nextID++
			at := rapid.IntRange(0, holder-1).Draw(t, "motif_split_at")
			for a := 0; a < p.Actions; a++ {
				op1, op2 := "pass", "pass"
				if a == holder {
					op1 = "start"
				}
				if a == at {
					op2 = "split"
				}
				r1.Ops, r2.Ops = append(r1.Ops, op1), append(r2.Ops, op2)
				r1.Stall, r2.Stall = append(r1.Stall, 0), append(r2.Stall, 0)
				r1.NoMatch, r2.NoMatch = append(r1.NoMatch, false), append(r2.NoMatch, false)
			}
			for k := rapid.IntRange(1, 3).Draw(t, "motif_nkids"); k > 0; k-- {
				kid := Kid{ID: nextID}
				nextID++
				for a := 0; a < p.Actions; a++ {
					kop := "pass"
					if a == holder {
						kop = rapid.SampledFrom([]string{"cont", "cont", "cont", "start", "pass"}).Draw(t, "motif_kidop")
					}
					kid.Ops = append(kid.Ops, kop)
				}
				r2.Kids = append(r2.Kids, kid)
			}
			holdUsed = true
			src.Records = append(src.Records, r1, r2)
		}
		if g.ManyHolders {
			for _, st := range streams[:nstreams] {
				r := Record{ID: nextID, Stream: st}
				nextID++
				for a := 0; a < p.Actions; a++ {
					op := "pass"
					if a == holder {
						op = "start"
					}
					r.Ops, r.Stall, r.NoMatch = append(r.Ops, op), append(r.Stall, 0), append(r.NoMatch, false)
				}
				src.Records = append(src.Records, r)
			}
			holdUsed = true
		}
		p.Sources = append(p.Sources, src)
	}
	if holdUsed && !g.TimeoutFlush {
		// end every (source, stream) with a plain pass so no run is left to a time-out
		for si := range p.Sources {
			seen := map[string]bool{}
			src := &p.Sources[si]
			for _, r := range src.Records {
				seen[r.Stream] = true
			}
			for st := range map[string]bool(seen) {
				_ = st
			}
			// deterministic order
			for _, st := range streams {
				if !seen[st] {
					continue
				}
				r := Record{ID: nextID, Stream: st}
				nextID++
				for a := 0; a < p.Actions; a++ {
					r.Ops = append(r.Ops, "pass")
					r.Stall = append(r.Stall, 0)
				}
				src.Records = append(src.Records, r)
			}
		}
	}
	if rapid.IntRange(0, 2).Draw(t, "hbstall") == 0 {
		p.HeartbeatStallUs = rapid.SampledFrom([]int{200, 1000, 5000}).Draw(t, "hbstall_us")
	}
	if rapid.IntRange(0, 3).Draw(t, "attachstall") == 0 {
		p.AttachStallUs = rapid.SampledFrom([]int{50, 500, 3000}).Draw(t, "attachstall_us")
	}
	if !g.Virtual && rapid.IntRange(0, 3).Draw(t, "poolstall") == 0 {
		p.PoolWaitStallUs = rapid.SampledFrom([]int{50, 500, 3000}).Draw(t, "poolstall_us")
	}
	p.Output = genOutput(t, g, "out")
	if g.RetryStorm {
		p.Output.Workers = 4
		if p.Output.Retries < 0 || rapid.IntRange(0, 2).Draw(t, "storm_forever") == 0 {
			// unlimited retries against a send that fails for ever: only the library's elapsed-time cap ends it
			p.Output.Retries = -1
			if len(p.Output.Sends) == 0 {
				p.Output.Sends = []SendScript{{WaitFor: -1}}
			}
			p.Output.Sends[0].Fails = -1
		}
	}
	if g.Virtual && !p.Output.Sync {
		// synctest: sync.Mutex waits are not durably blocking. The Batcher commits under a mutex and the
		// std pool's back() may sleep there, which would wedge the bubble itself (a harness artefact);
		// std pool + batched output is explored in real time only.
		p.Pool = "low_memory"
	}
	if hasDQ && !p.Output.Sync {
		dq := genOutput(t, GenOpts{AllowBatched: true, Virtual: g.Virtual}, "dq")
		dq.Retries = 0
		dq.Sends = nil
		if g.RetryStorm {
			dq.Workers = 4
		}
		p.DeadQueue = &dq
	}
	return p
}

func genOutput(t *rapid.T, g GenOpts, label string) OutputPlan {
	o := OutputPlan{}
	if g.AllowSync && (!g.AllowBatched || rapid.IntRange(0, 3).Draw(t, label+"/sync") == 0) {
		o.Sync = true
		return o
	}
	o.Workers = rapid.IntRange(1, 4).Draw(t, label+"/workers")
	o.BatchCount = rapid.IntRange(1, 5).Draw(t, label+"/count")
	o.BatchBytes = rapid.SampledFrom([]int{0, 0, 64, 400}).Draw(t, label+"/bytes")
	o.FlushMs = rapid.SampledFrom([]int{1, 5, 20}).Draw(t, label+"/flush")
	o.Retries = 0
	o.RetentionUs = rapid.SampledFrom([]int{50, 200, 1000}).Draw(t, label+"/retention")
	if g.AllowFailures {
		o.Retries = rapid.IntRange(-1, 3).Draw(t, label+"/retries")
	}
	n := rapid.IntRange(0, 10).Draw(t, label+"/nsends")
	for k := 0; k < n; k++ {
		s := SendScript{WaitFor: -1}
		if g.AllowFailures && rapid.IntRange(0, 3).Draw(t, label+"/fail") == 0 {
			s.Fails = rapid.IntRange(1, 5).Draw(t, label+"/fails")
			if rapid.IntRange(0, 3).Draw(t, label+"/forever") == 0 {
				s.Fails = -1
			}
			if o.Retries < 0 && s.Fails < 0 && !g.RetryStorm {
				s.Fails = 2 // retry-forever and fail-forever ends only after 15 min (virtual-time retry-storm class)
			}
		}
		if g.AllowWaitFor && rapid.IntRange(0, 2).Draw(t, label+"/haswait") > 0 {
			w := k + rapid.IntRange(-2, 3).Draw(t, label+"/wait")
			if w == k || w < 0 {
				w = k + 1
			}
			s.WaitFor = w
		}
		o.Sends = append(o.Sends, s)
	}
	return o
}
