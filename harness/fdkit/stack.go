package fdkit

import "runtime/debug"

func debugStack() []byte { return debug.Stack() }
