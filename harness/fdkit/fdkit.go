// Package fdkit holds helpers that depend on file.d's exported API and are
// shared by the black-box checks.
package fdkit

import (
	"fmt"
	"runtime"
	"sync"
	"sync/atomic"

	"github.com/ozontech/file.d/logger"
	"github.com/ozontech/file.d/metric"
	"github.com/ozontech/file.d/pipeline"
	insaneJSON "github.com/ozontech/insane-json"
	"github.com/prometheus/client_golang/prometheus"
	"go.uber.org/zap"
	"go.uber.org/zap/zapcore"
)

var loggerOnce sync.Once

// FatalPanic is the panic value produced when file.d code calls logger.Fatal /
// zap Fatal with the harness logger installed.
type FatalPanic struct{ Msg string }

func (f FatalPanic) Error() string { return "FATAL: " + f.Msg }

type fatalHook struct{}

func (fatalHook) OnWrite(e *zapcore.CheckedEntry, _ []zapcore.Field) {
	if panicMode.Load() == 1 {
		// capture mode: file.d would exit here; record it and end only the calling goroutine
		panicMu.Lock()
		panicMsgs = append(panicMsgs, "FATAL: "+e.Message+"\n"+string(debugStack()))
		panicMu.Unlock()
		if ch := panicNotify.Load(); ch != nil {
			select {
			case *ch <- struct{}{}:
			default:
			}
		}
		runtime.Goexit()
	}
	panic(FatalPanic{Msg: e.Message})
}

// LoggedPanic is the panic value produced by logger.Panic* with the harness logger.
type LoggedPanic struct{ Msg string }

func (f LoggedPanic) Error() string { return "PANIC-LOG: " + f.Msg }

// panicMode: 0 = logger.Panic panics (recoverable by the caller's goroutine),
// 1 = the message is recorded and only the calling goroutine ends (Goexit),
// so a panic inside a file.d background goroutine does not kill the process.
var panicMode atomic.Int32
var panicMu sync.Mutex
var panicMsgs []string

// panicNotify receives a token whenever a panic is captured (capture mode). It is
// installed per run (a channel used inside a synctest bubble must be created there).
var panicNotify atomic.Pointer[chan struct{}]

// SetPanicNotify installs (nil: removes) the channel that is signalled on a captured panic.
func SetPanicNotify(ch chan struct{}) {
	if ch == nil {
		panicNotify.Store(nil)
		return
	}
	panicNotify.Store(&ch)
}

// SetPanicCapture switches logger.Panic* to "record + end goroutine" mode.
func SetPanicCapture(on bool) {
	if on {
		panicMode.Store(1)
	} else {
		panicMode.Store(0)
	}
}

// TakeLoggedPanics returns and clears the messages recorded in capture mode.
func TakeLoggedPanics() []string {
	panicMu.Lock()
	defer panicMu.Unlock()
	m := panicMsgs
	panicMsgs = nil
	return m
}

type panicHook struct{}

func (panicHook) OnWrite(e *zapcore.CheckedEntry, _ []zapcore.Field) {
	if panicMode.Load() == 1 {
		panicMu.Lock()
		panicMsgs = append(panicMsgs, e.Message+"\n"+string(debugStack()))
		panicMu.Unlock()
		if ch := panicNotify.Load(); ch != nil {
			select {
			case *ch <- struct{}{}:
			default:
			}
		}
		runtime.Goexit()
	}
	panic(LoggedPanic{Msg: e.Message})
}

// ErrorCount counts Error-level log entries (some checks read it).
var ErrorCount atomic.Int64

type countCore struct{ zapcore.LevelEnabler }

func (c countCore) With([]zapcore.Field) zapcore.Core { return c }
func (c countCore) Check(e zapcore.Entry, ce *zapcore.CheckedEntry) *zapcore.CheckedEntry {
	if c.Enabled(e.Level) {
		return ce.AddCore(e, c)
	}
	return ce
}
func (c countCore) Write(e zapcore.Entry, _ []zapcore.Field) error {
	if e.Level == zapcore.ErrorLevel {
		ErrorCount.Add(1)
	}
	return nil
}
func (c countCore) Sync() error { return nil }

// NewLogger returns a silent logger whose Fatal panics with FatalPanic instead
// of exiting the process.
func NewLogger() *zap.Logger {
	return zap.New(countCore{zapcore.ErrorLevel}, zap.WithFatalHook(fatalHook{}), zap.WithPanicHook(panicHook{}))
}

// InstallLogger replaces file.d's global logger by NewLogger (idempotent).
func InstallLogger() {
	loggerOnce.Do(func() {
		logger.Instance = NewLogger().Sugar()
	})
}

var nameSeq atomic.Int64

// UniqueName returns a fresh pipeline / metric name.
func UniqueName(prefix string) string {
	return fmt.Sprintf("%s_%d", prefix, nameSeq.Add(1))
}

// MetricCtl returns a metric controller on a private registry.
func MetricCtl(name string) *metric.Ctl {
	return metric.NewCtl(name, prometheus.NewRegistry(), 0, 0)
}

// DefaultSettings returns pipeline settings suitable for harness pipelines.
func DefaultSettings() *pipeline.Settings {
	return &pipeline.Settings{
		Capacity:            64,
		MaintenanceInterval: pipeline.DefaultMaintenanceInterval,
		EventTimeout:        pipeline.DefaultEventTimeout,
		Antispam: pipeline.AntispamSettings{
			Threshold:           pipeline.DefaultAntispamThreshold,
			MaintenanceInterval: pipeline.DefaultMaintenanceInterval,
		},
		AvgEventSize:  2048,
		MetaCacheSize: 32,
		StreamField:   "stream",
		Decoder:       "json",
		Pool:          pipeline.PoolTypeStd,
		Metric: &pipeline.MetricSettings{
			HoldDuration:        pipeline.DefaultMetricHoldDuration,
			MaxLabelValueLength: pipeline.DefaultMetricMaxLabelValueLength,
		},
	}
}

// NewPipeline creates a pipeline on a private registry with the harness logger.
func NewPipeline(name string, s *pipeline.Settings) *pipeline.Pipeline {
	InstallLogger()
	return pipeline.New(name, s, prometheus.NewRegistry(), NewLogger())
}

// NewRoot decodes text into a fresh insane-json root.
func NewRoot(text string) (*insaneJSON.Root, error) {
	root := insaneJSON.Spawn()
	if err := root.DecodeString(text); err != nil {
		insaneJSON.Release(root)
		return nil, err
	}
	return root, nil
}

// CatchPanic runs fn and returns the recovered panic value and stack (nil if none).
func CatchPanic(fn func()) (rec any, stack string) {
	defer func() {
		if r := recover(); r != nil {
			rec = r
			stack = string(debugStack())
		}
	}()
	fn()
	return nil, ""
}
