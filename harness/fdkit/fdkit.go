// Package fdkit holds helpers that depend on file.d's exported API and are
// shared by the black-box checks.
package fdkit

import (
	"fmt"
	"sync"
	"sync/atomic"

	"github.com/ozontech/file.d/logger"
	"github.com/ozontech/file.d/metric"
	"github.com/ozontech/file.d/pipeline"
	insaneJSON "github.com/ozontech/insane-json"
	"github.com/prometheus/client_golang/prometheus"
	"go.uber.org/zap"
	"go.uber.org/zap/zapcore"
)

var loggerOnce sync.Once

// FatalPanic is the panic value produced when file.d code calls logger.Fatal /
// zap Fatal with the harness logger installed.
type FatalPanic struct{ Msg string }

func (f FatalPanic) Error() string { return "FATAL: " + f.Msg }

type fatalHook struct{}

func (fatalHook) OnWrite(e *zapcore.CheckedEntry, _ []zapcore.Field) {
	panic(FatalPanic{Msg: e.Message})
}

// ErrorCount counts Error-level log entries (some checks read it).
var ErrorCount atomic.Int64

type countCore struct{ zapcore.LevelEnabler }

func (c countCore) With([]zapcore.Field) zapcore.Core { return c }
func (c countCore) Check(e zapcore.Entry, ce *zapcore.CheckedEntry) *zapcore.CheckedEntry {
	if c.Enabled(e.Level) {
		return ce.AddCore(e, c)
	}
	return ce
}
func (c countCore) Write(e zapcore.Entry, _ []zapcore.Field) error {
	if e.Level == zapcore.ErrorLevel {
		ErrorCount.Add(1)
	}
	return nil
}
func (c countCore) Sync() error { return nil }

// NewLogger returns a silent logger whose Fatal panics with FatalPanic instead
// of exiting the process.
func NewLogger() *zap.Logger {
	return zap.New(countCore{zapcore.ErrorLevel}, zap.WithFatalHook(fatalHook{}))
}

// InstallLogger replaces file.d's global logger by NewLogger (idempotent).
func InstallLogger() {
	loggerOnce.Do(func() {
		logger.Instance = NewLogger().Sugar()
	})
}

var nameSeq atomic.Int64

// UniqueName returns a fresh pipeline / metric name.
func UniqueName(prefix string) string {
	return fmt.Sprintf("%s_%d", prefix, nameSeq.Add(1))
}

// MetricCtl returns a metric controller on a private registry.
func MetricCtl(name string) *metric.Ctl {
	return metric.NewCtl(name, prometheus.NewRegistry(), 0, 0)
}

// DefaultSettings returns pipeline settings suitable for harness pipelines.
func DefaultSettings() *pipeline.Settings {
	return &pipeline.Settings{
		Capacity:            64,
		MaintenanceInterval: pipeline.DefaultMaintenanceInterval,
		EventTimeout:        pipeline.DefaultEventTimeout,
		Antispam: pipeline.AntispamSettings{
			Threshold:           pipeline.DefaultAntispamThreshold,
			MaintenanceInterval: pipeline.DefaultMaintenanceInterval,
		},
		AvgEventSize:  2048,
		MetaCacheSize: 32,
		StreamField:   "stream",
		Decoder:       "json",
		Pool:          pipeline.PoolTypeStd,
		Metric: &pipeline.MetricSettings{
			HoldDuration:        pipeline.DefaultMetricHoldDuration,
			MaxLabelValueLength: pipeline.DefaultMetricMaxLabelValueLength,
		},
	}
}

// NewPipeline creates a pipeline on a private registry with the harness logger.
func NewPipeline(name string, s *pipeline.Settings) *pipeline.Pipeline {
	InstallLogger()
	return pipeline.New(name, s, prometheus.NewRegistry(), NewLogger())
}

// NewRoot decodes text into a fresh insane-json root.
func NewRoot(text string) (*insaneJSON.Root, error) {
	root := insaneJSON.Spawn()
	if err := root.DecodeString(text); err != nil {
		insaneJSON.Release(root)
		return nil, err
	}
	return root, nil
}

// CatchPanic runs fn and returns the recovered panic value and stack (nil if none).
func CatchPanic(fn func()) (rec any, stack string) {
	defer func() {
		if r := recover(); r != nil {
			rec = r
			stack = string(debugStack())
		}
	}()
	fn()
	return nil, ""
}
