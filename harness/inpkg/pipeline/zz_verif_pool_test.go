package pipeline

// White-box checks of the event pools for C04 (lost wake-up windows, parked
// with the build-tagged gates) and C05 (capacity / conservation / single
// ownership under concurrent get/back). Touched unexported surface:
// newEventPool, newLowMemoryEventPool, pool.get/back/inUse/waiters, wakeupInterval.

import (
	"fmt"
	"runtime"
	"sync"
	"sync/atomic"
	"testing"
	"time"

	"github.com/ozontech/file.d/zzverif/vkit"
	"pgregory.net/rapid"
)

func TestMain(m *testing.M)   { vkit.Main(m) }
func TestReplay(t *testing.T) { vkit.Replay(t) }

// ---------------------------------------------------------------- C04: gated lost wake-up

// GateCase: fill the pool, start getters that must wait, park some of them in
// the window between "pool is full" and "Wait", return events meanwhile.
type GateCase struct {
	Kind       string `json:"kind"` // std | low_memory
	Capacity   int    `json:"capacity"`
	Getters    int    `json:"getters"`     // goroutines that call get() while the pool is full
	Park       int    `json:"park"`        // how many of them are parked at the gate (<= Getters)
	BacksInGap int    `json:"backs_in_gap"` // events returned while they are parked
	BacksLater int    `json:"backs_later"`  // events returned after they were released (each one broadcasts)
	Size       int    `json:"size"`
}

func genGate(t *rapid.T) GateCase {
	c := GateCase{
		Kind:     rapid.SampledFrom([]string{"std", "low_memory"}).Draw(t, "kind"),
		Capacity: rapid.IntRange(1, 4).Draw(t, "capacity"),
		Getters:  rapid.IntRange(1, 3).Draw(t, "getters"),
		Size:     rapid.SampledFrom([]int{0, 1, 100, 5000}).Draw(t, "size"),
	}
	c.Park = rapid.IntRange(0, c.Getters).Draw(t, "park")
	if c.Kind == "low_memory" && c.Park > 0 {
		// the low-memory pool's window lies inside the condition's lock: a second reader would wait
		// for that mutex, which synctest does not treat as durably blocked (the bubble itself would wedge)
		c.Getters, c.Park = 1, 1
	}
	c.BacksInGap = rapid.IntRange(0, c.Capacity).Draw(t, "backs_in_gap")
	c.BacksLater = rapid.IntRange(0, c.Capacity-c.BacksInGap).Draw(t, "backs_later")
	return c
}

func newPoolOfKind(kind string, capacity int) pool {
	if kind == "std" {
		return newEventPool(capacity, DefaultAvgInputEventSize)
	}
	return newLowMemoryEventPool(capacity)
}

var gateCaseMu sync.Mutex

func runGate(c GateCase) *vkit.Outcome {
	o := vkit.NewOutcome()
	gateCaseMu.Lock()
	defer gateCaseMu.Unlock()
	point := "pool.std.beforeWait"
	if c.Kind != "std" {
		point = "pool.lowmem.beforeWait"
	}
	vkit.Bubble(func() {
		p := newPoolOfKind(c.Kind, c.Capacity)
		defer p.stop()
		var held []*Event
		for i := 0; i < c.Capacity; i++ {
			held = append(held, p.get(c.Size))
		}
		release := make(chan struct{})
		var parked atomic.Int32
		parkedCh := make(chan struct{}, 16)
		VerifSetGate(func(pt string) {
			if pt != point {
				return
			}
			if int(parked.Add(1)) <= c.Park {
				parkedCh <- struct{}{}
				<-release
			}
		})
		defer VerifSetGate(nil)
		start := time.Now()
		got := make(chan *Event, 16)
		for g := 0; g < c.Getters; g++ {
			go func() {
				got <- p.get(c.Size)
			}()
		}
		// wait until the planned number of getters sit in the window (virtual time: they get there at t=0)
		for i := 0; i < c.Park; i++ {
			select {
			case <-parkedCh:
			case <-time.After(10 * time.Second):
				o.Class("gate-not-reached")
				close(release)
				goto drain
			}
		}
		time.Sleep(time.Millisecond)
		for i := 0; i < c.BacksInGap; i++ {
			p.back(held[0])
			held = held[1:]
		}
		close(release)
		time.Sleep(time.Millisecond)
		for i := 0; i < c.BacksLater; i++ {
			p.back(held[0])
			held = held[1:]
		}
	drain:
		freed := c.BacksInGap + c.BacksLater
		expect := min(freed, c.Getters)
		tFree := time.Since(start)
		// bounded resume: heartbeat period (5 s) + slack
		deadline := 5*time.Second + 500*time.Millisecond
		served := 0
		timer := time.NewTimer(deadline)
		for served < expect {
			select {
			case e := <-got:
				held = append(held, e)
				served++
			case <-timer.C:
				o.Failf("C04", "pool-waiter-not-resumed:"+c.Kind, "%s pool capacity %d: %d events were returned at t=%v while %d readers were blocked (%d of them between the full-check and Wait); %v later only %d of %d readers have resumed (in use %d, waiters %d)",
					c.Kind, c.Capacity, freed, tFree, c.Getters, c.Park, deadline, served, expect, p.inUse(), p.waiters())
				goto cleanup
			}
		}
	cleanup:
		timer.Stop()
		if c.Park > 0 && c.BacksInGap > 0 {
			o.Class("back-inside-wait-window")
			o.Nontrivial("C04")
		}
		o.Class("pool=" + c.Kind)
		// tear down: serve every remaining getter so that no goroutine outlives the bubble
		remaining := c.Getters - served
		for remaining > 0 {
			if len(held) > 0 {
				p.back(held[0])
				held = held[1:]
			}
			select {
			case e := <-got:
				remaining--
				held = append(held, e)
			case <-time.After(20 * time.Second):
				// a wedged waiter: wake everybody up brutally to end the bubble
				wakeAll(p)
			}
		}
		p.stop()
		time.Sleep(11 * time.Second) // heartbeat goroutine observes the stop flag
	})
	return o
}

func wakeAll(p pool) {
	switch x := p.(type) {
	case *eventPool:
		x.getCond.Broadcast()
	case *lowMemoryEventPool:
		x.getCond.Broadcast()
	}
}

var propGate = vkit.NewProp([]string{"C04"}, "c04poolgate", genGate, runGate)

func TestVerifC04PoolGate(t *testing.T) { propGate.CrashFile = true; propGate.Check(t) }

// ---------------------------------------------------------------- C05: pool state machine with real goroutines

// PoolCase: workers repeatedly get an event, keep it for a few steps, give it back.
type PoolCase struct {
	Kind     string  `json:"kind"`
	Capacity int     `json:"capacity"`
	Workers  [][]int `json:"workers"` // per worker: sizes of the events it gets one after another
	Hold     int     `json:"hold"`    // how many events a worker keeps before it starts returning them
}

func genPool(t *rapid.T) PoolCase {
	c := PoolCase{
		Kind:     rapid.SampledFrom([]string{"std", "low_memory"}).Draw(t, "kind"),
		Capacity: rapid.IntRange(1, 8).Draw(t, "capacity"),
	}
	// more workers than capacity on purpose: readers must queue up on the full pool while others take the
	// fast path. A worker keeps at most Hold-1 events while it waits for the next one, so
	// workers*(Hold-1) < capacity rules out a deadlock of the harness itself.
	nw := rapid.IntRange(1, 32).Draw(t, "workers")
	c.Hold = 1 + rapid.IntRange(0, (c.Capacity-1)/nw).Draw(t, "hold_extra")
	for w := 0; w < nw; w++ {
		n := rapid.IntRange(1, 120).Draw(t, "n")
		sizes := make([]int, n)
		for i := range sizes {
			sizes[i] = rapid.SampledFrom([]int{0, 1, 2, 3, 63, 64, 65, 1000, 4095, 4096, 4097, 70000}).Draw(t, "size")
		}
		c.Workers = append(c.Workers, sizes)
	}
	return c
}

func runPool(c PoolCase) *vkit.Outcome {
	o := vkit.NewOutcome()
	p := newPoolOfKind(c.Kind, c.Capacity)
	switch x := p.(type) {
	case *eventPool:
		x.wakeupInterval = 50 * time.Millisecond
	case *lowMemoryEventPool:
		x.wakeupInterval = 50 * time.Millisecond
	}
	defer p.stop()
	// lock-free bookkeeping: a harness mutex around get/back would serialise away the very windows
	// (fast path racing a woken waiter) this check is after
	var outstanding, maxOut atomic.Int64
	var owners sync.Map // *Event -> worker
	var saturated atomic.Bool
	var fmu sync.Mutex
	var fails []string
	fail := func(sig, msg string) {
		fmu.Lock()
		if len(fails) < 5 {
			fails = append(fails, sig+"|"+msg)
		}
		fmu.Unlock()
	}
	var wg sync.WaitGroup
	for w, sizes := range c.Workers {
		wg.Add(1)
		go func(w int, sizes []int) {
			defer wg.Done()
			var mine []*Event
			giveBack := func() {
				e := mine[0]
				mine = mine[1:]
				owners.Delete(e)
				outstanding.Add(-1)
				p.back(e)
			}
			for i, sz := range sizes {
				for len(mine) >= c.Hold {
					giveBack()
				}
				e := p.get(sz)
				n := outstanding.Add(1)
				if prev, dup := owners.LoadOrStore(e, w); dup {
					fail("double-hand-out", fmt.Sprintf("event object %p handed to worker %d while worker %v still holds it", e, w, prev))
				}
				for {
					m := maxOut.Load()
					if n <= m || maxOut.CompareAndSwap(m, n) {
						break
					}
				}
				if n > int64(c.Capacity) {
					fail("capacity-exceeded", fmt.Sprintf("%d events handed out at once, capacity %d", n, c.Capacity))
				}
				if n == int64(c.Capacity) {
					saturated.Store(true)
				}
				if e.Size != sz {
					fail("wrong-size", fmt.Sprintf("get(%d) returned an event with Size %d", sz, e.Size))
				}
				mine = append(mine, e)
				if i%3 == 0 {
					runtime.Gosched()
				}
			}
			for len(mine) > 0 {
				giveBack()
			}
		}(w, sizes)
	}
	done := make(chan struct{})
	go func() { wg.Wait(); close(done) }()
	select {
	case <-done:
	case <-time.After(30 * time.Second):
		o.Failf("C04", "pool-workers-wedged:"+c.Kind, "%s pool capacity %d: get/back workers did not finish within 30 s (in use %d, waiters %d)", c.Kind, c.Capacity, p.inUse(), p.waiters())
		return o
	}
	fmu.Lock()
	defer fmu.Unlock()
	for _, f := range fails {
		sig, msg := f, ""
		for i := 0; i < len(f); i++ {
			if f[i] == '|' {
				sig, msg = f[:i], f[i+1:]
				break
			}
		}
		o.Failf("C05", "pool-"+sig+":"+c.Kind, "%s", msg)
	}
	if n := p.inUse(); n != 0 {
		o.Failf("C05", "pool-in-use-not-zero:"+c.Kind, "all events were returned but the pool reports %d in use", n)
	}
	if saturated.Load() && len(c.Workers) >= 2 {
		o.Nontrivial("C05")
		o.Class("pool-saturated-concurrently")
	}
	o.Class("pool=" + c.Kind)
	return o
}

var propPool = vkit.NewProp([]string{"C05", "C04"}, "c05pool", genPool, runPool)

func TestVerifC05Pool(t *testing.T) { propPool.CrashFile = true; propPool.Check(t) }
