package pipeline

// White-box concurrency check of the streamer's list of blocked streams for C04: processors that wait
// behind a multi-line action register their stream (makeBlocked) and take it off again when the next
// event or the time-out arrives (resetBlocked); the heartbeat delivers time-outs only to listed
// streams. However these calls of different processors interleave, every stream that is still blocked
// stays listed at the index it remembers - a blocked stream that fell off the list would never get its
// time-out. Touched unexported surface: newStreamer, newStream, makeBlocked, resetBlocked, blocked.

import (
	"fmt"
	"runtime"
	"sync"
	"testing"
	"time"

	"github.com/ozontech/file.d/zzverif/vkit"
	"pgregory.net/rapid"
)

type BlockedCase struct {
	// Procs[i] = what processor i does, in order: +k registers its k-th stream, -k takes it off again
	Procs [][]int `json:"procs"`
	Yield []int   `json:"yield"`
	Reps  int     `json:"reps"`
}

func genBlocked(t *rapid.T) BlockedCase {
	k := rapid.IntRange(2, 4).Draw(t, "processors")
	c := BlockedCase{Reps: 300}
	for p := 0; p < k; p++ {
		var ops []int
		blocked := false
		n := rapid.IntRange(1, 6).Draw(t, "nops")
		for i := 0; i < n; i++ {
			// a processor serves one stream at a time: block it, later unblock it
			if !blocked {
				ops = append(ops, 1)
			} else {
				ops = append(ops, -1)
			}
			blocked = !blocked
		}
		c.Procs = append(c.Procs, ops)
		c.Yield = append(c.Yield, rapid.IntRange(0, 3).Draw(t, "yield"))
	}
	return c
}

func runBlocked(c BlockedCase) *vkit.Outcome {
	o := vkit.NewOutcome()
	if len(c.Procs) < 1 || len(c.Procs) > 16 || len(c.Yield) < len(c.Procs) || c.Reps < 1 || c.Reps > 5000 {
		o.Class("invalid-case")
		return o
	}
	sr := newStreamer(time.Hour)
	for rep := 0; rep < c.Reps; rep++ {
		sr.blocked = sr.blocked[:0]
		streams := make([]*stream, len(c.Procs))
		for i := range streams {
			streams[i] = newStream(StreamName(fmt.Sprintf("s%d", i)), StreamID(i), sr)
			streams[i].blockIndex = -1
		}
		var start, done sync.WaitGroup
		var mu sync.Mutex
		var panics []string
		start.Add(1)
		for pi, ops := range c.Procs {
			done.Add(1)
			go func(pi int, ops []int) {
				defer done.Done()
				defer func() {
					if r := recover(); r != nil {
						mu.Lock()
						panics = append(panics, fmt.Sprint(r))
						mu.Unlock()
					}
				}()
				start.Wait()
				for i := 0; i < c.Yield[pi]; i++ {
					runtime.Gosched()
				}
				for _, op := range ops {
					if op > 0 {
						sr.makeBlocked(streams[pi])
					} else {
						sr.resetBlocked(streams[pi])
					}
				}
			}(pi, ops)
		}
		start.Done()
		fin := make(chan struct{})
		go func() { done.Wait(); close(fin) }()
		select {
		case <-fin:
		case <-time.After(20 * time.Second):
			// a goroutine that panicked inside the list's critical section leaves the lock taken
			mu.Lock()
			o.Failf("C04", "blocked-list:calls-never-returned", "processors %v (repetition %d): makeBlocked / resetBlocked did not return within 20 s; panics so far: %v", c.Procs, rep, panics)
			mu.Unlock()
			return o
		}
		if len(panics) > 0 {
			o.Failf("C04", "blocked-list:panic", "processors %v (repetition %d): %v", c.Procs, rep, panics)
			return o
		}
		want := 0
		for pi, ops := range c.Procs {
			st := streams[pi]
			if len(ops)%2 == 1 { // ends registered
				want++
				if st.blockIndex < 0 || st.blockIndex >= len(sr.blocked) || sr.blocked[st.blockIndex] != st {
					o.Failf("C04", "blocked-list:blocked-stream-not-listed", "processors %v (repetition %d): stream %d is still blocked but the list does not hold it at its index %d (list length %d): the heartbeat would never send it a time-out", c.Procs, rep, pi, st.blockIndex, len(sr.blocked))
					return o
				}
			} else if st.blockIndex != -1 {
				o.Failf("C04", "blocked-list:unblocked-stream-keeps-index", "processors %v (repetition %d): stream %d is not blocked but remembers index %d", c.Procs, rep, pi, st.blockIndex)
				return o
			}
		}
		if len(sr.blocked) != want {
			o.Failf("C04", "blocked-list:length", "processors %v (repetition %d): %d streams are blocked, the list holds %d", c.Procs, rep, want, len(sr.blocked))
			return o
		}
	}
	o.Nontrivial("C04")
	o.Class("concurrent-block-unblock")
	return o
}

var propBlocked = vkit.NewProp([]string{"C04"}, "c04blockedlist", genBlocked, runBlocked)

func TestVerifC04BlockedList(t *testing.T) { propBlocked.CrashFile = true; propBlocked.Check(t) }
