package pipeline

// White-box concurrency check of stream.commit for C02 / C04: however the commit calls of one
// stream's events interleave (output workers committing passed events, processors finalizing
// discarded ones), the stream's commit frontier ends at the highest committed sequence id — if it
// moved backwards the stream would stay "detaching" for ever and its later events would never be
// processed. Touched unexported surface: newStreamer, newStream, stream.commit, stream.commitSeq.

import (
	"runtime"
	"sync"
	"testing"
	"time"

	"github.com/ozontech/file.d/zzverif/vkit"
	"pgregory.net/rapid"
)

type CommitCase struct {
	// Workers[i] = sequence ids that goroutine i commits, in that order
	Workers [][]int `json:"workers"`
	Yield   []int   `json:"yield"` // per goroutine: Gosched calls before its first commit
	Reps    int     `json:"reps"`
}

func genCommit(t *rapid.T) CommitCase {
	n := rapid.IntRange(2, 6).Draw(t, "n")
	k := rapid.IntRange(2, 4).Draw(t, "goroutines")
	c := CommitCase{Workers: make([][]int, k), Reps: 300}
	perm := rapid.Permutation(seqInts(n)).Draw(t, "order")
	for _, id := range perm {
		w := rapid.IntRange(0, k-1).Draw(t, "owner")
		c.Workers[w] = append(c.Workers[w], id)
	}
	for i := 0; i < k; i++ {
		c.Yield = append(c.Yield, rapid.IntRange(0, 3).Draw(t, "yield"))
	}
	return c
}

func seqInts(n int) []int {
	r := make([]int, n)
	for i := range r {
		r[i] = i + 1
	}
	return r
}

func runCommit(c CommitCase) *vkit.Outcome {
	o := vkit.NewOutcome()
	maxID := 0
	active := 0
	for _, w := range c.Workers {
		if len(w) > 0 {
			active++
		}
		for _, id := range w {
			if id > maxID {
				maxID = id
			}
		}
	}
	sr := newStreamer(time.Hour)
	for rep := 0; rep < c.Reps; rep++ {
		st := newStream("verif", 1, sr)
		events := map[int]*Event{}
		for _, w := range c.Workers {
			for _, id := range w {
				events[id] = &Event{SeqID: uint64(id), stream: st}
			}
		}
		var start, done sync.WaitGroup
		start.Add(1)
		for wi, w := range c.Workers {
			if len(w) == 0 {
				continue
			}
			done.Add(1)
			go func(wi int, ids []int) {
				defer done.Done()
				start.Wait()
				for i := 0; i < c.Yield[wi]; i++ {
					runtime.Gosched()
				}
				for _, id := range ids {
					st.commit(events[id])
				}
			}(wi, w)
		}
		start.Done()
		done.Wait()
		if got := st.commitSeq.Load(); got != uint64(maxID) {
			o.Failf("C02", "stream-commit-frontier-moved-back", "after concurrent commits of sequence ids %v (one list per goroutine) the stream's commit frontier is %d, highest committed id is %d (repetition %d): the stream can never finish detaching", c.Workers, got, maxID, rep)
			// the same history for C04 / C05: events that arrive for this stream afterwards are taken from
			// the pool and never handed to a processor, so they are never finalized
			o.Failf("C04", "stream-commit-frontier-moved-back", "stream.commit: frontier %d below the highest committed id %d after concurrent commits %v: the stream stays detaching, later events are never processed", got, maxID, c.Workers)
			o.Failf("C05", "stream-commit-frontier-moved-back", "stream.commit: frontier %d below the highest committed id %d after concurrent commits %v: later events of the stream stay out of the pool for ever", got, maxID, c.Workers)
			break
		}
	}
	if active >= 2 {
		o.Nontrivial("")
		o.Class("concurrent-committers")
	}
	return o
}

var propCommit = vkit.NewProp([]string{"C02", "C04", "C05"}, "c02streamcommit", genCommit, runCommit)

func TestVerifC02StreamCommit(t *testing.T) { propCommit.CrashFile = true; propCommit.Check(t) }
