package file

// C03, a name re-pointed between the watcher's stat and the provider's open (white box): the watcher
// stats a path when a notification arrives, refreshFile opens the path later. A rotation in between
// (rename + new file under the old name) makes the two disagree. The job that is created must be the job
// of the file that was opened: a job that carries the old file's identity (source id, inode - the key of
// the committed offsets) while it reads the new file's content records the new file's offsets under the
// old file, which is then never read itself; after a restart the old file is resumed from an offset that
// belongs to other content and its lines before it are lost.
// Touched unexported surface: NewJobProvider, jobProvider.refreshFile / jobs, Job{file, inode, sourceID}.

import (
	"fmt"
	"os"
	"path/filepath"
	"syscall"
	"testing"

	"github.com/ozontech/file.d/zzverif/fdkit"
	"github.com/ozontech/file.d/zzverif/vkit"
	"pgregory.net/rapid"
)

type C03RepointCase struct {
	OldBytes int  `json:"old_bytes"`
	NewBytes int  `json:"new_bytes"`
	Rotated  bool `json:"rotated"` // false: the name still points to the file that was stat'ed (control)
}

func genC03Repoint(t *rapid.T) C03RepointCase {
	return C03RepointCase{
		OldBytes: rapid.SampledFrom([]int{0, 1, 22, 200}).Draw(t, "old"),
		NewBytes: rapid.SampledFrom([]int{0, 5, 22, 300}).Draw(t, "new"),
		Rotated:  rapid.IntRange(0, 3).Draw(t, "rotated") > 0,
	}
}

func runC03Repoint(c C03RepointCase) *vkit.Outcome {
	o := vkit.NewOutcome()
	verifSetup()
	if c.OldBytes < 0 || c.OldBytes > 1<<16 || c.NewBytes < 0 || c.NewBytes > 1<<16 {
		o.Class("invalid-case")
		return o
	}
	dir := verifTempDir("vc03r-")
	defer os.RemoveAll(dir)
	logPath := filepath.Join(dir, "app.log")
	fill := func(n int, ch byte) []byte {
		b := make([]byte, n)
		for i := range b {
			b[i] = ch
			if i%22 == 21 {
				b[i] = '\n'
			}
		}
		return b
	}
	if err := os.WriteFile(logPath, fill(c.OldBytes, 'o'), 0o600); err != nil {
		verifInfra("write: %v", err)
	}
	stat, err := os.Lstat(logPath) // what watcher.notify takes
	if err != nil {
		verifInfra("lstat: %v", err)
	}
	if c.Rotated {
		if err := os.Rename(logPath, logPath+".1"); err != nil {
			verifInfra("rename: %v", err)
		}
		if err := os.WriteFile(logPath, fill(c.NewBytes, 'n'), 0o600); err != nil {
			verifInfra("write: %v", err)
		}
	}
	path := filepath.Join(dir, "offsets.yaml")
	cfg := &Config{MaxFiles: 16, OffsetsFile: path, OffsetsFileTmp: path + ".atomic", Paths: Paths{Include: []string{filepath.Join(dir, "*.log")}}}
	cfg.PersistenceMode_ = persistenceModeAsync
	jp := NewJobProvider(cfg, verifMetrics, verifLog)
	jp.isStarted.Store(true)
	if rec, _ := fdkit.CatchPanic(func() { jp.refreshFile(stat, logPath, "", false) }); rec != nil {
		o.Failf(pC03, "repointed-name:refresh-panicked", "%v", rec)
		return o
	}
	jp.jobsMu.RLock()
	defer jp.jobsMu.RUnlock()
	what := fmt.Sprintf("%s stat'ed at %d bytes (inode %d), rotated before it was opened: %v (new file %d bytes)", filepath.Base(logPath), c.OldBytes, stat.Sys().(*syscall.Stat_t).Ino, c.Rotated, c.NewBytes)
	if len(jp.jobs) != 1 {
		o.Failf(pC03, "repointed-name:no-job", "%s: %d jobs after refreshFile", what, len(jp.jobs))
		return o
	}
	for sid, job := range jp.jobs {
		fst, err := job.file.Stat()
		if err != nil {
			verifInfra("fstat: %v", err)
		}
		ino := fst.Sys().(*syscall.Stat_t).Ino
		if uint64(job.inode) != ino || sid != sourceIDByStat(fst, "") {
			o.Failf(pC03, "repointed-name:job-has-another-files-identity", "%s: the job reads inode %d but is registered as inode %d / source id %d (the id of inode %d is %d): what it commits is saved under the other file", what, ino, job.inode, sid, ino, sourceIDByStat(fst, ""))
		}
		_ = job.file.Close()
	}
	if c.Rotated {
		o.Nontrivial(pC03)
		o.Class("repointed-name:rotated-between-stat-and-open")
	} else {
		o.Class("repointed-name:control")
	}
	return o
}

var propC03Repoint = vkit.NewProp([]string{pC03}, "c03repoint", genC03Repoint, runC03Repoint)

func TestVerifC03Repoint(t *testing.T) {
	defer vkit.WriteStats()
	defer verifTempCleanup()
	verifRequire(t)
	propC03Repoint.Check(t)
}
