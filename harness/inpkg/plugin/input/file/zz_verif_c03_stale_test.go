package file

// C03, a write notification handled late (white box): the watcher takes a file's size when the
// notification arrives and hands it to refreshFile -> checkFileWasTruncated, which compares it with the
// job's read position. In between the file may have grown and a worker may have read the new bytes, so
// the position can lie behind the size that was taken although nothing was ever truncated. A file that
// only grew must not be started over: starting over resets the committed offsets, has the commits of the
// lines read so far ignored and glues the partial line the worker keeps (job.tail) in front of the first
// line, which then fails to decode and is lost. Touched unexported surface: NewJobProvider, Job,
// jobProvider.checkFileWasTruncated.

import (
	"fmt"
	"io"
	"os"
	"path/filepath"
	"sync"
	"testing"

	"github.com/ozontech/file.d/pipeline"
	"github.com/ozontech/file.d/zzverif/vkit"
	"pgregory.net/rapid"
)

const pC03 = "C03"

type C03StaleCase struct {
	Lines     int   `json:"lines"`      // complete lines in the file
	Partial   int   `json:"partial"`    // bytes of an unfinished line behind them (kept by the worker as tail)
	ReadLines int   `json:"read_lines"` // the worker has read that many lines (and the partial bytes if it read all)
	Committed int   `json:"committed"`  // that many of them are committed
	StaleBy   int64 `json:"stale_by"`   // the size handed over lags that many bytes behind the read position (> 0)
}

func genC03Stale(t *rapid.T) C03StaleCase {
	c := C03StaleCase{Lines: rapid.IntRange(1, 6).Draw(t, "lines"), Partial: rapid.SampledFrom([]int{0, 0, 1, 11}).Draw(t, "partial")}
	c.ReadLines = rapid.IntRange(1, c.Lines).Draw(t, "read_lines")
	c.Committed = rapid.IntRange(0, c.ReadLines).Draw(t, "committed")
	c.StaleBy = int64(rapid.IntRange(1, 40).Draw(t, "stale_by"))
	return c
}

func runC03Stale(c C03StaleCase) *vkit.Outcome {
	o := vkit.NewOutcome()
	verifSetup()
	if c.Lines < 1 || c.Lines > 64 || c.Partial < 0 || c.Partial > 20 || c.ReadLines < 1 || c.ReadLines > c.Lines || c.Committed < 0 || c.Committed > c.ReadLines || c.StaleBy < 1 {
		o.Class("invalid-case")
		return o
	}
	dir := verifTempDir("vc03s-")
	defer os.RemoveAll(dir)
	logPath := filepath.Join(dir, "app.log")
	var content []byte
	var ends []int64
	for i := 0; i < c.Lines; i++ {
		content = append(content, fmt.Sprintf(`{"id":%d,"stream":"a"}`+"\n", i+1)...)
		ends = append(ends, int64(len(content)))
	}
	partial := []byte(`{"id":99,"stream":"a"}`)[:c.Partial]
	content = append(content, partial...)
	if err := os.WriteFile(logPath, content, 0o600); err != nil {
		verifInfra("write: %v", err)
	}
	path := filepath.Join(dir, "offsets.yaml")
	cfg := &Config{MaxFiles: 16, OffsetsFile: path, OffsetsFileTmp: path + ".atomic", Paths: Paths{Include: []string{filepath.Join(dir, "*.log")}}}
	cfg.PersistenceMode_ = persistenceModeAsync
	jp := NewJobProvider(cfg, verifMetrics, verifLog)
	f, err := os.Open(logPath)
	if err != nil {
		verifInfra("open: %v", err)
	}
	defer f.Close()
	const sid = 91
	job := &Job{filename: logPath, inode: 7, sourceID: sid, mu: &sync.Mutex{}, file: f}
	pos := ends[c.ReadLines-1]
	if c.ReadLines == c.Lines {
		pos += int64(c.Partial)
		job.tail = append(job.tail, partial...)
	}
	job.seek(pos, io.SeekStart, "verif")
	job.lastEventSeq = uint64(c.ReadLines)
	committed := int64(0)
	if c.Committed > 0 {
		committed = ends[c.Committed-1]
		job.offsets.Set(pipeline.StreamName("a"), committed)
	}
	jp.jobsMu.Lock()
	jp.jobs[sid] = job
	jp.jobsMu.Unlock()

	stale := pos - c.StaleBy
	if stale < 0 {
		stale = 0
	}
	jp.checkFileWasTruncated(job, stale) // what refreshFile does for a write notification

	what := fmt.Sprintf("file of %d bytes (%d lines + %d bytes of an unfinished one), never truncated; the worker has read %d bytes, %d are committed; a write notification taken when the file had %d bytes is handled now", len(content), c.Lines, c.Partial, pos, committed, stale)
	job.mu.Lock()
	defer job.mu.Unlock()
	now := job.seek(0, io.SeekCurrent, "verif")
	got, _ := job.offsets.Get(pipeline.StreamName("a"))
	switch {
	case now != pos:
		o.Failf(pC03, "growing-file-taken-for-truncated", "%s: the job was started over (read position %d -> %d, committed offset %d -> %d, commits of events up to #%d will be ignored, %d bytes of tail kept)", what, pos, now, committed, got, job.ignoreEventsLE, len(job.tail))
	case got != committed:
		o.Failf(pC03, "growing-file-taken-for-truncated", "%s: committed offset %d -> %d", what, committed, got)
	}
	o.Nontrivial(pC03)
	if c.Partial > 0 && c.ReadLines == c.Lines {
		o.Class("stale-size:worker-keeps-a-partial-line")
	}
	o.Class("stale-size")
	return o
}

var propC03Stale = vkit.NewProp([]string{pC03}, "c03stalesize", genC03Stale, runC03Stale)

func TestVerifC03StaleSize(t *testing.T) {
	defer vkit.WriteStats()
	defer verifTempCleanup()
	verifRequire(t)
	propC03Stale.Check(t)
}
