package file

// C07 — the offsets file is always a loadable snapshot, never ahead of commits;
// a new snapshot is durable before it replaces the previous one; a failed write
// never replaces a good file.
//
// (a) round trip of generated job tables through offsetDB.save -> fresh offsetDB.load
//     (and of journalctl/dmesg style states through offset.SaveYAML/LoadYAML);
// (b) concurrent committers (real jobProvider.commit) against savers / readers;
// (c) crash images derived from an strace of the real save running in a child process;
// (d) one injected I/O fault per child: open, write (RLIMIT_FSIZE), fsync, rename.
// The reference model is a plain table; the offsets file is only ever judged through
// a fresh load of the bytes a reader / a restart could find on disk.

import (
	"bytes"
	"context"
	"encoding/json"
	"fmt"
	"math"
	"os"
	"os/exec"
	"os/signal"
	"path/filepath"
	"reflect"
	"regexp"
	"runtime"
	"runtime/debug"
	"sort"
	"strconv"
	"strings"
	"sync"
	"sync/atomic"
	"syscall"
	"testing"
	"time"
	"unsafe"

	"github.com/ozontech/file.d/offset"
	"github.com/ozontech/file.d/pipeline"
	"github.com/ozontech/file.d/zzverif/vkit"
	"pgregory.net/rapid"
)

const pC07 = "C07"

// ---------------------------------------------------------------- model

type C07Stream struct {
	Name string `json:"name"`
	Off  int64  `json:"off"`
}

type C07Job struct {
	File     string      `json:"file"`
	Inode    uint64      `json:"inode"`
	SourceID uint64      `json:"source_id"`
	TS       int64       `json:"ts"`
	Streams  []C07Stream `json:"streams"` // empty = nothing committed yet: the job is legitimately absent from the file
}

type c07Row struct {
	file    string
	streams map[string]int64
}

// c07Model: what a load must return for a table.
func c07Model(tbl []C07Job) map[uint64]c07Row {
	m := map[uint64]c07Row{}
	for _, j := range tbl {
		if len(j.Streams) == 0 {
			continue
		}
		r := c07Row{file: j.File, streams: map[string]int64{}}
		for _, s := range j.Streams {
			r.streams[s.Name] = s.Off
		}
		m[j.SourceID] = r
	}
	return m
}

func c07FromLoaded(l fpOffsets) map[uint64]c07Row {
	m := map[uint64]c07Row{}
	for sid, io := range l {
		r := c07Row{file: io.filename, streams: map[string]int64{}}
		for n, o := range io.streams {
			r.streams[string(n)] = o
		}
		m[uint64(sid)] = r
		if io.sourceID != sid {
			r.file += fmt.Sprintf(" <entry source id %d under key %d>", io.sourceID, sid)
			m[uint64(sid)] = r
		}
	}
	return m
}

// c07DiffTables returns "" when equal, else the first difference (deterministic order).
func c07DiffTables(want, got map[uint64]c07Row) string {
	keys := map[uint64]bool{}
	for k := range want {
		keys[k] = true
	}
	for k := range got {
		keys[k] = true
	}
	var ks []uint64
	for k := range keys {
		ks = append(ks, k)
	}
	sort.Slice(ks, func(i, j int) bool { return ks[i] < ks[j] })
	for _, k := range ks {
		w, okw := want[k]
		g, okg := got[k]
		switch {
		case !okg:
			return fmt.Sprintf("source %d (%q) missing after load", k, w.file)
		case !okw:
			return fmt.Sprintf("source %d (%q, streams %v) loaded but was never saved", k, g.file, g.streams)
		case w.file != g.file:
			return fmt.Sprintf("source %d: file name %q loaded as %q", k, w.file, g.file)
		}
		var names []string
		seen := map[string]bool{}
		for n := range w.streams {
			names = append(names, n)
			seen[n] = true
		}
		for n := range g.streams {
			if !seen[n] {
				names = append(names, n)
			}
		}
		sort.Strings(names)
		for _, n := range names {
			wo, okw := w.streams[n]
			gofs, okg := g.streams[n]
			switch {
			case !okg:
				return fmt.Sprintf("source %d: stream %q (offset %d) missing after load (loaded streams %v)", k, n, wo, g.streams)
			case !okw:
				return fmt.Sprintf("source %d: stream %q=%d loaded but never saved (saved streams %v)", k, n, gofs, w.streams)
			case wo != gofs:
				return fmt.Sprintf("source %d stream %q: saved offset %d loaded as %d", k, n, wo, gofs)
			}
		}
	}
	return ""
}

func c07BuildJobs(tbl []C07Job) map[pipeline.SourceID]*Job {
	jobs := map[pipeline.SourceID]*Job{}
	for _, j := range tbl {
		job := &Job{filename: j.File, inode: inodeID(j.Inode), sourceID: pipeline.SourceID(j.SourceID), mu: &sync.Mutex{}}
		job.eofReadInfo.setUnixNanoTimestamp(j.TS)
		for _, s := range j.Streams {
			job.offsets.Set(pipeline.StreamName(s.Name), s.Off)
		}
		jobs[job.sourceID] = job
	}
	return jobs
}

// c07Load: what a restarting plugin gets from the bytes on disk (fresh offsetDB). A Fatal/Panic of the
// loader is turned into an error by the harness logger.
func c07Load(path string) (tbl fpOffsets, err error) {
	defer func() {
		if r := recover(); r != nil {
			tbl, err = nil, fmt.Errorf("loader panicked/fatal: %v", r)
		}
	}()
	return newOffsetDB(path, path+".atomic").load()
}

// ---------------------------------------------------------------- names

func c07NameClass(s string) string {
	switch {
	case s == "":
		return "empty"
	case strings.Contains(s, "\n"):
		return "newline"
	case strings.Contains(s, ":"):
		return "colon"
	case strings.TrimSpace(s) != s:
		return "blank-edge"
	case strings.HasPrefix(s, "\"") || strings.HasPrefix(s, "-") || strings.HasPrefix(s, "#"):
		return "yaml-lead"
	}
	for i := 0; i < len(s); i++ {
		if s[i] >= 0x80 {
			return "non-ascii"
		}
		if s[i] < 0x20 {
			return "control"
		}
	}
	return "plain"
}

// c07Hostility: the most hostile name class of a set of tables, streams first (signature suffix).
func c07Hostility(tables ...[]C07Job) string {
	rank := []string{"newline", "empty", "control", "yaml-lead", "colon", "blank-edge", "non-ascii"}
	found := map[string]bool{}
	for _, t := range tables {
		for _, j := range t {
			if len(j.Streams) == 0 {
				continue
			}
			found["file-"+c07NameClass(j.File)] = true
			for _, s := range j.Streams {
				found["stream-"+c07NameClass(s.Name)] = true
			}
		}
	}
	for _, pre := range []string{"stream-", "file-"} {
		for _, r := range rank[:2] {
			if found[pre+r] {
				return pre + r
			}
		}
	}
	for _, pre := range []string{"stream-", "file-"} {
		for _, r := range rank[2:] {
			if found[pre+r] {
				return pre + r
			}
		}
	}
	return "plain-names"
}

var c07StreamsSafe = []string{"stdout", "stderr", "not_set", "error:", "a:b", ":", "::x", "a: 5", "поток", "日本語", " lead", "trail ", "  ", "in ner", "x\ty", "-dash", "#hash", "s", "\"q\"", "'sq'", "a\rb", "- file: x", "    stdout"}
var c07StreamsHostile = []string{"", "a\nb", "\n", "x\n    y: 7", "tail\n"}
var c07FilesSafe = []string{"/var/log/app.log", "/var/log/pods/ns_pod_uid/c/0.log", "/data/with space/a b.log", "/data/юникод/журнал.log", "/data/colon:name/x:y.log", "relative.log", "/data/trailing space .log ", "/a/\"quoted\".log", "/a/-dash", "/a/#hash", "/d/tab\tname.log"}
var c07FilesHostile = []string{"/data/new\nline.log", "/data/x\n  inode: 7"}

func c07GenOffset(t *rapid.T) int64 {
	switch rapid.IntRange(0, 5).Draw(t, "offclass") {
	case 0:
		return 0
	case 1:
		return int64(rapid.IntRange(1, 200).Draw(t, "off"))
	case 2:
		return int64(rapid.IntRange(1, 1<<30).Draw(t, "off"))
	case 3:
		return math.MaxInt64
	case 4:
		return rapid.Int64Range(1<<31, math.MaxInt64).Draw(t, "off")
	}
	return int64(rapid.IntRange(1000, 100000).Draw(t, "off"))
}

func c07GenU64(t *rapid.T, label string) uint64 {
	switch rapid.IntRange(0, 3).Draw(t, label+"class") {
	case 0:
		return uint64(rapid.IntRange(0, 1000).Draw(t, label))
	case 1:
		return math.MaxUint64 - uint64(rapid.IntRange(0, 3).Draw(t, label))
	case 2:
		return rapid.Uint64().Draw(t, label)
	}
	return uint64(rapid.IntRange(1<<20, 1<<31).Draw(t, label))
}

// c07GenTable draws a table; hostile=false keeps to names that do not break the line format
// (used where another clause is the subject).
func c07GenTable(t *rapid.T, minJobs, maxJobs int, hostile bool) []C07Job {
	n := rapid.IntRange(minJobs, maxJobs).Draw(t, "njobs")
	var tbl []C07Job
	usedSID := map[uint64]bool{}
	for i := 0; i < n; i++ {
		var j C07Job
		if hostile && rapid.IntRange(0, 9).Draw(t, "filehostile") == 9 {
			j.File = rapid.SampledFrom(c07FilesHostile).Draw(t, "file")
		} else {
			j.File = rapid.SampledFrom(c07FilesSafe).Draw(t, "file")
		}
		j.Inode = c07GenU64(t, "inode")
		j.SourceID = c07GenU64(t, "sid")
		for usedSID[j.SourceID] {
			j.SourceID++
		}
		usedSID[j.SourceID] = true
		j.TS = rapid.Int64Range(0, 1<<62).Draw(t, "ts")
		ns := rapid.IntRange(0, 3).Draw(t, "nstreams")
		used := map[string]bool{}
		for k := 0; k < ns; k++ {
			var name string
			if hostile && rapid.IntRange(0, 5).Draw(t, "streamhostile") == 5 {
				name = rapid.SampledFrom(c07StreamsHostile).Draw(t, "stream")
			} else {
				name = rapid.SampledFrom(c07StreamsSafe).Draw(t, "stream")
			}
			if used[name] {
				continue
			}
			used[name] = true
			j.Streams = append(j.Streams, C07Stream{Name: name, Off: c07GenOffset(t)})
		}
		tbl = append(tbl, j)
	}
	return tbl
}

func c07TableLabels(o *vkit.Outcome, tables ...[]C07Job) (nontrivial bool) {
	for _, tbl := range tables {
		present, streams, hostile := 0, 0, false
		for _, j := range tbl {
			if len(j.Streams) == 0 {
				o.Class("job-without-offsets")
				continue
			}
			present++
			streams += len(j.Streams)
			if c := c07NameClass(j.File); c != "plain" {
				o.Class("file-name:" + c)
				hostile = true
			}
			for _, s := range j.Streams {
				if c := c07NameClass(s.Name); c != "plain" {
					o.Class("stream-name:" + c)
					hostile = true
				}
				if s.Off == math.MaxInt64 {
					o.Class("offset=2^63-1")
				}
			}
			if j.SourceID > math.MaxInt64 {
				o.Class("source-id>2^63")
			}
		}
		if present >= 2 && streams >= 2 && hostile {
			nontrivial = true
		}
	}
	return nontrivial
}

// ================================================================ (a) round trip

type C07RTCase struct {
	Tables [][]C07Job `json:"tables"` // successive saves through ONE offsetDB (buffer reuse, truncation of the temp file)
}

func genC07RT(t *rapid.T) C07RTCase {
	n := rapid.IntRange(1, 3).Draw(t, "nsaves")
	var c C07RTCase
	for i := 0; i < n; i++ {
		c.Tables = append(c.Tables, c07GenTable(t, 0, 4, true))
	}
	return c
}

func runC07RT(c C07RTCase) *vkit.Outcome {
	o := vkit.NewOutcome()
	verifSetup()
	dir := verifTempDir("vc07rt-")
	defer os.RemoveAll(dir)
	path := filepath.Join(dir, "offsets.yaml")
	odb := newOffsetDB(path, path+".atomic")
	for i, tbl := range c.Tables {
		odb.save(c07BuildJobs(tbl), &sync.RWMutex{})
		loaded, lerr := c07Load(path)
		host := c07Hostility(tbl)
		if lerr != nil {
			raw, _ := os.ReadFile(path)
			o.Failf(pC07, "roundtrip-saved-file-does-not-load:"+host, "save #%d wrote a file that a fresh load rejects: %v\ntable: %s\nfile: %q", i, lerr, c07JSON(tbl), raw)
			return o
		}
		if d := c07DiffTables(c07Model(tbl), c07FromLoaded(loaded)); d != "" {
			raw, _ := os.ReadFile(path)
			o.Failf(pC07, "roundtrip-table-differs:"+host, "save #%d then load: %s\ntable: %s\nfile: %q", i, d, c07JSON(tbl), raw)
			return o
		}
	}
	if c07TableLabels(o, c.Tables...) {
		o.Nontrivial(pC07)
	}
	return o
}

func c07JSON(v any) string {
	b, _ := json.Marshal(v)
	return string(b)
}

var propC07RT = vkit.NewProp([]string{pC07}, "c07roundtrip", genC07RT, runC07RT)

func TestVerifC07RoundTrip(t *testing.T) {
	defer vkit.WriteStats()
	defer verifTempCleanup()
	verifRequire(t)
	propC07RT.CrashFile = true
	propC07RT.Check(t)
}

// ---------------------------------------------------------------- (a') YAML offsets (journalctl, dmesg)

// C07YAMLState mirrors journalctl's offsetInfo (dmesg's state is its Offset half).
type C07YAMLState struct {
	Offset int64  `json:"offset"`
	Cursor string `json:"cursor"`
}

type C07YAMLCase struct {
	States []C07YAMLState `json:"states"`
}

func c07GenCursor(t *rapid.T) string {
	switch rapid.IntRange(0, 5).Draw(t, "cursorclass") {
	case 0:
		return ""
	case 1: // printable ASCII that YAML treats specially: the cursor is an opaque string taken from the event
		return rapid.SampledFrom([]string{"true", "null", "~", "123", "1e3", "0x1f", "- a", "a: b", "#c", "'q", "\"dq", " lead", "trail ", "a:b", "{x}", "[y]", "|", ">", "%", "@", "!t", "&a", "*a", "?", "0123", "1_000", "2001-01-01", "no", "y"}).Draw(t, "cursor")
	}
	hex := func(n int) string {
		return rapid.StringOfN(rapid.RuneFrom([]rune("0123456789abcdef")), n, n, -1).Draw(t, "hex")
	}
	return "s=" + hex(32) + ";i=" + hex(rapid.IntRange(1, 6).Draw(t, "il")) + ";b=" + hex(32) + ";m=" + hex(9) + ";t=" + hex(13) + ";x=" + hex(16)
}

func genC07YAML(t *rapid.T) C07YAMLCase {
	n := rapid.IntRange(1, 3).Draw(t, "n")
	var c C07YAMLCase
	for i := 0; i < n; i++ {
		c.States = append(c.States, C07YAMLState{Offset: c07GenOffset(t), Cursor: c07GenCursor(t)})
	}
	return c
}

func runC07YAML(c C07YAMLCase) *vkit.Outcome {
	o := vkit.NewOutcome()
	dir := verifTempDir("vc07y-")
	defer os.RemoveAll(dir)
	path := filepath.Join(dir, "offset.yaml")
	for i, st := range c.States {
		st := st
		if err := offset.SaveYAML(path, &st); err != nil {
			o.Failf(pC07, "yaml-save-failed", "SaveYAML #%d of %+v: %v", i, st, err)
			return o
		}
		var got C07YAMLState
		if err := offset.LoadYAML(path, &got); err != nil {
			raw, _ := os.ReadFile(path)
			o.Failf(pC07, "yaml-roundtrip-saved-file-does-not-load", "LoadYAML after SaveYAML(%+v): %v; file %q", st, err, raw)
			return o
		}
		if got != st {
			raw, _ := os.ReadFile(path)
			o.Failf(pC07, "yaml-roundtrip-state-differs", "saved %+v loaded %+v; file %q", st, got, raw)
			return o
		}
		if st.Cursor != "" && !strings.HasPrefix(st.Cursor, "s=") {
			o.Class("yaml-cursor-special")
		}
	}
	o.Class("yaml-roundtrip")
	if len(c.States) >= 2 {
		o.Nontrivial(pC07)
	}
	return o
}

var propC07YAML = vkit.NewProp([]string{pC07}, "c07yaml", genC07YAML, runC07YAML)

func TestVerifC07YAMLRoundTrip(t *testing.T) {
	defer vkit.WriteStats()
	defer verifTempCleanup()
	verifRequire(t)
	propC07YAML.CrashFile = true
	propC07YAML.Check(t)
}

// ================================================================ (b) commits vs saves

// C07ConcCase: committers advance disjoint (job, stream) pairs through the real jobProvider.commit
// while snapshots are saved (async: a saver loop as saveOffsetsCyclic; sync: every commit saves) and a
// reader keeps loading the file.
type C07ConcCase struct {
	Table      []C07Job `json:"table"` // names and starting offsets (first commit = start+inc)
	Incs       []int    `json:"incs"`  // per pair increment (cyclic)
	Committers int      `json:"committers"`
	Saves      int      `json:"saves"`   // async: saves performed by the saver
	Commits    int      `json:"commits"` // sync: commits per pair
	Sync       bool     `json:"sync"`
}

func genC07Conc(t *rapid.T) C07ConcCase {
	var c C07ConcCase
	c.Table = c07GenTable(t, 1, 3, false)
	total := 0
	for i := range c.Table {
		if len(c.Table[i].Streams) == 0 {
			c.Table[i].Streams = []C07Stream{{Name: "not_set"}}
		}
		for k := range c.Table[i].Streams {
			// leave room for the increments
			if c.Table[i].Streams[k].Off > 1<<40 {
				c.Table[i].Streams[k].Off = 1 << 40
			}
			total++
		}
	}
	for i := 0; i < total; i++ {
		c.Incs = append(c.Incs, rapid.IntRange(1, 5000).Draw(t, "inc"))
	}
	c.Committers = rapid.IntRange(1, 4).Draw(t, "committers")
	c.Sync = rapid.Bool().Draw(t, "sync")
	c.Saves = rapid.IntRange(2, 8).Draw(t, "saves")
	c.Commits = rapid.IntRange(1, 5).Draw(t, "commits")
	return c
}

// unexported pipeline.Event.streamName is what commit() reads the stream from.
var c07StreamNameField = func() (f reflect.StructField) {
	f, ok := reflect.TypeOf(pipeline.Event{}).FieldByName("streamName")
	if !ok || f.Type.Kind() != reflect.String {
		return reflect.StructField{Name: ""}
	}
	return f
}()

func c07Event(sid uint64, stream string, off int64, seq uint64) *pipeline.Event {
	ev := &pipeline.Event{SourceID: pipeline.SourceID(sid), Offset: off, SeqID: seq}
	*(*string)(unsafe.Add(unsafe.Pointer(ev), c07StreamNameField.Offset)) = stream
	return ev
}

type c07Pair struct {
	sid     uint64
	stream  string
	start   int64
	inc     int64
	scratch []byte       // owned by the one goroutine that commits this pair
	started atomic.Int64 // highest offset whose commit has begun
	done    atomic.Int64 // highest offset whose commit has returned
}

func runC07Conc(c C07ConcCase) *vkit.Outcome {
	o := vkit.NewOutcome()
	verifSetup()
	if c07StreamNameField.Name == "" {
		verifInfra("pipeline.Event has no string field streamName")
	}
	if c.Committers < 1 {
		c.Committers = 1
	}
	dir := verifTempDir("vc07c-")
	defer os.RemoveAll(dir)
	path := filepath.Join(dir, "offsets.yaml")
	cfg := &Config{MaxFiles: 16, OffsetsFile: path, OffsetsFileTmp: path + ".atomic", Paths: Paths{Include: []string{filepath.Join(dir, "*.log")}}}
	cfg.PersistenceMode_ = persistenceModeAsync
	if c.Sync {
		cfg.PersistenceMode_ = persistenceModeSync
	}
	jp := NewJobProvider(cfg, verifMetrics, verifLog)
	var pairs []*c07Pair
	jp.jobsMu.Lock()
	for _, j := range c.Table {
		job := &Job{filename: j.File, inode: inodeID(j.Inode), sourceID: pipeline.SourceID(j.SourceID), mu: &sync.Mutex{}}
		job.eofReadInfo.setUnixNanoTimestamp(j.TS)
		jp.jobs[job.sourceID] = job
		for _, s := range j.Streams {
			inc := int64(1)
			if len(c.Incs) > 0 {
				inc = int64(c.Incs[len(pairs)%len(c.Incs)])
			}
			if inc < 1 {
				inc = 1
			}
			p := &c07Pair{sid: j.SourceID, stream: s.Name, start: s.Off, inc: inc}
			if s.Off > 0 {
				job.offsets.Set(pipeline.StreamName(s.Name), s.Off) // committed before this run
			}
			p.started.Store(s.Off)
			p.done.Store(s.Off)
			pairs = append(pairs, p)
		}
	}
	jp.jobsMu.Unlock()

	var failMu sync.Mutex
	var failSig, failMsg string
	fail := func(sig, format string, args ...any) {
		failMu.Lock()
		if failSig == "" {
			failSig, failMsg = sig, fmt.Sprintf(format, args...)
		}
		failMu.Unlock()
	}
	failed := func() bool { failMu.Lock(); defer failMu.Unlock(); return failSig != "" }
	var stop atomic.Bool
	var loads, interleaved atomic.Int64

	snapshot := func(started bool) []int64 {
		v := make([]int64, len(pairs))
		for i, p := range pairs {
			if started {
				v[i] = p.started.Load()
			} else {
				v[i] = p.done.Load()
			}
		}
		return v
	}
	// check: lower[i] <= loaded <= upper[i]; lower may be nil (concurrent reader)
	check := func(who string, lower []int64, loadAndUpper func() (map[uint64]c07Row, error, []int64)) {
		got, lerr, upper := loadAndUpper()
		loads.Add(1)
		if lerr != nil {
			fail("concurrent-snapshot-does-not-load", "%s: load failed: %v", who, lerr)
			return
		}
		for i, p := range pairs {
			v, has := int64(0), false
			if r, ok := got[p.sid]; ok {
				v, has = r.streams[p.stream]
			}
			if !has {
				v = 0
			}
			if v > upper[i] {
				fail("snapshot-ahead-of-commits", "%s: source %d stream %q loaded offset %d but no commit above %d had begun when the file was read", who, p.sid, p.stream, v, upper[i])
				return
			}
			if lower != nil && v < lower[i] {
				fail("snapshot-behind-commits-finished-before-save", "%s: source %d stream %q loaded offset %d but the commit of %d had returned before the save began", who, p.sid, p.stream, v, lower[i])
				return
			}
			if v != 0 && (v < p.start || (v-p.start)%p.inc != 0) {
				fail("snapshot-offset-never-committed", "%s: source %d stream %q loaded offset %d which is not start %d + k*%d", who, p.sid, p.stream, v, p.start, p.inc)
				return
			}
			if lower != nil && v > lower[i] {
				interleaved.Add(1)
			}
		}
		// nothing but the registered pairs may appear
		n := 0
		for _, r := range got {
			n += len(r.streams)
		}
		known := 0
		for _, p := range pairs {
			if r, ok := got[p.sid]; ok {
				if _, ok := r.streams[p.stream]; ok {
					known++
				}
			}
		}
		if n != known {
			fail("snapshot-has-unknown-streams", "%s: loaded %d streams, %d of them known: %v", who, n, known, got)
		}
	}
	loadNow := func() (map[uint64]c07Row, error, []int64) {
		l, err := c07Load(path)
		up := snapshot(true) // read AFTER the load: anything in the file had begun before
		if err != nil {
			return nil, err, up
		}
		return c07FromLoaded(l), nil, up
	}

	var wg sync.WaitGroup
	var seq atomic.Uint64
	commitOne := func(p *c07Pair) (rec any) {
		defer func() { rec = recover() }()
		next := p.done.Load() + p.inc
		p.started.Store(next)
		// the stream name of a real event is an unsafe string over the event's own buffer, and the event
		// object is reused for other lines as soon as it is committed: the name given to commit lives in a
		// scratch buffer that is overwritten right after the call
		name := p.stream
		if len(p.stream) > 0 {
			if cap(p.scratch) < len(p.stream) {
				p.scratch = make([]byte, len(p.stream))
			}
			p.scratch = p.scratch[:len(p.stream)]
			copy(p.scratch, p.stream)
			name = unsafe.String(&p.scratch[0], len(p.scratch))
		}
		jp.commit(c07Event(p.sid, name, next, seq.Add(1)))
		for i := range p.scratch {
			p.scratch[i] = 'z'
		}
		p.done.Store(next)
		return nil
	}
	for g := 0; g < c.Committers; g++ {
		var mine []*c07Pair
		for i, p := range pairs {
			if i%c.Committers == g {
				mine = append(mine, p)
			}
		}
		if len(mine) == 0 {
			continue
		}
		wg.Add(1)
		go func() {
			defer wg.Done()
			for round := 0; ; round++ {
				if c.Sync && round >= c.Commits {
					return
				}
				for _, p := range mine {
					if stop.Load() || failed() {
						return
					}
					if p.done.Load() > 1<<61 {
						return
					}
					if r := commitOne(p); r != nil {
						fail("commit-panicked", "commit of source %d stream %q panicked: %v", p.sid, p.stream, r)
						return
					}
				}
				runtime.Gosched()
			}
		}()
	}
	// reader: the file must be a complete, not-ahead snapshot at any instant
	readerDone := make(chan struct{})
	var readerStop atomic.Bool
	go func() {
		defer close(readerDone)
		for !readerStop.Load() && !failed() {
			check("concurrent reader", nil, loadNow)
			runtime.Gosched()
		}
	}()
	if !c.Sync {
		// saver loop, as saveOffsetsCyclic does it
		for s := 0; s < c.Saves && !failed(); s++ {
			lower := snapshot(false)
			jp.offsetDB.save(jp.jobs, jp.jobsMu)
			check(fmt.Sprintf("load after save #%d", s), lower, loadNow)
		}
		stop.Store(true)
	}
	wg.Wait()
	readerStop.Store(true)
	<-readerDone
	if !failed() {
		if !c.Sync {
			jp.offsetDB.save(jp.jobs, jp.jobsMu) // what jobProvider.stop does
		}
		// quiescent: the file must now hold exactly the committed offsets
		final := snapshot(false)
		check("final load", final, loadNow)
	}
	if failSig != "" {
		o.Failf(pC07, failSig, "%s\ncase: %s", failMsg, c07JSON(c))
		return o
	}
	if c.Sync {
		o.Class("commit-mode=sync")
	} else {
		o.Class("commit-mode=async")
	}
	o.Class("concurrent-commit-save")
	if interleaved.Load() > 0 {
		o.Class("commit-landed-during-save")
	}
	vkit.ClassN(pC07, "concurrent-snapshot-loads", int(loads.Load()))
	if len(pairs) >= 2 && c.Committers >= 1 {
		o.Nontrivial(pC07)
	}
	return o
}

var propC07Conc = vkit.NewProp([]string{pC07}, "c07concurrent", genC07Conc, runC07Conc)

func TestVerifC07Concurrent(t *testing.T) {
	defer vkit.WriteStats()
	defer verifTempCleanup()
	verifRequire(t)
	propC07Conc.CrashFile = true
	propC07Conc.Check(t)
}

// ================================================================ (c)+(d) crash images and faults

// C07CrashCase: a sequence of saves performed by a child process under strace, at most one of
// them with an injected I/O fault.
type C07CrashCase struct {
	Kind       string         `json:"kind"`             // "filed" (offsetDB.save) | "yaml" (offset.SaveYAML)
	Tables     [][]C07Job     `json:"tables,omitempty"` // filed: committed table at each save
	States     []C07YAMLState `json:"states,omitempty"` // yaml: committed state at each save
	Fault      string         `json:"fault"`            // "" | open | write | fsync | rename
	FaultAt    int            `json:"fault_at"`         // 0-based save index
	WriteLimit int            `json:"write_limit"`      // write fault: RLIMIT_FSIZE in bytes during that save
}

func (c *C07CrashCase) nSaves() int {
	if c.Kind == "yaml" {
		return len(c.States)
	}
	return len(c.Tables)
}

// c07Evolve: the next committed table — offsets advance, streams and jobs appear, a job may go away.
func c07Evolve(t *rapid.T, prev []C07Job) []C07Job {
	var next []C07Job
	for _, j := range prev {
		if len(prev) > 2 && rapid.IntRange(0, 9).Draw(t, "dropjob") == 0 {
			continue
		}
		nj := j
		nj.Streams = nil
		for _, s := range j.Streams {
			if s.Off < 1<<60 && rapid.Bool().Draw(t, "advance") {
				s.Off += int64(rapid.IntRange(1, 100000).Draw(t, "delta"))
			}
			nj.Streams = append(nj.Streams, s)
		}
		if len(nj.Streams) < 3 && rapid.IntRange(0, 3).Draw(t, "newstream") == 0 {
			name := rapid.SampledFrom(c07StreamsSafe).Draw(t, "stream")
			dup := false
			for _, s := range nj.Streams {
				dup = dup || s.Name == name
			}
			if !dup {
				nj.Streams = append(nj.Streams, C07Stream{Name: name, Off: int64(rapid.IntRange(1, 5000).Draw(t, "off"))})
			}
		}
		next = append(next, nj)
	}
	return next
}

func genC07Crash(t *rapid.T) C07CrashCase {
	var c C07CrashCase
	c.Kind = "filed"
	if k := os.Getenv("VERIF_C07_KIND"); k != "" {
		c.Kind = k
	} else if rapid.IntRange(0, 3).Draw(t, "yaml") == 0 {
		c.Kind = "yaml"
	}
	n := rapid.IntRange(2, 5).Draw(t, "nsaves")
	if c.Kind == "yaml" {
		st := C07YAMLState{}
		for i := 0; i < n; i++ {
			st.Offset += int64(rapid.IntRange(1, 1000).Draw(t, "delta"))
			st.Cursor = c07GenCursor(t)
			c.States = append(c.States, st)
		}
	} else {
		tbl := c07GenTable(t, 2, 4, false)
		for i := range tbl { // at least two jobs with offsets from the first save on
			if len(tbl[i].Streams) == 0 && i < 2 {
				tbl[i].Streams = []C07Stream{{Name: "error:", Off: int64(rapid.IntRange(1, 9999).Draw(t, "off"))}}
			}
		}
		c.Tables = append(c.Tables, tbl)
		for i := 1; i < n; i++ {
			tbl = c07Evolve(t, tbl)
			c.Tables = append(c.Tables, tbl)
		}
	}
	faults := []string{"", "open", "write", "fsync", "rename"}
	if f := os.Getenv("VERIF_C07_FAULT"); f != "" {
		faults = strings.Split(f, ",")
		for i := range faults {
			if faults[i] == "none" {
				faults[i] = ""
			}
		}
	}
	c.Fault = rapid.SampledFrom(faults).Draw(t, "fault")
	if c.Fault != "" {
		c.FaultAt = rapid.IntRange(0, n-1).Draw(t, "fault_at")
	}
	if c.Fault == "write" {
		c.WriteLimit = rapid.IntRange(0, 140).Draw(t, "write_limit")
	}
	return c
}

// ---- child side

const c07ChildEnv = "VERIF_C07_CHILD"

type c07ChildSpec struct {
	Dir  string       `json:"dir"`
	Case C07CrashCase `json:"case"`
}

type c07ChildSave struct {
	Err      string `json:"err,omitempty"`   // yaml: error returned by SaveYAML
	Panic    string `json:"panic,omitempty"` // a panic/Fatal out of the save
	Existed  bool   `json:"existed"`         // offsets file exists after the save
	FaultSet string `json:"fault_set,omitempty"`
}

type c07ChildResult struct {
	Completed bool           `json:"completed"`
	Saves     []c07ChildSave `json:"saves"`
}

func c07Marker(dir, name string) {
	// a failing open of a name that does not exist: visible in the trace, no effect on the file system
	fd, err := syscall.Open(filepath.Join(dir, "@"+name), syscall.O_RDONLY, 0)
	if err == nil {
		_ = syscall.Close(fd)
	}
}

// TestVerifC07Child is the helper mode: the test binary re-executed under strace by TestVerifC07Crash.
func TestVerifC07Child(t *testing.T) {
	specPath := os.Getenv(c07ChildEnv)
	if specPath == "" {
		t.Skip("helper of TestVerifC07Crash")
	}
	verifSetup()
	raw, err := os.ReadFile(specPath)
	if err != nil {
		t.Fatalf("spec: %v", err)
	}
	var spec c07ChildSpec
	if err := json.Unmarshal(raw, &spec); err != nil {
		t.Fatalf("spec: %v", err)
	}
	c := spec.Case
	signal.Ignore(syscall.SIGXFSZ)
	// strace counts "inject=...:when=N" per thread: keep every save on one OS thread
	runtime.LockOSThread()
	path := filepath.Join(spec.Dir, "offsets.yaml")
	odb := newOffsetDB(path, path+".atomic")
	var res c07ChildResult
	for i := 0; i < c.nSaves(); i++ {
		var sv c07ChildSave
		var restore func()
		if c.Fault != "" && c.FaultAt == i {
			switch c.Fault {
			case "open":
				var old syscall.Rlimit
				if err := syscall.Getrlimit(syscall.RLIMIT_NOFILE, &old); err != nil {
					t.Fatalf("getrlimit: %v", err)
				}
				if err := syscall.Setrlimit(syscall.RLIMIT_NOFILE, &syscall.Rlimit{Cur: 0, Max: old.Max}); err != nil {
					t.Fatalf("setrlimit: %v", err)
				}
				restore = func() { _ = syscall.Setrlimit(syscall.RLIMIT_NOFILE, &old) }
				sv.FaultSet = "RLIMIT_NOFILE=0"
			case "write":
				var old syscall.Rlimit
				if err := syscall.Getrlimit(syscall.RLIMIT_FSIZE, &old); err != nil {
					t.Fatalf("getrlimit: %v", err)
				}
				if err := syscall.Setrlimit(syscall.RLIMIT_FSIZE, &syscall.Rlimit{Cur: uint64(c.WriteLimit), Max: old.Max}); err != nil {
					t.Fatalf("setrlimit: %v", err)
				}
				restore = func() { _ = syscall.Setrlimit(syscall.RLIMIT_FSIZE, &old) }
				sv.FaultSet = fmt.Sprintf("RLIMIT_FSIZE=%d", c.WriteLimit)
			}
		}
		c07Marker(spec.Dir, fmt.Sprintf("begin-%d", i))
		func() {
			defer func() {
				if r := recover(); r != nil {
					sv.Panic = fmt.Sprintf("%v\n%s", r, debug.Stack())
				}
			}()
			if c.Kind == "yaml" {
				st := c.States[i]
				if err := offset.SaveYAML(path, &st); err != nil {
					sv.Err = err.Error()
				}
			} else {
				odb.save(c07BuildJobs(c.Tables[i]), &sync.RWMutex{})
			}
		}()
		c07Marker(spec.Dir, fmt.Sprintf("end-%d", i))
		if restore != nil {
			restore()
		}
		// what a reader finds right after this save
		if b, err := os.ReadFile(path); err == nil {
			sv.Existed = true
			if err := os.WriteFile(filepath.Join(spec.Dir, fmt.Sprintf("after.%d", i)), b, 0o600); err != nil {
				t.Fatalf("copy: %v", err)
			}
		}
		res.Saves = append(res.Saves, sv)
	}
	res.Completed = true
	b, _ := json.Marshal(res)
	if err := os.WriteFile(filepath.Join(spec.Dir, "result.json"), b, 0o600); err != nil {
		t.Fatalf("result: %v", err)
	}
}

// ---- trace facts

type c07Sys struct {
	name  string
	args  string
	ret   int64
	ok    bool   // ret >= 0
	errno string // "EIO" ... when !ok
}

var c07LineRe = regexp.MustCompile(`^(\d+)\s+(\w+)\((.*)\)\s+=\s+(-?\d+)(.*)$`)
var c07UnfinishedRe = regexp.MustCompile(`^(\d+)\s+(\w+)\((.*) <unfinished \.\.\.>$`)
var c07ResumedRe = regexp.MustCompile(`^(\d+)\s+<\.\.\. (\w+) resumed>(.*)$`)

func c07ParseTrace(raw string) []c07Sys {
	var out []c07Sys
	pending := map[string]string{}
	for _, line := range strings.Split(raw, "\n") {
		if m := c07UnfinishedRe.FindStringSubmatch(line); m != nil {
			pending[m[1]+"/"+m[2]] = m[1] + " " + m[2] + "(" + m[3]
			continue
		}
		if m := c07ResumedRe.FindStringSubmatch(line); m != nil {
			if head, ok := pending[m[1]+"/"+m[2]]; ok {
				delete(pending, m[1]+"/"+m[2])
				line = head + m[3]
			}
		}
		m := c07LineRe.FindStringSubmatch(line)
		if m == nil {
			continue
		}
		ret, _ := strconv.ParseInt(m[4], 10, 64)
		errno := ""
		if f := strings.Fields(m[5]); ret < 0 && len(f) > 0 {
			errno = f[0]
		}
		out = append(out, c07Sys{name: m[2], args: m[3], ret: ret, ok: ret >= 0, errno: errno})
	}
	return out
}

// c07SaveFacts: the order of the protocol steps of one save, as seen by the kernel.
type c07SaveFacts struct {
	opened          bool
	openFailed      bool
	written         int64 // bytes accepted by write calls on the temp file before the rename
	writeFailed     bool  // a write returned an error
	writtenAfterRen int64 // bytes written to the temp file's descriptor after the rename
	syncedAfterLast bool  // a successful fsync followed the last write and preceded the rename
	syncFailed      bool
	syncSeen        bool
	renamed         bool
	renameFailed    bool
	steps           []string
}

func c07Facts(sys []c07Sys, dir string, kind string, i int) (f c07SaveFacts, found bool) {
	begin, end := -1, -1
	for k, s := range sys {
		if s.name == "openat" || s.name == "open" {
			if strings.Contains(s.args, fmt.Sprintf("/@begin-%d\"", i)) {
				begin = k
			}
			if strings.Contains(s.args, fmt.Sprintf("/@end-%d\"", i)) {
				end = k
			}
		}
	}
	if begin < 0 || end < begin {
		return f, false
	}
	target := filepath.Join(dir, "offsets.yaml")
	tmpPrefix := target + ".atomic."
	if kind == "yaml" {
		tmpPrefix = target + ".tmp"
	}
	fd := int64(-1)
	for _, s := range sys[begin+1 : end] {
		switch s.name {
		case "openat", "open":
			if strings.Contains(s.args, "\""+tmpPrefix) {
				if s.ok {
					fd = s.ret
					f.opened = true
					f.steps = append(f.steps, "open")
				} else {
					f.openFailed = true
					f.steps = append(f.steps, "open!"+s.errno)
				}
			}
		case "write", "pwrite64":
			if fd >= 0 && strings.HasPrefix(s.args, strconv.FormatInt(fd, 10)+",") {
				if !s.ok {
					f.writeFailed = true
					f.steps = append(f.steps, "write!"+s.errno)
					break
				}
				f.steps = append(f.steps, fmt.Sprintf("write(%d)", s.ret))
				if f.renamed {
					f.writtenAfterRen += s.ret
				} else {
					f.written += s.ret
					f.syncedAfterLast = false
				}
			}
		case "fsync", "fdatasync":
			if fd >= 0 && strings.TrimSpace(s.args) == strconv.FormatInt(fd, 10) {
				f.syncSeen = true
				if s.ok {
					if !f.renamed {
						f.syncedAfterLast = true
					}
					f.steps = append(f.steps, "fsync")
				} else {
					f.syncFailed = true
					f.steps = append(f.steps, "fsync!"+s.errno)
				}
			}
		case "rename", "renameat", "renameat2":
			if strings.Contains(s.args, "\""+tmpPrefix) && strings.Contains(s.args, "\""+target+"\"") {
				if s.ok {
					f.renamed = true
					f.steps = append(f.steps, "rename")
				} else {
					f.renameFailed = true
					f.steps = append(f.steps, "rename!"+s.errno)
				}
			}
		case "close":
			if fd >= 0 && strings.TrimSpace(s.args) == strconv.FormatInt(fd, 10) {
				f.steps = append(f.steps, "close")
				fd = -2
			}
		}
	}
	return f, true
}

// ---- parent side

// c07State: committed state #k as comparable value ("" file => nothing saved yet).
func (c *C07CrashCase) stateEquals(k int, img []byte, dir string, scratch string) (bool, string) {
	// load the image the way a restart would
	if err := os.WriteFile(scratch, img, 0o600); err != nil {
		verifInfra("scratch: %v", err)
	}
	if c.Kind == "yaml" {
		var got C07YAMLState
		if err := offset.LoadYAML(scratch, &got); err != nil {
			return false, "does not load: " + err.Error()
		}
		want := C07YAMLState{}
		if k >= 0 {
			want = c.States[k]
		}
		if got == want {
			return true, ""
		}
		return false, fmt.Sprintf("loads to %+v", got)
	}
	l, err := c07Load(scratch)
	if err != nil {
		return false, "does not load: " + err.Error()
	}
	var want map[uint64]c07Row
	if k >= 0 {
		want = c07Model(c.Tables[k])
	} else {
		want = map[uint64]c07Row{}
	}
	if d := c07DiffTables(want, c07FromLoaded(l)); d != "" {
		return false, d
	}
	return true, ""
}

// c07ImageIsCommittedState: does the image load to one of the states committed up to save upTo (or to
// the initial empty state)? Returns the matching index (-1 = initial) or -2 with the reason.
func (c *C07CrashCase) imageState(img []byte, upTo int, scratch string) (int, string) {
	why := ""
	for k := upTo; k >= -1; k-- {
		ok, w := c.stateEquals(k, img, "", scratch)
		if ok {
			return k, ""
		}
		if k == upTo {
			why = w
		}
		if strings.HasPrefix(w, "does not load") {
			return -2, w
		}
	}
	return -2, why
}

func runC07Crash(c C07CrashCase) *vkit.Outcome {
	o := vkit.NewOutcome()
	verifSetup()
	if c.Kind != "yaml" {
		c.Kind = "filed"
	}
	n := c.nSaves()
	if n == 0 {
		return o
	}
	if c.Fault != "" && (c.FaultAt < 0 || c.FaultAt >= n) {
		c.FaultAt = n - 1
	}
	dir := verifTempDir("vc07x-")
	if os.Getenv("VERIF_C07_KEEP") != "" { // debugging aid: keep trace and images
		fmt.Fprintln(os.Stderr, "C07 case dir kept:", dir)
	} else {
		defer os.RemoveAll(dir)
	}
	spec, _ := json.Marshal(c07ChildSpec{Dir: dir, Case: c})
	specPath := filepath.Join(dir, "spec.json")
	if err := os.WriteFile(specPath, spec, 0o600); err != nil {
		verifInfra("spec: %v", err)
	}
	tracePath := filepath.Join(dir, "trace.txt")
	args := []string{"-f", "-o", tracePath, "-e", "trace=openat,open,write,pwrite64,fsync,fdatasync,rename,renameat,renameat2,close"}
	switch c.Fault {
	case "fsync":
		args = append(args, "-e", fmt.Sprintf("inject=fsync,fdatasync:error=EIO:when=%d", c.FaultAt+1))
	case "rename":
		args = append(args, "-e", fmt.Sprintf("inject=rename,renameat,renameat2:error=EIO:when=%d", c.FaultAt+1))
	}
	args = append(args, os.Args[0], "-test.run=^TestVerifC07Child$", "-test.count=1", "-test.timeout=60s")
	ctx, cancel := context.WithTimeout(context.Background(), 120*time.Second)
	defer cancel()
	cmd := exec.CommandContext(ctx, "strace", args...)
	var env []string
	for _, e := range os.Environ() {
		if strings.HasPrefix(e, "VERIF_STATS_OUT=") || strings.HasPrefix(e, c07ChildEnv+"=") || strings.HasPrefix(e, "VERIF_REPLAY_FILES=") {
			continue
		}
		env = append(env, e)
	}
	cmd.Env = append(env, c07ChildEnv+"="+specPath, "TMPDIR="+dir)
	var outBuf bytes.Buffer
	cmd.Stdout, cmd.Stderr = &outBuf, &outBuf // pipes, not regular files: RLIMIT_FSIZE must not hit them
	cmd.Dir = dir
	runErr := cmd.Run()
	var res c07ChildResult
	if b, err := os.ReadFile(filepath.Join(dir, "result.json")); err == nil {
		_ = json.Unmarshal(b, &res)
	}
	if !res.Completed || len(res.Saves) != n {
		verifInfra("C07 child did not complete (%v): %s", runErr, vkitTail(outBuf.String(), 3000))
	}
	traceRaw, err := os.ReadFile(tracePath)
	if err != nil {
		verifInfra("trace: %v", err)
	}
	sys := c07ParseTrace(string(traceRaw))
	scratch := filepath.Join(dir, "image")
	describe := func() string {
		return fmt.Sprintf("case: %s", c07JSON(c))
	}

	lastGood := -1 // index of the last state known to be on disk (-1: no file yet)
	prevAfter := []byte(nil)
	prevExisted := false
	sawMidImage, sawFaultHit := false, false
	for i := 0; i < n; i++ {
		sv := res.Saves[i]
		faulty := c.Fault != "" && c.FaultAt == i
		fk := "none"
		if faulty {
			fk = c.Fault
		}
		if sv.Panic != "" {
			o.Failf(pC07, "save-panicked:fault-"+fk+":"+c.Kind, "save #%d panicked: %s\n%s", i, sv.Panic, describe())
			return o
		}
		f, found := c07Facts(sys, dir, c.Kind, i)
		if !found {
			verifInfra("markers of save %d not found in trace:\n%s", i, vkitTail(string(traceRaw), 2000))
		}
		var after []byte
		if sv.Existed {
			after, err = os.ReadFile(filepath.Join(dir, fmt.Sprintf("after.%d", i)))
			if err != nil {
				verifInfra("after.%d: %v", i, err)
			}
		}
		steps := strings.Join(f.steps, " ")
		if f.renamed && !f.renameFailed && f.written == 0 && f.writtenAfterRen == 0 && len(after) > 0 {
			// the trace shows a rename of a file nothing was written to, yet the file that the save left behind
			// has content: strace lost the write (and fsync) calls of this save (seen when the machine is heavily
			// loaded). Nothing can be concluded from such a trace.
			o.Excluded(pC07)
			o.Class("infrastructure:strace-lost-syscalls")
			vkit.Note(pC07, fmt.Sprintf("strace lost syscalls of save #%d (%s): trace shows %q, the file has %d bytes", i, c.Kind, steps, len(after)))
			return o
		}

		// --- crash images of this save (model: un-fsynced bytes of a file may be lost; rename is atomic)
		// a crash between open/write/fsync and the rename leaves the previous offsets file (plus a stray
		// temp file, which load never looks at): it must still be a committed state
		if f.opened && prevExisted {
			vkit.ClassN(pC07, "crash-images", 1)
			o.ClassP(pC07, "crash-image-between-write-and-rename")
			if st, reason := c.imageState(prevAfter, i-1, scratch); st == -2 {
				o.Failf(pC07, "crash-before-rename-leaves-bad-file:"+c.Kind, "save #%d (%s): a crash before the rename leaves the offsets file as %q, which %s\n%s", i, steps, prevAfter, reason, describe())
				return o
			}
		}
		if f.renamed {
			type image struct {
				b   []byte
				why string
			}
			var images []image
			why := ""
			switch {
			case f.writtenAfterRen > 0:
				why = "written-after-rename"
			case f.writeFailed:
				why = "renamed-after-failed-write"
			case f.syncFailed && !f.syncedAfterLast:
				why = "renamed-after-failed-fsync"
			case !f.syncedAfterLast:
				why = "renamed-without-fsync"
			}
			if why == "" {
				images = append(images, image{after, ""})
			} else {
				if f.writeFailed {
					// no crash needed: this is what is on disk right now
					if st, reason := c.imageState(after, i, scratch); st == -2 {
						o.Failf(pC07, why+":"+c.Kind, "save #%d (fault %s; %s) did: %s. The write failed, yet the temp file was renamed over the offsets file, which now holds %q (%d bytes) and %s; last good state was #%d.\n%s",
							i, fk, sv.FaultSet, steps, after, len(after), reason, lastGood, describe())
						return o
					}
				}
				// every prefix of what was renamed into place may be what survives
				for k := 0; k <= len(after); k++ {
					images = append(images, image{after[:k], why})
				}
				if f.written > 0 {
					sawMidImage = true
				}
			}
			o.ClassP(pC07, "crash-images-checked")
			vkit.ClassN(pC07, "crash-images", len(images)-1)
			// report an image that loads to a never-committed table in preference to one that does not load at all
			var bad, badLoads *image
			badReason, badLoadsReason := "", ""
			for k := range images {
				im := &images[k]
				st, reason := c.imageState(im.b, i, scratch)
				if st != -2 {
					continue
				}
				if strings.HasPrefix(reason, "does not load") {
					if bad == nil {
						bad, badReason = im, reason
					}
				} else if badLoads == nil {
					badLoads, badLoadsReason = im, "loads, but to a state that was never committed: "+reason
				}
			}
			if badLoads != nil {
				bad, badReason = badLoads, badLoadsReason
			}
			if bad != nil {
				sig := "durable-snapshot-not-a-committed-state:" + c.Kind
				if bad.why != "" {
					sig = bad.why + ":" + c.Kind
				}
				o.Failf(pC07, sig, "save #%d (fault %s) did: %s. A crash after the rename can leave the offsets file as %q (%d of %d bytes), which %s; committed states so far: %d.\n%s",
					i, fk, steps, bad.b, len(bad.b), len(after), badReason, i+1, describe())
				return o
			}
		}

		// --- state on disk after the save returned
		unchanged := sv.Existed == prevExisted && bytes.Equal(after, prevAfter)
		switch {
		case !sv.Existed:
			if lastGood >= 0 {
				o.Failf(pC07, "fault-"+fk+":offsets-file-gone:"+c.Kind, "save #%d (%s): the offsets file existed before and is gone now\n%s", i, steps, describe())
				return o
			}
		default:
			k, reason := c.imageState(after, i, scratch)
			switch {
			case k == i:
				lastGood = i
			case faulty && k == lastGood && unchanged:
				// the failed save left the previous good file in place
			case faulty && k == lastGood:
				// same table, rewritten: fine as well
			case k == -2:
				o.Failf(pC07, "fault-"+fk+":offsets-file-not-a-complete-snapshot:"+c.Kind, "after save #%d (%s; %s) the offsets file %q %s; expected the new table or the last good one (#%d)\n%s",
					i, steps, sv.FaultSet, after, reason, lastGood, describe())
				return o
			default:
				o.Failf(pC07, "fault-"+fk+":offsets-file-is-a-stale-snapshot:"+c.Kind, "after save #%d (%s; %s) the offsets file holds committed state #%d; expected #%d%s\n%s",
					i, steps, sv.FaultSet, k, i, map[bool]string{true: fmt.Sprintf(" or the last good one #%d", lastGood), false: ""}[faulty], describe())
				return o
			}
		}
		if !faulty && lastGood != i {
			o.Failf(pC07, "fault-none:save-did-not-persist:"+c.Kind, "save #%d without any fault (%s; err %q) left the offsets file at state #%d\n%s", i, steps, sv.Err, lastGood, describe())
			return o
		}
		if faulty {
			hit := false
			switch c.Fault {
			case "open":
				hit = f.openFailed
			case "write":
				hit = f.writeFailed
			case "fsync":
				hit = f.syncFailed
			case "rename":
				hit = f.renameFailed
			}
			if hit {
				sawFaultHit = true
				o.Class("fault-hit:" + c.Fault + ":" + c.Kind)
				if lastGood != i {
					o.Class("failed-save-kept-previous-file")
				}
			} else {
				o.Class("fault-not-reached:" + c.Fault + ":" + c.Kind)
			}
		}
		o.Class("straced-save:" + c.Kind)
		prevAfter, prevExisted = after, sv.Existed
	}
	if c.Fault == "" {
		o.Class("fault-none:" + c.Kind)
	}
	if sawMidImage {
		o.Class("crash-image-after-rename-of-unsynced-data")
	}
	nt := sawFaultHit && (c.Fault == "write" || c.Fault == "fsync")
	if c.Kind == "filed" {
		if c07TableLabels(o, c.Tables...) {
			nt = true
		}
	} else if n >= 2 {
		nt = true
	}
	if nt {
		o.Nontrivial(pC07)
	}
	return o
}

func vkitTail(s string, n int) string {
	if len(s) > n {
		return s[len(s)-n:]
	}
	return s
}

var propC07Crash = vkit.NewProp([]string{pC07}, "c07crash", genC07Crash, runC07Crash)

func TestVerifC07Crash(t *testing.T) {
	defer vkit.WriteStats()
	defer verifTempCleanup()
	verifRequire(t)
	if _, err := exec.LookPath("strace"); err != nil {
		t.Fatalf("HARNESS: strace not available: %v", err)
	}
	propC07Crash.CrashFile = true
	propC07Crash.Check(t)
}
