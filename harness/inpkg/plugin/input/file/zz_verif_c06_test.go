package file

// C06 — the file reader hands the pipeline exactly the complete newline-terminated
// lines of the file, in order, each once, tagged with the byte offset just after
// the newline; an unterminated tail is held back; an oversize line is skipped or
// cut without changing its neighbours or later offsets.
//
// White-box: a real temp file, a real jobProvider (addJob / maintenanceJob /
// refreshFile drive the rounds exactly as the plugin does), one persistent
// worker goroutine running worker.work, and a recording inputer.
// Oracle: a naive splitter over the bytes written to the file (never the worker).

import (
	"bytes"
	"fmt"
	"os"
	"path/filepath"
	"reflect"
	"runtime"
	"runtime/debug"
	"sort"
	"strconv"
	"sync"
	"testing"
	"time"

	"github.com/ozontech/file.d/pipeline"
	"github.com/ozontech/file.d/pipeline/metadata"
	"github.com/ozontech/file.d/zzverif/vkit"
	"pgregory.net/rapid"
)

const pC06 = "C06"

// C06Case is one reading history of one file.
type C06Case struct {
	Content []byte `json:"content"` // whole file content after the last append (base64 in JSON)
	// Splits are ascending positions in [0,len(Content)]: Content[:Splits[0]] is in the
	// file when the job is created; Content[Splits[i]:Splits[i+1]] (the last one up to the
	// end) is appended after read round i+1, then the job is resumed.
	Splits []int `json:"splits"`
	// Resume[i] says how the job is resumed after append i: 0 maintenanceJob (periodic
	// fstat path; reopens the descriptor when nothing was appended), 1 refreshFile with a
	// write notification, 2 refreshFile with a create notification.
	Resume []int `json:"resume"`
	// RaceAt[i] = k > 0: append i is not made between two read rounds but DURING round i, when the
	// worker has just done its k-th read of that round (after the round if it needs fewer reads); the
	// job is then resumed through maintenanceJob. 0 / missing = between the rounds.
	RaceAt []int `json:"race_at,omitempty"`
	// DupNotify[i]: after the round that follows append i the same write notification arrives once more
	// (inotify reports a write for every write call; nothing new is in the file)
	DupNotify []bool `json:"dup_notify,omitempty"`
	Buf       int    `json:"buf"`    // read_buffer_size >= 1
	Max       int    `json:"max"`    // max_event_size, 0 = unlimited
	CutOff    bool   `json:"cutoff"` // cut_off_event_by_limit
	Mode      string `json:"mode"`   // offsets_op: reset | tail | continue
	Start     int    `json:"start"`  // continue: saved offset (a line start <= Splits[0])
	// metamorphic twin: same content / limits / start, other buffer and append schedule
	AltBuf    int   `json:"alt_buf,omitempty"`
	AltSplits []int `json:"alt_splits,omitempty"`
	AltResume []int `json:"alt_resume,omitempty"`
}

// ---------------------------------------------------------------- recorder

type c06Call struct {
	Off  int64
	Data []byte
}

type c06Rec struct {
	mu    sync.Mutex
	calls []c06Call
	// hook runs inside IncReadOps (the worker has just returned from a read), with the number of reads
	// since the hook was armed
	hook  func(n int)
	reads int
}

// index of pipeline.Offsets.current (unexported in another package): read through reflection.
var c06CurField = func() int {
	f, ok := reflect.TypeOf(pipeline.Offsets{}).FieldByName("current")
	if !ok || f.Type.Kind() != reflect.Int64 || len(f.Index) != 1 {
		return -1
	}
	return f.Index[0]
}()

func (r *c06Rec) In(_ pipeline.SourceID, _ string, off pipeline.Offsets, data []byte, _ bool, _ metadata.MetaData) uint64 {
	cur := reflect.ValueOf(off).Field(c06CurField).Int()
	r.mu.Lock()
	r.calls = append(r.calls, c06Call{Off: cur, Data: append([]byte(nil), data...)}) // copy: the worker reuses its buffers
	n := len(r.calls)
	r.mu.Unlock()
	return uint64(n)
}
func (r *c06Rec) IncReadOps() {
	r.mu.Lock()
	r.reads++
	n, h := r.reads, r.hook
	r.mu.Unlock()
	if h != nil {
		h(n)
	}
}
func (r *c06Rec) arm(h func(n int)) {
	r.mu.Lock()
	r.reads, r.hook = 0, h
	r.mu.Unlock()
}
func (r *c06Rec) IncMaxEventSizeExceeded(...string) {}

func (r *c06Rec) snapshot() []c06Call {
	r.mu.Lock()
	defer r.mu.Unlock()
	return append([]c06Call(nil), r.calls...)
}

// verifInfra aborts the process for environment failures (no disk, ...): exit code
// without a recorded violation = INCONCLUSIVE in the driver, never a VIOLATION.
func verifInfra(format string, args ...any) {
	fmt.Fprintf(os.Stderr, "HARNESS-INFRA: "+format+"\n", args...)
	vkit.WriteStats()
	os.Exit(3)
}

func verifRequire(t *testing.T) {
	verifSetup()
	if c06CurField < 0 {
		t.Fatalf("HARNESS: pipeline.Offsets has no int64 field named current (renamed?)")
	}
	if c07StreamNameField.Name == "" {
		t.Fatalf("HARNESS: pipeline.Event has no string field named streamName (renamed?)")
	}
}

// ---------------------------------------------------------------- execution

const (
	c06ResumeMaintenance = 0
	c06ResumeWrite       = 1
	c06ResumeCreate      = 2
)

// c06WaitDone waits until the worker has finished the round (job.isDone), as the
// provider itself observes it.
func c06WaitDone(job *Job, workerDone chan struct{}) string {
	deadline := time.Now().Add(40 * time.Second)
	for i := 0; ; i++ {
		job.mu.Lock()
		d := job.isDone
		job.mu.Unlock()
		if d {
			return ""
		}
		select {
		case <-workerDone:
			return "worker-exited"
		default:
		}
		if i < 200 {
			runtime.Gosched()
		} else {
			time.Sleep(20 * time.Microsecond)
		}
		if i%512 == 511 && time.Now().After(deadline) {
			return "timeout"
		}
	}
}

type c06Result struct {
	dupNotified int // write notifications without new data
	raced       int // appends made during a read round
	calls       []c06Call
	reopened    int
	fail        *vkit.SigError
}

// c06Execute plays one (buffer, append schedule) over the case's content with real code.
func c06Execute(c *C06Case, buf int, splits, resume, raceAt []int, dupNotify []bool) (res c06Result) {
	verifSetup()
	dir := verifTempDir("vc06-")
	defer os.RemoveAll(dir)
	path := filepath.Join(dir, "app.log")
	wf, err := os.OpenFile(path, os.O_CREATE|os.O_WRONLY|os.O_APPEND, 0o600)
	if err != nil {
		verifInfra("create: %v", err)
	}
	defer wf.Close()
	if _, err := wf.Write(c.Content[:splits[0]]); err != nil {
		verifInfra("write: %v", err)
	}
	rf, err := os.Open(path)
	if err != nil {
		verifInfra("open: %v", err)
	}
	stat, err := rf.Stat()
	if err != nil {
		verifInfra("stat: %v", err)
	}

	cfg := &Config{
		MaxFiles:       8,
		OffsetsFile:    filepath.Join(dir, "offsets.yaml"),
		OffsetsFileTmp: filepath.Join(dir, "offsets.yaml.atomic"),
		Paths:          Paths{Include: []string{filepath.Join(dir, "*.log")}},
	}
	switch c.Mode {
	case "tail":
		cfg.OffsetsOp_ = offsetsOpTail
	case "continue":
		cfg.OffsetsOp_ = offsetsOpContinue
	default:
		cfg.OffsetsOp_ = offsetsOpReset
	}
	jp := NewJobProvider(cfg, verifMetrics, verifLog)
	sid := sourceIDByStat(stat, "")
	if c.Mode == "continue" {
		// what offsetDB.load would have produced for this file (the offsets file format itself is C07's subject)
		jp.loadedOffsets = fpOffsets{sid: &inodeOffsets{
			filename: path, sourceID: sid, lastReadTimestamp: 1,
			streams: map[pipeline.StreamName]int64{"not_set": int64(c.Start)},
		}}
	}

	rec := &c06Rec{}
	w := &worker{maxEventSize: c.Max, cutOffEventByLimit: c.CutOff}
	workerDone := make(chan struct{})
	var wPanic any
	var wStack string
	go func() {
		defer close(workerDone)
		defer func() {
			if r := recover(); r != nil {
				wPanic, wStack = r, string(debug.Stack())
			}
		}()
		w.work(rec, jp, buf, verifLog)
	}()
	stuck := false
	defer func() {
		if !stuck {
			select {
			case <-workerDone:
			default:
				jp.jobsChan <- nil
				<-workerDone
			}
		}
		jp.jobsMu.RLock()
		job := jp.jobs[sid]
		jp.jobsMu.RUnlock()
		if job != nil && !stuck {
			job.mu.Lock()
			f := job.file
			job.mu.Unlock()
			if f != nil {
				_ = f.Close()
			}
		}
		_ = rf.Close()
		res.calls = rec.snapshot()
	}()
	roundFailed := func(why string) bool {
		switch why {
		case "":
			return false
		case "worker-exited":
			if wPanic != nil {
				res.fail = vkit.Errf(vkit.PanicSig(wPanic, wStack), "worker panicked: %v\n%s", wPanic, wStack)
			} else {
				res.fail = vkit.Errf("worker-returned-early", "worker.work returned although no stop was requested")
			}
		default:
			stuck = true
			res.fail = vkit.Errf("round-did-not-finish", "the job did not reach EOF/done within 40s")
		}
		return true
	}

	// racing appends: chunk i is written from inside the worker's read loop of round i
	chunkOf := func(i int) []byte {
		end := len(c.Content)
		if i+1 < len(splits) {
			end = splits[i+1]
		}
		return c.Content[splits[i]:end]
	}
	raced := make([]bool, len(splits))
	var raceMu sync.Mutex
	armRace := func(i int) {
		rec.arm(nil)
		if i >= len(splits) || i >= len(raceAt) || raceAt[i] <= 0 || len(chunkOf(i)) == 0 {
			return
		}
		k := raceAt[i]
		rec.arm(func(n int) {
			raceMu.Lock()
			defer raceMu.Unlock()
			if n == k && !raced[i] {
				raced[i] = true
				if _, err := wf.Write(chunkOf(i)); err != nil {
					verifInfra("racing append: %v", err)
				}
			}
		})
	}
	armRace(0)
	jp.addJob(rf, stat, path, "") // seeks per offsets_op and queues the job for the worker
	jp.jobsMu.RLock()
	job := jp.jobs[sid]
	jp.jobsMu.RUnlock()
	if job == nil {
		res.fail = vkit.Errf("job-not-added", "addJob did not register the job")
		return res
	}
	if roundFailed(c06WaitDone(job, workerDone)) {
		return res
	}
	for i := range splits {
		end := len(c.Content)
		if i+1 < len(splits) {
			end = splits[i+1]
		}
		chunk := c.Content[splits[i]:end]
		rec.arm(nil) // round i is over
		raceMu.Lock()
		wasRaced := raced[i]
		raceMu.Unlock()
		if len(chunk) > 0 && !wasRaced {
			if _, err := wf.Write(chunk); err != nil {
				verifInfra("append: %v", err)
			}
		}
		armRace(i + 1)
		started := true
		how := resume[i]
		if wasRaced {
			how = c06ResumeMaintenance
			res.raced++
		}
		switch how {
		case c06ResumeMaintenance:
			r := jp.maintenanceJob(job)
			switch {
			case len(chunk) > 0 && r == maintenanceResultResumed:
			case wasRaced && r == maintenanceResultNoop:
				// the round itself already read what was appended under its feet
				started = false
			case len(chunk) == 0 && r == maintenanceResultNoop:
				started = false
				res.reopened++
			default:
				res.fail = vkit.Errf("maintenance-unexpected-result", "maintenanceJob returned %d after appending %d bytes", r, len(chunk))
				return res
			}
		default:
			st, err := os.Stat(path)
			if err != nil {
				verifInfra("stat: %v", err)
			}
			jp.refreshFile(st, path, "", resume[i] == c06ResumeWrite)
		}
		if started && roundFailed(c06WaitDone(job, workerDone)) {
			return res
		}
		if i < len(dupNotify) && dupNotify[i] {
			st, err := os.Stat(path)
			if err != nil {
				verifInfra("stat: %v", err)
			}
			jp.refreshFile(st, path, "", true)
			res.dupNotified++
			// whether the notification resumes the job is the implementation's business; wait if it did
			if roundFailed(c06WaitDone(job, workerDone)) {
				return res
			}
		}
	}
	return res
}

// ---------------------------------------------------------------- reference model

type c06Line struct{ start, end int } // end = position just after the '\n'

// c06NaiveLines: the complete lines of content[from:], by plain scanning.
func c06NaiveLines(content []byte, from int) (lines []c06Line, tailStart int) {
	start := from
	for i := from; i < len(content); i++ {
		if content[i] == '\n' {
			lines = append(lines, c06Line{start, i + 1})
			start = i + 1
		}
	}
	return lines, start
}

const (
	c06Exact    = 0 // call with exactly these bytes
	c06Optional = 1 // boundary of the size limit (see c06Expected): either no call or the exact call
	c06Cut      = 2 // over the limit with cut-off: data starts with the first Max bytes and ends in '\n'
	c06Dropped  = 3 // no call
)

type c06Exp struct {
	off  int64
	line []byte
	kind int
}

func c06StartPos(c *C06Case) (p0 int, skipFirst bool) {
	switch c.Mode {
	case "tail":
		// offsets_op=tail: "sets an offset to the end of the file"; provider.go seeks to end-1 and
		// lets the worker skip up to the first newline so that a half-written event is not delivered.
		if c.Splits[0] > 0 {
			return c.Splits[0] - 1, true
		}
		return 0, false
	case "continue":
		return c.Start, false
	}
	return 0, false
}

// c06Expected lists, for every complete line from the start position, what the In call must be.
//
// Size limit: pipeline/README.md: "logs with size greater than max_event_size are discarded unless
// cut_off_event_by_limit"; "only the first max_event_size bytes of the logs are passed further".
// Whether "size" counts the terminating newline is not stated. Weaker reading taken: a line whose
// length INCLUDING '\n' is <= max must be delivered unchanged; a line whose length EXCLUDING '\n'
// is > max must not be delivered (cut-off off); the one length in between (len incl. '\n' == max+1)
// may go either way (worker.go and Pipeline.checkInputBytes both count the newline and drop it).
func c06Expected(c *C06Case) []c06Exp {
	p0, skipFirst := c06StartPos(c)
	lines, _ := c06NaiveLines(c.Content, p0)
	var exp []c06Exp
	for i, ln := range lines {
		data := c.Content[ln.start:ln.end]
		e := c06Exp{off: int64(ln.end), line: data, kind: c06Exact}
		switch {
		case skipFirst && i == 0:
			e.kind = c06Dropped
		case c.Max > 0 && !c.CutOff && len(data) > c.Max+1:
			e.kind = c06Dropped
		case c.Max > 0 && !c.CutOff && len(data) == c.Max+1:
			e.kind = c06Optional
		case c.Max > 0 && c.CutOff && len(data) > c.Max:
			e.kind = c06Cut
		}
		exp = append(exp, e)
	}
	return exp
}

func (e c06Exp) matches(c *C06Case, g c06Call) bool {
	if g.Off != e.off {
		return false
	}
	switch e.kind {
	case c06Dropped:
		return false
	case c06Cut:
		return len(g.Data) > 0 && g.Data[len(g.Data)-1] == '\n' && bytes.HasPrefix(g.Data, e.line[:c.Max])
	}
	return bytes.Equal(g.Data, e.line)
}

func c06LimitMode(c *C06Case) string {
	switch {
	case c.Max == 0:
		return "nolimit"
	case c.CutOff:
		return "cut"
	}
	return "skip"
}

// c06Judge compares the recorded calls with the model; "" = held.
func c06Judge(c *C06Case, got []c06Call) (sig, msg string) {
	exp := c06Expected(c)
	lm := c06LimitMode(c)
	i := 0
	for j, g := range got {
		k := i
		for k < len(exp) && (exp[k].kind == c06Optional || exp[k].kind == c06Dropped) && !exp[k].matches(c, g) {
			k++
		}
		if k < len(exp) && exp[k].matches(c, g) {
			i = k + 1
			continue
		}
		// mismatch: classify (first one decides)
		ctx := fmt.Sprintf("call #%d = (offset %d, data %q)", j, g.Off, g.Data)
		if len(g.Data) == 0 || g.Data[len(g.Data)-1] != '\n' {
			return "data-without-newline-emitted:" + lm, ctx + ": data handed to the pipeline does not end in a newline (unterminated tail or torn line)"
		}
		for jj := 0; jj < j; jj++ {
			if got[jj].Off == g.Off && bytes.Equal(got[jj].Data, g.Data) {
				return "line-emitted-twice:" + lm, ctx + fmt.Sprintf(": same as call #%d", jj)
			}
		}
		for kk := 0; kk < len(exp); kk++ {
			e := exp[kk]
			if e.kind == c06Dropped && e.off == g.Off && bytes.Equal(e.line, g.Data) {
				if c.Max > 0 && !c.CutOff && len(e.line) > c.Max+1 {
					return "oversize-line-emitted:" + lm, ctx + fmt.Sprintf(": line of %d bytes is over max_event_size=%d and cut-off is off", len(e.line), c.Max)
				}
				return "tail-mode-first-line-emitted:" + lm, ctx + ": offsets_op=tail must skip up to the first newline after the start position"
			}
		}
		for kk := k; kk < len(exp); kk++ {
			if exp[kk].matches(c, g) {
				return "line-missing:" + lm, ctx + fmt.Sprintf(": expected before it the line ending at offset %d %q, which was never delivered", exp[k].off, exp[k].line)
			}
		}
		if k < len(exp) {
			e := exp[k]
			if bytes.Equal(e.line, g.Data) && e.off != g.Off {
				return "wrong-offset:" + lm, ctx + fmt.Sprintf(": this line ends at byte offset %d", e.off)
			}
			if e.off == g.Off {
				if e.kind == c06Cut {
					return "cut-line-wrong-data:" + lm, ctx + fmt.Sprintf(": must start with the first %d bytes of %q and end in a newline", c.Max, e.line)
				}
				return "wrong-data:" + lm, ctx + fmt.Sprintf(": the line ending at %d is %q", e.off, e.line)
			}
			return "unexpected-call:" + lm, ctx + fmt.Sprintf(": next expected line is (offset %d, %q)", e.off, e.line)
		}
		return "unexpected-call:" + lm, ctx + ": no further complete line exists in the file"
	}
	for ; i < len(exp); i++ {
		if exp[i].kind == c06Exact || exp[i].kind == c06Cut {
			return "line-missing:" + lm, fmt.Sprintf("complete line ending at offset %d %q was never handed to the pipeline (%d calls seen)", exp[i].off, exp[i].line, len(got))
		}
	}
	return "", ""
}

// ---------------------------------------------------------------- case hygiene, labels

func c06Normalize(c *C06Case) {
	fix := func(splits, resume []int, first int) ([]int, []int) {
		if len(splits) == 0 {
			splits = []int{len(c.Content)}
		}
		s := append([]int(nil), splits...)
		for i := range s {
			if s[i] < 0 {
				s[i] = 0
			}
			if s[i] > len(c.Content) {
				s[i] = len(c.Content)
			}
		}
		sort.Ints(s)
		if first >= 0 {
			s[0] = first
			for i := range s {
				if s[i] < first {
					s[i] = first
				}
			}
		}
		r := make([]int, len(s))
		for i := range r {
			if i < len(resume) && resume[i] >= 0 && resume[i] <= 2 {
				r[i] = resume[i]
			}
		}
		return s, r
	}
	c.Splits, c.Resume = fix(c.Splits, c.Resume, -1)
	if c.Buf < 1 {
		c.Buf = 1
	}
	if c.Max < 0 {
		c.Max = 0
	}
	if c.Mode != "tail" && c.Mode != "continue" {
		c.Mode = "reset"
	}
	if c.Mode == "continue" {
		// a saved offset is the end of a committed line: snap to a line start inside the initial content
		if c.Start > c.Splits[0] {
			c.Start = c.Splits[0]
		}
		for c.Start > 0 && c.Content[c.Start-1] != '\n' {
			c.Start--
		}
	} else {
		c.Start = 0
	}
	if c.AltBuf > 0 {
		first := -1
		if c.Mode != "reset" {
			first = c.Splits[0] // the start position depends on the initial content
		}
		c.AltSplits, c.AltResume = fix(c.AltSplits, c.AltResume, first)
	}
}

// c06Shape derives the labels of a (buffer, schedule): which alignments of lines, reads and appends occur.
type c06Shape struct {
	spansReads, spansAppends, endAtBufEnd, tailHeld bool
}

func c06ShapeOf(c *C06Case, buf int, splits []int) c06Shape {
	var sh c06Shape
	p0, _ := c06StartPos(c)
	lines, tailStart := c06NaiveLines(c.Content, p0)
	// read boundaries: each round reads [pos, size) in buffers of buf bytes
	inner := map[int]bool{} // positions where one read ends and the next begins (or a round ends)
	full := map[int]bool{}  // ends of completely filled buffers
	pos := p0
	sizes := append(append([]int(nil), splits...), len(c.Content))
	for _, size := range sizes {
		for pos < size {
			n := buf
			if pos+n > size {
				n = size - pos
			}
			pos += n
			inner[pos] = true
			if n == buf {
				full[pos] = true
			}
		}
	}
	for _, ln := range lines {
		for b := ln.start + 1; b < ln.end; b++ {
			if inner[b] {
				sh.spansReads = true
			}
		}
		for _, s := range splits[1:] {
			if s > ln.start && s < ln.end {
				sh.spansAppends = true
			}
		}
		if splits[0] > ln.start && splits[0] < ln.end && splits[0] > p0 {
			sh.spansAppends = true
		}
		if full[ln.end] {
			sh.endAtBufEnd = true
		}
	}
	sh.tailHeld = tailStart < len(c.Content)
	return sh
}

// ---------------------------------------------------------------- run

func runC06(c C06Case) *vkit.Outcome {
	o := vkit.NewOutcome()
	c06Normalize(&c)
	lm := c06LimitMode(&c)
	o.Class("mode=" + c.Mode)
	o.Class("limit=" + lm)

	r := c06Execute(&c, c.Buf, c.Splits, c.Resume, c.RaceAt, c.DupNotify)
	describe := func(buf int, splits, resume []int) string {
		return fmt.Sprintf("content %q (len %d) splits %v resume %v read_buffer_size %d max_event_size %d cut_off %v offsets_op %s start %d",
			c.Content, len(c.Content), splits, resume, buf, c.Max, c.CutOff, c.Mode, c.Start)
	}
	if r.fail != nil {
		o.Failf(pC06, r.fail.Sig, "%v\n%s", r.fail.Err, describe(c.Buf, c.Splits, c.Resume))
		return o
	}
	if sig, msg := c06Judge(&c, r.calls); sig != "" {
		o.Failf(pC06, sig, "%s\n%s\ncalls: %s", msg, describe(c.Buf, c.Splits, c.Resume), c06Fmt(r.calls))
		return o
	}
	sh := c06ShapeOf(&c, c.Buf, c.Splits)
	if r.raced > 0 {
		o.Class("append-during-a-read-round")
	}
	if r.dupNotified > 0 {
		o.Class("write-notification-without-new-data")
	}
	if r.reopened > 0 {
		o.Class("descriptor-reopened-between-rounds")
	}

	if c.AltBuf > 0 {
		o.Class("metamorphic-twin")
		r2 := c06Execute(&c, c.AltBuf, c.AltSplits, c.AltResume, nil, nil)
		if r2.fail != nil {
			o.Failf(pC06, r2.fail.Sig, "%v\n%s", r2.fail.Err, describe(c.AltBuf, c.AltSplits, c.AltResume))
			return o
		}
		if sig, msg := c06Judge(&c, r2.calls); sig != "" {
			o.Failf(pC06, sig, "%s\n%s\ncalls: %s", msg, describe(c.AltBuf, c.AltSplits, c.AltResume), c06Fmt(r2.calls))
			return o
		}
		// same content, other buffer size / append schedule => same call list. With cut-off the bytes kept
		// beyond the first max are not specified (they depend on the buffer alignment), so only offsets and
		// uncut lines are compared there.
		if d := c06Diff(&c, r.calls, r2.calls); d != "" {
			o.Failf(pC06, "metamorphic-call-list-differs:"+lm, "%s\nA: %s -> %s\nB: %s -> %s", d,
				describe(c.Buf, c.Splits, c.Resume), c06Fmt(r.calls), describe(c.AltBuf, c.AltSplits, c.AltResume), c06Fmt(r2.calls))
			return o
		}
		sh2 := c06ShapeOf(&c, c.AltBuf, c.AltSplits)
		sh.spansReads = sh.spansReads || sh2.spansReads
		sh.spansAppends = sh.spansAppends || sh2.spansAppends
		sh.endAtBufEnd = sh.endAtBufEnd || sh2.endAtBufEnd
	}

	// labels
	exp := c06Expected(&c)
	for _, e := range exp {
		switch e.kind {
		case c06Dropped:
			if c.Max > 0 && !c.CutOff && len(e.line) > c.Max+1 {
				o.Class("oversize-line-skipped")
			} else {
				o.Class("tail-mode-first-line-skipped")
			}
		case c06Cut:
			o.Class("oversize-line-cut")
		case c06Optional:
			o.Class("line-at-limit-boundary")
		}
		if len(e.line) == 1 {
			o.Class("empty-line")
		}
	}
	if sh.tailHeld {
		o.Class("unterminated-tail-held-back")
	}
	if sh.spansReads {
		o.Class("line-spans-reads")
	}
	if sh.spansAppends {
		o.Class("line-spans-appends")
	}
	if sh.endAtBufEnd {
		o.Class("line-end-at-buffer-end")
	}
	if len(r.calls) > 0 && (sh.spansReads || sh.spansAppends || sh.endAtBufEnd) {
		o.Nontrivial(pC06)
	}
	return o
}

func c06Diff(c *C06Case, a, b []c06Call) string {
	if len(a) != len(b) {
		return fmt.Sprintf("%d calls vs %d calls", len(a), len(b))
	}
	for i := range a {
		if a[i].Off != b[i].Off {
			return fmt.Sprintf("call #%d: offset %d vs %d", i, a[i].Off, b[i].Off)
		}
		if !bytes.Equal(a[i].Data, b[i].Data) {
			if c.Max > 0 && c.CutOff && (len(a[i].Data) > c.Max || len(b[i].Data) > c.Max) {
				continue
			}
			return fmt.Sprintf("call #%d: data %q vs %q", i, a[i].Data, b[i].Data)
		}
	}
	return ""
}

func c06Fmt(calls []c06Call) string {
	var sb bytes.Buffer
	sb.WriteByte('[')
	for i, cl := range calls {
		if i > 0 {
			sb.WriteByte(' ')
		}
		if i >= 24 {
			sb.WriteString("…")
			break
		}
		sb.WriteString(strconv.FormatInt(cl.Off, 10))
		sb.WriteByte(':')
		sb.WriteString(strconv.Quote(string(cl.Data)))
	}
	sb.WriteByte(']')
	return sb.String()
}

// ---------------------------------------------------------------- generators

var c06Tokens = [][]byte{{'a'}, {'b'}, {0xFF}, []byte("é"), []byte("€")}

func c06GenSplits(t *rapid.T, label string, lo, hi, n int) []int {
	s := make([]int, n)
	for i := range s {
		s[i] = rapid.IntRange(lo, hi).Draw(t, label)
	}
	sort.Ints(s)
	return s
}

func c06GenResume(t *rapid.T, label string, n int) []int {
	r := make([]int, n)
	for i := range r {
		r[i] = rapid.IntRange(0, 2).Draw(t, label)
	}
	return r
}

func genC06(t *rapid.T) C06Case {
	var c C06Case
	ntok := rapid.IntRange(0, 24).Draw(t, "ntok")
	nlw := rapid.IntRange(1, 5).Draw(t, "newline_weight")
	for i := 0; i < ntok; i++ {
		k := rapid.IntRange(0, len(c06Tokens)-1+nlw).Draw(t, "tok")
		if k >= len(c06Tokens) {
			c.Content = append(c.Content, '\n')
		} else {
			c.Content = append(c.Content, c06Tokens[k]...)
		}
	}
	if c.Content == nil {
		c.Content = []byte{}
	}
	L := len(c.Content)
	c.Buf = rapid.IntRange(1, 2*L+2).Draw(t, "buf")
	if rapid.Bool().Draw(t, "limited") {
		c.Max = rapid.IntRange(1, L+1).Draw(t, "max")
		c.CutOff = rapid.Bool().Draw(t, "cutoff")
	}
	ns := rapid.IntRange(1, 4).Draw(t, "nsplits")
	c.Splits = c06GenSplits(t, "split", 0, L, ns)
	c.Resume = c06GenResume(t, "resume", ns)
	if rapid.IntRange(0, 2).Draw(t, "dups") == 0 {
		for i := 0; i < ns; i++ {
			c.DupNotify = append(c.DupNotify, rapid.Bool().Draw(t, "dup_notify"))
		}
	}
	if rapid.IntRange(0, 2).Draw(t, "races") == 0 {
		for i := 0; i < ns; i++ {
			k := 0
			if rapid.IntRange(0, 1).Draw(t, "race") == 0 {
				k = rapid.IntRange(1, 4).Draw(t, "race_at")
			}
			c.RaceAt = append(c.RaceAt, k)
		}
	}
	switch rapid.IntRange(0, 9).Draw(t, "mode") {
	case 0, 1:
		c.Mode = "tail"
	case 2, 3:
		c.Mode = "continue"
		starts := []int{0}
		for i := 0; i < c.Splits[0]; i++ {
			if c.Content[i] == '\n' {
				starts = append(starts, i+1)
			}
		}
		c.Start = rapid.SampledFrom(starts).Draw(t, "start")
	default:
		c.Mode = "reset"
	}
	if rapid.IntRange(0, 2).Draw(t, "twin") == 0 {
		c.AltBuf = rapid.IntRange(1, 2*L+2).Draw(t, "alt_buf")
		na := rapid.IntRange(1, 4).Draw(t, "alt_nsplits")
		if c.Mode == "reset" {
			c.AltSplits = c06GenSplits(t, "alt_split", 0, L, na)
		} else {
			c.AltSplits = append([]int{c.Splits[0]}, c06GenSplits(t, "alt_split", c.Splits[0], L, na-1)...)
		}
		c.AltResume = c06GenResume(t, "alt_resume", na)
	}
	return c
}

var propC06 = vkit.NewProp([]string{pC06}, "c06reader", genC06, runC06)

// TestVerifC06Random: generated contents / buffers / limits / schedules / start positions.
func TestVerifC06Random(t *testing.T) {
	defer vkit.WriteStats()
	defer verifTempCleanup()
	verifRequire(t)
	propC06.CrashFile = true
	propC06.Check(t)
}

// TestVerifC06Enum: exhaustive small scope — every content of length <= 6 over {x,'\n'}, every
// buffer 1..7, limits {0,1,2,3,5} with cut-off off/on, every single split point, offsets_op
// reset and tail. Sharded by case index.
func TestVerifC06Enum(t *testing.T) {
	defer vkit.WriteStats()
	defer verifTempCleanup()
	verifRequire(t)
	shard, _ := strconv.Atoi(os.Getenv("VERIF_SHARD"))
	shards, _ := strconv.Atoi(os.Getenv("VERIF_SHARDS"))
	if shards < 1 {
		shards = 1
	}
	type lim struct {
		max int
		cut bool
	}
	lims := []lim{{0, false}}
	for _, m := range []int{1, 2, 3, 5} {
		lims = append(lims, lim{m, false}, lim{m, true})
	}
	idx := 0
	done := 0
	for n := 0; n <= 6; n++ {
		for bits := 0; bits < 1<<n; bits++ {
			content := make([]byte, n)
			for i := range content {
				content[i] = 'x'
				if bits>>i&1 == 1 {
					content[i] = '\n'
				}
			}
			for split := 0; split <= n; split++ {
				for buf := 1; buf <= 7; buf++ {
					for _, l := range lims {
						for _, mode := range []string{"reset", "tail"} {
							idx++
							if idx%shards != shard%shards {
								continue
							}
							if vkit.OverBudget() {
								vkit.Note(pC06, fmt.Sprintf("enumeration stopped by the time budget after %d cases of this shard", done))
								return
							}
							propC06.Exec(t, C06Case{
								Content: content, Splits: []int{split}, Resume: []int{idx % 3},
								Buf: buf, Max: l.max, CutOff: l.cut, Mode: mode,
							})
							done++
						}
					}
				}
			}
		}
	}
	vkit.ClassN(pC06, "enumerated-small-scope", done)
}
