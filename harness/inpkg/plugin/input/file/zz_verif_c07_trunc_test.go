package file

// C07, commits racing a truncation (white box): when a file is truncated the job's offsets are reset
// and every event read before the truncation is ignored from then on (its offset belongs to the old
// content). Commits of such events may still arrive from output workers at any moment; however they
// interleave with truncateJob, once everything has returned the job's table - and the offsets file
// saved from it - must hold nothing of the old content ("loads back to offsets that had been committed
// ... never later ones": an old-content offset in a started-over file is ahead of everything read).
// Touched unexported surface: NewJobProvider, Job, jobProvider.commit / truncateJob, offsetDB.save.

import (
	"fmt"
	"os"
	"path/filepath"
	"runtime"
	"sync"
	"testing"

	"github.com/ozontech/file.d/pipeline"
	"github.com/ozontech/file.d/zzverif/vkit"
	"pgregory.net/rapid"
)

type C07TruncCase struct {
	// Streams[i] = offsets (ascending, > 0) that committer i commits on its own stream, in order
	Streams [][]int64 `json:"streams"`
	Names   []string  `json:"names"`
	Pre     []int64   `json:"pre"`      // offset committed on stream i before the race (0 = none)
	TruncAt int       `json:"trunc_at"` // the truncation starts after this many Gosched calls
	Yield   []int     `json:"yield"`
	Reps    int       `json:"reps"`
}

func genC07Trunc(t *rapid.T) C07TruncCase {
	c := C07TruncCase{Reps: 200, TruncAt: rapid.IntRange(0, 4).Draw(t, "trunc_at")}
	n := rapid.IntRange(1, 3).Draw(t, "committers")
	names := rapid.Permutation([]string{"stdout", "stderr", "not_set", "a:b", "поток"}).Draw(t, "names")
	for i := 0; i < n; i++ {
		c.Names = append(c.Names, names[i])
		pre := int64(0)
		if rapid.Bool().Draw(t, "has_pre") {
			pre = int64(rapid.IntRange(1, 1000).Draw(t, "pre"))
		}
		c.Pre = append(c.Pre, pre)
		off := pre
		var offs []int64
		for k, m := 0, rapid.IntRange(1, 4).Draw(t, "ncommits"); k < m; k++ {
			off += int64(rapid.IntRange(1, 500).Draw(t, "inc"))
			offs = append(offs, off)
		}
		c.Streams = append(c.Streams, offs)
		c.Yield = append(c.Yield, rapid.IntRange(0, 4).Draw(t, "yield"))
	}
	return c
}

func runC07Trunc(c C07TruncCase) *vkit.Outcome {
	o := vkit.NewOutcome()
	verifSetup()
	if len(c.Streams) == 0 || len(c.Streams) > 8 || len(c.Names) != len(c.Streams) || len(c.Pre) != len(c.Streams) || len(c.Yield) != len(c.Streams) || c.Reps < 1 || c.Reps > 2000 {
		o.Class("invalid-case")
		return o
	}
	dir := verifTempDir("vc07t-")
	defer os.RemoveAll(dir)
	logPath := filepath.Join(dir, "app.log")
	if err := os.WriteFile(logPath, []byte("x\n"), 0o600); err != nil {
		verifInfra("write: %v", err)
	}
	for rep := 0; rep < c.Reps; rep++ {
		path := filepath.Join(dir, fmt.Sprintf("offsets-%d.yaml", rep%4))
		_ = os.Remove(path)
		cfg := &Config{MaxFiles: 16, OffsetsFile: path, OffsetsFileTmp: path + ".atomic", Paths: Paths{Include: []string{filepath.Join(dir, "*.log")}}}
		cfg.PersistenceMode_ = persistenceModeAsync
		jp := NewJobProvider(cfg, verifMetrics, verifLog)
		f, err := os.Open(logPath)
		if err != nil {
			verifInfra("open: %v", err)
		}
		const sid = 77
		job := &Job{filename: logPath, inode: 5, sourceID: sid, mu: &sync.Mutex{}, file: f}
		job.lastEventSeq = 1 << 40 // everything the committers bring was read before the truncation
		for i, pre := range c.Pre {
			if pre > 0 {
				job.offsets.Set(pipeline.StreamName(c.Names[i]), pre)
			}
		}
		jp.jobsMu.Lock()
		jp.jobs[sid] = job
		jp.jobsMu.Unlock()

		var start, done sync.WaitGroup
		var mu sync.Mutex
		var panics []string
		start.Add(1)
		for i := range c.Streams {
			done.Add(1)
			go func(i int) {
				defer done.Done()
				defer func() {
					if r := recover(); r != nil {
						mu.Lock()
						panics = append(panics, fmt.Sprint(r))
						mu.Unlock()
					}
				}()
				start.Wait()
				for k := 0; k < c.Yield[i]; k++ {
					runtime.Gosched()
				}
				for k, off := range c.Streams[i] {
					jp.commit(c07Event(sid, c.Names[i], off, uint64(i*100+k+1)))
				}
			}(i)
		}
		done.Add(1)
		go func() {
			defer done.Done()
			start.Wait()
			for k := 0; k < c.TruncAt; k++ {
				runtime.Gosched()
			}
			jp.truncateJob(job)
		}()
		start.Done()
		done.Wait()
		_ = f.Close()
		if len(panics) > 0 {
			// "offset corruption" panics are a consequence of an old offset surviving the reset
			o.Failf(pC07, "trunc-race:commit-panicked", "streams %v (pre %v), repetition %d: %v", c.Streams, c.Pre, rep, panics)
			return o
		}
		job.mu.Lock()
		var left []string
		for _, so := range job.offsets {
			if so.Offset != 0 {
				left = append(left, fmt.Sprintf("%s=%d", so.Stream, so.Offset))
			}
		}
		job.mu.Unlock()
		if len(left) > 0 {
			o.Failf(pC07, "trunc-race:old-offset-survives-truncation", "after the truncation and all commits of pre-truncation events returned, the started-over job still holds %v (committed per stream %v, before the race %v; repetition %d): the next save records offsets of content that no longer exists", left, c.Streams, c.Pre, rep)
			return o
		}
		jp.offsetDB.save(jp.jobs, jp.jobsMu)
		if l, err := c07Load(path); err != nil {
			o.Failf(pC07, "trunc-race:saved-file-does-not-load", "repetition %d: %v", rep, err)
			return o
		} else {
			for _, row := range c07FromLoaded(l) {
				for name, off := range row.streams {
					if off != 0 {
						o.Failf(pC07, "trunc-race:saved-file-holds-old-offset", "repetition %d: the offsets file saved after the truncation holds %q=%d", rep, name, off)
						return o
					}
				}
			}
		}
	}
	o.Nontrivial(pC07)
	o.Class("commits-racing-a-truncation")
	return o
}

var propC07Trunc = vkit.NewProp([]string{pC07}, "c07trunccommit", genC07Trunc, runC07Trunc)

func TestVerifC07TruncCommit(t *testing.T) {
	defer vkit.WriteStats()
	defer verifTempCleanup()
	verifRequire(t)
	propC07Trunc.CrashFile = true
	propC07Trunc.Check(t)
}
