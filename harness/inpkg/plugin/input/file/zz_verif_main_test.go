package file

// Shared glue of the white-box checks that live in this package (C06, C07).
// The package has its own TestMain (file_test.go), so every TestVerif*
// function defers vkit.WriteStats() itself.

import (
	"os"
	"sync"
	"testing"

	"github.com/ozontech/file.d/metric"
	"github.com/ozontech/file.d/zzverif/fdkit"
	"github.com/ozontech/file.d/zzverif/vkit"
	"github.com/prometheus/client_golang/prometheus"
	"go.uber.org/zap"
)

func init() {
	// The package's TestMain and the checks create temp dirs; keep them inside the
	// shard's work dir (wiped by the driver) instead of littering /tmp.
	if w := os.Getenv("VERIF_WORK"); w != "" {
		_ = os.Setenv("TMPDIR", w)
	}
}

// TestReplay re-runs stored cases (regress tier, bin/vcheck --replay).
func TestReplay(t *testing.T) {
	defer vkit.WriteStats()
	verifSetup()
	vkit.Replay(t)
}

var (
	verifOnce    sync.Once
	verifMetrics *metricCollection
	verifLog     *zap.SugaredLogger
)

// verifSetup installs the silent logger whose Fatal panics and builds the
// metric collection shared by all cases.
func verifSetup() {
	verifOnce.Do(func() {
		fdkit.InstallLogger()
		verifLog = fdkit.NewLogger().Sugar()
		ctl := metric.NewCtl("verif", prometheus.NewRegistry(), 0, 0)
		verifMetrics = newMetricCollection(
			ctl.RegisterCounter("verif_worker1", "h"),
			ctl.RegisterCounter("verif_worker2", "h"),
			ctl.RegisterGauge("verif_worker3", "h"),
			ctl.RegisterGauge("verif_worker4", "h"),
		)
	})
}
