package file

// Shared glue of the white-box checks that live in this package (C06, C07).
// The package has its own TestMain (file_test.go), so every TestVerif*
// function defers vkit.WriteStats() itself.

import (
	"os"
	"path/filepath"
	"strings"
	"sync"
	"testing"

	"github.com/ozontech/file.d/metric"
	"github.com/ozontech/file.d/zzverif/fdkit"
	"github.com/ozontech/file.d/zzverif/vkit"
	"github.com/prometheus/client_golang/prometheus"
	"go.uber.org/zap"
)

func init() {
	// The package's TestMain and the checks create temp dirs; keep them inside the
	// shard's work dir (wiped by the driver) instead of littering /tmp.
	if w := os.Getenv("VERIF_WORK"); w != "" {
		_ = os.Setenv("TMPDIR", w)
	}
}

// TestReplay re-runs stored cases (regress tier, bin/vcheck --replay).
func TestReplay(t *testing.T) {
	defer vkit.WriteStats()
	defer verifTempCleanup()
	verifRequire(t)
	vkit.Replay(t)
}

var (
	verifOnce    sync.Once
	verifMetrics *metricCollection
	verifLog     *zap.SugaredLogger
)

// verifSetup installs the silent logger whose Fatal panics and builds the
// metric collection shared by all cases.
func verifSetup() {
	verifOnce.Do(func() {
		fdkit.InstallLogger()
		verifLog = fdkit.NewLogger().Sugar()
		ctl := metric.NewCtl("verif", prometheus.NewRegistry(), 0, 0)
		verifMetrics = newMetricCollection(
			ctl.RegisterCounter("verif_worker1", "h"),
			ctl.RegisterCounter("verif_worker2", "h"),
			ctl.RegisterGauge("verif_worker3", "h"),
			ctl.RegisterGauge("verif_worker4", "h"),
		)
	})
}

var (
	verifTmpOnce sync.Once
	verifTmpBase string
)

// verifTempDir creates a fresh directory for one case. The base lives on tmpfs when there is one:
// the checks judge what file.d asks the kernel to do (order of write/fsync/rename, bytes read), not
// the latency of a shared disk whose journal stalls for minutes when other builds run; fsync on tmpfs
// is still a traced syscall. VERIF_TMP_ON_DISK=1 forces os.TempDir().
func verifTempDir(prefix string) string {
	verifTmpOnce.Do(func() {
		root := os.TempDir()
		if st, err := os.Stat("/dev/shm"); err == nil && st.IsDir() && os.Getenv("VERIF_TMP_ON_DISK") == "" {
			root = "/dev/shm"
		}
		if w := os.Getenv("VERIF_WORK"); w != "" && root == "/dev/shm" {
			// one base per shard work dir, wiped when the shard runs again (a killed run leaves nothing behind for long)
			b := filepath.Join(root, "verif"+strings.ReplaceAll(w, "/", "_"))
			_ = os.RemoveAll(b)
			if os.MkdirAll(b, 0o700) == nil {
				verifTmpBase = b
				return
			}
		}
		b, err := os.MkdirTemp(root, "verif-file-")
		if err != nil {
			verifInfra("temp base: %v", err)
		}
		verifTmpBase = b
	})
	_ = os.MkdirAll(verifTmpBase, 0o700)
	d, err := os.MkdirTemp(verifTmpBase, prefix)
	if err != nil {
		verifInfra("mkdtemp: %v", err)
	}
	return d
}

// verifTempCleanup removes the base; deferred by every TestVerif* function.
func verifTempCleanup() {
	if verifTmpBase != "" {
		_ = os.RemoveAll(verifTmpBase)
	}
}
