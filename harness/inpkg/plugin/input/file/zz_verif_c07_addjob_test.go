package file

// C07, how a job's table starts (white box): a file found by the provider gets its committed-offsets
// table from the loaded offsets file (offsets_op continue, start phase) or an empty one (tail, reset,
// files that appear after the start). Whatever the mode and the content of the file, a save that
// follows - before any commit, or after commits on some streams - must load back to offsets that
// were committed: the ones of this run, or the ones the previous run had left in the offsets file.
// Touched unexported surface: NewJobProvider, jobProvider.addJob / commit / loadedOffsets / isStarted,
// offsetDB.save.

import (
	"fmt"
	"os"
	"path/filepath"
	"sync"
	"testing"
	"time"

	"github.com/ozontech/file.d/pipeline"
	"github.com/ozontech/file.d/zzverif/fdkit"
	"github.com/ozontech/file.d/zzverif/vkit"
	"pgregory.net/rapid"
)

type C07AddJobCommit struct {
	Stream string `json:"stream"`
	Offset int64  `json:"offset"`
}

type C07AddJobCase struct {
	Op      string `json:"op"`      // continue | tail | reset
	Started bool   `json:"started"` // the file appears after the start phase
	// RealStart (with Started): the provider goes through its own start() - offsets file loaded from disk,
	// watcher on an empty directory, background loops - instead of having its state set by hand
	RealStart bool `json:"real_start,omitempty"`
	Sync      bool `json:"sync,omitempty"` // persistence_mode sync
	Size    int    `json:"size"`    // bytes in the file when it is found
	// Loaded: what the offsets file of the previous run held for this file
	Loaded []C07AddJobCommit `json:"loaded,omitempty"`
	// Commits of this run, ascending per stream and above what was loaded
	Commits []C07AddJobCommit `json:"commits,omitempty"`
}

func genC07AddJob(t *rapid.T) C07AddJobCase {
	c := C07AddJobCase{
		Op:      rapid.SampledFrom([]string{"continue", "tail", "tail", "reset"}).Draw(t, "op"),
		Started: rapid.IntRange(0, 3).Draw(t, "started") == 0,
		Size:    rapid.SampledFrom([]int{0, 1, 2, 17, 200, 5000}).Draw(t, "size"),
	}
	if c.Started {
		c.RealStart = rapid.Bool().Draw(t, "real_start")
	}
	c.Sync = rapid.Bool().Draw(t, "sync")
	names := []string{"not_set", "stdout", "stderr", "a:b"}
	top := map[string]int64{}
	if rapid.Bool().Draw(t, "has_loaded") {
		for _, n := range names[:rapid.IntRange(1, 3).Draw(t, "nloaded")] {
			off := int64(rapid.IntRange(1, max(1, c.Size)).Draw(t, "loaded_off"))
			c.Loaded = append(c.Loaded, C07AddJobCommit{n, off})
			top[n] = off
		}
	}
	for i, m := 0, rapid.IntRange(0, 4).Draw(t, "ncommits"); i < m; i++ {
		n := rapid.SampledFrom(names).Draw(t, "commit_stream")
		// events of this run lie behind everything the table may already hold for the file
		base := max(top[n], int64(c.Size))
		top[n] = base + int64(rapid.IntRange(1, 300).Draw(t, "commit_inc"))
		c.Commits = append(c.Commits, C07AddJobCommit{n, top[n]})
	}
	return c
}

func runC07AddJob(c C07AddJobCase) *vkit.Outcome {
	o := vkit.NewOutcome()
	verifSetup()
	ops := map[string]offsetsOp{"continue": offsetsOpContinue, "tail": offsetsOpTail, "reset": offsetsOpReset}
	op, ok := ops[c.Op]
	if !ok || c.Size < 0 || c.Size > 1<<20 {
		o.Class("invalid-case")
		return o
	}
	dir := verifTempDir("vc07a-")
	defer os.RemoveAll(dir)
	logPath := filepath.Join(dir, "app.log")
	content := make([]byte, c.Size)
	for i := range content {
		content[i] = 'x'
		if i%17 == 16 || i == len(content)-1 {
			content[i] = '\n'
		}
	}
	if err := os.WriteFile(logPath, content, 0o600); err != nil {
		verifInfra("write: %v", err)
	}
	path := filepath.Join(dir, "offsets.yaml")
	cfg := &Config{MaxFiles: 16, OffsetsFile: path, OffsetsFileTmp: path + ".atomic", Paths: Paths{Include: []string{filepath.Join(dir, "*.log")}}}
	cfg.PersistenceMode_ = persistenceModeAsync
	if c.Sync {
		cfg.PersistenceMode_ = persistenceModeSync
	}
	cfg.OffsetsOp_ = op
	if c.RealStart && c.Started {
		empty := filepath.Join(dir, "watched-and-empty")
		if err := os.MkdirAll(empty, 0o700); err != nil {
			verifInfra("mkdir: %v", err)
		}
		cfg.WatchingDir = empty
		cfg.Paths = Paths{Include: []string{filepath.Join(empty, "*.log")}}
		cfg.AsyncInterval_, cfg.MaintenanceInterval_, cfg.ReportInterval_ = time.Hour, 20*time.Millisecond, 20*time.Millisecond
	}
	jp := NewJobProvider(cfg, verifMetrics, verifLog)
	f, err := os.Open(logPath)
	if err != nil {
		verifInfra("open: %v", err)
	}
	defer f.Close()
	stat, err := f.Stat()
	if err != nil {
		verifInfra("stat: %v", err)
	}
	sid := sourceIDByStat(stat, "")
	loaded := map[string]int64{}
	if len(c.Loaded) > 0 {
		streams := map[pipeline.StreamName]int64{}
		for _, l := range c.Loaded {
			streams[pipeline.StreamName(l.Stream)] = l.Offset
			loaded[l.Stream] = l.Offset
		}
		if c.RealStart && c.Started {
			// what the previous run left on disk
			prev := C07Job{File: logPath, Inode: uint64(getInode(stat)), SourceID: uint64(sid), TS: 1}
			for _, l := range c.Loaded {
				prev.Streams = append(prev.Streams, C07Stream{Name: l.Stream, Off: l.Offset})
			}
			newOffsetDB(path, path+".atomic").save(c07BuildJobs([]C07Job{prev}), &sync.RWMutex{})
		} else {
			jp.loadedOffsets = fpOffsets{sid: &inodeOffsets{filename: logPath, sourceID: sid, streams: streams}}
		}
	}
	if c.RealStart && c.Started {
		if rec, _ := fdkit.CatchPanic(jp.start); rec != nil {
			o.Failf(pC07, "addjob:start-panicked", "%v", rec)
			return o
		}
		defer func() { _, _ = fdkit.CatchPanic(jp.stop) }()
		o.Class("addjob:provider-started-by-its-own-start")
	} else {
		jp.isStarted.Store(c.Started)
	}
	what := fmt.Sprintf("offsets_op %s, file of %d bytes found %s, offsets file of the previous run held %v for it", c.Op, c.Size, map[bool]string{false: "in the start phase", true: "after the start"}[c.Started], c.Loaded)
	if rec, _ := fdkit.CatchPanic(func() { jp.addJob(f, stat, logPath, "") }); rec != nil {
		o.Failf(pC07, "addjob:add-job-panicked", "%s: %v", what, rec)
		return o
	}

	committed := map[string]int64{}
	check := func(when string) bool {
		jp.offsetDB.save(jp.jobs, jp.jobsMu)
		l, err := c07Load(path)
		if err != nil {
			o.Failf(pC07, "addjob:saved-file-does-not-load", "%s, %s: %v", what, when, err)
			return false
		}
		for _, row := range c07FromLoaded(l) {
			for name, off := range row.streams {
				// a file that appears after the start phase is new content: offsets of an earlier file with the
				// same id are not commits of it ("load saved offsets only on start phase")
				if off == 0 || off == committed[name] || (committed[name] == 0 && off == loaded[name] && !c.Started) {
					continue
				}
				o.Failf(pC07, "addjob:saved-offset-never-committed", "%s, %s: the offsets file holds %q=%d; committed in this run on that stream: %d, left by the previous run: %d", what, when, name, off, committed[name], loaded[name])
				return false
			}
		}
		return true
	}
	if !check("saved before any commit") {
		return o
	}
	for i, cm := range c.Commits {
		if rec, _ := fdkit.CatchPanic(func() { jp.commit(c07Event(uint64(sid), cm.Stream, cm.Offset, uint64(i+1))) }); rec != nil {
			o.Failf(pC07, "addjob:commit-panicked", "%s: commit of %q=%d (all commits %v): %v", what, cm.Stream, cm.Offset, c.Commits, rec)
			return o
		}
		committed[cm.Stream] = cm.Offset
		if !check(fmt.Sprintf("saved after commit #%d of %v", i, c.Commits)) {
			return o
		}
	}
	o.Class("addjob:op=" + c.Op)
	if c.Started {
		o.Class("addjob:file-appeared-after-start")
	}
	if len(c.Loaded) > 0 {
		o.Class("addjob:previous-run-left-offsets")
	}
	if c.Size > 0 && (c.Op != "continue" || len(c.Loaded) > 0) {
		o.Nontrivial(pC07)
	}
	return o
}

var propC07AddJob = vkit.NewProp([]string{pC07}, "c07addjob", genC07AddJob, runC07AddJob)

func TestVerifC07AddJob(t *testing.T) {
	defer vkit.WriteStats()
	defer verifTempCleanup()
	verifRequire(t)
	propC07AddJob.Check(t)
}
