//go:build linux

package journalctl

// C07 for the journalctl input's use of the offsets file: after every Commit and after Stop the file
// loads back to exactly what had been committed (number of commits, cursor of the last committed
// entry) - never to the cursor of a later, uncommitted entry - whatever happens to the event objects
// afterwards (the pool hands them out again for later entries).

import (
	"fmt"
	"os"
	"os/exec"
	"path/filepath"
	"strings"
	"testing"

	"github.com/ozontech/file.d/offset"
	"github.com/ozontech/file.d/pipeline"
	"github.com/ozontech/file.d/zzverif/fdkit"
	"github.com/ozontech/file.d/zzverif/vkit"
	insaneJSON "github.com/ozontech/insane-json"
	"pgregory.net/rapid"
)

func TestMain(m *testing.M)   { fdkit.InstallLogger(); vkit.Main(m) }
func TestReplay(t *testing.T) { vkit.Replay(t) }

const c07 = "C07"

// JStep: the journal entry with Cursor is decoded into event object Obj (as the pool reuses objects);
// Commit says whether the pipeline acknowledges it right away (entries are committed in read order).
type JStep struct {
	Obj    int    `json:"obj"`
	Cursor string `json:"cursor"`
	Msg    string `json:"msg"`
	Commit bool   `json:"commit"`
}

type JCase struct {
	Objects int     `json:"objects"`
	Steps   []JStep `json:"steps"`
	Restart bool    `json:"restart"` // a second plugin instance loads the file, commits one more entry and stops
}

func genJ(t *rapid.T) JCase {
	c := JCase{Objects: rapid.IntRange(1, 3).Draw(t, "objects"), Restart: rapid.Bool().Draw(t, "restart")}
	n := rapid.IntRange(1, 12).Draw(t, "nsteps")
	for i := 0; i < n; i++ {
		cur := rapid.OneOf(
			rapid.StringMatching(`s=[0-9a-f]{4,12};i=[0-9a-f]{1,5};b=[0-9a-f]{6};m=[0-9a-f]{2,8};t=[0-9a-f]{6};x=[0-9a-f]{4}`),
			rapid.StringMatching(`[a-z0-9=;:# '"\-\\/{}\[\],.?!%&*|>~@`+"`"+`]{1,24}`),
			rapid.SampledFrom([]string{"", " ", "null", "~", "true", "1", "0x10", "- a", "a: b", "{}", "[]", "'", `"`, "é日本", "a\tb", "a#b", " lead", "trail ", "|", ">"}),
		).Draw(t, "cursor")
		c.Steps = append(c.Steps, JStep{
			Obj:    rapid.IntRange(0, c.Objects-1).Draw(t, "obj"),
			Cursor: cur,
			Msg:    rapid.StringMatching(`[a-z ]{0,40}`).Draw(t, "msg"),
			Commit: rapid.IntRange(0, 3).Draw(t, "commit") > 0,
		})
	}
	return c
}

func jq(s string) string {
	var sb strings.Builder
	vkit.EncodeString(&sb, s)
	return sb.String()
}

func jcPlugin(file, name string) (*Plugin, *exec.Cmd, error) {
	p := &Plugin{}
	p.config = &Config{OffsetsFile: file}
	p.logger = fdkit.NewLogger()
	p.registerMetrics(fdkit.MetricCtl(name))
	// Start without the journalctl child: the offsets part of Start ...
	offInfo := &offsetInfo{}
	if err := offset.LoadYAML(p.config.OffsetsFile, offInfo); err != nil {
		return nil, nil, err
	}
	p.offInfo.Store(offInfo)
	// ... and a stand-in child process for Stop to signal
	cmd := exec.Command("sleep", "600")
	if err := cmd.Start(); err != nil {
		return nil, nil, err
	}
	p.reader = &journalReader{cmd: cmd}
	return p, cmd, nil
}

func runJ(c JCase) *vkit.Outcome {
	o := vkit.NewOutcome()
	if c.Objects < 1 || c.Objects > 8 || len(c.Steps) == 0 {
		o.Class("invalid-case")
		return o
	}
	dir, err := os.MkdirTemp("", "verif-c07-jc")
	if err != nil {
		panic(err)
	}
	defer os.RemoveAll(dir)
	file := filepath.Join(dir, "offsets.yaml")
	p, cmd, err := jcPlugin(file, fdkit.UniqueName("c07jc"))
	if err != nil {
		o.Failf(c07, "journalctl:start-failed", "%v", err)
		return o
	}
	objs := make([]*pipeline.Event, c.Objects)
	for i := range objs {
		objs[i] = &pipeline.Event{Root: insaneJSON.Spawn()}
	}
	defer func() {
		for _, e := range objs {
			insaneJSON.Release(e.Root)
		}
	}()
	commits, cursor := int64(0), ""
	check := func(when string) bool {
		got := &offsetInfo{}
		if err := offset.LoadYAML(file, got); err != nil {
			o.Failf(c07, "journalctl:offsets-file-does-not-load", "%s: %v", when, err)
			return false
		}
		if commits == 0 {
			// nothing committed yet: no file, or an empty state
			if got.Offset != 0 || got.Cursor != "" {
				o.Failf(c07, "journalctl:state-without-commit", "%s: file holds offset %d cursor %q before any commit", when, got.Offset, got.Cursor)
				return false
			}
			return true
		}
		if got.Offset != commits || got.Cursor != cursor {
			sig := "journalctl:file-differs-from-committed-state"
			for _, s := range c.Steps {
				if s.Cursor == got.Cursor && got.Cursor != cursor {
					sig = "journalctl:file-holds-cursor-of-another-entry"
				}
			}
			o.Failf(c07, sig, "%s: file loads to offset %d cursor %q, committed are %d entries, last cursor %q", when, got.Offset, got.Cursor, commits, cursor)
			return false
		}
		return true
	}
	reusedAfterCommit := false
	lastCommittedObj := -1
	for i, s := range c.Steps {
		e := objs[s.Obj]
		line := fmt.Sprintf(`{"__CURSOR":%s,"MESSAGE":%s}`, jq(s.Cursor), jq(s.Msg))
		if err := e.Root.DecodeString(line); err != nil {
			panic(fmt.Sprintf("harness: %v: %s", err, line))
		}
		if s.Obj == lastCommittedObj && !s.Commit {
			reusedAfterCommit = true
		}
		if s.Commit {
			p.Commit(e)
			commits++
			cursor = s.Cursor
			lastCommittedObj = s.Obj
		}
		if !check(fmt.Sprintf("after step %d (%+v)", i, s)) {
			_ = cmd.Process.Kill()
			_ = cmd.Wait()
			return o
		}
	}
	p.Stop()
	_ = cmd.Wait()
	if !check("after Stop") {
		return o
	}
	if c.Restart {
		p2, cmd2, err := jcPlugin(file, fdkit.UniqueName("c07jc"))
		if err != nil {
			o.Failf(c07, "journalctl:restart-load-failed", "%v", err)
			return o
		}
		if st := p2.offInfo.Load(); commits > 0 && (st.Offset != commits || st.Cursor != cursor) {
			o.Failf(c07, "journalctl:restart-state-differs", "restart resumes from offset %d cursor %q, committed were %d / %q", st.Offset, st.Cursor, commits, cursor)
		}
		e := objs[0]
		_ = e.Root.DecodeString(`{"__CURSOR":"after-restart","MESSAGE":"m"}`)
		p2.Commit(e)
		commits++
		cursor = "after-restart"
		_ = e.Root.DecodeString(`{"__CURSOR":"uncommitted-tail","MESSAGE":"m"}`)
		p2.Stop()
		_ = cmd2.Wait()
		if !check("after restart, commit, Stop") {
			return o
		}
		o.Class("journalctl:restarted")
	}
	if commits >= 2 {
		o.Nontrivial(c07)
	}
	if reusedAfterCommit {
		o.Class("journalctl:event-object-reused-after-its-commit")
	}
	return o
}

var propJ = vkit.NewProp([]string{c07}, "c07journalctl", genJ, runJ)

func TestVerifC07Journalctl(t *testing.T) { propJ.CrashFile = true; propJ.Check(t) }
