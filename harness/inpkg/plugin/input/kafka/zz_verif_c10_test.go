package kafka

// C10 — the kafka input never acknowledges a record that is not finished.
//
// A real pipeline.Pipeline runs with the real kafka input Plugin behind a thin
// recording wrapper. Plugin.Start runs unchanged (client.go's NewClient talks to
// a loopback stub that only answers ApiVersions, see zz_verif_c10_broker_test.go),
// generated kgo records are handed to the plugin's own per-partition consumers
// (splitConsume.Assigned + pconsumer.consume, the code that calls controller.In),
// a scripted action passes / discards / stalls, a scripted batched output
// acknowledges in a scripted completion order, and after every Plugin.Commit the
// client's MarkedOffsets() are judged against the recorded history.
//
// Touched unexported surface: Plugin{client, s, cancel}, splitConsume{consumers}
// and its Assigned/Lost, pconsumer{fetches}, tp; the offline fallback route
// (VERIF_C10_CLIENT=offline or no loopback listener) also repeats Start's field
// assignments (controller, logger, config, idByTopic, metaTemplater, registerMetrics,
// splitConsume{...}). A rename of any of them breaks the build of this check only.

import (
	"context"
	"fmt"
	"regexp"
	"runtime"
	"runtime/debug"
	"sort"
	"strconv"
	"strings"
	"sync"
	"testing"
	"time"

	"github.com/ozontech/file.d/cfg"
	"github.com/ozontech/file.d/decoder"
	"github.com/ozontech/file.d/fd"
	"github.com/ozontech/file.d/pipeline"
	"github.com/ozontech/file.d/pipeline/metadata"
	_ "github.com/ozontech/file.d/plugin/action/split"
	"github.com/ozontech/file.d/zzverif/fdkit"
	"github.com/ozontech/file.d/zzverif/vkit"
	"github.com/twmb/franz-go/pkg/kgo"
	"pgregory.net/rapid"
)

const c10P = "C10"

func TestMain(m *testing.M)   { fdkit.InstallLogger(); vkit.Main(m) }
func TestReplay(t *testing.T) { vkit.Replay(t) }

// ------------------------------------------------------------------ case

// C10Case is one generated scenario (plain JSON).
type C10Case struct {
	Topics     []string  `json:"topics"` // the distinct topics
	// TopicList: the `topics` option as configured, as indices into Topics; empty = Topics as they are.
	// A list may name a topic more than once (kafka subscribes to the set), every topic appears at least once.
	TopicList []int `json:"topic_list,omitempty"`
	Parts      []C10Part `json:"parts"`  // consumed partitions, distinct (topic, partition)
	SingleProc bool      `json:"single_proc"`
	Pool       string    `json:"pool"` // std | low_memory
	Capacity   int       `json:"capacity"`
	WithMeta   bool      `json:"with_meta"`
	Output     C10Output `json:"output"`
}

// C10Part is one consumed partition: records in consumption order.
type C10Part struct {
	Topic     int        `json:"topic"` // index into Topics
	Partition int32      `json:"partition"`
	Chunks    []C10Chunk `json:"chunks"` // how the records arrive in fetches; the last fetch takes the rest
	Records   []C10Rec   `json:"records"`
}

// C10Chunk is one fetch handed to the partition consumer.
type C10Chunk struct {
	N     int `json:"n"`
	GapUs int `json:"gap_us,omitempty"` // pause before the fetch is handed over
}

// C10Rec is one kafka record.
type C10Rec struct {
	ID     int    `json:"id"` // > 0, unique
	Offset int64  `json:"offset"`
	Epoch  int32  `json:"epoch"`
	// pass | discard | split: the record is an array that the real split action turns into two children
	// and a parent; the scripted action behind it joins the children (holds the first, collapses the
	// second) until the split's own time-out event flushes it, the parent carries the offset
	Op     string `json:"op"`
	Stall  int    `json:"stall,omitempty"`  // n>0: n Gosched calls in the action, n<0: sleep -n * 200us
	Refuse string `json:"refuse,omitempty"` // "", empty (no value), undecodable (not JSON): refused by Pipeline.In
}

// C10Output configures the scripted batched output.
type C10Output struct {
	Workers    int       `json:"workers"`
	BatchCount int       `json:"batch_count"`
	FlushMs    int       `json:"flush_ms"`
	Sends      []C10Send `json:"sends,omitempty"` // by send ordinal
}

// C10Send: the k-th send does not return before send #WaitFor has returned (-1: no constraint).
type C10Send struct {
	WaitFor int `json:"wait_for"`
}

const c10MaxOffset = int64(1)<<47 - 1

var c10TopicPool = []string{"t", "t.a", "t-a", "T", "logs", "logs2", "k8s_x", "тема"}

func genC10(t *rapid.T) C10Case {
	c := C10Case{}
	nt := rapid.IntRange(1, 4).Draw(t, "ntopics")
	c.Topics = append(c.Topics, rapid.Permutation(c10TopicPool).Draw(t, "topics")[:nt]...)
	if rapid.IntRange(0, 3).Draw(t, "dup_topics") == 0 {
		for i := 0; i < nt; i++ {
			c.TopicList = append(c.TopicList, i)
		}
		for n := rapid.IntRange(1, 2).Draw(t, "ndup"); n > 0; n-- {
			at := rapid.IntRange(0, len(c.TopicList)).Draw(t, "dup_at")
			which := rapid.IntRange(0, nt-1).Draw(t, "dup_which")
			c.TopicList = append(c.TopicList[:at], append([]int{which}, c.TopicList[at:]...)...)
		}
	}
	c.SingleProc = rapid.IntRange(0, 3).Draw(t, "single") == 0
	c.Pool = rapid.SampledFrom([]string{"std", "low_memory"}).Draw(t, "pool")
	// small capacities make event objects recycle: UseSpread routes by the SeqID an event object
	// carries from its previous use, fresh objects all go to stream 0
	c.Capacity = rapid.IntRange(1, 12).Draw(t, "capacity")
	c.WithMeta = rapid.IntRange(0, 3).Draw(t, "meta") == 0
	nparts := rapid.IntRange(1, 4).Draw(t, "nparts")
	nextID := 1
	seen := map[string]bool{}
	budget := 28
	for pi := 0; pi < nparts && budget > 0; pi++ {
		part := C10Part{
			Topic:     rapid.IntRange(0, nt-1).Draw(t, "topic"),
			Partition: rapid.SampledFrom([]int32{0, 1, 2, 7, 255, 256, 65534, 65535}).Draw(t, "partition"),
		}
		k := fmt.Sprintf("%d/%d", part.Topic, part.Partition)
		if seen[k] {
			continue
		}
		seen[k] = true
		n := rapid.IntRange(1, min(12, budget)).Draw(t, "nrecords")
		budget -= n
		// offsets strictly increasing (gaps as in compacted topics), epochs never decreasing
		incs := make([]int64, n)
		var sum int64
		for i := 1; i < n; i++ {
			incs[i] = 1
			switch rapid.IntRange(0, 9).Draw(t, "inc") {
			case 8:
				incs[i] = int64(rapid.IntRange(2, 5).Draw(t, "gap"))
			case 9:
				incs[i] = 1000
			}
			sum += incs[i]
		}
		var base int64
		switch rapid.IntRange(0, 4).Draw(t, "base") {
		case 0:
			base = 0
		case 1:
			base = int64(rapid.IntRange(1, 1000).Draw(t, "base_small"))
		case 2:
			base = int64(1)<<40 + int64(rapid.IntRange(0, 1<<20).Draw(t, "base_big"))
		case 3:
			base = c10MaxOffset - sum // the last record sits at 2^47-1
		case 4:
			base = 65535
		}
		epoch := rapid.SampledFrom([]int32{0, 0, 1, 7, 300, 65533, 65535}).Draw(t, "epoch")
		off := base
		for i := 0; i < n; i++ {
			off += incs[i]
			if i > 0 && epoch < 65535 && rapid.IntRange(0, 5).Draw(t, "bump") == 0 {
				epoch++
				if rapid.IntRange(0, 3).Draw(t, "bump_to_max") == 0 {
					epoch = 65535
				}
			}
			r := C10Rec{ID: nextID, Offset: off, Epoch: epoch, Op: "pass"}
			nextID++
			switch k := rapid.IntRange(0, 9).Draw(t, "op"); {
			case k >= 7:
				r.Op = "discard"
			case k == 0 && rapid.Bool().Draw(t, "split"):
				r.Op = "split"
			}
			switch rapid.IntRange(0, 9).Draw(t, "stall") {
			case 0:
				r.Stall = rapid.IntRange(1, 5).Draw(t, "gosched")
			case 1:
				r.Stall = -1
			case 2:
				r.Stall = -rapid.IntRange(2, 10).Draw(t, "sleep")
			}
			if rapid.IntRange(0, 14).Draw(t, "refuse") == 0 {
				r.Refuse = rapid.SampledFrom([]string{"empty", "undecodable"}).Draw(t, "refuse_kind")
			}
			part.Records = append(part.Records, r)
		}
		left := n
		for left > 0 {
			ch := C10Chunk{N: rapid.IntRange(1, left).Draw(t, "chunk")}
			if rapid.IntRange(0, 4).Draw(t, "hasgap") == 0 {
				ch.GapUs = rapid.SampledFrom([]int{1, 50, 300, 1500}).Draw(t, "gap_us")
			}
			left -= ch.N
			part.Chunks = append(part.Chunks, ch)
		}
		c.Parts = append(c.Parts, part)
	}
	c.Output = C10Output{
		Workers:    rapid.IntRange(1, 4).Draw(t, "workers"),
		BatchCount: rapid.IntRange(1, 5).Draw(t, "batch_count"),
		FlushMs:    rapid.SampledFrom([]int{1, 5, 20}).Draw(t, "flush"),
	}
	// a batch larger than the pool never fills: every round then waits for the Batcher's 100 ms heartbeat;
	// keep such configurations, but rare
	if c.Output.BatchCount > c.Capacity && rapid.IntRange(0, 4).Draw(t, "keep_big_batch") > 0 {
		c.Output.BatchCount = c.Capacity
	}
	ns := rapid.IntRange(0, 10).Draw(t, "nsends")
	for k := 0; k < ns; k++ {
		s := C10Send{WaitFor: -1}
		// a constraint can only be met when both sends can be running at once (else it costs a 100 ms time-out)
		if c.Output.Workers >= 2 && rapid.IntRange(0, 2).Draw(t, "haswait") == 0 {
			w := k + rapid.IntRange(-(c.Output.Workers - 1), c.Output.Workers-1).Draw(t, "wait")
			if w == k || w < 0 {
				w = k + 1
			}
			s.WaitFor = w
		}
		c.Output.Sends = append(c.Output.Sends, s)
	}
	return c
}

func (r *C10Rec) value() []byte {
	switch r.Refuse {
	case "empty":
		return nil
	case "undecodable":
		return []byte(fmt.Sprintf(`{"id":%d,"x":`, r.ID))
	}
	if r.Op == "split" {
		return []byte(fmt.Sprintf(`{"id":%d,"items":[{"id":%d,"k":1},{"id":%d,"k":2}]}`, r.ID, r.ID, r.ID))
	}
	return []byte(fmt.Sprintf(`{"id":%d}`, r.ID))
}

// ------------------------------------------------------------------ recorder

type c10Entry struct {
	Seq  int64  `json:"seq"`
	What string `json:"what"`
	ID   int    `json:"id,omitempty"`
	Info string `json:"info,omitempty"`
}

type c10State struct {
	rec  *C10Rec
	part int // index into case.Parts

	pushed     bool // part of a fetch handed to the plugin's partition consumer (= consumed)
	inCalled   bool
	inReturned bool
	accepted   bool
	proc       int // ordinal (1..) of the processor whose action saw it
	dropped    bool
	acked      bool
	committed  int
}

type c10Fail struct{ sig, msg string }

type c10H struct {
	c  *C10Case
	mu sync.Mutex

	seq    int64
	hist   []c10Entry
	recs   map[int]*c10State
	byPart [][]*c10State // consumption (= offset) order
	fails  []c10Fail
	failed map[string]bool

	marks     map[string]map[int32]kgo.EpochOffset // MarkedOffsets() after the previous Commit
	maxPushed []int64                              // per part: highest consumed offset, -1 none
	lastComm  []int64                              // per part: offset of the latest committed record, -1 none
	procOrd   map[pipeline.ActionPluginController]int
	procs     int

	useSpread, disableStreams bool
	inFlight                  []int
	maxInFlight               int // max over partitions of records accepted-or-entering and not yet finished
	procsOfPart               []map[int]bool
	commits                   int
	commitInversions          int // Commit for a lower offset of a partition after a higher one
	staleMarkIgnored          int // ... and the head stayed (kgo keeps the maximum)
	markLags                  int // head below record offset+1 right after the record's own commit made it move
	frontierHits              int
	droppedCommitted          int
	inversions                int // a later send returned before an earlier one
	constraintsDropped        int
	boundaryCommitted         map[string]bool
}

func (h *c10H) note(what string, id int, info string) {
	h.seq++
	if len(h.hist) < 3000 {
		h.hist = append(h.hist, c10Entry{Seq: h.seq, What: what, ID: id, Info: info})
	}
}

func (h *c10H) failf(sig, format string, args ...any) {
	if h.failed[sig] {
		return
	}
	h.failed[sig] = true
	h.fails = append(h.fails, c10Fail{sig, fmt.Sprintf(format, args...)})
}

// finished: acknowledged by the output, deliberately dropped by an action, or refused at the entrance
// (an empty / undecodable record is dropped by Pipeline.In itself; the partition consumer calls In
// sequentially, so such a record is refused before any later record of the partition enters).
func (st *c10State) finished() bool {
	return st.acked || st.dropped || st.rec.Refuse != ""
}

func (h *c10H) partName(pi int) string {
	p := &h.c.Parts[pi]
	return fmt.Sprintf("%s/%d", h.c.Topics[p.Topic], p.Partition)
}

// ------------------------------------------------------------------ controller wrapper (records what the consumer hands to In)

type c10Ctl struct {
	h     *c10H
	inner pipeline.InputPluginController
}

var c10ReID = regexp.MustCompile(`^\{"id":([0-9]+)`)

func (c *c10Ctl) In(sourceID pipeline.SourceID, sourceName string, offsets pipeline.Offsets, data []byte, isNewSource bool, meta metadata.MetaData) uint64 {
	h := c.h
	id := 0
	if m := c10ReID.FindSubmatch(data); m != nil {
		id, _ = strconv.Atoi(string(m[1]))
	}
	h.mu.Lock()
	st := h.recs[id]
	if st != nil {
		st.inCalled = true
		if st.rec.Refuse == "" {
			h.inFlight[st.part]++
			if h.inFlight[st.part] > h.maxInFlight {
				h.maxInFlight = h.inFlight[st.part]
			}
		}
		h.note("in", id, fmt.Sprintf("source=%d", uint64(sourceID)))
	}
	h.mu.Unlock()
	seq := c.inner.In(sourceID, sourceName, offsets, data, isNewSource, meta)
	h.mu.Lock()
	if st != nil {
		st.inReturned = true
		st.accepted = seq != 0
		if st.rec.Refuse == "" && seq == 0 {
			// a valid record refused by the pipeline is outside what this check scripts
			h.inFlight[st.part]--
			st.dropped = true
			h.note("in-refused-valid", id, "")
		}
		h.note("in-ret", id, fmt.Sprint(seq))
	}
	h.mu.Unlock()
	return seq
}
func (c *c10Ctl) UseSpread() {
	c.h.mu.Lock()
	c.h.useSpread = true
	c.h.mu.Unlock()
	c.inner.UseSpread()
}
func (c *c10Ctl) DisableStreams() {
	c.h.mu.Lock()
	c.h.disableStreams = true
	c.h.mu.Unlock()
	c.inner.DisableStreams()
}
func (c *c10Ctl) SuggestDecoder(t decoder.Type)         { c.inner.SuggestDecoder(t) }
func (c *c10Ctl) IncReadOps()                           { c.inner.IncReadOps() }
func (c *c10Ctl) IncMaxEventSizeExceeded(lvs ...string) { c.inner.IncMaxEventSizeExceeded(lvs...) }

// ------------------------------------------------------------------ input wrapper

type c10VerifInput struct {
	h      *c10H
	inner  *Plugin
	route  string // broker-stub | offline
	broken string // set when the plugin could not be started (infrastructure)
}

func (w *c10VerifInput) Start(config pipeline.AnyConfig, params *pipeline.InputPluginParams) {
	p2 := *params
	p2.Controller = &c10Ctl{h: w.h, inner: params.Controller}
	if w.route == "broker-stub" {
		// the plugin's own Start: metrics, idByTopic, splitConsume, NewClient (client.go), UseSpread, DisableStreams, poll loop
		w.inner.Start(config, &p2)
		return
	}
	// offline fallback: Start's steps with a client that is never pinged
	p := w.inner
	p.controller = p2.Controller
	p.logger = p2.Logger
	p.config = config.(*Config)
	p.registerMetrics(p2.MetricCtl)
	if len(p.config.Meta) > 0 {
		p.metaTemplater = metadata.NewMetaTemplater(p.config.Meta, p.logger.Desugar(), p2.PipelineSettings.MetaCacheSize)
	}
	p.idByTopic = make(map[string]int, len(p.config.Topics))
	for i, topic := range p.config.Topics {
		p.idByTopic[topic] = i
	}
	_, cancel := context.WithCancel(context.Background())
	p.cancel = cancel
	p.s = &splitConsume{
		consumers:              make(map[tp]*pconsumer),
		bufferSize:             p.config.ChannelBufferSize,
		maxConcurrentConsumers: p.config.MaxConcurrentConsumers,
		idByTopic:              p.idByTopic,
		controller:             p.controller,
		logger:                 p.logger.Desugar(),
		metaTemplater:          p.metaTemplater,
		consumeErrorsMetric:    p.consumeErrorsMetric,
	}
	cl, err := c10OfflineClient(p.config, p.logger.Desugar(), p.s)
	if err != nil {
		w.broken = err.Error()
		return
	}
	p.client = cl
	p.controller.UseSpread()
	p.controller.DisableStreams()
}

// Stop does not run Plugin.Stop: its CommitMarkedOffsets would wait 10 s for a group coordinator.
func (w *c10VerifInput) Stop() {
	if w.inner.client != nil {
		w.inner.client.Close()
	}
	if w.inner.cancel != nil {
		w.inner.cancel()
	}
}

func (w *c10VerifInput) PassEvent(e *pipeline.Event) bool { return w.inner.PassEvent(e) }

func c10Less(a, b kgo.EpochOffset) bool { // the order kgo keeps heads in
	return a.Epoch < b.Epoch || a.Epoch == b.Epoch && a.Offset < b.Offset
}

type c10Key struct {
	topic string
	part  int32
}

func c10Keys(m map[string]map[int32]kgo.EpochOffset) []c10Key {
	var ks []c10Key
	for t, ps := range m {
		for p := range ps {
			ks = append(ks, c10Key{t, p})
		}
	}
	sort.Slice(ks, func(i, j int) bool {
		return ks[i].topic < ks[j].topic || ks[i].topic == ks[j].topic && ks[i].part < ks[j].part
	})
	return ks
}

func c10MarksString(m map[string]map[int32]kgo.EpochOffset) string {
	var sb strings.Builder
	for _, k := range c10Keys(m) {
		eo := m[k.topic][k.part]
		fmt.Fprintf(&sb, "%s/%d=e%d:o%d ", k.topic, k.part, eo.Epoch, eo.Offset)
	}
	return strings.TrimSpace(sb.String())
}

// Commit runs the plugin's Commit and judges the client's marked offsets.
func (w *c10VerifInput) Commit(e *pipeline.Event) {
	h := w.h
	h.mu.Lock()
	defer h.mu.Unlock()
	id := 0
	if n := e.Root.Dig("id"); n != nil {
		id = n.AsInt()
	}
	st := h.recs[id]

	// ---- code under test
	var panicked bool
	func() {
		defer func() {
			if r := recover(); r != nil {
				panicked = true
				stack := string(debug.Stack())
				h.note("commit-panic", id, fmt.Sprint(r))
				h.failf(vkit.PanicSig(r, stack), "Plugin.Commit panicked for record %d (source id %d, offset word %d): %v\n%s", id, uint64(e.SourceID), e.Offset, r, stack)
			}
		}()
		w.inner.Commit(e)
	}()
	after := w.inner.client.MarkedOffsets()
	before := h.marks
	h.marks = after
	if st == nil {
		h.note("commit-unknown", 0, e.Root.EncodeToString())
		return
	}
	h.commits++
	st.committed++
	if st.acked && !st.dropped {
		h.inFlight[st.part]--
	}
	part := &h.c.Parts[st.part]
	topic, pnum := h.c.Topics[part.Topic], part.Partition
	r := st.rec
	h.note("commit", id, fmt.Sprintf("%s/%d e%d:o%d -> marks %s", topic, pnum, r.Epoch, r.Offset, c10MarksString(after)))
	if panicked {
		return
	}

	// ---- clause (2): the committed record itself is finished
	// (the property lets a mark pass a record that was acknowledged or deliberately dropped; file.d never
	// notifies the input about discarded events, a commit of one is counted, not failed: whether its mark
	// passes something unfinished is clause (3)'s business)
	switch {
	case r.Refuse != "":
		h.failf("commit-of-refused-record", "record %d of %s/%d (offset %d) is %s and was refused by Pipeline.In, yet Plugin.Commit was called for it", id, topic, pnum, r.Offset, r.Refuse)
	case st.dropped:
		h.droppedCommitted++
	case !st.acked:
		h.failf("commit-before-ack", "Plugin.Commit called for record %d of %s/%d (offset %d) before the output acknowledged it", id, topic, pnum, r.Offset)
	}

	// ---- clause (1): the mark made by this Commit
	// Readings chosen (the weaker ones): "at most one past a record it has consumed" = the head that moved
	// is <= this record's offset + 1 (a head that stays or lags re-delivers more, which the property allows);
	// "its leader epoch" = the head that moved carries this record's epoch; "own topic and partition" = no
	// other partition's head moves. kgo keeps the maximum head (epoch first, then offset) and ignores lower marks.
	for _, k := range c10Keys(after) {
		now := after[k.topic][k.part]
		old, had := before[k.topic][k.part]
		if had && old == now {
			continue
		}
		if k.topic != topic || k.part != pnum {
			h.failf("mark-on-foreign-partition", "commit of record %d (topic %q partition %d offset %d epoch %d, topic index %d of %q) moved the marked offset of %q partition %d from %v to e%d:o%d", id, topic, pnum, r.Offset, r.Epoch, part.Topic, h.c.Topics, k.topic, k.part, c10Old(old, had), now.Epoch, now.Offset)
			continue
		}
		if had && !c10Less(old, now) {
			h.failf("mark-moved-backwards", "commit of record %d moved the marked offset of %s/%d backwards from e%d:o%d to e%d:o%d", id, topic, pnum, old.Epoch, old.Offset, now.Epoch, now.Offset)
		}
		if now.Epoch != r.Epoch {
			h.failf("mark-epoch-differs", "commit of record %d (offset %d, leader epoch %d) of %s/%d marked e%d:o%d: the leader epoch is not the record's", id, r.Offset, r.Epoch, topic, pnum, now.Epoch, now.Offset)
		}
		if now.Offset > r.Offset+1 {
			h.failf("mark-beyond-record", "commit of record %d (offset %d) of %s/%d marked offset %d, more than one past the record", id, r.Offset, topic, pnum, now.Offset)
		}
		if now.Offset < r.Offset+1 {
			h.markLags++
		}
	}
	for _, k := range c10Keys(before) {
		if _, ok := after[k.topic][k.part]; !ok {
			h.failf("mark-vanished", "commit of record %d removed the marked offset of %s/%d", id, k.topic, k.part)
		}
	}
	// absolute bounds on every head: a consumed partition of a configured topic, at most one past the highest consumed offset
	for _, k := range c10Keys(after) {
		now := after[k.topic][k.part]
		pi := -1
		for i := range h.c.Parts {
			if h.c.Topics[h.c.Parts[i].Topic] == k.topic && h.c.Parts[i].Partition == k.part {
				pi = i
			}
		}
		if pi < 0 {
			h.failf("mark-on-foreign-partition", "after the commit of record %d (%s/%d offset %d) the client holds a marked offset e%d:o%d for %q partition %d, which was never consumed", id, topic, pnum, r.Offset, now.Epoch, now.Offset, k.topic, k.part)
			continue
		}
		if now.Offset > h.maxPushed[pi]+1 {
			h.failf("mark-beyond-consumed", "after the commit of record %d the marked offset of %s/%d is %d, the highest consumed offset is %d", id, k.topic, k.part, now.Offset, h.maxPushed[pi])
		}
	}
	if last := h.lastComm[st.part]; last > r.Offset {
		h.commitInversions++
		if old, had := before[topic][pnum]; had && old == after[topic][pnum] {
			h.staleMarkIgnored++
		}
	}
	if r.Offset > h.lastComm[st.part] {
		h.lastComm[st.part] = r.Offset
	}

	// ---- clause (3): the head of this partition passes no unfinished record
	if head, ok := after[topic][pnum]; ok {
		for _, q := range h.byPart[st.part] {
			if q.rec.Offset >= head.Offset {
				break
			}
			if q.pushed && !q.finished() {
				h.frontierHits++
				state := "is still inside the pipeline"
				switch {
				case !q.inCalled:
					state = "was fetched but not yet handed to Pipeline.In"
				case !q.inReturned:
					state = "is blocked in Pipeline.In"
				case q.proc == 0:
					state = "waits in a stream, no processor has taken it yet"
				default:
					state = fmt.Sprintf("was taken by processor #%d and is not acknowledged yet", q.proc)
				}
				sfx := ":single-processor"
				if h.procs >= 2 {
					sfx = ":spread"
				}
				h.failf("frontier-passes-unfinished"+sfx, "after the commit of record %d (offset %d, processor #%d) the marked offset of %s/%d is %d, but record %d at offset %d %s (neither acknowledged nor dropped); processors=%d batch workers=%d", id, r.Offset, st.proc, topic, pnum, head.Offset, q.rec.ID, q.rec.Offset, state, h.procs, h.c.Output.Workers)
				break
			}
		}
	}
	if r.Offset == c10MaxOffset {
		h.boundaryCommitted["offset=2^47-1"] = true
	}
	if r.Offset == 0 {
		h.boundaryCommitted["offset=0"] = true
	}
	if r.Epoch == 65535 {
		h.boundaryCommitted["epoch=65535"] = true
	}
	if pnum == 65535 {
		h.boundaryCommitted["partition=65535"] = true
	}
	if part.Topic > 0 {
		h.boundaryCommitted["topic-index>0"] = true
	}
}

func c10Old(eo kgo.EpochOffset, had bool) string {
	if !had {
		return "(none)"
	}
	return fmt.Sprintf("e%d:o%d", eo.Epoch, eo.Offset)
}

// ------------------------------------------------------------------ scripted action

type c10Action struct {
	h    *c10H
	proc int
	ctl  pipeline.ActionPluginController
	held *pipeline.Event // first child of a split record, waiting for the rest (join-like)
}

func (a *c10Action) flush() {
	if a.held != nil {
		e := a.held
		a.held = nil
		a.ctl.Propagate(e)
	}
}

func (a *c10Action) Start(_ pipeline.AnyConfig, params *pipeline.ActionPluginParams) {
	h := a.h
	h.mu.Lock()
	if h.procOrd[params.Controller] == 0 {
		h.procOrd[params.Controller] = len(h.procOrd) + 1
	}
	a.proc = h.procOrd[params.Controller]
	h.mu.Unlock()
	a.ctl = params.Controller
}
func (a *c10Action) Stop() {}

func (a *c10Action) Do(e *pipeline.Event) pipeline.ActionResult {
	h := a.h
	if e.IsTimeoutKind() {
		a.flush()
		return pipeline.ActionDiscard
	}
	if e.IsChildKind() {
		if a.held == nil {
			a.held = e
			return pipeline.ActionHold
		}
		return pipeline.ActionCollapse
	}
	a.flush()
	n := e.Root.Dig("id")
	if n == nil {
		return pipeline.ActionPass
	}
	id := n.AsInt()
	h.mu.Lock()
	st := h.recs[id]
	if st == nil {
		h.mu.Unlock()
		return pipeline.ActionPass
	}
	st.proc = a.proc
	h.procsOfPart[st.part][a.proc] = true
	h.note("do", id, fmt.Sprintf("proc#%d %s", a.proc, st.rec.Op))
	stall := st.rec.Stall
	op := st.rec.Op
	h.mu.Unlock()
	switch {
	case stall > 0:
		for i := 0; i < stall; i++ {
			runtime.Gosched()
		}
	case stall < 0:
		time.Sleep(time.Duration(-stall) * 200 * time.Microsecond)
	}
	if op == "discard" {
		h.mu.Lock()
		st.dropped = true
		h.inFlight[st.part]--
		h.note("drop", id, "")
		h.mu.Unlock()
		return pipeline.ActionDiscard
	}
	return pipeline.ActionPass
}

// ------------------------------------------------------------------ scripted batched output

type c10Out struct {
	h       *c10H
	plan    *C10Output
	batcher *pipeline.RetriableBatcher
	cancel  context.CancelFunc

	mu       sync.Mutex
	nextK    int
	returned map[int]chan struct{}
	retOrder []int
}

func (o *c10Out) Start(_ pipeline.AnyConfig, params *pipeline.OutputPluginParams) {
	o.returned = map[int]chan struct{}{}
	opts := &pipeline.BatcherOptions{
		PipelineName:   params.PipelineName,
		OutputType:     "c10_out",
		Controller:     params.Controller,
		Workers:        o.plan.Workers,
		BatchSizeCount: o.plan.BatchCount,
		FlushTimeout:   time.Duration(o.plan.FlushMs) * time.Millisecond,
		MetricCtl:      params.MetricCtl,
	}
	backoff := pipeline.BackoffOpts{MinRetention: 50 * time.Microsecond, Multiplier: 1.5, AttemptNum: 0}
	o.batcher = pipeline.NewRetriableBatcher(opts, o.send, backoff, func(error, []*pipeline.Event) {})
	ctx, cancel := context.WithCancel(context.Background())
	o.cancel = cancel
	o.batcher.Start(ctx)
}

func (o *c10Out) Stop() {
	o.batcher.Stop()
	o.cancel()
}

func (o *c10Out) Out(e *pipeline.Event) { o.batcher.Add(e) }

func (o *c10Out) ch(k int) chan struct{} {
	if o.returned[k] == nil {
		o.returned[k] = make(chan struct{})
	}
	return o.returned[k]
}

func (o *c10Out) send(_ *pipeline.WorkerData, batch *pipeline.Batch) error {
	h := o.h
	var ids []int
	batch.ForEach(func(e *pipeline.Event) {
		if n := e.Root.Dig("id"); n != nil {
			ids = append(ids, n.AsInt())
		}
	})
	o.mu.Lock()
	k := o.nextK
	o.nextK++
	mine := o.ch(k)
	var waitCh chan struct{}
	if k < len(o.plan.Sends) {
		if w := o.plan.Sends[k].WaitFor; w >= 0 && w != k {
			waitCh = o.ch(w)
		}
	}
	o.mu.Unlock()
	h.mu.Lock()
	h.note("send", 0, fmt.Sprintf("#%d %v", k, ids))
	h.mu.Unlock()
	if waitCh != nil {
		select {
		case <-waitCh:
		case <-time.After(100 * time.Millisecond):
			h.mu.Lock()
			h.constraintsDropped++
			h.mu.Unlock()
		}
	}
	// acknowledged: recorded before the send function returns
	h.mu.Lock()
	for _, id := range ids {
		if st := h.recs[id]; st != nil {
			st.acked = true
		}
	}
	h.note("ack", 0, fmt.Sprintf("#%d %v", k, ids))
	h.mu.Unlock()
	o.mu.Lock()
	for _, prev := range o.retOrder {
		if prev > k {
			h.mu.Lock()
			h.inversions++
			h.mu.Unlock()
			break
		}
	}
	o.retOrder = append(o.retOrder, k)
	close(mine)
	o.mu.Unlock()
	return nil
}

// ------------------------------------------------------------------ run

func c10Validate(c *C10Case) error {
	if len(c.Topics) == 0 || len(c.Parts) == 0 {
		return fmt.Errorf("no topics / partitions")
	}
	seenT := map[string]bool{}
	for _, t := range c.Topics {
		if t == "" || seenT[t] {
			return fmt.Errorf("topics must be distinct and non-empty")
		}
		seenT[t] = true
	}
	if len(c.TopicList) > 0 {
		named := map[int]bool{}
		for _, i := range c.TopicList {
			if i < 0 || i >= len(c.Topics) {
				return fmt.Errorf("topic_list index out of range")
			}
			named[i] = true
		}
		if len(named) != len(c.Topics) {
			return fmt.Errorf("topic_list must name every topic")
		}
	}
	seenP := map[string]bool{}
	seenID := map[int]bool{}
	for _, p := range c.Parts {
		if p.Topic < 0 || p.Topic >= len(c.Topics) || p.Partition < 0 || p.Partition > 65535 {
			return fmt.Errorf("partition outside the domain")
		}
		k := fmt.Sprintf("%d/%d", p.Topic, p.Partition)
		if seenP[k] {
			return fmt.Errorf("duplicate partition")
		}
		seenP[k] = true
		for i, r := range p.Records {
			if r.ID <= 0 || seenID[r.ID] || r.Offset < 0 || r.Offset > c10MaxOffset || r.Epoch < 0 || r.Epoch > 65535 {
				return fmt.Errorf("record outside the domain")
			}
			seenID[r.ID] = true
			if i > 0 && (r.Offset <= p.Records[i-1].Offset || r.Epoch < p.Records[i-1].Epoch) {
				return fmt.Errorf("offsets must increase and leader epochs must not decrease along a partition")
			}
		}
	}
	if c.Capacity < 1 || c.Output.Workers < 1 || c.Output.BatchCount < 1 {
		return fmt.Errorf("bad sizes")
	}
	return nil
}

func runC10(c C10Case) *vkit.Outcome {
	o := vkit.NewOutcome()
	if err := c10Validate(&c); err != nil {
		o.Class("invalid-case:" + err.Error())
		return o
	}
	fdkit.InstallLogger()
	h := &c10H{
		c: &c, recs: map[int]*c10State{}, failed: map[string]bool{},
		procOrd: map[pipeline.ActionPluginController]int{}, boundaryCommitted: map[string]bool{},
	}
	for pi := range c.Parts {
		var sts []*c10State
		for ri := range c.Parts[pi].Records {
			st := &c10State{rec: &c.Parts[pi].Records[ri], part: pi}
			h.recs[st.rec.ID] = st
			sts = append(sts, st)
		}
		h.byPart = append(h.byPart, sts)
		h.maxPushed = append(h.maxPushed, -1)
		h.lastComm = append(h.lastComm, -1)
		h.inFlight = append(h.inFlight, 0)
		h.procsOfPart = append(h.procsOfPart, map[int]bool{})
	}

	settings := fdkit.DefaultSettings()
	settings.Capacity = c.Capacity
	if c.Pool == "low_memory" {
		settings.Pool = pipeline.PoolTypeLowMem
	}
	settings.MaintenanceInterval = time.Hour
	settings.Antispam.MaintenanceInterval = time.Hour
	p := fdkit.NewPipeline(fdkit.UniqueName("c10"), settings)
	if c.SingleProc {
		p.DisableParallelism()
		h.procs = 1
	} else {
		h.procs = runtime.GOMAXPROCS(0) * 2
	}

	route := "broker-stub"
	addr := c10Broker()
	if addr == "" {
		route, addr = "offline", "127.0.0.1:1"
	}
	config := &Config{Brokers: []string{addr}, Topics: append([]string{}, c.Topics...)}
	if len(c.TopicList) > 0 {
		config.Topics = config.Topics[:0]
		for _, i := range c.TopicList {
			config.Topics = append(config.Topics, c.Topics[i])
		}
	}
	if c.WithMeta {
		config.Meta = cfg.MetaTemplates{"kafka_topic": "{{ .topic }}", "kafka_partition": "{{ .partition }}", "kafka_offset": "{{ .offset }}"}
	}
	if err := cfg.SetDefaultValues(config); err != nil {
		panic(err)
	}
	if err := cfg.Parse(config, nil); err != nil {
		panic(err)
	}
	plugin := &Plugin{}
	in := &c10VerifInput{h: h, inner: plugin, route: route}
	p.SetInput(&pipeline.InputPluginInfo{
		PluginStaticInfo:  &pipeline.PluginStaticInfo{Type: "kafka", Config: config},
		PluginRuntimeInfo: &pipeline.PluginRuntimeInfo{Plugin: in, ID: "kafka"},
	})
	hasSplit := false
	for _, part := range c.Parts {
		for _, r := range part.Records {
			hasSplit = hasSplit || (r.Op == "split" && r.Refuse == "")
		}
	}
	if hasSplit {
		info, err := fd.DefaultPluginRegistry.Get(pipeline.PluginKindAction, "split")
		if err != nil {
			panic(err)
		}
		splitCfg, err := pipeline.GetConfig(info, []byte(`{"field":"items"}`), map[string]int{"capacity": c.Capacity, "gomaxprocs": runtime.GOMAXPROCS(0)})
		if err != nil {
			panic(err)
		}
		p.AddAction(&pipeline.ActionPluginStaticInfo{
			PluginStaticInfo: &pipeline.PluginStaticInfo{Type: "split", Factory: info.Factory, Config: splitCfg},
			MatchMode:        pipeline.MatchModeAnd,
		})
		o.Class("split-then-join-like-action")
	}
	p.AddAction(&pipeline.ActionPluginStaticInfo{
		PluginStaticInfo: &pipeline.PluginStaticInfo{
			Type:    "c10_action",
			Factory: func() (pipeline.AnyPlugin, pipeline.AnyConfig) { return &c10Action{h: h}, nil },
		},
		MatchMode: pipeline.MatchModeAnd,
	})
	out := &c10Out{h: h, plan: &c.Output}
	p.SetOutput(&pipeline.OutputPluginInfo{
		PluginStaticInfo:  &pipeline.PluginStaticInfo{Type: "c10_out"},
		PluginRuntimeInfo: &pipeline.PluginRuntimeInfo{Plugin: out, ID: "c10_out"},
	})

	// Plugin.Start (inside Pipeline.Start) calls logger.Fatal when the client cannot be created / pinged:
	// that is an infrastructure failure of the loopback stub, not a verdict.
	rec, _ := fdkit.CatchPanic(p.Start)
	if rec != nil {
		if fp, ok := rec.(fdkit.FatalPanic); ok && strings.Contains(fp.Msg, "kafka") {
			o.Class("infrastructure:client-start-failed")
			vkit.Note(c10P, "kafka client could not be started against the loopback stub: "+fp.Msg)
			in.Stop()
			return o
		}
		panic(rec)
	}
	if in.broken != "" || plugin.client == nil || plugin.s == nil {
		o.Class("infrastructure:client-start-failed")
		vkit.Note(c10P, "kafka client could not be created: "+in.broken)
		return o
	}
	o.Class("client=" + route)

	// clause (0): only marked offsets may ever be committed by the client's auto-committer
	cl := plugin.client
	marksOnly, _ := cl.OptValue(kgo.AutoCommitMarks).(bool)
	noAuto, _ := cl.OptValue(kgo.DisableAutoCommit).(bool)
	if !marksOnly && !noAuto {
		h.mu.Lock()
		h.failf("client-autocommits-consumed-offsets", "the kgo client auto-commits every polled offset (AutoCommitMarks off, auto-commit on): offsets of records that are merely consumed get committed, Plugin.Commit has no say")
		h.mu.Unlock()
	}

	fdkit.TakeLoggedPanics()
	fdkit.SetPanicCapture(true) // a logger.Panic in a file.d goroutine is recorded instead of killing the process
	// hand the partitions to the plugin's own consumers, as a group assignment does
	assigned := map[string][]int32{}
	for _, part := range c.Parts {
		t := c.Topics[part.Topic]
		assigned[t] = append(assigned[t], part.Partition)
	}
	ctx := context.Background()
	plugin.s.Assigned(ctx, cl, assigned)

	var wg sync.WaitGroup
	for pi := range c.Parts {
		part := &c.Parts[pi]
		pc := plugin.s.consumers[tp{c.Topics[part.Topic], part.Partition}]
		wg.Add(1)
		go func() {
			defer wg.Done()
			next := 0
			for ci, ch := range part.Chunks {
				n := ch.N
				if ci == len(part.Chunks)-1 || next+n > len(part.Records) {
					n = len(part.Records) - next
				}
				if n <= 0 {
					continue
				}
				if ch.GapUs == 1 {
					runtime.Gosched()
				} else if ch.GapUs > 1 {
					time.Sleep(time.Duration(ch.GapUs) * time.Microsecond)
				}
				fetch := kgo.FetchTopicPartition{Topic: c.Topics[part.Topic]}
				fetch.Partition = part.Partition
				h.mu.Lock()
				for _, st := range h.byPart[pi][next : next+n] {
					r := st.rec
					fetch.Records = append(fetch.Records, &kgo.Record{Topic: fetch.Topic, Partition: part.Partition, Offset: r.Offset, LeaderEpoch: r.Epoch, Value: r.value()})
					st.pushed = true
					if r.Offset > h.maxPushed[pi] {
						h.maxPushed[pi] = r.Offset
					}
				}
				h.note("fetch", 0, fmt.Sprintf("%s records %d..%d", h.partName(pi), h.byPart[pi][next].rec.ID, h.byPart[pi][next+n-1].rec.ID))
				h.mu.Unlock()
				next += n
				pc.fetches <- fetch // what splitConsume.consume does with a polled partition
			}
		}()
	}

	// quiescence: every record refused, dropped or committed
	start := time.Now()
	fed := make(chan struct{})
	go func() { wg.Wait(); close(fed) }()
	quiesced := false
	loggedPanic := ""
	for time.Since(start) < 20*time.Second {
		select {
		case <-fed:
			if h.idle() {
				quiesced = true
			}
		default:
		}
		if quiesced {
			break
		}
		if msgs := fdkit.TakeLoggedPanics(); len(msgs) > 0 {
			loggedPanic = msgs[0]
			break
		}
		time.Sleep(300 * time.Microsecond)
	}
	fdkit.SetPanicCapture(false)

	if quiesced {
		plugin.s.Lost(ctx, cl, assigned) // stops the partition consumers (they are idle)
		p.Stop()
		p.VerifWakeProcessors()
	} else {
		// leave the wedged pipeline alone; only release the client
		in.Stop()
	}

	h.mu.Lock()
	defer h.mu.Unlock()
	for _, f := range h.fails {
		o.Failf(c10P, f.sig, "%s", f.msg)
	}
	if o.Failed() {
		hist := h.hist
		if len(hist) > 500 {
			hist = hist[len(hist)-500:]
		}
		o.History = map[string]any{"history_tail": hist, "processors": h.procs}
	}
	// classes
	if !quiesced {
		o.Class("not-quiesced")
		if loggedPanic != "" {
			vkit.Note(c10P, "file.d goroutine panicked during a C10 run (not a C10 verdict): "+strings.SplitN(loggedPanic, "\n", 2)[0])
		}
		return o
	}
	if !h.useSpread || !h.disableStreams {
		o.Class("start-without-spread-or-disable-streams")
	}
	spreadPart := false
	for pi := range c.Parts {
		if len(h.procsOfPart[pi]) >= 2 {
			spreadPart = true
		}
	}
	if h.procs >= 2 {
		o.Class("processors>=2")
	} else {
		o.Class("processors=1")
	}
	if spreadPart {
		o.Class("partition-handled-by>=2-processors")
	}
	if h.commitInversions > 0 {
		o.Class("commits-out-of-offset-order")
	}
	if h.staleMarkIgnored > 0 {
		o.Class("lower-mark-after-higher-ignored-by-kgo")
	}
	if h.markLags > 0 {
		o.Class("mark-below-offset+1")
	}
	if h.inversions > 0 {
		o.Class("inverted-send-completion")
	}
	if h.constraintsDropped > 0 {
		o.Class("constraint-dropped")
	}
	if h.droppedCommitted > 0 {
		o.Class("commit-of-discarded-record")
	}
	if h.frontierHits > 0 {
		o.Class("frontier-passed-unfinished")
	}
	if h.procs == 1 {
		o.Class("frontier-enforced-strictly")
	}
	if c.WithMeta {
		o.Class("with-meta")
	}
	if len(c.TopicList) > 0 {
		o.Class("topic-listed-twice")
	}
	bks := make([]string, 0, len(h.boundaryCommitted))
	for k := range h.boundaryCommitted {
		bks = append(bks, k)
	}
	sort.Strings(bks)
	for _, k := range bks {
		o.Class("boundary:" + k)
	}
	// non-trivial: >= 2 records of one partition in flight at once under concurrency, or a committed boundary value
	concurrent := h.maxInFlight >= 2 && (h.procs >= 2 || c.Output.Workers >= 2)
	boundary := false
	for _, k := range bks {
		if k != "offset=0" {
			boundary = true
		}
	}
	if h.commits > 0 && (concurrent || boundary) {
		o.Nontrivial(c10P)
	}
	if concurrent {
		o.Class("concurrent-partition")
	}
	return o
}

func (h *c10H) idle() bool {
	h.mu.Lock()
	defer h.mu.Unlock()
	for _, st := range h.recs {
		if st.rec.Refuse != "" {
			if !st.inReturned && len(st.rec.value()) > 0 {
				return false
			}
			continue
		}
		if !st.dropped && st.committed == 0 {
			return false
		}
	}
	return true
}

var propC10 = vkit.NewProp([]string{c10P}, "c10kafka", genC10, runC10)

func TestVerifC10Kafka(t *testing.T) { propC10.CrashFile = true; propC10.Check(t) }
