package kafka

// C10 through a whole consumer-group session: the real plugin (Start, NewClient with all its kgo
// options and group callbacks, poll loop, Commit, Stop) against a loopback broker that speaks enough
// of the protocol for one group member (ApiVersions, Metadata, FindCoordinator, JoinGroup, SyncGroup,
// OffsetFetch, ListOffsets, Fetch, Heartbeat, OffsetCommit, LeaveGroup). The broker sees what file.d
// really commits to Kafka - by the auto-commit timer, when partitions are revoked in a rebalance and
// at shutdown - and every committed offset must stay at or below the first record of its partition
// that the "pipeline" (the harness controller) has not acknowledged.
//
// (The broker's wire handling follows the demonstration that came with seeded change C10-6.)

import (
	"encoding/binary"
	"fmt"
	"hash/crc32"
	"io"
	"net"
	"reflect"
	"strconv"
	"sync"
	"sync/atomic"
	"testing"
	"time"

	"github.com/ozontech/file.d/decoder"
	"github.com/ozontech/file.d/pipeline"
	"github.com/ozontech/file.d/pipeline/metadata"
	"github.com/ozontech/file.d/zzverif/fdkit"
	"github.com/ozontech/file.d/zzverif/vkit"
	"github.com/twmb/franz-go/pkg/kmsg"
	"pgregory.net/rapid"
)

// ------------------------------------------------------------------ case

// C10GCase: one topic, 1..2 partitions with Records[p] records each (offsets 0..n-1). Steps are
// played after all records were delivered once.
type C10GCase struct {
	Topic   string     `json:"topic"`
	Epoch   int32      `json:"epoch"`
	Records []int      `json:"records"` // per partition
	Steps   []C10GStep `json:"steps"`
}

// C10GStep: "ack" acknowledges the next N not yet acknowledged records of partition P (in offset order, as
// one processor and an ordered output do); "rebalance" makes the broker ask the member to rejoin;
// "wait" lets auto-commit timers fire.
type C10GStep struct {
	Op string `json:"op"`
	P  int    `json:"p,omitempty"`
	N  int    `json:"n,omitempty"`
	Ms int    `json:"ms,omitempty"`
}

func genC10G(t *rapid.T) C10GCase {
	c := C10GCase{
		Topic: rapid.SampledFrom([]string{"orders", "t", "logs.app", "T-1"}).Draw(t, "topic"),
		Epoch: rapid.SampledFrom([]int32{0, 1, 5, 65535}).Draw(t, "epoch"),
	}
	np := rapid.IntRange(1, 2).Draw(t, "partitions")
	for p := 0; p < np; p++ {
		c.Records = append(c.Records, rapid.IntRange(1, 5).Draw(t, "records"))
	}
	ns := rapid.IntRange(1, 5).Draw(t, "nsteps")
	for i := 0; i < ns; i++ {
		switch rapid.IntRange(0, 5).Draw(t, "op") {
		case 0, 1, 2:
			c.Steps = append(c.Steps, C10GStep{Op: "ack", P: rapid.IntRange(0, np-1).Draw(t, "p"), N: rapid.IntRange(1, 3).Draw(t, "n")})
		case 3, 4:
			c.Steps = append(c.Steps, C10GStep{Op: "rebalance"})
		default:
			c.Steps = append(c.Steps, C10GStep{Op: "wait", Ms: rapid.SampledFrom([]int{60, 150, 250}).Draw(t, "ms")})
		}
	}
	return c
}

// ------------------------------------------------------------------ broker

type c10gCommit struct {
	Topic     string
	Partition int32
	Offset    int64
	Epoch     int32
	AckedThen int64 // records of the partition acknowledged when the commit arrived
}

type c10gBroker struct {
	ln   net.Listener
	host string
	port int32

	topic  string
	logs   [][][]byte // [partition][offset] value
	epoch  int32
	errMu  sync.Mutex
	errors []string

	mu         sync.Mutex
	commits    []c10gCommit
	committed  []int64 // per partition, -1 = none
	acked      []int64 // per partition: number of acknowledged records (prefix)
	generation int32
	assignment []byte
	resumes    int // OffsetFetch requests seen (one per (re)join)

	rebalance atomic.Bool
}

func newC10GBroker(topic string, logs [][][]byte, epoch int32) (*c10gBroker, error) {
	ln, err := net.Listen("tcp", "127.0.0.1:0")
	if err != nil {
		return nil, err
	}
	host, portStr, _ := net.SplitHostPort(ln.Addr().String())
	port, _ := strconv.Atoi(portStr)
	b := &c10gBroker{ln: ln, host: host, port: int32(port), topic: topic, logs: logs, epoch: epoch}
	for range logs {
		b.committed = append(b.committed, -1)
		b.acked = append(b.acked, 0)
	}
	go b.accept()
	return b, nil
}

func (b *c10gBroker) addr() string { return net.JoinHostPort(b.host, strconv.Itoa(int(b.port))) }
func (b *c10gBroker) close()       { _ = b.ln.Close() }
func (b *c10gBroker) errorf(f string, a ...any) {
	b.errMu.Lock()
	b.errors = append(b.errors, fmt.Sprintf(f, a...))
	b.errMu.Unlock()
}

func (b *c10gBroker) accept() {
	for {
		conn, err := b.ln.Accept()
		if err != nil {
			return
		}
		go b.serve(conn)
	}
}

func (b *c10gBroker) serve(conn net.Conn) {
	defer conn.Close()
	sizeBuf := make([]byte, 4)
	for {
		if _, err := io.ReadFull(conn, sizeBuf); err != nil {
			return
		}
		n := binary.BigEndian.Uint32(sizeBuf)
		if n < 10 || n > 1<<24 {
			return
		}
		body := make([]byte, n)
		if _, err := io.ReadFull(conn, body); err != nil {
			return
		}
		key := int16(binary.BigEndian.Uint16(body[0:2]))
		version := int16(binary.BigEndian.Uint16(body[2:4]))
		corrID := body[4:8]
		req := kmsg.RequestForKey(key)
		if req == nil {
			return
		}
		req.SetVersion(version)
		out := append([]byte{0, 0, 0, 0}, corrID...)
		if key == 18 && version > 0 {
			// UNSUPPORTED_VERSION in v0 format, the client retries with v0
			resp := kmsg.NewPtrApiVersionsResponse()
			resp.Version = 0
			resp.ErrorCode = 35
			resp.ApiKeys = []kmsg.ApiVersionsResponseApiKey{{ApiKey: 18, MinVersion: 0, MaxVersion: 0}}
			out = resp.AppendTo(out)
		} else {
			pos := 8
			l := int16(binary.BigEndian.Uint16(body[pos : pos+2]))
			pos += 2
			if l > 0 {
				pos += int(l)
			}
			if req.IsFlexible() {
				pos++ // empty tag section
			}
			if pos > len(body) {
				return
			}
			if err := req.ReadFrom(body[pos:]); err != nil {
				b.errorf("broker: can't parse request key=%d v=%d: %v", key, version, err)
				return
			}
			resp := b.handle(req)
			if resp == nil {
				return
			}
			resp.SetVersion(version)
			if req.IsFlexible() && key != 18 {
				out = append(out, 0)
			}
			out = resp.AppendTo(out)
		}
		binary.BigEndian.PutUint32(out[0:4], uint32(len(out)-4))
		if _, err := conn.Write(out); err != nil {
			return
		}
	}
}

var c10gVersions = []kmsg.ApiVersionsResponseApiKey{
	{ApiKey: 1, MinVersion: 4, MaxVersion: 6},  // Fetch (no sessions)
	{ApiKey: 2, MinVersion: 1, MaxVersion: 4},  // ListOffsets
	{ApiKey: 3, MinVersion: 1, MaxVersion: 7},  // Metadata
	{ApiKey: 8, MinVersion: 2, MaxVersion: 6},  // OffsetCommit
	{ApiKey: 9, MinVersion: 1, MaxVersion: 5},  // OffsetFetch
	{ApiKey: 10, MinVersion: 0, MaxVersion: 2}, // FindCoordinator
	{ApiKey: 11, MinVersion: 0, MaxVersion: 3}, // JoinGroup
	{ApiKey: 12, MinVersion: 0, MaxVersion: 2}, // Heartbeat
	{ApiKey: 13, MinVersion: 0, MaxVersion: 2}, // LeaveGroup
	{ApiKey: 14, MinVersion: 0, MaxVersion: 2}, // SyncGroup
	{ApiKey: 18, MinVersion: 0, MaxVersion: 0}, // ApiVersions
}

func (b *c10gBroker) handle(kreq kmsg.Request) kmsg.Response {
	switch req := kreq.(type) {
	case *kmsg.ApiVersionsRequest:
		resp := kmsg.NewPtrApiVersionsResponse()
		resp.ApiKeys = c10gVersions
		return resp

	case *kmsg.MetadataRequest:
		resp := kmsg.NewPtrMetadataResponse()
		resp.Brokers = []kmsg.MetadataResponseBroker{{NodeID: 1, Host: b.host, Port: b.port}}
		resp.ControllerID = 1
		topic := b.topic
		mt := kmsg.MetadataResponseTopic{Topic: &topic}
		for p := range b.logs {
			mt.Partitions = append(mt.Partitions, kmsg.MetadataResponseTopicPartition{
				Partition: int32(p), Leader: 1, LeaderEpoch: b.epoch, Replicas: []int32{1}, ISR: []int32{1},
			})
		}
		resp.Topics = []kmsg.MetadataResponseTopic{mt}
		return resp

	case *kmsg.FindCoordinatorRequest:
		resp := kmsg.NewPtrFindCoordinatorResponse()
		resp.NodeID, resp.Host, resp.Port = 1, b.host, b.port
		return resp

	case *kmsg.JoinGroupRequest:
		b.mu.Lock()
		b.generation++
		gen := b.generation
		b.mu.Unlock()
		resp := kmsg.NewPtrJoinGroupResponse()
		resp.Generation = gen
		if len(req.Protocols) == 0 {
			b.errorf("broker: JoinGroup without protocols")
			return nil
		}
		proto := req.Protocols[0].Name
		resp.Protocol = &proto
		resp.LeaderID = "member-1"
		resp.MemberID = "member-1"
		resp.Members = []kmsg.JoinGroupResponseMember{{MemberID: "member-1", ProtocolMetadata: req.Protocols[0].Metadata}}
		return resp

	case *kmsg.SyncGroupRequest:
		b.mu.Lock()
		if len(req.GroupAssignment) > 0 {
			b.assignment = req.GroupAssignment[0].MemberAssignment
		}
		assignment := b.assignment
		b.mu.Unlock()
		resp := kmsg.NewPtrSyncGroupResponse()
		resp.MemberAssignment = assignment
		return resp

	case *kmsg.OffsetFetchRequest:
		b.mu.Lock()
		committed := append([]int64{}, b.committed...)
		b.resumes++
		b.mu.Unlock()
		resp := kmsg.NewPtrOffsetFetchResponse()
		for _, t := range req.Topics {
			rt := kmsg.OffsetFetchResponseTopic{Topic: t.Topic}
			for _, p := range t.Partitions {
				rp := kmsg.OffsetFetchResponseTopicPartition{Partition: p, Offset: -1, LeaderEpoch: -1}
				if t.Topic == b.topic && int(p) < len(committed) && committed[p] >= 0 {
					rp.Offset, rp.LeaderEpoch = committed[p], b.epoch
				}
				rt.Partitions = append(rt.Partitions, rp)
			}
			resp.Topics = append(resp.Topics, rt)
		}
		return resp

	case *kmsg.ListOffsetsRequest:
		resp := kmsg.NewPtrListOffsetsResponse()
		for _, t := range req.Topics {
			rt := kmsg.ListOffsetsResponseTopic{Topic: t.Topic}
			for _, p := range t.Partitions {
				rp := kmsg.ListOffsetsResponseTopicPartition{Partition: p.Partition, Timestamp: -1, LeaderEpoch: b.epoch}
				if p.Timestamp != -2 && t.Topic == b.topic && int(p.Partition) < len(b.logs) {
					rp.Offset = int64(len(b.logs[p.Partition]))
				}
				rt.Partitions = append(rt.Partitions, rp)
			}
			resp.Topics = append(resp.Topics, rt)
		}
		return resp

	case *kmsg.FetchRequest:
		resp := kmsg.NewPtrFetchResponse()
		hasData := false
		for _, t := range req.Topics {
			rt := kmsg.FetchResponseTopic{Topic: t.Topic}
			for _, p := range t.Partitions {
				var end int64
				known := t.Topic == b.topic && int(p.Partition) < len(b.logs)
				if known {
					end = int64(len(b.logs[p.Partition]))
				}
				rp := kmsg.FetchResponseTopicPartition{
					Partition: p.Partition, HighWatermark: end, LastStableOffset: end, LogStartOffset: 0,
					PreferredReadReplica: -1,
				}
				if known && p.FetchOffset >= 0 && p.FetchOffset < end {
					rp.RecordBatches = b.recordBatch(int(p.Partition), p.FetchOffset)
					hasData = true
				}
				rt.Partitions = append(rt.Partitions, rp)
			}
			resp.Topics = append(resp.Topics, rt)
		}
		if !hasData {
			wait := time.Duration(req.MaxWaitMillis) * time.Millisecond
			if wait > 50*time.Millisecond {
				wait = 50 * time.Millisecond
			}
			time.Sleep(wait)
		}
		return resp

	case *kmsg.HeartbeatRequest:
		resp := kmsg.NewPtrHeartbeatResponse()
		if b.rebalance.CompareAndSwap(true, false) {
			resp.ErrorCode = 27 // REBALANCE_IN_PROGRESS
		}
		return resp

	case *kmsg.OffsetCommitRequest:
		resp := kmsg.NewPtrOffsetCommitResponse()
		b.mu.Lock()
		for _, t := range req.Topics {
			rt := kmsg.OffsetCommitResponseTopic{Topic: t.Topic}
			for _, p := range t.Partitions {
				cm := c10gCommit{Topic: t.Topic, Partition: p.Partition, Offset: p.Offset, Epoch: p.LeaderEpoch, AckedThen: -1}
				if t.Topic == b.topic && int(p.Partition) < len(b.committed) && p.Partition >= 0 {
					cm.AckedThen = b.acked[p.Partition]
					b.committed[p.Partition] = p.Offset
				}
				b.commits = append(b.commits, cm)
				rt.Partitions = append(rt.Partitions, kmsg.OffsetCommitResponseTopicPartition{Partition: p.Partition})
			}
			resp.Topics = append(resp.Topics, rt)
		}
		b.mu.Unlock()
		return resp

	case *kmsg.LeaveGroupRequest:
		return kmsg.NewPtrLeaveGroupResponse()
	}
	b.errorf("broker: unexpected request key %d", kreq.Key())
	return nil
}

// recordBatch encodes the log of a partition from offset `from` to its end as one v2 batch.
func (b *c10gBroker) recordBatch(part int, from int64) []byte {
	var records []byte
	n := 0
	for off := from; off < int64(len(b.logs[part])); off++ {
		rec := kmsg.Record{OffsetDelta: int32(off - from), Value: b.logs[part][off]}
		rec.Length = int32(len(rec.AppendTo(nil)) - 1) // varint(0) is one byte
		records = rec.AppendTo(records)
		n++
	}
	batch := kmsg.RecordBatch{
		FirstOffset: from, PartitionLeaderEpoch: b.epoch, Magic: 2, LastOffsetDelta: int32(n - 1),
		FirstTimestamp: 1, MaxTimestamp: 1, ProducerID: -1, ProducerEpoch: -1, FirstSequence: -1,
		NumRecords: int32(n), Records: records,
	}
	raw := batch.AppendTo(nil)
	batch.Length = int32(len(raw) - 12)
	batch.CRC = int32(crc32.Checksum(raw[21:], crc32.MakeTable(crc32.Castagnoli)))
	return batch.AppendTo(nil)
}

// ------------------------------------------------------------------ the pipeline side

type c10gDelivery struct {
	source pipeline.SourceID
	packed int64 // what Pipeline.In would store in Event.Offset
	part   int
	offset int64
}

type c10gController struct {
	mu         sync.Mutex
	deliveries []c10gDelivery
	partOf     func(value []byte) int
}

func (c *c10gController) In(sourceID pipeline.SourceID, _ string, offsets pipeline.Offsets, bytes []byte, _ bool, _ metadata.MetaData) uint64 {
	packed := reflect.ValueOf(offsets).FieldByName("current").Int()
	d := c10gDelivery{source: sourceID, packed: packed, part: c.partOf(bytes), offset: disassembleOffset(packed).Offset - 1}
	c.mu.Lock()
	c.deliveries = append(c.deliveries, d)
	c.mu.Unlock()
	return 1
}
func (c *c10gController) UseSpread()                         {}
func (c *c10gController) DisableStreams()                    {}
func (c *c10gController) SuggestDecoder(decoder.Type)        {}
func (c *c10gController) IncReadOps()                        {}
func (c *c10gController) IncMaxEventSizeExceeded(...string) {}

// count[p][o] = how often record o of partition p was delivered
func (c *c10gController) counts(parts []int) [][]int {
	c.mu.Lock()
	defer c.mu.Unlock()
	res := make([][]int, len(parts))
	for p, n := range parts {
		res[p] = make([]int, n)
	}
	for _, d := range c.deliveries {
		if d.part >= 0 && d.part < len(res) && d.offset >= 0 && int(d.offset) < len(res[d.part]) {
			res[d.part][d.offset]++
		}
	}
	return res
}

func (c *c10gController) find(part int, offset int64) (c10gDelivery, bool) {
	c.mu.Lock()
	defer c.mu.Unlock()
	for _, d := range c.deliveries {
		if d.part == part && d.offset == offset {
			return d, true
		}
	}
	return c10gDelivery{}, false
}

// ------------------------------------------------------------------ run

func c10gWait(cond func() bool, progress func() int) bool {
	last, lastChange := -1, time.Now()
	for !cond() {
		if n := progress(); n != last {
			last, lastChange = n, time.Now()
		}
		if time.Since(lastChange) > 20*time.Second {
			return false
		}
		time.Sleep(5 * time.Millisecond)
	}
	return true
}

func runC10G(c C10GCase) *vkit.Outcome {
	o := vkit.NewOutcome()
	if c.Topic == "" || len(c.Records) == 0 || len(c.Records) > 4 || len(c.Steps) > 16 {
		o.Class("invalid-case")
		return o
	}
	logs := make([][][]byte, len(c.Records))
	for p, n := range c.Records {
		if n < 1 || n > 64 {
			o.Class("invalid-case")
			return o
		}
		for i := 0; i < n; i++ {
			logs[p] = append(logs[p], []byte(fmt.Sprintf(`{"p":%d,"o":%d}`, p, i)))
		}
	}
	broker, err := newC10GBroker(c.Topic, logs, c.Epoch)
	if err != nil {
		o.Class("infrastructure:no-loopback")
		return o
	}
	defer broker.close()
	name := fdkit.UniqueName("c10g")
	config := &Config{
		Brokers: []string{broker.addr()}, Topics: []string{c.Topic}, ConsumerGroup: name, ClientID: name,
		ChannelBufferSize: 16, MaxConcurrentConsumers: 4, FetchMaxBytes_: 1 << 20, FetchMinBytes_: 1,
		Offset_: OffsetTypeOldest, Balancer: "round-robin", ConsumerMaxWaitTime_: 100 * time.Millisecond,
		AutoCommitInterval_: 100 * time.Millisecond, SessionTimeout_: 30 * time.Second, HeartbeatInterval_: 100 * time.Millisecond,
	}
	ctl := &c10gController{partOf: func(v []byte) int {
		var p, off int
		if _, err := fmt.Sscanf(string(v), `{"p":%d,"o":%d}`, &p, &off); err != nil {
			return -1
		}
		return p
	}}
	plugin := &Plugin{}
	plugin.Start(config, &pipeline.InputPluginParams{
		PluginDefaultParams: pipeline.PluginDefaultParams{PipelineName: name, PipelineSettings: fdkit.DefaultSettings(), MetricCtl: fdkit.MetricCtl(name)},
		Controller:          ctl,
		Logger:              fdkit.NewLogger().Sugar(),
	})
	stopped := false
	defer func() {
		if !stopped {
			plugin.Stop()
		}
	}()
	total := 0
	for _, n := range c.Records {
		total += n
	}
	delivered := func(min int) func() bool {
		return func() bool {
			for _, row := range ctl.counts(c.Records) {
				for _, n := range row {
					if n < min {
						return false
					}
				}
			}
			return true
		}
	}
	nDeliveries := func() int { ctl.mu.Lock(); defer ctl.mu.Unlock(); return len(ctl.deliveries) }
	if !c10gWait(delivered(1), nDeliveries) {
		o.Excluded(c10P)
		o.Class("infrastructure:records-not-delivered")
		return o
	}
	acked := make([]int64, len(c.Records))
	rebalances := 0
	for si, st := range c.Steps {
		switch st.Op {
		case "ack":
			if st.P < 0 || st.P >= len(c.Records) {
				continue
			}
			for k := 0; k < st.N && acked[st.P] < int64(c.Records[st.P]); k++ {
				d, ok := ctl.find(st.P, acked[st.P])
				if !ok {
					break
				}
				// the acknowledgement is known to the oracle before the plugin hears of it
				broker.mu.Lock()
				broker.acked[st.P] = acked[st.P] + 1
				broker.mu.Unlock()
				plugin.Commit(&pipeline.Event{SourceID: d.source, Offset: d.packed})
				acked[st.P]++
			}
		case "wait":
			time.Sleep(time.Duration(st.Ms) * time.Millisecond)
		case "rebalance":
			broker.mu.Lock()
			gen, res := broker.generation, broker.resumes
			broker.mu.Unlock()
			before := nDeliveries()
			broker.rebalance.Store(true)
			ok := c10gWait(func() bool {
				broker.mu.Lock()
				defer broker.mu.Unlock()
				return broker.generation > gen && broker.resumes > res
			}, func() int { broker.mu.Lock(); defer broker.mu.Unlock(); return int(broker.generation) + broker.resumes })
			if !ok {
				o.Excluded(c10P)
				o.Class("infrastructure:rebalance-did-not-happen")
				return o
			}
			rebalances++
			// "a restart of the consumer group from the committed offsets redelivers everything unfinished"
			unfinishedBack := func() bool {
				ctl.mu.Lock()
				defer ctl.mu.Unlock()
				seen := map[[2]int64]bool{}
				for _, d := range ctl.deliveries[before:] {
					seen[[2]int64{int64(d.part), d.offset}] = true
				}
				for p, n := range c.Records {
					for off := acked[p]; off < int64(n); off++ {
						if !seen[[2]int64{int64(p), off}] {
							return false
						}
					}
				}
				return true
			}
			if !c10gWait(unfinishedBack, nDeliveries) {
				broker.mu.Lock()
				commits := append([]c10gCommit{}, broker.commits...)
				broker.mu.Unlock()
				o.Failf(c10P, "group:unfinished-records-not-redelivered-after-rebalance", "step %d: after the rebalance the records from offsets %v on (per partition, not acknowledged) were not delivered again; commits the broker received: %+v", si, acked, commits)
				return o
			}
		}
	}
	time.Sleep(230 * time.Millisecond) // two auto-commit periods
	plugin.Stop()
	stopped = true
	broker.mu.Lock()
	commits := append([]c10gCommit{}, broker.commits...)
	broker.mu.Unlock()
	broker.errMu.Lock()
	berrs := append([]string{}, broker.errors...)
	broker.errMu.Unlock()
	if len(berrs) > 0 {
		o.Excluded(c10P)
		o.Class("infrastructure:broker-stub-protocol-error")
		o.AppendContext(fmt.Sprint(berrs))
		return o
	}
	beyond := false
	for _, cm := range commits {
		if cm.Topic != c.Topic || cm.Partition < 0 || int(cm.Partition) >= len(c.Records) {
			o.Failf(c10P, "group:commit-on-foreign-partition", "the broker received a commit for %s/%d offset %d; consumed are %s/0..%d", cm.Topic, cm.Partition, cm.Offset, c.Topic, len(c.Records)-1)
			continue
		}
		if cm.Offset > cm.AckedThen {
			o.Failf(c10P, "group:committed-offset-passes-unacknowledged-record", "the broker received a commit of offset %d for %s/%d when only the records below offset %d of that partition were acknowledged (%d records consumed): a restart would not redeliver records %d..%d; all commits: %+v",
				cm.Offset, cm.Topic, cm.Partition, cm.AckedThen, c.Records[cm.Partition], cm.AckedThen, cm.Offset-1, commits)
		}
		if cm.Epoch >= 0 && cm.Epoch != c.Epoch {
			o.Failf(c10P, "group:commit-epoch-differs", "commit of %s/%d offset %d carries leader epoch %d, the records have %d", cm.Topic, cm.Partition, cm.Offset, cm.Epoch, c.Epoch)
		}
		if cm.Offset == cm.AckedThen && cm.Offset > 0 {
			beyond = true
		}
	}
	o.Class("client=group-broker")
	if rebalances > 0 {
		o.Class("group:rebalanced")
	}
	if len(commits) > 0 {
		o.Class("group:broker-received-commits")
	}
	unfinished := false
	for p, n := range c.Records {
		if acked[p] < int64(n) {
			unfinished = true
		}
	}
	if unfinished {
		o.Class("group:stopped-with-unfinished-records")
	}
	if (beyond || rebalances > 0) && unfinished {
		o.Nontrivial(c10P)
	}
	return o
}

var propC10G = vkit.NewProp([]string{c10P}, "c10group", genC10G, runC10G)

func TestVerifC10Group(t *testing.T) { propC10G.CrashFile = true; propC10G.Check(t) }
