package kafka

// Loopback "broker" stub for C10: it answers ApiVersions requests only (and
// advertises nothing but ApiVersions), which is exactly what the package's own
// NewClient needs for its Ping to succeed. Every other request is refused by the
// kgo client locally ("broker too old"), so no metadata is ever loaded, the
// consumer group is never joined and nothing is fetched or committed: the
// client stays a real kgo.Client (consumer group, AutoCommitMarks, ... as
// client.go configures it) whose marked offsets are only ever touched by
// Plugin.Commit.
//
// If the listener cannot be set up the check falls back to an offline client
// (unreachable seed broker, never pinged) built with the same option list.

import (
	"encoding/binary"
	"io"
	"net"
	"os"
	"sync"
	"time"

	"github.com/ozontech/file.d/cfg"
	"github.com/twmb/franz-go/pkg/kgo"
	"github.com/twmb/franz-go/pkg/kmsg"
	"go.uber.org/zap"
)

var (
	c10BrokerOnce sync.Once
	c10BrokerAddr string // "" = no stub, offline route
	c10BrokerHost string
	c10BrokerPort int32
)

// c10Broker returns the address of the process-wide stub ("" if unavailable).
func c10Broker() string {
	c10BrokerOnce.Do(func() {
		if os.Getenv("VERIF_C10_CLIENT") == "offline" {
			return
		}
		ln, err := net.Listen("tcp", "127.0.0.1:0")
		if err != nil {
			return
		}
		c10BrokerAddr = ln.Addr().String()
		ta := ln.Addr().(*net.TCPAddr)
		c10BrokerHost, c10BrokerPort = ta.IP.String(), int32(ta.Port)
		go func() {
			for {
				conn, err := ln.Accept()
				if err != nil {
					return
				}
				go c10Serve(conn)
			}
		}()
	})
	return c10BrokerAddr
}

func c10Serve(conn net.Conn) {
	defer conn.Close()
	var szb [4]byte
	for {
		_ = conn.SetReadDeadline(time.Now().Add(5 * time.Minute))
		if _, err := io.ReadFull(conn, szb[:]); err != nil {
			return
		}
		n := int(binary.BigEndian.Uint32(szb[:]))
		if n < 8 || n > 1<<20 {
			return
		}
		req := make([]byte, n)
		if _, err := io.ReadFull(conn, req); err != nil {
			return
		}
		key := int16(binary.BigEndian.Uint16(req[0:2]))
		version := int16(binary.BigEndian.Uint16(req[2:4]))
		corr := req[4:8]
		var body []byte
		flexibleHeader := false
		switch key {
		case 18: // ApiVersions: the only API this stub claims to speak (plus Metadata, see below)
			if version > 4 {
				version = 0
			}
			resp := kmsg.NewPtrApiVersionsResponse()
			resp.Version = version
			for _, kv := range [][3]int16{{18, 0, 4}, {3, 0, 12}} {
				k := kmsg.NewApiVersionsResponseApiKey()
				k.ApiKey, k.MinVersion, k.MaxVersion = kv[0], kv[1], kv[2]
				resp.ApiKeys = append(resp.ApiKeys, k)
			}
			body = resp.AppendTo(nil) // ApiVersions responses never use the flexible header
		case 3: // Metadata: one broker (this stub), no topics at all -> nothing to join a group for
			resp := kmsg.NewPtrMetadataResponse()
			resp.Version = version
			b := kmsg.NewMetadataResponseBroker()
			b.NodeID, b.Host, b.Port = 0, c10BrokerHost, c10BrokerPort
			resp.Brokers = append(resp.Brokers, b)
			resp.ControllerID = 0
			body = resp.AppendTo(nil)
			flexibleHeader = resp.IsFlexible()
		default: // this stub is no broker
			return
		}
		out := make([]byte, 0, 9+len(body))
		n2 := 4 + len(body)
		if flexibleHeader {
			n2++
		}
		out = binary.BigEndian.AppendUint32(out, uint32(n2))
		out = append(out, corr...)
		if flexibleHeader {
			out = append(out, 0) // no tagged fields
		}
		out = append(out, body...)
		if _, err := conn.Write(out); err != nil {
			return
		}
	}
}

// c10OfflineClient is the fallback route: the option list of client.go's
// NewClient without the Ping (an unreachable seed broker is never contacted
// successfully, so the group is never joined).
func c10OfflineClient(c *Config, l *zap.Logger, s Consumer) (*kgo.Client, error) {
	opts := cfg.GetKafkaClientOptions(c, l)
	opts = append(opts,
		kgo.ConsumerGroup(c.ConsumerGroup),
		kgo.ConsumeTopics(c.Topics...),
		kgo.AutoCommitMarks(),
		kgo.AutoCommitInterval(c.AutoCommitInterval_),
		kgo.OnPartitionsAssigned(s.Assigned),
		kgo.OnPartitionsRevoked(s.Lost),
		kgo.OnPartitionsLost(s.Lost),
		kgo.BlockRebalanceOnPoll(),
		kgo.Balancers(kgo.RoundRobinBalancer()),
	)
	return kgo.NewClient(opts...)
}
