package loki

// C19 (white-box): the push body Plugin.out builds is one JSON document whose
// streams carry one [timestamp, message, rest-of-event] entry per deliverable
// event, in batch order, under the configured labels.

import (
	"fmt"
	"testing"
	"time"

	"github.com/ozontech/file.d/pipeline"
	"github.com/ozontech/file.d/zzverif/checks/c19"
	"github.com/ozontech/file.d/zzverif/fdkit"
	"github.com/ozontech/file.d/zzverif/vkit"
	"pgregory.net/rapid"
)

func TestMain(m *testing.M)   { c19.CapMemory(); fdkit.InstallLogger(); vkit.Main(m) }
func TestReplay(t *testing.T) { verifC19Setup(); defer verifC19Teardown(); vkit.Replay(t) }

// VerifC19Case: a config and successive batches sent through the same worker data.
type VerifC19Case struct {
	Labels       []Label     `json:"labels"`
	MessageField string      `json:"message_field"`
	TSField      string      `json:"timestamp_field"`
	BatchSize    int         `json:"batch_size"`
	AvgEventSize int         `json:"avg_event_size"`
	Batches      []c19.Batch `json:"batches"`
	// BadTS[i]: batch i contains an event whose timestamp is not unix-nano; the
	// plugin documents (in code) that such a batch is skipped without a request.
	BadTS []bool `json:"bad_ts"`
}

var verifC19GoodTS = []string{"1700000000000000000", "1600000000123456789", "1", "946684800000000000"}
var verifC19BadTS = []string{"abc", "-5", "0", "99999999999999999999", "1.5", "2023-01-01T00:00:00Z", "4000000000000000000", " 1700000000000000000"}

func verifC19Gen(t *rapid.T) VerifC19Case {
	c := VerifC19Case{
		MessageField: rapid.SampledFrom([]string{"message", "log"}).Draw(t, "msgfield"),
		TSField:      rapid.SampledFrom([]string{"ts", "time"}).Draw(t, "tsfield"),
		AvgEventSize: rapid.SampledFrom([]int{1, 16, 256, 4096}).Draw(t, "avg"),
	}
	nl := rapid.IntRange(0, 3).Draw(t, "nlabels")
	for i := 0; i < nl; i++ {
		c.Labels = append(c.Labels, Label{
			Label: rapid.SampledFrom([]string{"app", "env", "a\"b", "l\n", "ключ"}).Draw(t, fmt.Sprintf("label%d", i)),
			Value: c19.GenRouteString(t, fmt.Sprintf("labelv%d", i), true),
		})
	}
	opts := c19.EventOpts{InvalidUTF8: true, Decorate: func(t *rapid.T, label string, obj *vkit.JNode, id string) {
		obj.Del(c.MessageField)
		if v := c19.GenRouteValue(t, label+"/msg", true); v != nil {
			obj.Set(c.MessageField, v)
		}
		obj.Del(c.TSField)
		switch rapid.IntRange(0, 9).Draw(t, label+"/tsk") {
		case 0, 1:
		case 2:
			obj.Set(c.TSField, vkit.JStr(""))
		case 3:
			obj.Set(c.TSField, vkit.JNum("1700000000000000001"))
		case 4:
			obj.Set(c.TSField, vkit.JObj().Set("k", vkit.JNum("1")))
		default:
			obj.Set(c.TSField, vkit.JStr(rapid.SampledFrom(verifC19GoodTS).Draw(t, label+"/ts")))
		}
	}}
	c.Batches = c19.GenBatches(t, opts, c19.GenPlan([]int{500, 503, 429}, false))
	maxLen := 1
	for bi := range c.Batches {
		b := &c.Batches[bi]
		maxLen = max(maxLen, len(b.Events))
		bad := rapid.IntRange(0, 11).Draw(t, fmt.Sprintf("b%d/badts", bi)) == 0
		c.BadTS = append(c.BadTS, bad)
		if bad {
			// rewrite the timestamp of one deliverable event
			for ei := range b.Events {
				if !b.Events[ei].Parent {
					tree := b.Events[ei].Tree()
					tree.Set(c.TSField, vkit.JStr(rapid.SampledFrom(verifC19BadTS).Draw(t, fmt.Sprintf("b%d/badtsv", bi))))
					b.Events[ei].SetText(tree.Encode())
					break
				}
			}
		}
	}
	c.BatchSize = maxLen + rapid.SampledFrom([]int{0, 0, 1, 100}).Draw(t, "bsx")
	return c
}

var (
	verifC19Srv  *c19.Server
	verifC19Base *Plugin
)

func verifC19Teardown() {
	if verifC19Srv != nil {
		verifC19Srv.Close()
		verifC19Srv = nil
	}
}

func verifC19Setup() {
	if verifC19Srv != nil {
		return
	}
	fdkit.InstallLogger()
	verifC19Srv = c19.NewServer(204, ``)
	verifC19Base = &Plugin{logger: fdkit.NewLogger(), config: &Config{Address: verifC19Srv.URL, ConnectionTimeout_: 30 * time.Second}}
	verifC19Base.config.KeepAlive.MaxConnDuration_ = 5 * time.Minute
	verifC19Base.config.KeepAlive.MaxIdleConnDuration_ = 10 * time.Second
	verifC19Base.registerMetrics(fdkit.MetricCtl("c19loki"))
	verifC19Base.prepareClient()
}

func verifC19AllDigits(s string) bool {
	if s == "" {
		return false
	}
	for i := 0; i < len(s); i++ {
		if s[i] < '0' || s[i] > '9' {
			return false
		}
	}
	return true
}

func verifC19Body(o *vkit.Outcome, c VerifC19Case, what string, body []byte, b c19.Batch, earlier map[string]bool) {
	want := b.Deliverable()
	doc, err := vkit.ParseJSON(body)
	if err != nil || doc.Kind != 'o' {
		o.Failf(c19.P, "loki:body-invalid-json", "%s: body is not a JSON object (%v): %q", what, err, c19.Clip(string(body)))
		return
	}
	streams := doc.Get("streams")
	if streams == nil || streams.Kind != 'a' || len(doc.Keys) != 1 {
		o.Failf(c19.P, "loki:body-wrong-shape", "%s: body is not {\"streams\":[…]}: %q", what, c19.Clip(string(body)))
		return
	}
	// configured labels (a repeated label name keeps its last value)
	wantLabels := vkit.JObj()
	for _, l := range c.Labels {
		wantLabels.Set(c19.NormUTF8(l.Label), vkit.JStr(c19.NormUTF8(l.Value)))
	}
	var gotIDs []string
	k := 0
	for si, st := range streams.Vals {
		lbl, vals := st.Get("stream"), st.Get("values")
		if st.Kind != 'o' || lbl == nil || lbl.Kind != 'o' || vals == nil || vals.Kind != 'a' {
			o.Failf(c19.P, "loki:body-wrong-shape", "%s: stream %d is not {\"stream\":{…},\"values\":[…]}: %q", what, si, c19.Clip(st.Encode()))
			return
		}
		if d := vkit.DiffJ(wantLabels, lbl, false); d != "" {
			o.Failf(c19.P, "loki:labels-differ", "%s: stream %d labels differ from the configured ones: %s", what, si, d)
			return
		}
		// order is asserted within a stream; the plugin uses one stream
		for vi, v := range vals.Vals {
			if v.Kind != 'a' || len(v.Vals) != 3 || v.Vals[0].Kind != 's' || v.Vals[1].Kind != 's' || v.Vals[2].Kind != 'o' {
				o.Failf(c19.P, "loki:entry-wrong-shape", "%s: stream %d entry %d is not [\"<ts>\",\"<line>\",{…}]: %q", what, si, vi, c19.Clip(v.Encode()))
				return
			}
			meta := v.Vals[2]
			id := c19.IDOf(meta, c19.IDKey)
			gotIDs = append(gotIDs, id)
			if k < len(want) && want[k].ID == id {
				tree := want[k].Tree()
				wantMsg := c19.AsString(tree.Get(c.MessageField))
				if c19.NormUTF8(v.Vals[1].Str) != c19.NormUTF8(wantMsg) {
					o.Failf(c19.P, "loki:message-differs", "%s: event %s: log line %q, want the value of field %q = %q", what, id, c19.Clip(v.Vals[1].Str), c.MessageField, c19.Clip(wantMsg))
					return
				}
				wantTS := c19.AsString(tree.Get(c.TSField))
				gotTS := v.Vals[0].Str
				if wantTS != "" && gotTS != wantTS {
					o.Failf(c19.P, "loki:timestamp-differs", "%s: event %s: timestamp %q, want the value of field %q = %q", what, id, gotTS, c.TSField, wantTS)
					return
				}
				if wantTS == "" && !verifC19AllDigits(gotTS) {
					o.Failf(c19.P, "loki:timestamp-not-unix-nano", "%s: event %s has no timestamp, entry carries %q", what, id, gotTS)
					return
				}
				// the rest of the event travels as the third element (weak reading: the two
				// mapped fields may or may not be repeated there)
				rest := tree.Clone()
				rest.Del(c.MessageField)
				rest.Del(c.TSField)
				got := meta.Clone()
				got.Del(c.MessageField)
				got.Del(c.TSField)
				if d := vkit.DiffJ(rest, got, false); d != "" {
					o.Failf(c19.P, "loki:rest-of-event-differs", "%s: event %s: third element differs from the event without %q/%q: %s\nevent %q\n  got %q", what, id, c.MessageField, c.TSField, d, c19.Clip(want[k].Text()), c19.Clip(meta.Encode()))
					return
				}
			}
			k++
		}
	}
	if clause, msg := c19.SeqProblem(gotIDs, c19.IDs(want), c19.ParentSet(b), earlier); clause != "" {
		o.Failf(c19.P, "loki:"+clause, "%s: %s", what, msg)
	}
}

func verifC19Run(c VerifC19Case) *vkit.Outcome {
	verifC19Setup()
	o := vkit.NewOutcome()
	p := &Plugin{
		config: &Config{Address: verifC19Srv.URL, Labels: c.Labels, MessageField: c.MessageField, TimestampField: c.TSField,
			BatchSize_: c.BatchSize, ConnectionTimeout_: 30 * time.Second},
		client:          verifC19Base.client,
		logger:          verifC19Base.logger,
		avgEventSize:    c.AvgEventSize,
		sendErrorMetric: verifC19Base.sendErrorMetric,
	}
	p.labels = p.parseLabels()
	var wd pipeline.WorkerData
	earlier := map[string]bool{}
	nontrivial := false
	for _, l := range c.Labels {
		if c19.Hostile(l.Value) || c19.Hostile(l.Label) {
			nontrivial = true
			o.Class("hostile-label")
		}
	}
	for bi, b := range c.Batches {
		bt := c19.Build(b)
		var prec any
		var pstack string
		atts := verifC19Srv.Drive(b.Plan, func() error {
			var err error
			prec, pstack = c19.Guard("c19loki", "loki:out-never-terminates", c, func() { err = p.out(&wd, bt.Batch) })
			if prec != nil {
				return nil
			}
			return err
		})
		if prec != nil {
			o.Failf(c19.P, "loki:out-panics", "batch %d: out() panicked: %v\n%s", bi, prec, pstack)
			bt.Release()
			break
		}
		if len(b.Deliverable()) >= 2 {
			nontrivial = true
		}
		last := atts[len(atts)-1]
		if bi < len(c.BadTS) && c.BadTS[bi] {
			// not asserted: the plugin skips a batch holding a non-unix-nano timestamp
			o.Class("batch-with-bad-timestamp")
			if len(atts) == 1 && len(last.Reqs) == 0 && last.Err == nil {
				o.Class("batch-with-bad-timestamp-dropped-without-request")
			}
			bt.Release()
			c19.AddAll(earlier, b)
			continue
		}
		if last.Err != nil {
			o.Failf(c19.P, "loki:batch-not-accepted", "batch %d: out() still fails after %d attempts although the endpoint accepts: %v", bi, len(atts), last.Err)
		}
		if len(atts) > 1 {
			o.Class("retried")
		}
		for ai, att := range atts {
			if len(att.Reqs) != 1 {
				o.Failf(c19.P, "loki:not-one-request-per-attempt", "batch %d attempt %d made %d requests (err %v)", bi, ai, len(att.Reqs), att.Err)
				break
			}
			rq := att.Reqs[0]
			what := fmt.Sprintf("batch %d attempt %d (status %d)", bi, ai, rq.Status)
			retrySig := ""
			if ai > 0 {
				retrySig = "loki:retry-resends-changed-events"
			}
			c19.Sub(o, retrySig, func(so *vkit.Outcome) { verifC19Body(so, c, what, rq.Body, b, earlier) })
			if o.Failed() {
				break
			}
		}
		bt.Release()
		c19.AddAll(earlier, b)
		if o.Failed() {
			break
		}
	}
	o.Class(fmt.Sprintf("batches=%d", len(c.Batches)))
	if nontrivial {
		o.Nontrivial(c19.P)
	}
	return o
}

var verifC19Prop = vkit.NewProp([]string{c19.P}, "c19loki", verifC19Gen, verifC19Run)

func TestVerifC19Loki(t *testing.T) {
	verifC19Setup()
	defer verifC19Teardown()
	verifC19Prop.CrashFile = true
	verifC19Prop.Check(t)
}
