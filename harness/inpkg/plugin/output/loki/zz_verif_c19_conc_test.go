package loki

// C19 with the batcher's workers in parallel (the loki sink): several goroutines call out() on ONE plugin
// (one HTTP client, as the workers of a batcher do), each with batches of its own. The endpoint must
// receive every event of every batch exactly once - whatever the workers share must not leak between
// push requests that are built at the same time.

import (
	"fmt"
	"io"
	"net/http"
	"net/http/httptest"
	"regexp"
	"strings"
	"sync"
	"testing"
	"time"

	"github.com/ozontech/file.d/pipeline"
	"github.com/ozontech/file.d/zzverif/fdkit"
	"github.com/ozontech/file.d/zzverif/vkit"
	insaneJSON "github.com/ozontech/insane-json"
	"pgregory.net/rapid"
)

type C19LokiConcCase struct {
	Workers int `json:"workers"`
	Rounds  int `json:"rounds"`
	Events  int `json:"events"` // per batch
	Pad     int `json:"pad"`    // bytes of filler per event
}

func genC19LokiConc(t *rapid.T) C19LokiConcCase {
	return C19LokiConcCase{
		Workers: rapid.IntRange(2, 8).Draw(t, "workers"),
		Rounds:  rapid.IntRange(5, 60).Draw(t, "rounds"),
		Events:  rapid.IntRange(1, 16).Draw(t, "events"),
		Pad:     rapid.SampledFrom([]int{0, 100, 2000}).Draw(t, "pad"),
	}
}

var reC19LokiConcID = regexp.MustCompile(`"id":"(w\d+\.r\d+\.e\d+)"`)

func runC19LokiConc(c C19LokiConcCase) *vkit.Outcome {
	o := vkit.NewOutcome()
	if c.Workers < 1 || c.Workers > 32 || c.Rounds < 1 || c.Rounds > 200 || c.Events < 1 || c.Events > 64 || c.Pad < 0 || c.Pad > 1<<20 {
		o.Class("invalid-case")
		return o
	}
	var mu sync.Mutex
	seen := map[string]int{}
	srv := httptest.NewServer(http.HandlerFunc(func(w http.ResponseWriter, r *http.Request) {
		body, _ := io.ReadAll(r.Body)
		mu.Lock()
		for _, m := range reC19LokiConcID.FindAllStringSubmatch(string(body), -1) {
			seen[m[1]]++
		}
		mu.Unlock()
		w.WriteHeader(http.StatusNoContent)
	}))
	defer srv.Close()

	base := &Plugin{logger: fdkit.NewLogger(), config: &Config{Address: srv.URL, ConnectionTimeout_: 30 * time.Second}}
	base.config.KeepAlive.MaxConnDuration_ = 5 * time.Minute
	base.config.KeepAlive.MaxIdleConnDuration_ = 10 * time.Second
	base.prepareClient()
	verifC19Setup() // metrics of the shared base plugin
	p := &Plugin{
		config: &Config{Address: srv.URL, Labels: []Label{{Label: "job", Value: "c19"}}, MessageField: "message", TimestampField: "ts",
			BatchSize_: 64, ConnectionTimeout_: 30 * time.Second},
		client:          base.client,
		logger:          base.logger,
		avgEventSize:    256,
		sendErrorMetric: verifC19Base.sendErrorMetric,
	}
	p.labels = p.parseLabels()
	pad := strings.Repeat("x", c.Pad)
	var wg sync.WaitGroup
	var errMu sync.Mutex
	var errs []string
	for w := 0; w < c.Workers; w++ {
		wg.Add(1)
		go func(w int) {
			defer wg.Done()
			var wd pipeline.WorkerData
			for r := 0; r < c.Rounds; r++ {
				var events []*pipeline.Event
				var roots []*insaneJSON.Root
				for e := 0; e < c.Events; e++ {
					root := insaneJSON.Spawn()
					_ = root.DecodeString(fmt.Sprintf(`{"id":"w%d.r%d.e%d","message":"line","pad":"%s"}`, w, r, e, pad))
					roots = append(roots, root)
					events = append(events, &pipeline.Event{Root: root, Size: 48 + c.Pad, SeqID: uint64(w*1000000 + r*100 + e + 1)})
				}
				err := p.out(&wd, pipeline.NewPreparedBatch(events))
				for _, root := range roots {
					insaneJSON.Release(root)
				}
				if err != nil {
					errMu.Lock()
					errs = append(errs, fmt.Sprintf("worker %d round %d: %v", w, r, err))
					errMu.Unlock()
					return
				}
			}
		}(w)
	}
	wg.Wait()
	mu.Lock()
	defer mu.Unlock()
	if len(errs) > 0 {
		o.Failf("C19", "loki:concurrent-workers:out-failed-although-endpoint-accepts", "%s", errs[0])
	}
	missing, dup := 0, 0
	example := ""
	for w := 0; w < c.Workers; w++ {
		for r := 0; r < c.Rounds; r++ {
			for e := 0; e < c.Events; e++ {
				id := fmt.Sprintf("w%d.r%d.e%d", w, r, e)
				switch n := seen[id]; {
				case n == 0:
					missing++
					if example == "" {
						example = id + " never arrived"
					}
				case n > 1:
					dup++
					if example == "" {
						example = fmt.Sprintf("%s arrived %d times", id, n)
					}
				}
			}
		}
	}
	if (missing > 0 || dup > 0) && !o.Failed() {
		o.Failf("C19", "loki:concurrent-workers:events-lost-or-duplicated", "%d workers x %d rounds x %d events, every out() returned nil: %d events never arrived, %d arrived more than once (e.g. %s)", c.Workers, c.Rounds, c.Events, missing, dup, example)
	}
	o.Nontrivial("C19")
	o.Class("loki:concurrent-workers")
	return o
}

var propC19LokiConc = vkit.NewProp([]string{"C19"}, "c19lokiconcurrent", genC19LokiConc, runC19LokiConc)

func TestVerifC19LokiConcurrent(t *testing.T) {
	propC19LokiConc.CrashFile = true
	propC19LokiConc.Check(t)
}
