package file

// C19 (white-box): the bytes Plugin.out appends to the target file for a batch
// are exactly one newline-terminated JSON line per deliverable event, in order.

import (
	"fmt"
	"os"
	"path/filepath"
	"sync"
	"testing"

	"github.com/ozontech/file.d/pipeline"
	"github.com/ozontech/file.d/zzverif/checks/c19"
	"github.com/ozontech/file.d/zzverif/fdkit"
	"github.com/ozontech/file.d/zzverif/vkit"
	"pgregory.net/rapid"
)

func TestMain(m *testing.M)   { c19.CapMemory(); fdkit.InstallLogger(); vkit.Main(m) }
func TestReplay(t *testing.T) { defer verifC19Cleanup(); vkit.Replay(t) }

func verifC19Cleanup() {
	if verifC19Dir != "" {
		_ = os.RemoveAll(verifC19Dir)
	}
}

// VerifC19Case: successive batches written through the same worker data.
type VerifC19Case struct {
	BatchSize    int         `json:"batch_size"`
	AvgEventSize int         `json:"avg_event_size"`
	Batches      []c19.Batch `json:"batches"`
}

func verifC19Gen(t *rapid.T) VerifC19Case {
	c := VerifC19Case{AvgEventSize: rapid.SampledFrom([]int{0, 0, 1, 64, 4096}).Draw(t, "avg")}
	c.Batches = c19.GenBatches(t, c19.EventOpts{InvalidUTF8: true, Decorate: func(t *rapid.T, label string, obj *vkit.JNode, id string) {
		if rapid.IntRange(0, 3).Draw(t, label+"/hostile") == 0 {
			obj.Set("message", vkit.JStr(c19.GenRouteString(t, label+"/msg", true)))
		}
	}}, nil)
	maxLen := 1
	for _, b := range c.Batches {
		maxLen = max(maxLen, len(b.Events))
	}
	c.BatchSize = maxLen + rapid.SampledFrom([]int{0, 0, 1, 100}).Draw(t, "bsx")
	return c
}

var (
	verifC19Dir string
	verifC19Seq int
)

// verifC19Lines checks the bytes one batch appended.
func verifC19Lines(o *vkit.Outcome, sink, what string, body []byte, want []c19.Ev, parents, earlier map[string]bool) {
	lines, nlTerminated := c19.SplitLines(body)
	if !nlTerminated {
		o.Failf(c19.P, sink+":not-newline-terminated", "%s: written bytes do not end in a newline: …%q", what, c19.Clip(string(body[max(0, len(body)-80):])))
		return
	}
	var gotIDs []string
	for i, ln := range lines {
		doc, err := vkit.ParseJSON(ln)
		if err != nil || doc.Kind != 'o' {
			o.Failf(c19.P, sink+":line-invalid-json", "%s: line %d is not a JSON object (%v): %q", what, i, err, c19.Clip(string(ln)))
			return
		}
		id := c19.IDOf(doc, c19.IDKey)
		gotIDs = append(gotIDs, id)
		if i < len(want) && want[i].ID == id {
			if d := vkit.DiffJ(want[i].Tree(), doc, false); d != "" {
				o.Failf(c19.P, sink+":document-differs", "%s: event %s: line differs from the event: %s\nevent %q\n line %q", what, id, d, c19.Clip(want[i].Text()), c19.Clip(string(ln)))
				return
			}
		}
	}
	if clause, msg := c19.SeqProblem(gotIDs, c19.IDs(want), parents, earlier); clause != "" {
		o.Failf(c19.P, sink+":"+clause, "%s: %s", what, msg)
	}
}

func verifC19Run(c VerifC19Case) *vkit.Outcome {
	o := vkit.NewOutcome()
	if verifC19Dir == "" {
		d, err := os.MkdirTemp("", "verif-c19-file-")
		if err != nil {
			panic(err)
		}
		verifC19Dir = d
	}
	verifC19Seq++
	name := filepath.Join(verifC19Dir, fmt.Sprintf("out-%d.log", verifC19Seq))
	f, err := os.OpenFile(name, os.O_CREATE|os.O_APPEND|os.O_RDWR|os.O_TRUNC, 0o666) // O_APPEND|O_RDWR as createNew opens it
	if err != nil {
		panic(err)
	}
	defer func() { _ = f.Close(); _ = os.Remove(name) }()

	p := &Plugin{
		config:       &Config{BatchSize_: c.BatchSize},
		logger:       fdkit.NewLogger().Sugar(),
		avgEventSize: c.AvgEventSize,
		file:         f,
		mu:           &sync.RWMutex{},
	}
	var wd pipeline.WorkerData
	earlier := map[string]bool{}
	nontrivial := false
	var off int64
	for bi, b := range c.Batches {
		bt := c19.Build(b)
		p.out(&wd, bt.Batch)
		bt.Release()
		st, err := os.Stat(name)
		if err != nil {
			panic(err)
		}
		body := make([]byte, st.Size()-off)
		if _, err := f.ReadAt(body, off); err != nil && len(body) > 0 {
			panic(err)
		}
		off = st.Size()
		want := b.Deliverable()
		if len(want) >= 2 {
			nontrivial = true
		}
		verifC19Lines(o, "file", fmt.Sprintf("batch %d", bi), body, want, c19.ParentSet(b), earlier)
		c19.AddAll(earlier, b)
		if o.Failed() {
			break
		}
	}
	o.Class(fmt.Sprintf("batches=%d", len(c.Batches)))
	if nontrivial {
		o.Nontrivial(c19.P)
	}
	return o
}

var verifC19Prop = vkit.NewProp([]string{c19.P}, "c19file", verifC19Gen, verifC19Run)

func TestVerifC19File(t *testing.T) {
	defer verifC19Cleanup()
	verifC19Prop.Check(t)
}
