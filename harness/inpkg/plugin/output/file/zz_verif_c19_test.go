package file

// C19 (white-box): the bytes Plugin.out appends to the target file for a batch
// are exactly one newline-terminated JSON line per deliverable event, in order,
// and the lines of earlier batches stay as they are - also when the plugin was
// restarted in between and createNew picked the unsealed file up again.

import (
	"bytes"
	"fmt"
	"os"
	"path/filepath"
	"sync"
	"testing"

	"github.com/ozontech/file.d/pipeline"
	"github.com/ozontech/file.d/zzverif/checks/c19"
	"github.com/ozontech/file.d/zzverif/fdkit"
	"github.com/ozontech/file.d/zzverif/vkit"
	"pgregory.net/rapid"
)

func TestMain(m *testing.M)   { c19.CapMemory(); fdkit.InstallLogger(); vkit.Main(m) }
func TestReplay(t *testing.T) { defer verifC19Cleanup(); vkit.Replay(t) }

func verifC19Cleanup() {
	if verifC19Dir != "" {
		_ = os.RemoveAll(verifC19Dir)
	}
}

// VerifC19Case: successive batches written through the same worker data.
type VerifC19Case struct {
	BatchSize    int         `json:"batch_size"`
	AvgEventSize int         `json:"avg_event_size"`
	Batches      []c19.Batch `json:"batches"`
	// RestartBefore[i]: the plugin is stopped and a new instance opens the target file
	// (createNew finds the unsealed file of the earlier run) before batch i.
	RestartBefore []bool `json:"restart_before,omitempty"`
}

func verifC19Gen(t *rapid.T) VerifC19Case {
	c := VerifC19Case{AvgEventSize: rapid.SampledFrom([]int{0, 0, 1, 64, 4096}).Draw(t, "avg")}
	c.Batches = c19.GenBatches(t, c19.EventOpts{InvalidUTF8: true, Decorate: func(t *rapid.T, label string, obj *vkit.JNode, id string) {
		if rapid.IntRange(0, 3).Draw(t, label+"/hostile") == 0 {
			obj.Set("message", vkit.JStr(c19.GenRouteString(t, label+"/msg", true)))
		}
	}}, nil)
	maxLen := 1
	for _, b := range c.Batches {
		maxLen = max(maxLen, len(b.Events))
	}
	c.BatchSize = maxLen + rapid.SampledFrom([]int{0, 0, 1, 100}).Draw(t, "bsx")
	if len(c.Batches) >= 2 && rapid.IntRange(0, 2).Draw(t, "restarts") == 0 {
		c.RestartBefore = make([]bool, len(c.Batches))
		for i := 1; i < len(c.Batches); i++ {
			c.RestartBefore[i] = rapid.IntRange(0, 2).Draw(t, fmt.Sprintf("restart%d", i)) == 0
		}
	}
	return c
}

var (
	verifC19Dir string
	verifC19Seq int
)

// verifC19Lines checks the bytes one batch appended.
func verifC19Lines(o *vkit.Outcome, sink, what string, body []byte, want []c19.Ev, parents, earlier map[string]bool) {
	lines, nlTerminated := c19.SplitLines(body)
	if !nlTerminated {
		o.Failf(c19.P, sink+":not-newline-terminated", "%s: written bytes do not end in a newline: …%q", what, c19.Clip(string(body[max(0, len(body)-80):])))
		return
	}
	var gotIDs []string
	for i, ln := range lines {
		doc, err := vkit.ParseJSON(ln)
		if err != nil || doc.Kind != 'o' {
			o.Failf(c19.P, sink+":line-invalid-json", "%s: line %d is not a JSON object (%v): %q", what, i, err, c19.Clip(string(ln)))
			return
		}
		id := c19.IDOf(doc, c19.IDKey)
		gotIDs = append(gotIDs, id)
		if i < len(want) && want[i].ID == id {
			if d := vkit.DiffJ(want[i].Tree(), doc, false); d != "" {
				o.Failf(c19.P, sink+":document-differs", "%s: event %s: line differs from the event: %s\nevent %q\n line %q", what, id, d, c19.Clip(want[i].Text()), c19.Clip(string(ln)))
				return
			}
		}
	}
	if clause, msg := c19.SeqProblem(gotIDs, c19.IDs(want), parents, earlier); clause != "" {
		o.Failf(c19.P, sink+":"+clause, "%s: %s", what, msg)
	}
}

func verifC19Run(c VerifC19Case) *vkit.Outcome {
	o := vkit.NewOutcome()
	if verifC19Dir == "" {
		d, err := os.MkdirTemp("", "verif-c19-file-")
		if err != nil {
			panic(err)
		}
		verifC19Dir = d
	}
	verifC19Seq++
	// the file is opened by the plugin's own createNew, in a directory of this case
	dir := filepath.Join(verifC19Dir, fmt.Sprintf("case-%d", verifC19Seq)) + "/"
	if err := os.MkdirAll(dir, 0o777); err != nil {
		panic(err)
	}
	defer func() { _ = os.RemoveAll(dir) }()
	open := func() *Plugin {
		p := &Plugin{
			config:        &Config{BatchSize_: c.BatchSize, FileMode_: 0o666},
			logger:        fdkit.NewLogger().Sugar(),
			avgEventSize:  c.AvgEventSize,
			mu:            &sync.RWMutex{},
			targetDir:     dir,
			fileName:      "out",
			fileExtension: ".log",
		}
		p.createNew()
		return p
	}
	p := open()
	defer func() { _ = p.file.Close() }()
	name := p.file.Name()
	var wd pipeline.WorkerData
	earlier := map[string]bool{}
	nontrivial := false
	var prev []byte
	restarted := false
	for bi, b := range c.Batches {
		if bi < len(c.RestartBefore) && c.RestartBefore[bi] {
			_ = p.file.Close()
			p, wd = open(), nil
			restarted = true
			if p.file.Name() != name {
				name, prev = p.file.Name(), nil // another file: the earlier lines stay where they are
				o.Class("restart-opened-another-file")
			}
		}
		bt := c19.Build(b)
		p.out(&wd, bt.Batch)
		bt.Release()
		cur, err := os.ReadFile(name)
		if err != nil {
			panic(err)
		}
		if !bytes.HasPrefix(cur, prev) {
			o.Failf(c19.P, "file:lines-of-earlier-batches-changed", "batch %d: the file held %d bytes of earlier batches, now it has %d bytes and they are not a prefix of it:\nbefore …%q\nnow    …%q", bi, len(prev), len(cur), c19.Clip(string(prev[max(0, len(prev)-80):])), c19.Clip(string(cur[max(0, len(cur)-80):])))
			break
		}
		body := cur[len(prev):]
		prev = cur
		want := b.Deliverable()
		if len(want) >= 2 {
			nontrivial = true
		}
		verifC19Lines(o, "file", fmt.Sprintf("batch %d", bi), body, want, c19.ParentSet(b), earlier)
		c19.AddAll(earlier, b)
		if o.Failed() {
			break
		}
	}
	o.Class(fmt.Sprintf("batches=%d", len(c.Batches)))
	if restarted {
		o.Class("restart-between-batches")
	}
	if nontrivial {
		o.Nontrivial(c19.P)
	}
	return o
}

var verifC19Prop = vkit.NewProp([]string{c19.P}, "c19file", verifC19Gen, verifC19Run)

func TestVerifC19File(t *testing.T) {
	defer verifC19Cleanup()
	verifC19Prop.Check(t)
}
