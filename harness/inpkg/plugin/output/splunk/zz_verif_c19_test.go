package splunk

// C19 (white-box): the HEC body Plugin.out builds is a stream of JSON objects,
// one per deliverable event in batch order, each {"event": <the event>} plus the
// documented copy_fields copies.

import (
	"fmt"
	"testing"
	"time"

	"github.com/ozontech/file.d/pipeline"
	"github.com/ozontech/file.d/zzverif/checks/c19"
	"github.com/ozontech/file.d/zzverif/fdkit"
	"github.com/ozontech/file.d/zzverif/vkit"
	"pgregory.net/rapid"
)

func TestMain(m *testing.M)   { c19.CapMemory(); fdkit.InstallLogger(); vkit.Main(m) }
func TestReplay(t *testing.T) { verifC19Setup(); defer verifC19Teardown(); vkit.Replay(t) }

// VerifC19Copy is one copy_fields entry as parsed paths.
type VerifC19Copy struct {
	From []string `json:"from"`
	To   []string `json:"to"`
}

// VerifC19Case: a config and successive batches sent through the same worker data.
type VerifC19Case struct {
	Copies       []VerifC19Copy `json:"copy_fields"`
	Gzip         bool           `json:"use_gzip"`
	BatchSize    int            `json:"batch_size"`
	AvgEventSize int            `json:"avg_event_size"`
	Batches      []c19.Batch    `json:"batches"`
}

// conflict-free destinations (none is "event", a prefix of another, or the root)
var verifC19CopyPool = []VerifC19Copy{
	{From: []string{"ts"}, To: []string{"time"}},
	{From: []string{"service"}, To: []string{"fields", "service_name"}},
	{From: []string{"k8s", "pod"}, To: []string{"fields", "pod"}},
	{From: []string{}, To: []string{"copy"}},
	{From: []string{"nope"}, To: []string{"absent"}},
	{From: []string{"service"}, To: []string{"host"}},
	{From: []string{"k8s"}, To: []string{"fields", "k8s"}},
}

func verifC19Gen(t *rapid.T) VerifC19Case {
	c := VerifC19Case{
		Gzip:         rapid.IntRange(0, 5).Draw(t, "gzip") == 0,
		AvgEventSize: rapid.SampledFrom([]int{1, 16, 256, 4096}).Draw(t, "avg"),
	}
	for i, cp := range verifC19CopyPool {
		if rapid.IntRange(0, 2).Draw(t, fmt.Sprintf("copy%d", i)) == 0 {
			c.Copies = append(c.Copies, cp)
		}
	}
	opts := c19.EventOpts{InvalidUTF8: true, Decorate: func(t *rapid.T, label string, obj *vkit.JNode, id string) {
		for _, f := range []string{"ts", "service"} {
			obj.Del(f)
			if v := c19.GenRouteValue(t, label+"/"+f, true); v != nil {
				obj.Set(f, v)
			}
		}
		obj.Del("k8s")
		if rapid.Bool().Draw(t, label+"/k8s") {
			k := vkit.JObj()
			if v := c19.GenRouteValue(t, label+"/pod", true); v != nil {
				k.Set("pod", v)
			}
			obj.Set("k8s", k)
		}
	}}
	c.Batches = c19.GenBatches(t, opts, c19.GenPlan([]int{500, 503}, false))
	maxLen := 1
	for _, b := range c.Batches {
		maxLen = max(maxLen, len(b.Events))
	}
	c.BatchSize = maxLen + rapid.SampledFrom([]int{0, 0, 1, 100}).Draw(t, "bsx")
	return c
}

var (
	verifC19Srv    *c19.Server
	verifC19Base   *Plugin
	verifC19Client = map[bool]*Plugin{}
)

func verifC19Teardown() {
	if verifC19Srv != nil {
		verifC19Srv.Close()
		verifC19Srv = nil
	}
}

func verifC19Setup() {
	if verifC19Srv != nil {
		return
	}
	fdkit.InstallLogger()
	verifC19Srv = c19.NewServer(200, `{"code":0}`)
	if verifC19Base == nil {
		verifC19Base = &Plugin{logger: fdkit.NewLogger().Sugar()}
		verifC19Base.registerMetrics(fdkit.MetricCtl("c19splunk"))
	}
	for _, gz := range []bool{false, true} {
		p := &Plugin{logger: fdkit.NewLogger().Sugar(), config: &Config{
			Endpoint: verifC19Srv.URL + "/services/collector", UseGzip: gz, GzipCompressionLevel: "default",
			Token: "tok", RequestTimeout_: 30 * time.Second,
		}}
		p.config.KeepAlive.MaxIdleConnDuration_ = 10 * time.Second
		p.prepareClient()
		verifC19Client[gz] = p
	}
}

// verifC19Envelope is the documented output object of one event.
func verifC19Envelope(c VerifC19Case, ev *vkit.JNode) *vkit.JNode {
	out := vkit.JObj().Set("event", ev.Clone())
	for _, cp := range c.Copies {
		v := ev.Dig(cp.From...)
		if v == nil {
			continue // "If the field is not found in the original event plugin will not populate new field"
		}
		cur := out
		for i, k := range cp.To {
			if i == len(cp.To)-1 {
				cur.Set(k, v.Clone())
				break
			}
			nx := cur.Get(k)
			if nx == nil || nx.Kind != 'o' {
				nx = vkit.JObj()
				cur.Set(k, nx)
			}
			cur = nx
		}
	}
	return out
}

func verifC19Body(o *vkit.Outcome, c VerifC19Case, what string, body []byte, b c19.Batch, earlier map[string]bool) {
	want := b.Deliverable()
	vals, err := c19.SplitJSONStream(body)
	if err != nil {
		o.Failf(c19.P, "splunk:body-not-json-stream", "%s: body is not a stream of JSON values (%v): %q", what, err, c19.Clip(string(body)))
		return
	}
	var gotIDs []string
	for i, raw := range vals {
		doc, err := vkit.ParseJSON(raw)
		if err != nil || doc.Kind != 'o' || doc.Get("event") == nil || doc.Get("event").Kind != 'o' {
			o.Failf(c19.P, "splunk:envelope-wrong-shape", "%s: value %d is not an object with an \"event\" object (%v): %q", what, i, err, c19.Clip(string(raw)))
			return
		}
		id := c19.IDOf(doc.Get("event"), c19.IDKey)
		gotIDs = append(gotIDs, id)
		if i < len(want) && want[i].ID == id {
			exp := verifC19Envelope(c, want[i].Tree())
			if d := vkit.DiffJ(exp, doc, false); d != "" {
				o.Failf(c19.P, "splunk:envelope-differs", "%s: event %s: envelope differs from {\"event\":…}+copy_fields %v: %s\nevent %q\n  got %q", what, id, c.Copies, d, c19.Clip(want[i].Text()), c19.Clip(string(raw)))
				return
			}
		}
	}
	if clause, msg := c19.SeqProblem(gotIDs, c19.IDs(want), c19.ParentSet(b), earlier); clause != "" {
		o.Failf(c19.P, "splunk:"+clause, "%s: %s", what, msg)
	}
}

func verifC19Run(c VerifC19Case) *vkit.Outcome {
	verifC19Setup()
	o := vkit.NewOutcome()
	p := &Plugin{
		config:          &Config{Endpoint: verifC19Client[c.Gzip].config.Endpoint, UseGzip: c.Gzip, BatchSize_: c.BatchSize, RequestTimeout_: 30 * time.Second},
		client:          verifC19Client[c.Gzip].client,
		logger:          verifC19Base.logger,
		avgEventSize:    c.AvgEventSize,
		sendErrorMetric: verifC19Base.sendErrorMetric,
	}
	for _, cp := range c.Copies {
		p.copyFieldsPaths = append(p.copyFieldsPaths, copyFieldPaths{fromPath: cp.From, toPath: cp.To})
	}
	var wd pipeline.WorkerData
	earlier := map[string]bool{}
	nontrivial := false
	for bi, b := range c.Batches {
		bt := c19.Build(b)
		var prec any
		var pstack string
		atts := verifC19Srv.Drive(b.Plan, func() error {
			var err error
			// copy_fields of a subtree that holds a nested container can make the encoder loop forever
			prec, pstack = c19.Guard("c19splunk", "splunk:out-never-terminates", c, func() { err = p.out(&wd, bt.Batch) })
			if prec != nil {
				return nil
			}
			return err
		})
		if prec != nil {
			o.Failf(c19.P, "splunk:out-panics", "batch %d: out() panicked: %v\n%s", bi, prec, pstack)
			bt.Release()
			break
		}
		if len(b.Deliverable()) >= 2 {
			nontrivial = true
		}
		last := atts[len(atts)-1]
		if last.Err != nil {
			o.Failf(c19.P, "splunk:batch-not-accepted", "batch %d: out() still fails after %d attempts although the endpoint accepts: %v", bi, len(atts), last.Err)
		}
		if len(atts) > 1 {
			o.Class("retried")
		}
		for ai, att := range atts {
			if len(att.Reqs) != 1 {
				o.Failf(c19.P, "splunk:not-one-request-per-attempt", "batch %d attempt %d made %d requests", bi, ai, len(att.Reqs))
				break
			}
			rq := att.Reqs[0]
			what := fmt.Sprintf("batch %d attempt %d (status %d)", bi, ai, rq.Status)
			if rq.BadGzip || rq.Gzip != c.Gzip {
				o.Failf(c19.P, "splunk:bad-content-encoding", "%s: gzip=%v badgzip=%v want gzip=%v", what, rq.Gzip, rq.BadGzip, c.Gzip)
			}
			// every attempt (also a retry after a failure) carries the whole batch unchanged
			verifC19Body(o, c, what, rq.Body, b, earlier)
			if o.Failed() {
				break
			}
		}
		bt.Release()
		c19.AddAll(earlier, b)
		if o.Failed() {
			break
		}
	}
	o.Class(fmt.Sprintf("batches=%d", len(c.Batches)))
	o.Class(fmt.Sprintf("copy_fields=%d", len(c.Copies)))
	if nontrivial {
		o.Nontrivial(c19.P)
	}
	return o
}

var verifC19Prop = vkit.NewProp([]string{c19.P}, "c19splunk", verifC19Gen, verifC19Run)

func TestVerifC19Splunk(t *testing.T) {
	verifC19Setup()
	defer verifC19Teardown()
	verifC19Prop.CrashFile = true
	verifC19Prop.Check(t)
}
