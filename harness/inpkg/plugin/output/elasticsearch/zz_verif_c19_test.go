package elasticsearch

// C19 (white-box): the _bulk bodies Plugin.out builds carry every deliverable
// event of the batch exactly once, in order, as action+document line pairs that
// an independent NDJSON/encoding-json parser accepts, with the documented index
// name; split-and-resend parts cover the batch exactly once.

import (
	"fmt"
	"strings"
	"testing"
	"time"

	"github.com/ozontech/file.d/pipeline"
	"github.com/ozontech/file.d/zzverif/checks/c19"
	"github.com/ozontech/file.d/zzverif/fdkit"
	"github.com/ozontech/file.d/zzverif/vkit"
	"pgregory.net/rapid"
)

func TestMain(m *testing.M)   { c19.CapMemory(); fdkit.InstallLogger(); vkit.Main(m) }
func TestReplay(t *testing.T) { verifC19Setup(); defer verifC19Teardown(); vkit.Replay(t) }

const verifC19Time = "2031-02-03"

// VerifC19Case is one generated case: a config and successive batches sent
// through the same worker data.
type VerifC19Case struct {
	IndexFormat  string      `json:"index_format"`
	IndexValues  []string    `json:"index_values"`
	OpType       string      `json:"batch_op_type"`
	Split        bool        `json:"split_batch"`
	Gzip         bool        `json:"use_gzip"`
	BatchSize    int         `json:"batch_size"`
	AvgEventSize int         `json:"avg_event_size"`
	Batches      []c19.Batch `json:"batches"`
}

var verifC19RouteFields = []string{"service", "env", "k8s_ns"}

func verifC19Gen(t *rapid.T) VerifC19Case {
	c := VerifC19Case{
		OpType:       rapid.SampledFrom([]string{"index", "index", "create"}).Draw(t, "op"),
		Split:        rapid.Bool().Draw(t, "split"),
		Gzip:         rapid.IntRange(0, 5).Draw(t, "gzip") == 0,
		AvgEventSize: rapid.SampledFrom([]int{1, 16, 256, 4096}).Draw(t, "avg"),
	}
	switch rapid.IntRange(0, 4).Draw(t, "fmt") {
	case 0:
		c.IndexFormat, c.IndexValues = "file-d-%", []string{"@time"}
	case 1:
		c.IndexFormat, c.IndexValues = "logs-%-%", []string{"service", "@time"}
	case 2:
		c.IndexFormat, c.IndexValues = "%", []string{"service"}
	case 3:
		c.IndexFormat, c.IndexValues = "x-%-%-%", []string{"service", "env", "k8s_ns"}
	default:
		c.IndexFormat, c.IndexValues = "static", []string{"service"}
	}
	opts := c19.EventOpts{InvalidUTF8: true, Decorate: func(t *rapid.T, label string, obj *vkit.JNode, id string) {
		for _, f := range verifC19RouteFields {
			obj.Del(f)
			if v := c19.GenRouteValue(t, label+"/"+f, true); v != nil {
				obj.Set(f, v)
			}
		}
	}}
	c.Batches = c19.GenBatches(t, opts, c19.GenPlan([]int{500, 503, 429}, true))
	maxLen := 1
	for _, b := range c.Batches {
		if len(b.Events) > maxLen {
			maxLen = len(b.Events)
		}
	}
	// a batch never has more events than batch_size
	c.BatchSize = maxLen + rapid.SampledFrom([]int{0, 0, 1, 100}).Draw(t, "bsx")
	return c
}

var (
	verifC19Srv    *c19.Server
	verifC19Base   *Plugin
	verifC19Client = map[bool]*Plugin{}
)

func verifC19Teardown() {
	if verifC19Srv != nil {
		verifC19Srv.Close()
		verifC19Srv = nil
	}
}

func verifC19Setup() {
	if verifC19Srv != nil {
		return
	}
	fdkit.InstallLogger()
	verifC19Srv = c19.NewServer(200, `{"took":1,"errors":false,"items":[]}`)
	verifC19Base = &Plugin{logger: fdkit.NewLogger()}
	verifC19Base.registerMetrics(fdkit.MetricCtl("c19es"))
	for _, gz := range []bool{false, true} {
		p := &Plugin{logger: fdkit.NewLogger(), config: &Config{
			Endpoints: []string{verifC19Srv.URL}, UseGzip: gz, GzipCompressionLevel: "default",
			ConnectionTimeout_: 30 * time.Second,
		}}
		p.config.KeepAlive.MaxConnDuration_ = 5 * time.Minute
		p.config.KeepAlive.MaxIdleConnDuration_ = 10 * time.Second
		p.prepareClient()
		verifC19Client[gz] = p
	}
}

// verifC19Index is the documented index name of an event: index_format with
// every % replaced by the next index_values entry (@time = current time in
// time_format, a field = its value).
func verifC19Index(c VerifC19Case, ev *vkit.JNode) (string, bool) {
	var sb strings.Builder
	k := 0
	hostile := false
	for i := 0; i < len(c.IndexFormat); i++ {
		if c.IndexFormat[i] != '%' {
			sb.WriteByte(c.IndexFormat[i])
			continue
		}
		name := c.IndexValues[k]
		k++
		if name == "@time" {
			sb.WriteString(verifC19Time)
			continue
		}
		v := ev.Get(name)
		s := ""
		if v != nil {
			switch v.Kind {
			case 's', 'n':
				s = v.Str
			case 't':
				s = "true"
			case 'f':
				s = "false"
			case 'z':
				s = "null"
			}
		}
		if s == "" {
			s = "not_set" // what the plugin documents in code for an absent / empty value
		}
		if c19.Hostile(s) {
			hostile = true
		}
		sb.WriteString(s)
	}
	return sb.String(), hostile
}

// verifC19Body checks one request body against the events it must carry. When an
// event of the body has an index value that needs JSON escaping, every framing
// failure is reported under one signature: the value is spliced into the action
// line as it is, and depending on the characters the damage shows up as an
// invalid action line, a wrong/injected _index, shifted lines or extra documents.
func verifC19Body(o *vkit.Outcome, c VerifC19Case, what string, body []byte, want []c19.Ev, parents, earlier map[string]bool) {
	hostile := ""
	for _, e := range want {
		if idx, h := verifC19Index(c, e.Tree()); h {
			hostile = idx
			break
		}
	}
	sub := vkit.NewOutcome()
	verifC19BodyClauses(sub, c, what, body, want, parents, earlier)
	err := sub.FirstErr()
	if err == nil {
		return
	}
	se := err.(*vkit.SigError)
	if hostile != "" {
		o.Failf(c19.P, "es:index-value-spliced-unescaped", "an event whose index name is %q (needs escaping inside a JSON string) damages the bulk body (%s): %s", c19.Clip(hostile), se.Sig, se.Err.Error())
		return
	}
	o.Failf(c19.P, se.Sig, "%s", se.Err.Error())
}

func verifC19BodyClauses(o *vkit.Outcome, c VerifC19Case, what string, body []byte, want []c19.Ev, parents, earlier map[string]bool) {
	lines, nlTerminated := c19.SplitLines(body)
	if !nlTerminated {
		o.Failf(c19.P, "es:body-not-newline-terminated", "%s: bulk body does not end in a newline: …%q", what, c19.Clip(string(body[max(0, len(body)-80):])))
		return
	}
	// walk pairs as the bulk API does: action line, then source line
	var gotIDs []string
	for i := 0; i < len(lines); i += 2 {
		k := i / 2
		action, err := vkit.ParseJSON(lines[i])
		if err != nil || action.Kind != 'o' {
			o.Failf(c19.P, "es:action-line-invalid-json", "%s: line %d (action of pair %d) is not a JSON object (%v): %q\nwhole body: %q", what, i, k, err, c19.Clip(string(lines[i])), c19.Clip(string(body)))
			return
		}
		if i+1 >= len(lines) {
			o.Failf(c19.P, "es:action-without-document", "%s: action line %d has no document line: %q", what, i, c19.Clip(string(lines[i])))
			return
		}
		doc, err := vkit.ParseJSON(lines[i+1])
		if err != nil || doc.Kind != 'o' {
			o.Failf(c19.P, "es:document-line-invalid-json", "%s: line %d (document of pair %d) is not a JSON object (%v): %q", what, i+1, k, err, c19.Clip(string(lines[i+1])))
			return
		}
		if len(action.Keys) != 1 || action.Keys[0] != c.OpType || action.Vals[0].Kind != 'o' {
			o.Failf(c19.P, "es:action-line-wrong-shape", "%s: action line %d is not {%q:{…}}: %q", what, i, c.OpType, c19.Clip(string(lines[i])))
			return
		}
		id := c19.IDOf(doc, c19.IDKey)
		gotIDs = append(gotIDs, id)
		if k < len(want) && want[k].ID == id {
			tree := want[k].Tree()
			wantIdx, _ := verifC19Index(c, tree)
			meta := action.Vals[0]
			idx := meta.Get("_index")
			if len(meta.Keys) != 1 || idx == nil || idx.Kind != 's' || strings.ToValidUTF8(idx.Str, "�") != strings.ToValidUTF8(wantIdx, "�") {
				o.Failf(c19.P, "es:action-line-wrong-index", "%s: event %s: action line %q; want only _index=%q", what, id, c19.Clip(string(lines[i])), c19.Clip(wantIdx))
				return
			}
			if d := vkit.DiffJ(tree, doc, false); d != "" {
				o.Failf(c19.P, "es:document-differs", "%s: event %s: document differs from the event: %s\nevent %q\n  doc %q", what, id, d, c19.Clip(want[k].Text()), c19.Clip(string(lines[i+1])))
				return
			}
		}
	}
	if clause, msg := c19.SeqProblem(gotIDs, c19.IDs(want), parents, earlier); clause != "" {
		o.Failf(c19.P, "es:"+clause, "%s: %s", what, msg)
	}
}

func verifC19Run(c VerifC19Case) *vkit.Outcome {
	verifC19Setup()
	o := vkit.NewOutcome()
	p := &Plugin{
		config: &Config{
			IndexFormat: c.IndexFormat, IndexValues: c.IndexValues, BatchOpType: c.OpType, SplitBatch: c.Split,
			UseGzip: c.Gzip, BatchSize_: c.BatchSize, ConnectionTimeout_: 30 * time.Second, ProcessResponse: true,
		},
		client:               verifC19Client[c.Gzip].client,
		logger:               verifC19Base.logger,
		avgEventSize:         c.AvgEventSize,
		time:                 verifC19Time,
		headerPrefix:         `{"` + c.OpType + `":{"_index":"`,
		sendErrorMetric:      verifC19Base.sendErrorMetric,
		indexingErrorsMetric: verifC19Base.indexingErrorsMetric,
	}
	var wd pipeline.WorkerData
	earlier := map[string]bool{}
	nontrivial := false
	for bi, b := range c.Batches {
		bt := c19.Build(b)
		atts := verifC19Srv.Drive(b.Plan, func() error { return p.out(&wd, bt.Batch) })
		want := b.Deliverable()
		parents := c19.ParentSet(b)
		if len(want) >= 2 {
			nontrivial = true
		}
		for _, e := range want {
			if _, h := verifC19Index(c, e.Tree()); h {
				nontrivial = true
				o.Class("hostile-index-value")
			}
		}
		last := atts[len(atts)-1]
		if last.Err != nil {
			o.Failf(c19.P, "es:batch-not-accepted", "batch %d: out() still fails after %d attempts although the endpoint accepts: %v", bi, len(atts), last.Err)
		}
		saw413 := false
		for ai, att := range atts {
			for ri, rq := range att.Reqs {
				what := fmt.Sprintf("batch %d attempt %d request %d (status %d)", bi, ai, ri, rq.Status)
				if rq.BadGzip || rq.Gzip != c.Gzip {
					o.Failf(c19.P, "es:bad-content-encoding", "%s: gzip=%v badgzip=%v want gzip=%v", what, rq.Gzip, rq.BadGzip, c.Gzip)
				}
				if rq.Status == 413 {
					saw413 = true
				}
				if ri == 0 {
					// the first request of every attempt is the whole batch (also on a retry
					// after a failure: the same events, unchanged)
					verifC19Body(o, c, what, rq.Body, want, parents, earlier)
				}
				if o.Failed() {
					break
				}
			}
		}
		if !o.Failed() && last.Err == nil {
			if st := last.Reqs[len(last.Reqs)-1].Status; c19.GaveUp(last, 200) && st != 400 && st != 413 {
				// out() reported success although the last request was answered with a RETRYABLE status:
				// the batch would be committed without having been accepted and without a retry
				o.Failf(c19.P, "es:retryable-failure-reported-as-success", "batch %d: out() returned nil although its last request was answered %d (retryable); statuses of the attempt: %v", bi, st, c19Statuses(last))
			} else if c19.GaveUp(last, 200) {
				// 400, or 413 for a request that cannot be split further (or split_batch off):
				// the plugin documents these as non-retryable and drops the batch.
				o.Class("gave-up-non-retryable")
			} else {
				// accepted parts of the final attempt cover the batch exactly once, in order
				var all []byte
				acc := c19.Accepted(last, 200)
				for _, rq := range acc {
					all = append(all, rq.Body...)
				}
				verifC19Body(o, c, fmt.Sprintf("batch %d: concatenation of the %d accepted request bodies of the final attempt", bi, len(acc)), all, want, parents, earlier)
				if len(acc) > 1 {
					o.Class("split-resend-accepted-parts>1")
				}
			}
		}
		if saw413 {
			nontrivial = true
			o.Class("saw-413")
		}
		if len(atts) > 1 {
			o.Class("retried")
		}
		bt.Release()
		c19.AddAll(earlier, b)
		if o.Failed() {
			break
		}
	}
	o.Class(fmt.Sprintf("batches=%d", len(c.Batches)))
	if nontrivial {
		o.Nontrivial(c19.P)
	}
	return o
}

var verifC19Prop = vkit.NewProp([]string{c19.P}, "c19es", verifC19Gen, verifC19Run)

func TestVerifC19Elasticsearch(t *testing.T) {
	verifC19Setup()
	defer verifC19Teardown()
	verifC19Prop.CrashFile = true
	verifC19Prop.Check(t)
}

func c19Statuses(att c19.Attempt) []int {
	var st []int
	for _, rq := range att.Reqs {
		st = append(st, rq.Status)
	}
	return st
}
