package elasticsearch

// C09 on the one shipped output that is anchored in it: the real plugin (Start, RetriableBatcher, the
// error callback wired to Router.Fail) behind a Router with a scripted dead queue, against a loopback
// endpoint that refuses the first N bulk requests. Whatever is given up must be handed to the dead
// queue exactly once - split parents included - and committed by the dead queue alone; everything else
// is committed exactly once by the main output.

import (
	"context"
	"fmt"
	"net/http"
	"net/http/httptest"
	"sync"
	"sync/atomic"
	"testing"
	"time"

	"github.com/ozontech/file.d/pipeline"
	"github.com/ozontech/file.d/zzverif/fdkit"
	"github.com/ozontech/file.d/zzverif/vkit"
	insaneJSON "github.com/ozontech/insane-json"
	"pgregory.net/rapid"
)

const c09 = "C09"

type C09ESCase struct {
	Kinds     []string `json:"kinds"` // per event: r regular | p split parent | c child
	BatchSize int      `json:"batch_size"`
	Workers   int      `json:"workers"`
	Retry     int      `json:"retry"`
	FailFirst int      `json:"fail_first"` // the endpoint answers 503 to this many bulk requests, then 200; -1 = always 503
	DeadQueue bool     `json:"dead_queue"`
	DQBatch   int      `json:"dq_batch"`
}

func genC09ES(t *rapid.T) C09ESCase {
	c := C09ESCase{
		BatchSize: rapid.IntRange(1, 4).Draw(t, "batch_size"),
		Workers:   rapid.IntRange(1, 2).Draw(t, "workers"),
		Retry:     rapid.IntRange(0, 2).Draw(t, "retry"),
		DeadQueue: rapid.IntRange(0, 3).Draw(t, "dq") > 0,
		DQBatch:   rapid.IntRange(1, 3).Draw(t, "dq_batch"),
	}
	c.FailFirst = rapid.SampledFrom([]int{-1, -1, 0, 1, 2, 3, 5}).Draw(t, "fail_first")
	n := rapid.IntRange(1, 9).Draw(t, "events")
	for i := 0; i < n; i++ {
		c.Kinds = append(c.Kinds, rapid.SampledFrom([]string{"r", "r", "r", "p", "c"}).Draw(t, "kind"))
	}
	return c
}

type c09Commit struct {
	id uint64
	by string
}

type c09Ctl struct {
	mu      sync.Mutex
	by      string
	commits *[]c09Commit
	shared  *sync.Mutex
}

func (c *c09Ctl) Commit(e *pipeline.Event) {
	c.shared.Lock()
	*c.commits = append(*c.commits, c09Commit{e.SeqID, c.by})
	c.shared.Unlock()
}
func (c *c09Ctl) Error(string) {}

type c09DQ struct {
	c       *C09ESCase
	ctl     *c09Ctl
	batcher *pipeline.Batcher
	mu      sync.Mutex
	handed  map[uint64]int
}

func (d *c09DQ) Start(_ pipeline.AnyConfig, params *pipeline.OutputPluginParams) {
	d.batcher = pipeline.NewBatcher(pipeline.BatcherOptions{
		PipelineName: params.PipelineName, OutputType: "verif_dq", Controller: d.ctl,
		Workers: 1, BatchSizeCount: d.c.DQBatch, FlushTimeout: 5 * time.Millisecond, MetricCtl: params.MetricCtl,
		OutFn: func(*pipeline.WorkerData, *pipeline.Batch) {},
	})
	d.batcher.Start(context.Background())
}
func (d *c09DQ) Out(e *pipeline.Event) {
	d.mu.Lock()
	d.handed[e.SeqID]++
	d.mu.Unlock()
	d.batcher.Add(e)
}
func (d *c09DQ) Stop() { d.batcher.Stop() }

func runC09ES(c C09ESCase) *vkit.Outcome {
	o := vkit.NewOutcome()
	if len(c.Kinds) == 0 || len(c.Kinds) > 64 || c.BatchSize < 1 || c.Workers < 1 || c.Retry < 0 || c.DQBatch < 1 {
		o.Class("invalid-case")
		return o
	}
	var requests atomic.Int32
	srv := httptest.NewServer(http.HandlerFunc(func(w http.ResponseWriter, r *http.Request) {
		n := int(requests.Add(1))
		if c.FailFirst < 0 || n <= c.FailFirst {
			w.WriteHeader(http.StatusServiceUnavailable)
			return
		}
		w.WriteHeader(http.StatusOK)
		_, _ = w.Write([]byte(`{"took":1,"errors":false,"items":[]}`))
	}))
	defer srv.Close()

	info := &pipeline.PluginStaticInfo{Type: "elasticsearch", Factory: Factory}
	js := fmt.Sprintf(`{"endpoints":[%q],"retry":%d,"retention":"1ms","batch_size":"%d","workers_count":"%d","batch_flush_timeout":"5ms","connection_timeout":"5s"}`,
		srv.URL, c.Retry, c.BatchSize, c.Workers)
	cfg, err := pipeline.GetConfig(info, []byte(js), map[string]int{"capacity": 64, "gomaxprocs": 2})
	if err != nil {
		o.Failf(c09, "es-giveup:config-rejected", "%v: %s", err, js)
		return o
	}
	var shared sync.Mutex
	var commits []c09Commit
	mainCtl := &c09Ctl{by: "main", commits: &commits, shared: &shared}
	dq := &c09DQ{c: &c, ctl: &c09Ctl{by: "dq", commits: &commits, shared: &shared}, handed: map[uint64]int{}}
	plug, _ := Factory()
	router := pipeline.NewRouter()
	router.SetOutput(&pipeline.OutputPluginInfo{
		PluginStaticInfo:  &pipeline.PluginStaticInfo{Type: "elasticsearch", Config: cfg},
		PluginRuntimeInfo: &pipeline.PluginRuntimeInfo{Plugin: plug, ID: "elasticsearch"},
	})
	if c.DeadQueue {
		router.SetDeadQueueOutput(&pipeline.OutputPluginInfo{
			PluginStaticInfo:  &pipeline.PluginStaticInfo{Type: "verif_dq"},
			PluginRuntimeInfo: &pipeline.PluginRuntimeInfo{Plugin: dq, ID: "verif_dq"},
		})
	}
	name := fdkit.UniqueName("c09es")
	router.Start(&pipeline.OutputPluginParams{
		PluginDefaultParams: pipeline.PluginDefaultParams{PipelineName: name, PipelineSettings: fdkit.DefaultSettings(), MetricCtl: fdkit.MetricCtl(name)},
		Controller:          mainCtl,
		Logger:              fdkit.NewLogger().Sugar(),
	})
	var roots []*insaneJSON.Root
	for i, k := range c.Kinds {
		root := insaneJSON.Spawn()
		_ = root.DecodeString(fmt.Sprintf(`{"id":%d,"message":"m"}`, i+1))
		roots = append(roots, root)
		e := &pipeline.Event{SeqID: uint64(i + 1), Root: root, Size: 24}
		switch k {
		case "p":
			e.SetChildParentKind()
		case "c":
			e.SetChildKind()
		}
		router.Out(e)
	}
	// every event is committed exactly once in the end; wait while commits keep coming
	count := func() int { shared.Lock(); defer shared.Unlock(); return len(commits) }
	last, lastChange := -1, time.Now()
	for count() < len(c.Kinds) {
		if n := count(); n != last {
			last, lastChange = n, time.Now()
		}
		if time.Since(lastChange) > 10*time.Second {
			break
		}
		time.Sleep(2 * time.Millisecond)
	}
	time.Sleep(10 * time.Millisecond) // a second commit of the same event would follow shortly
	router.Stop()
	for _, r := range roots {
		insaneJSON.Release(r)
	}
	shared.Lock()
	defer shared.Unlock()
	dq.mu.Lock()
	defer dq.mu.Unlock()
	by := map[uint64][]string{}
	for _, cm := range commits {
		by[cm.id] = append(by[cm.id], cm.by)
	}
	gaveUp := false
	for i, k := range c.Kinds {
		id := uint64(i + 1)
		what := fmt.Sprintf("event %d (kind %s) of %v, batch_size %d workers %d retry %d, endpoint refuses %d request(s), dead queue %v; %d bulk requests seen", id, k, c.Kinds, c.BatchSize, c.Workers, c.Retry, c.FailFirst, c.DeadQueue, requests.Load())
		h := dq.handed[id]
		if h > 1 {
			o.Failf(c09, "es-giveup:handed-to-dead-queue-twice", "%s: handed to the dead queue %d times", what, h)
		}
		if h > 0 {
			gaveUp = true
		}
		switch {
		case len(by[id]) == 0 && h == 0:
			o.Failf(c09, "es-giveup:event-neither-dead-queued-nor-committed", "%s: never committed and never handed to the dead queue", what)
		case len(by[id]) == 0:
			o.Failf(c09, "es-giveup:dead-queued-event-never-committed", "%s: handed to the dead queue but never committed", what)
		case len(by[id]) > 1:
			o.Failf(c09, "es-giveup:committed-twice", "%s: committed by %v", what, by[id])
		case h > 0 && by[id][0] != "dq":
			o.Failf(c09, "es-giveup:dead-queued-event-committed-by-main", "%s: handed to the dead queue, committed by %v", what, by[id])
		case h == 0 && by[id][0] != "main":
			o.Failf(c09, "es-giveup:dead-queue-committed-foreign-event", "%s: never handed to the dead queue, committed by %v", what, by[id])
		}
	}
	if c.FailFirst < 0 {
		// the endpoint never accepts: every batch that has something to send is given up after at least
		// retry+1 requests. (A batch that holds only split parents has nothing to send and is committed by
		// the main output as it is; how events fall into batches is up to the flush timer, so for a parent
		// only the general clauses above apply.)
		deliverable := 0
		for i, k := range c.Kinds {
			if k == "p" {
				continue
			}
			deliverable++
			if c.DeadQueue && dq.handed[uint64(i+1)] != 1 {
				o.Failf(c09, "es-giveup:given-up-event-not-handed-to-dead-queue", "event %d (kind %s) of %v was handed to the dead queue %d times although no request was ever accepted", i+1, k, c.Kinds, dq.handed[uint64(i+1)])
			}
		}
		if deliverable > 0 && int(requests.Load()) < c.Retry+1 {
			o.Failf(c09, "es-giveup:gave-up-too-early", "%d bulk requests for retry=%d", requests.Load(), c.Retry)
		}
	}
	if gaveUp || (c.FailFirst != 0 && requests.Load() > 1) {
		o.Nontrivial(c09)
	}
	if gaveUp {
		o.Class("es:given-up-to-dead-queue")
	}
	for _, k := range c.Kinds {
		if k == "p" && gaveUp {
			o.Class("es:split-parent-in-given-up-run")
			break
		}
	}
	return o
}

var propC09ES = vkit.NewProp([]string{c09}, "c09esgiveup", genC09ES, runC09ES)

func TestVerifC09ElasticGiveUp(t *testing.T) { propC09ES.CrashFile = true; propC09ES.Check(t) }
