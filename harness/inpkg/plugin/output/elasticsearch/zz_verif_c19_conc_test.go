package elasticsearch

// C19 with the batcher's workers in parallel: several goroutines call out() on ONE plugin (one HTTP
// client, as the workers of a batcher do), each with batches of its own. The endpoint must receive every
// batch exactly once, intact - whatever the workers share (client, pools, buffers) must not leak between
// requests that are in flight at the same time.

import (
	"bytes"
	"compress/gzip"
	"fmt"
	"io"
	"net/http"
	"net/http/httptest"
	"strings"
	"sync"
	"testing"
	"time"

	"github.com/ozontech/file.d/pipeline"
	"github.com/ozontech/file.d/zzverif/fdkit"
	"github.com/ozontech/file.d/zzverif/vkit"
	insaneJSON "github.com/ozontech/insane-json"
	"pgregory.net/rapid"
)

type C19ConcCase struct {
	Workers int  `json:"workers"`
	Rounds  int  `json:"rounds"`
	Events  int  `json:"events"` // per batch
	Pad     int  `json:"pad"`    // bytes of filler per event
	Gzip    bool `json:"gzip"`
}

func genC19Conc(t *rapid.T) C19ConcCase {
	return C19ConcCase{
		Workers: rapid.IntRange(2, 8).Draw(t, "workers"),
		Rounds:  rapid.IntRange(5, 40).Draw(t, "rounds"),
		Events:  rapid.IntRange(1, 3).Draw(t, "events"),
		Pad:     rapid.SampledFrom([]int{0, 100, 2000, 20000}).Draw(t, "pad"),
		Gzip:    rapid.IntRange(0, 3).Draw(t, "gzip") > 0,
	}
}

func runC19Conc(c C19ConcCase) *vkit.Outcome {
	o := vkit.NewOutcome()
	if c.Workers < 1 || c.Workers > 32 || c.Rounds < 1 || c.Rounds > 200 || c.Events < 1 || c.Events > 8 || c.Pad < 0 || c.Pad > 1<<20 {
		o.Class("invalid-case")
		return o
	}
	var mu sync.Mutex
	seen := map[string]int{}
	var bad []string
	srv := httptest.NewServer(http.HandlerFunc(func(w http.ResponseWriter, r *http.Request) {
		raw, _ := io.ReadAll(r.Body)
		body := raw
		if r.Header.Get("Content-Encoding") == "gzip" {
			zr, err := gzip.NewReader(bytes.NewReader(raw))
			if err == nil {
				body, err = io.ReadAll(zr)
			}
			if err != nil {
				mu.Lock()
				bad = append(bad, fmt.Sprintf("request body is not a gzip stream: %v (%d bytes)", err, len(raw)))
				mu.Unlock()
				body = nil
			}
		}
		mu.Lock()
		for _, line := range strings.Split(string(body), "\n") {
			if i := strings.Index(line, `"id":"`); i >= 0 {
				id := line[i+6:]
				if j := strings.IndexByte(id, '"'); j >= 0 {
					seen[id[:j]]++
				}
			}
		}
		mu.Unlock()
		w.WriteHeader(http.StatusOK)
		_, _ = io.WriteString(w, `{"took":1,"errors":false,"items":[]}`)
	}))
	defer srv.Close()

	base := &Plugin{logger: fdkit.NewLogger(), config: &Config{
		Endpoints: []string{srv.URL}, UseGzip: c.Gzip, GzipCompressionLevel: "default", ConnectionTimeout_: 30 * time.Second,
	}}
	base.config.KeepAlive.MaxConnDuration_ = 5 * time.Minute
	base.config.KeepAlive.MaxIdleConnDuration_ = 10 * time.Second
	base.prepareClient()
	verifC19Setup() // metrics of the shared base plugin
	p := &Plugin{
		config: &Config{
			IndexFormat: "idx", BatchOpType: "index", UseGzip: c.Gzip, BatchSize_: 64, ConnectionTimeout_: 30 * time.Second, ProcessResponse: true,
		},
		client:               base.client,
		logger:               base.logger,
		avgEventSize:         256,
		time:                 verifC19Time,
		headerPrefix:         `{"index":{"_index":"`,
		sendErrorMetric:      verifC19Base.sendErrorMetric,
		indexingErrorsMetric: verifC19Base.indexingErrorsMetric,
	}
	pad := strings.Repeat("x", c.Pad)
	var wg sync.WaitGroup
	var errMu sync.Mutex
	var errs []string
	for w := 0; w < c.Workers; w++ {
		wg.Add(1)
		go func(w int) {
			defer wg.Done()
			var wd pipeline.WorkerData
			for r := 0; r < c.Rounds; r++ {
				var events []*pipeline.Event
				var roots []*insaneJSON.Root
				for e := 0; e < c.Events; e++ {
					root := insaneJSON.Spawn()
					_ = root.DecodeString(fmt.Sprintf(`{"id":"w%d.r%d.e%d","pad":"%s"}`, w, r, e, pad))
					roots = append(roots, root)
					events = append(events, &pipeline.Event{Root: root, Size: 32 + c.Pad, SeqID: uint64(w*1000000 + r*10 + e + 1)})
				}
				err := p.out(&wd, pipeline.NewPreparedBatch(events))
				for _, root := range roots {
					insaneJSON.Release(root)
				}
				if err != nil {
					errMu.Lock()
					errs = append(errs, fmt.Sprintf("worker %d round %d: %v", w, r, err))
					errMu.Unlock()
					return
				}
			}
		}(w)
	}
	wg.Wait()
	mu.Lock()
	defer mu.Unlock()
	if len(bad) > 0 {
		o.Failf("C19", "es:concurrent-workers:request-corrupt", "%d workers x %d rounds, gzip=%v: %s", c.Workers, c.Rounds, c.Gzip, bad[0])
	}
	if len(errs) > 0 && !o.Failed() {
		o.Failf("C19", "es:concurrent-workers:out-failed-although-endpoint-accepts", "%s", errs[0])
	}
	missing, dup := 0, 0
	example := ""
	for w := 0; w < c.Workers; w++ {
		for r := 0; r < c.Rounds; r++ {
			for e := 0; e < c.Events; e++ {
				id := fmt.Sprintf("w%d.r%d.e%d", w, r, e)
				switch n := seen[id]; {
				case n == 0:
					missing++
					if example == "" {
						example = id + " never arrived"
					}
				case n > 1:
					dup++
					if example == "" {
						example = fmt.Sprintf("%s arrived %d times", id, n)
					}
				}
			}
		}
	}
	if (missing > 0 || dup > 0) && !o.Failed() {
		o.Failf("C19", "es:concurrent-workers:events-lost-or-duplicated", "%d workers x %d rounds x %d events, gzip=%v, every out() returned nil: %d events never arrived, %d arrived more than once (e.g. %s)", c.Workers, c.Rounds, c.Events, c.Gzip, missing, dup, example)
	}
	o.Nontrivial("C19")
	o.Class("es:concurrent-workers")
	if c.Gzip {
		o.Class("es:concurrent-workers-gzip")
	}
	return o
}

var propC19Conc = vkit.NewProp([]string{"C19"}, "c19esconcurrent", genC19Conc, runC19Conc)

func TestVerifC19ElasticConcurrent(t *testing.T) { propC19Conc.CrashFile = true; propC19Conc.Check(t) }
