package clickhouse

// C09 through the real clickhouse output (white box): Start, its RetriableBatcher and error callback run
// behind a Router with a scripted dead queue; the ClickHouse connection is a scripted stand-in (the plugin's
// own Clickhouse interface) whose inserts succeed, fail or hang until their context ends, and the Router
// may be stopped while an insert is in flight. One batch per case. Oracle: the main output commits the
// batch by itself only if some insert of it succeeded, or if there is no dead queue to take it; otherwise
// every event is handed to the dead queue exactly once and committed by it alone; nothing is committed twice.
// Touched unexported surface: Plugin{mu, instances}, instance{addr, pool}.

import (
	"context"
	"errors"
	"fmt"
	"sync"
	"testing"
	"time"

	"github.com/ClickHouse/ch-go"
	"github.com/ozontech/file.d/pipeline"
	"github.com/ozontech/file.d/zzverif/fdkit"
	"github.com/ozontech/file.d/zzverif/vkit"
	insaneJSON "github.com/ozontech/insane-json"
	"pgregory.net/rapid"
)

const verifC09 = "C09"

func TestMain(m *testing.M)   { fdkit.InstallLogger(); vkit.Main(m) }
func TestReplay(t *testing.T) { vkit.Replay(t) }

type VerifC09CHCase struct {
	Events    int  `json:"events"`
	Retry     int  `json:"retry"`
	DeadQueue bool `json:"dead_queue"`
	// Script[k]: what insert #k does: "ok", "fail" (refused at once), "hang" (no answer until its context
	// ends); inserts beyond the script fail
	Script []string `json:"script"`
	// StopAtCall >= 0: Router.Stop is called when insert #StopAtCall has begun (while it is in flight)
	StopAtCall int `json:"stop_at_call"`
}

func verifGenC09CH(t *rapid.T) VerifC09CHCase {
	c := VerifC09CHCase{
		Events:     rapid.IntRange(1, 4).Draw(t, "events"),
		Retry:      rapid.IntRange(0, 3).Draw(t, "retry"),
		DeadQueue:  rapid.IntRange(0, 3).Draw(t, "dq") > 0,
		StopAtCall: -1,
	}
	n := rapid.IntRange(0, 5).Draw(t, "script")
	firstHang := -1
	for i := 0; i < n; i++ {
		s := rapid.SampledFrom([]string{"fail", "fail", "fail", "ok", "hang"}).Draw(t, "step")
		if s == "hang" && firstHang >= 0 {
			s = "fail"
		}
		if s == "hang" {
			firstHang = i
		}
		c.Script = append(c.Script, s)
	}
	switch {
	case firstHang >= 0:
		c.StopAtCall = firstHang // a hung insert ends only with the plugin's context
	case rapid.IntRange(0, 2).Draw(t, "stop") == 0:
		c.StopAtCall = rapid.IntRange(0, 4).Draw(t, "stop_at")
	}
	return c
}

type verifCHConn struct {
	c       *VerifC09CHCase
	mu      sync.Mutex
	calls   int
	oks     int
	started chan int
}

func (s *verifCHConn) Close() {}
func (s *verifCHConn) Do(ctx context.Context, _ ch.Query) error {
	s.mu.Lock()
	k := s.calls
	s.calls++
	s.mu.Unlock()
	select {
	case s.started <- k:
	default:
	}
	step := "fail"
	if k < len(s.c.Script) {
		step = s.c.Script[k]
	}
	switch step {
	case "ok":
		if err := ctx.Err(); err != nil {
			return err
		}
		s.mu.Lock()
		s.oks++
		s.mu.Unlock()
		return nil
	case "hang":
		select {
		case <-ctx.Done():
			return ctx.Err()
		case <-time.After(20 * time.Second):
			return errors.New("verif: hung insert given up by the harness")
		}
	}
	if err := ctx.Err(); err != nil {
		return err
	}
	return errors.New("code: 241, message: memory limit exceeded")
}

type verifCHCtl struct {
	by      string
	mu      *sync.Mutex
	commits map[uint64][]string
}

func (c *verifCHCtl) Commit(e *pipeline.Event) {
	c.mu.Lock()
	c.commits[e.SeqID] = append(c.commits[e.SeqID], c.by)
	c.mu.Unlock()
}
func (c *verifCHCtl) Error(string) {}

type verifCHDQ struct {
	ctl    *verifCHCtl
	mu     sync.Mutex
	handed map[uint64]int
}

func (d *verifCHDQ) Start(pipeline.AnyConfig, *pipeline.OutputPluginParams) {}
func (d *verifCHDQ) Stop()                                                 {}
func (d *verifCHDQ) Out(e *pipeline.Event) {
	d.mu.Lock()
	d.handed[e.SeqID]++
	d.mu.Unlock()
	d.ctl.Commit(e)
}

func verifRunC09CH(c VerifC09CHCase) *vkit.Outcome {
	o := vkit.NewOutcome()
	if c.Events < 1 || c.Events > 16 || c.Retry < 0 || c.Retry > 5 || len(c.Script) > 16 || c.StopAtCall > 16 {
		o.Class("invalid-case")
		return o
	}
	for i, s := range c.Script {
		if s == "hang" && c.StopAtCall != i {
			o.Class("invalid-case") // a hung insert ends only with the plugin's context
			return o
		}
	}
	info := &pipeline.PluginStaticInfo{Type: outPluginType, Factory: Factory}
	js := fmt.Sprintf(`{"addresses":["127.0.0.1:1"],"table":"logs","columns":[{"name":"message","type":"String"}],"retry":%d,"retention":"1ms",
		"insert_timeout":"30s","workers_count":"1","batch_size":"%d","batch_flush_timeout":"20ms","ban_period":"1h","reconnect_interval":"1h","insert_strategy":"in_order"}`, c.Retry, c.Events)
	cfg, err := pipeline.GetConfig(info, []byte(js), map[string]int{"capacity": 64, "gomaxprocs": 2})
	if err != nil {
		o.Failf(verifC09, "ch-giveup:config-rejected", "%v: %s", err, js)
		return o
	}
	var mu sync.Mutex
	commits := map[uint64][]string{}
	mainCtl := &verifCHCtl{by: "main", mu: &mu, commits: commits}
	dq := &verifCHDQ{ctl: &verifCHCtl{by: "dq", mu: &mu, commits: commits}, handed: map[uint64]int{}}
	plug, _ := Factory()
	plugin := plug.(*Plugin)
	router := pipeline.NewRouter()
	router.SetOutput(&pipeline.OutputPluginInfo{
		PluginStaticInfo:  &pipeline.PluginStaticInfo{Type: outPluginType, Config: cfg},
		PluginRuntimeInfo: &pipeline.PluginRuntimeInfo{Plugin: plugin, ID: outPluginType},
	})
	if c.DeadQueue {
		router.SetDeadQueueOutput(&pipeline.OutputPluginInfo{
			PluginStaticInfo:  &pipeline.PluginStaticInfo{Type: "verif_dq"},
			PluginRuntimeInfo: &pipeline.PluginRuntimeInfo{Plugin: dq, ID: "verif_dq"},
		})
	}
	name := fdkit.UniqueName("c09ch")
	if rec, _ := fdkit.CatchPanic(func() {
		router.Start(&pipeline.OutputPluginParams{
			PluginDefaultParams: pipeline.PluginDefaultParams{PipelineName: name, PipelineSettings: fdkit.DefaultSettings(), MetricCtl: fdkit.MetricCtl(name)},
			Controller:          mainCtl,
			Logger:              fdkit.NewLogger().Sugar(),
		})
	}); rec != nil {
		o.Class("infrastructure:plugin-start-failed")
		vkit.Note(verifC09, fmt.Sprintf("clickhouse output could not be started without a server: %v", rec))
		return o
	}
	conn := &verifCHConn{c: &c, started: make(chan int, 64)}
	// nothing listens on the configured address: the stand-in takes the place of its connection pool
	plugin.mu.Lock()
	plugin.instances = []instance{{addr: cfg.(*Config).Addresses[0], pool: conn}}
	plugin.mu.Unlock()

	var roots []*insaneJSON.Root
	for i := 0; i < c.Events; i++ {
		root := insaneJSON.Spawn()
		_ = root.DecodeString(fmt.Sprintf(`{"message":"m%d"}`, i+1))
		roots = append(roots, root)
		router.Out(&pipeline.Event{SeqID: uint64(i + 1), Root: root, Size: 24})
	}
	stopped := false
	count := func() int { mu.Lock(); defer mu.Unlock(); return len(commits) }
	last, lastChange := -1, time.Now()
	for count() < c.Events {
		select {
		case k := <-conn.started:
			if k == c.StopAtCall && !stopped {
				stopped = true
				done := make(chan struct{})
				go func() { router.Stop(); close(done) }()
				select {
				case <-done:
				case <-time.After(25 * time.Second):
					o.Failf(verifC09, "ch-giveup:stop-hangs", "Router.Stop did not return within 25 s (stopped while insert #%d was in flight, script %v)", k, c.Script)
					return o
				}
				time.Sleep(20 * time.Millisecond) // what Stop set in motion has finished with it
			}
			continue
		default:
		}
		if n := count(); n != last {
			last, lastChange = n, time.Now()
		}
		if stopped || time.Since(lastChange) > 10*time.Second {
			break
		}
		time.Sleep(time.Millisecond)
	}
	time.Sleep(10 * time.Millisecond)
	if !stopped {
		router.Stop()
	}
	for _, r := range roots {
		insaneJSON.Release(r)
	}
	mu.Lock()
	defer mu.Unlock()
	dq.mu.Lock()
	defer dq.mu.Unlock()
	conn.mu.Lock()
	defer conn.mu.Unlock()
	what := fmt.Sprintf("%d events in one batch, retry %d, dead queue %v, inserts %v (then refused), Router.Stop at insert #%d; %d inserts were tried, %d succeeded", c.Events, c.Retry, c.DeadQueue, c.Script, c.StopAtCall, conn.calls, conn.oks)
	for i := 0; i < c.Events; i++ {
		id := uint64(i + 1)
		by, h := commits[id], dq.handed[id]
		switch {
		case len(by) > 1:
			o.Failf(verifC09, "ch-giveup:event-committed-twice", "%s: event %d committed by %v", what, id, by)
		case h > 1:
			o.Failf(verifC09, "ch-giveup:handed-to-dead-queue-twice", "%s: event %d handed to the dead queue %d times", what, id, h)
		case len(by) == 1 && by[0] == "main" && h > 0:
			o.Failf(verifC09, "ch-giveup:main-committed-dead-queue-event", "%s: event %d was handed to the dead queue and committed by the main output", what, id)
		case len(by) == 1 && by[0] == "main" && conn.oks == 0 && c.DeadQueue:
			o.Failf(verifC09, "ch-giveup:committed-although-no-insert-succeeded", "%s: event %d was committed by the main output, no insert succeeded and the dead queue never got it", what, id)
		case len(by) == 0 && !stopped:
			o.Failf(verifC09, "ch-giveup:event-never-committed", "%s: event %d was never committed (handed to the dead queue %d times)", what, id, h)
		}
	}
	if conn.oks == 0 && conn.calls > 0 {
		o.Nontrivial(verifC09)
		o.Class("ch-giveup:no-insert-succeeded")
	}
	if stopped {
		o.Class("ch-giveup:stopped-while-an-insert-was-in-flight")
	}
	if c.DeadQueue {
		o.Class("ch-giveup:dead-queue")
	}
	return o
}

var verifC09CHProp = vkit.NewProp([]string{verifC09}, "c09chgiveup", verifGenC09CH, verifRunC09CH)

func TestVerifC09ClickhouseGiveUp(t *testing.T) {
	verifC09CHProp.CrashFile = true
	verifC09CHProp.Check(t)
}
