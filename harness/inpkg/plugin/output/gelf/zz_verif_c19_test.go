package gelf

// C19 (white-box): the byte stream Plugin.out writes to the GELF endpoint is a
// sequence of NUL-terminated JSON messages, one per deliverable event in batch
// order, each in the envelope the README documents (version/host/short_message/
// full_message/timestamp/level + every other field as a `_`-prefixed extra
// field with sanitised name and string-or-number value).
//
// Normal cases go through a real loopback TCP listener (newClient, send).
// Retry cases (a write fails, out() returns an error and is called again with the
// same batch, as pipeline.RetriableBatcher does) use a recording net.Conn inside
// a testing/synctest bubble, because out() sleeps one second after a failure.

import (
	"errors"
	"fmt"
	"io"
	"math"
	"math/big"
	"net"
	"sort"
	"strings"
	"sync"
	"testing"
	"testing/synctest"
	"time"

	"github.com/ozontech/file.d/pipeline"
	"github.com/ozontech/file.d/xtime"
	"github.com/ozontech/file.d/zzverif/checks/c19"
	"github.com/ozontech/file.d/zzverif/fdkit"
	"github.com/ozontech/file.d/zzverif/vkit"
	"pgregory.net/rapid"
)

func TestMain(m *testing.M) { c19.CapMemory(); fdkit.InstallLogger(); vkit.Main(m) }
func TestReplay(t *testing.T) {
	verifC19T = t
	verifC19Setup()
	defer verifC19Teardown()
	vkit.Replay(t)
}

// VerifC19Case: a config and successive batches sent through the same worker data.
type VerifC19Case struct {
	HostField    string      `json:"host_field"`
	ShortField   string      `json:"short_message_field"`
	DefaultShort string      `json:"default_short_message_value"`
	FullField    string      `json:"full_message_field"`
	TSField      string      `json:"timestamp_field"`
	LevelField   string      `json:"level_field"`
	BatchSize    int         `json:"batch_size"`
	AvgEventSize int         `json:"avg_event_size"`
	Batches      []c19.Batch `json:"batches"`   // Plan.Script (FakeConn only): non-zero entry = that write fails
	Reconnect    []bool      `json:"reconnect"` // maintenance (reconnect) after batch i
	FakeConn     bool        `json:"fake_conn"`
}

// no empty key: GELF has no representation for it (assumption, see checks.d/C19.json)
var verifC19Keys = []string{"a", "b", "x y", "x-y", "user.name", "ключ", "A", "_u", "version", "host", "short_message", "full_message", "timestamp", "level",
	"message", "msg", "time", "ts", "hostname", "lvl", "full", "n", "q\"k", "nl\nk", "m&m", "sl\\"}

var verifC19Levels = []string{"debug", "info", "notice", "warning", "error", "critical", "alert", "emergency", "0", "3", "7", "ERROR", " info ", "warn", "trace", "", "xyz"}
var verifC19Times = []string{"2009-11-10T23:00:00.423141234Z", "2023-05-06T07:08:09Z", "2031-01-02T03:04:05.5+03:00", "not a time", "", "1999-01-01T00:00:00Z"}

func verifC19Gen(t *rapid.T) VerifC19Case {
	c := VerifC19Case{
		HostField:    rapid.SampledFrom([]string{"host", "hostname"}).Draw(t, "hostfield"),
		ShortField:   rapid.SampledFrom([]string{"message", "msg"}).Draw(t, "shortfield"),
		DefaultShort: rapid.SampledFrom([]string{"not set", " dflt "}).Draw(t, "dflt"),
		FullField:    rapid.SampledFrom([]string{"", "", "full"}).Draw(t, "fullfield"),
		TSField:      rapid.SampledFrom([]string{"time", "ts"}).Draw(t, "tsfield"),
		LevelField:   rapid.SampledFrom([]string{"level", "lvl"}).Draw(t, "levelfield"),
		AvgEventSize: rapid.SampledFrom([]int{1, 16, 256, 4096}).Draw(t, "avg"),
		FakeConn:     rapid.IntRange(0, 3).Draw(t, "fake") == 0,
	}
	opts := c19.EventOpts{InvalidUTF8: true, Keys: verifC19Keys, Decorate: func(t *rapid.T, label string, obj *vkit.JNode, id string) {
		set := func(f string, v *vkit.JNode) {
			obj.Del(f)
			if v != nil {
				obj.Set(f, v)
			}
		}
		set(c.HostField, c19.GenRouteValue(t, label+"/host", true))
		set(c.ShortField, c19.GenRouteValue(t, label+"/short", true))
		if c.FullField != "" {
			set(c.FullField, c19.GenRouteValue(t, label+"/full", true))
		}
		switch rapid.IntRange(0, 5).Draw(t, label+"/tk") {
		case 0:
			set(c.TSField, nil)
		case 1:
			set(c.TSField, vkit.JNum(rapid.SampledFrom([]string{"1700000000", "1700000000123", "1700000000.5", "0", "12"}).Draw(t, label+"/tnum")))
		case 2:
			set(c.TSField, c19.GenRouteValue(t, label+"/tany", true))
		default:
			set(c.TSField, vkit.JStr(rapid.SampledFrom(verifC19Times).Draw(t, label+"/tstr")))
		}
		switch rapid.IntRange(0, 5).Draw(t, label+"/lk") {
		case 0:
			set(c.LevelField, nil)
		case 1:
			set(c.LevelField, vkit.JNum(rapid.SampledFrom([]string{"0", "1", "3", "6", "7"}).Draw(t, label+"/lnum")))
		case 2:
			v := c19.GenRouteValue(t, label+"/lany", true)
			if v != nil && v.Kind == 'n' {
				v = vkit.JBool(true)
			}
			set(c.LevelField, v)
		default:
			set(c.LevelField, vkit.JStr(rapid.SampledFrom(verifC19Levels).Draw(t, label+"/lstr")))
		}
	}}
	var plan func(t *rapid.T, label string, b c19.Batch) c19.Plan
	if c.FakeConn {
		plan = c19.GenPlan([]int{1}, false)
	}
	c.Batches = c19.GenBatches(t, opts, plan)
	maxLen := 1
	for bi, b := range c.Batches {
		maxLen = max(maxLen, len(b.Events))
		c.Reconnect = append(c.Reconnect, rapid.IntRange(0, 2).Draw(t, fmt.Sprintf("b%d/reconnect", bi)) == 0)
	}
	c.BatchSize = maxLen + rapid.SampledFrom([]int{0, 0, 1, 100}).Draw(t, "bsx")
	return c
}

// ---------------------------------------------------------------- transport

type verifC19Stream struct {
	seq  int
	data []byte
}

var (
	verifC19T      *testing.T
	verifC19Ln     net.Listener
	verifC19Conns  chan verifC19Stream
	verifC19Wg     sync.WaitGroup
	verifC19Base   *Plugin
	verifC19Accept int
)

func verifC19Setup() {
	if verifC19Ln != nil {
		return
	}
	fdkit.InstallLogger()
	ln, err := net.Listen("tcp", "127.0.0.1:0")
	if err != nil {
		panic(err)
	}
	verifC19Ln = ln
	verifC19Conns = make(chan verifC19Stream, 1024)
	verifC19Accept = 0
	if verifC19Base == nil {
		verifC19Base = &Plugin{}
		verifC19Base.registerMetrics(fdkit.MetricCtl("c19gelf"))
	}
	verifC19Wg.Add(1)
	go func() {
		defer verifC19Wg.Done()
		seq := 0
		for {
			conn, err := ln.Accept()
			if err != nil {
				return
			}
			s := seq
			seq++
			verifC19Wg.Add(1)
			go func() {
				defer verifC19Wg.Done()
				b, _ := io.ReadAll(conn)
				_ = conn.Close()
				verifC19Conns <- verifC19Stream{seq: s, data: b}
			}()
		}
	}()
}

func verifC19Teardown() {
	if verifC19Ln != nil {
		_ = verifC19Ln.Close()
		verifC19Wg.Wait()
		verifC19Ln = nil
	}
}

// verifC19FakeConn records writes; write i (counted per batch) fails if the script says so.
type verifC19FakeState struct {
	script []int
	n      int
	writes [][]byte // successful writes of the current batch
}

type verifC19FakeConn struct {
	st     *verifC19FakeState
	closed bool
}

func (f *verifC19FakeConn) Write(b []byte) (int, error) {
	i := f.st.n
	f.st.n++
	if f.closed {
		return 0, errors.New("write on closed fake conn")
	}
	if i < len(f.st.script) && f.st.script[i] != 0 {
		return 0, errors.New("scripted write failure")
	}
	f.st.writes = append(f.st.writes, append([]byte(nil), b...))
	return len(b), nil
}
func (f *verifC19FakeConn) Read([]byte) (int, error)         { return 0, io.EOF }
func (f *verifC19FakeConn) Close() error                     { f.closed = true; return nil }
func (f *verifC19FakeConn) LocalAddr() net.Addr              { return &net.TCPAddr{} }
func (f *verifC19FakeConn) RemoteAddr() net.Addr             { return &net.TCPAddr{} }
func (f *verifC19FakeConn) SetDeadline(time.Time) error      { return nil }
func (f *verifC19FakeConn) SetReadDeadline(time.Time) error  { return nil }
func (f *verifC19FakeConn) SetWriteDeadline(time.Time) error { return nil }

// ---------------------------------------------------------------- reference model (README)

func verifC19Sanitize(name string) string {
	var sb strings.Builder
	sb.WriteByte('_')
	for _, r := range name {
		ok := (r >= 'a' && r <= 'z') || (r >= 'A' && r <= 'Z') || (r >= '0' && r <= '9') || r == '_' || r == '-' || r == '.'
		if ok {
			sb.WriteRune(r)
		} else {
			sb.WriteByte('-')
		}
	}
	return sb.String()
}

func verifC19Blank(s string) bool {
	for _, r := range s {
		switch r {
		case ' ', '\t', '\n', '\r', '\v', '\f', 0x1c, 0x1d, 0x1e, 0x1f:
		default:
			return false
		}
	}
	return true
}

var verifC19LevelTable = map[string]string{"debug": "7", "info": "6", "notice": "5", "warning": "4", "error": "3", "critical": "2", "alert": "1", "emergency": "0",
	"0": "0", "1": "1", "2": "2", "3": "3", "4": "4", "5": "5", "6": "6", "7": "7"}

// verifC19Want is one expected key/value pair of a GELF message.
type verifC19Want struct {
	key    string
	desc   string
	strict bool
	ok     func(v *vkit.JNode) bool
}

func verifC19StrEq(s string) func(v *vkit.JNode) bool {
	return func(v *vkit.JNode) bool { return v.Kind == 's' && c19.NormUTF8(v.Str) == c19.NormUTF8(s) }
}

// verifC19ExtraValue: extra fields are strings and numbers; anything else
// travels as a string holding its JSON.
func verifC19ExtraValue(orig *vkit.JNode) func(v *vkit.JNode) bool {
	switch orig.Kind {
	case 's':
		return verifC19StrEq(orig.Str)
	case 'n':
		return func(v *vkit.JNode) bool { return v.Kind == 'n' && vkit.NumEqual(v.Str, orig.Str) }
	default:
		return func(v *vkit.JNode) bool {
			if v.Kind != 's' {
				return false
			}
			p, err := vkit.ParseJSON([]byte(v.Str))
			return err == nil && vkit.DiffJ(orig, p, false) == ""
		}
	}
}

// verifC19BaseValue: host / short_message / full_message are strings; a blank or
// absent value becomes the default.
func verifC19BaseValue(orig *vkit.JNode, dflt string) (func(v *vkit.JNode) bool, bool) {
	if orig == nil {
		return verifC19StrEq(dflt), true
	}
	switch orig.Kind {
	case 's':
		if verifC19Blank(orig.Str) {
			return verifC19StrEq(dflt), true
		}
		return verifC19StrEq(orig.Str), true
	case 'n':
		return verifC19StrEq(orig.Str), true
	default:
		// the text form of a non-string value is not documented: any non-blank string
		return func(v *vkit.JNode) bool { return v.Kind == 's' && !verifC19Blank(v.Str) }, false
	}
}

func verifC19Model(c VerifC19Case, ev *vkit.JNode) []verifC19Want {
	var w []verifC19Want
	consumed := map[string]bool{}
	w = append(w, verifC19Want{key: "version", desc: `"1.1"`, strict: true, ok: verifC19StrEq("1.1")})
	// host
	hv := ev.Get(c.HostField)
	f, strict := verifC19BaseValue(hv, "unknown")
	w = append(w, verifC19Want{key: "host", desc: "host from " + c.HostField, strict: strict, ok: f})
	consumed[c.HostField] = true
	// short_message
	sv := ev.Get(c.ShortField)
	f, strict = verifC19BaseValue(sv, strings.TrimSpace(c.DefaultShort))
	w = append(w, verifC19Want{key: "short_message", desc: "short_message from " + c.ShortField, strict: strict, ok: f})
	consumed[c.ShortField] = true
	// full_message
	if c.FullField != "" {
		if fv := ev.Get(c.FullField); fv != nil {
			f, strict = verifC19BaseValue(fv, "")
			if fv.Kind != 's' && fv.Kind != 'n' {
				f = func(v *vkit.JNode) bool { return v.Kind == 's' }
			}
			w = append(w, verifC19Want{key: "full_message", desc: "full_message from " + c.FullField, strict: strict, ok: f})
			consumed[c.FullField] = true
		}
	}
	// timestamp
	if tv := ev.Get(c.TSField); tv != nil {
		consumed[c.TSField] = true
		want := math.NaN()
		if tv.Kind == 's' {
			if tm, err := time.Parse(time.RFC3339Nano, tv.Str); err == nil && tm.Unix() >= 1000000000 {
				want = float64(tm.UnixNano()) / 1e9
			}
		}
		w = append(w, verifC19Want{key: "timestamp", desc: fmt.Sprintf("timestamp number (%v)", want), strict: !math.IsNaN(want), ok: func(v *vkit.JNode) bool {
			if v.Kind != 'n' {
				return false
			}
			r, ok := new(big.Float).SetString(v.Str)
			if !ok {
				return false
			}
			g, _ := r.Float64()
			if math.IsNaN(want) {
				return g > 0 // an unparsable or too old time becomes the current time (virtual clock inside a bubble: year 2000)
			}
			return math.Abs(g-want) < 1e-3
		}})
	}
	// level
	if lv := ev.Get(c.LevelField); lv != nil {
		consumed[c.LevelField] = true
		exact := ""
		switch lv.Kind {
		case 's':
			exact = verifC19LevelTable[lv.Str]
		case 'n':
			exact = lv.Str
		}
		w = append(w, verifC19Want{key: "level", desc: "level number " + exact, strict: exact != "", ok: func(v *vkit.JNode) bool {
			if v.Kind != 'n' {
				return false
			}
			if exact != "" {
				return vkit.NumEqual(v.Str, exact)
			}
			// a level the README does not list: "Otherwise 6" / some alias — any syslog level
			for _, l := range []string{"0", "1", "2", "3", "4", "5", "6", "7"} {
				if vkit.NumEqual(v.Str, l) {
					return true
				}
			}
			return false
		}})
	}
	for i, k := range ev.Keys {
		if consumed[k] {
			continue
		}
		w = append(w, verifC19Want{key: verifC19Sanitize(k), desc: "extra field of " + fmt.Sprintf("%q", k), strict: true, ok: verifC19ExtraValue(ev.Vals[i])})
	}
	return w
}

func verifC19Message(o *vkit.Outcome, c VerifC19Case, what string, ev c19.Ev, doc *vkit.JNode, raw []byte) {
	wants := verifC19Model(c, ev.Tree())
	sort.SliceStable(wants, func(i, j int) bool { return wants[i].strict && !wants[j].strict })
	used := make([]bool, len(doc.Keys))
	for _, w := range wants {
		found := false
		for i, k := range doc.Keys {
			if !used[i] && k == w.key && w.ok(doc.Vals[i]) {
				used[i] = true
				found = true
				break
			}
		}
		if !found {
			o.Failf(c19.P, "gelf:message-field-missing-or-wrong", "%s: event %s: GELF message lacks %q = %s\nevent %q\n  got %q", what, ev.ID, w.key, w.desc, c19.Clip(ev.Text()), c19.Clip(string(raw)))
			return
		}
	}
	for i, k := range doc.Keys {
		if !used[i] {
			o.Failf(c19.P, "gelf:message-has-undocumented-field", "%s: event %s: GELF message has field %q = %s that the documented envelope does not produce\nevent %q\n  got %q", what, ev.ID, k, c19.Clip(doc.Vals[i].Encode()), c19.Clip(ev.Text()), c19.Clip(string(raw)))
			return
		}
	}
}

// verifC19StreamCheck checks a byte stream that must carry exactly the events want.
func verifC19StreamCheck(o *vkit.Outcome, c VerifC19Case, what string, stream []byte, want []c19.Ev, parents, earlier map[string]bool) {
	if len(stream) > 0 && stream[len(stream)-1] != 0 {
		o.Failf(c19.P, "gelf:stream-not-nul-terminated", "%s: stream does not end in a NUL byte: …%q", what, c19.Clip(string(stream[max(0, len(stream)-80):])))
		return
	}
	var msgs [][]byte
	if len(stream) > 0 {
		msgs = strings2bytes(strings.Split(string(stream[:len(stream)-1]), "\x00"))
	}
	var gotIDs []string
	for i, m := range msgs {
		doc, err := vkit.ParseJSON(m)
		if err != nil || doc.Kind != 'o' {
			o.Failf(c19.P, "gelf:message-invalid-json", "%s: message %d is not a JSON object (%v): %q", what, i, err, c19.Clip(string(m)))
			return
		}
		id := c19.IDOf(doc, "_"+c19.IDKey)
		gotIDs = append(gotIDs, id)
		if i < len(want) && want[i].ID == id {
			verifC19Message(o, c, what, want[i], doc, m)
			if o.Failed() {
				return
			}
		}
	}
	if clause, msg := c19.SeqProblem(gotIDs, c19.IDs(want), parents, earlier); clause != "" {
		o.Failf(c19.P, "gelf:"+clause, "%s: %s", what, msg)
	}
}

func strings2bytes(ss []string) [][]byte {
	r := make([][]byte, len(ss))
	for i, s := range ss {
		r[i] = []byte(s)
	}
	return r
}

// ---------------------------------------------------------------- run

func verifC19Plugin(c VerifC19Case) *Plugin {
	p := &Plugin{
		logger:          fdkit.NewLogger().Sugar(),
		avgEventSize:    c.AvgEventSize,
		sendErrorMetric: verifC19Base.sendErrorMetric,
		config: &Config{
			Endpoint: verifC19Ln.Addr().String(), ConnectionTimeout_: 30 * time.Second, WriteTimeout_: 30 * time.Second,
			HostField: c.HostField, ShortMessageField: c.ShortField, DefaultShortMessageValue: c.DefaultShort, FullMessageField: c.FullField,
			TimestampField: c.TSField, TimestampFieldFormat: "rfc3339nano", LevelField: c.LevelField, BatchSize_: c.BatchSize,
		},
	}
	// what Start derives
	p.config.hostField = string(p.formatExtraField(nil, p.config.HostField))
	p.config.shortMessageField = string(p.formatExtraField(nil, p.config.ShortMessageField))
	p.config.defaultShortMessageValue = strings.TrimSpace(p.config.DefaultShortMessageValue)
	p.config.fullMessageField = string(p.formatExtraField(nil, p.config.FullMessageField))
	p.config.timestampField = string(p.formatExtraField(nil, p.config.TimestampField))
	format, err := xtime.ParseFormatName(p.config.TimestampFieldFormat)
	if err != nil {
		panic(err)
	}
	p.config.timestampFieldFormat = format
	p.config.levelField = string(p.formatExtraField(nil, p.config.LevelField))
	return p
}

func verifC19Nontrivial(c VerifC19Case) bool {
	for _, b := range c.Batches {
		if len(b.Deliverable()) >= 2 {
			return true
		}
		for _, e := range b.Deliverable() {
			t := e.Tree()
			for _, f := range []string{c.HostField, c.ShortField, c.TSField, c.LevelField} {
				if v := t.Get(f); v != nil && v.Kind == 's' && c19.Hostile(v.Str) {
					return true
				}
			}
		}
	}
	return false
}

// verifC19RunTCP: real loopback listener; one stream per connection.
func verifC19RunTCP(o *vkit.Outcome, c VerifC19Case) {
	p := verifC19Plugin(c)
	var wd pipeline.WorkerData
	type seg struct {
		want    []c19.Ev
		parents map[string]bool
		earlier map[string]bool
		from    int
	}
	var segs []seg // expected content per connection
	cur := seg{parents: map[string]bool{}, earlier: map[string]bool{}}
	earlier := map[string]bool{}
	var built []*c19.Built
	closeConn := func() {
		if wd != nil && wd.(*data).gelf != nil {
			p.maintenance(&wd) // the periodic reconnect: closes the connection
			segs = append(segs, cur)
			cur = seg{parents: map[string]bool{}, earlier: map[string]bool{}}
			for k := range earlier {
				cur.earlier[k] = true
			}
		}
	}
	for bi, b := range c.Batches {
		bt := c19.Build(b)
		built = append(built, bt)
		if err := p.out(&wd, bt.Batch); err != nil {
			o.Failf(c19.P, "gelf:batch-not-accepted", "batch %d: out() failed against a listening loopback endpoint: %v", bi, err)
			break
		}
		cur.want = append(cur.want, b.Deliverable()...)
		for k := range c19.ParentSet(b) {
			cur.parents[k] = true
		}
		c19.AddAll(earlier, b)
		if bi < len(c.Reconnect) && c.Reconnect[bi] {
			closeConn()
		}
	}
	closeConn()
	for _, bt := range built {
		bt.Release()
	}
	// collect one stream per connection made
	streams := make([]verifC19Stream, 0, len(segs))
	deadline := time.After(60 * time.Second) // liveness bound only
	for len(streams) < len(segs) {
		select {
		case s := <-verifC19Conns:
			streams = append(streams, s)
		case <-deadline:
			o.Failf(c19.P, "gelf:harness-stream-timeout", "only %d of %d connections delivered their stream within 60s", len(streams), len(segs))
			return
		}
	}
	sort.Slice(streams, func(i, j int) bool { return streams[i].seq < streams[j].seq })
	if o.Failed() {
		return
	}
	for i, sg := range segs {
		verifC19StreamCheck(o, c, fmt.Sprintf("connection %d", i), streams[i].data, sg.want, sg.parents, sg.earlier)
		if o.Failed() {
			return
		}
	}
}

// verifC19RunFake: scripted write failures; every attempt's write is checked.
func verifC19RunFake(o *vkit.Outcome, c VerifC19Case) {
	p := verifC19Plugin(c)
	// the worker data out() creates on first use, with the connection already "established"
	d := &data{outBuf: make([]byte, 0, p.config.BatchSize_*p.avgEventSize), encodeBuf: make([]byte, 0)}
	var wd pipeline.WorkerData = d
	earlier := map[string]bool{}
	st := &verifC19FakeState{}
	for bi, b := range c.Batches {
		bt := c19.Build(b)
		st.script, st.n, st.writes = b.Plan.Script, 0, nil
		attempts := 0
		var lastErr error
		for a := 0; a < b.Plan.MaxAttempts(); a++ {
			if d.gelf == nil {
				d.gelf = &client{conn: &verifC19FakeConn{st: st}, timeout: time.Second}
			}
			attempts++
			if lastErr = p.out(&wd, bt.Batch); lastErr == nil {
				break
			}
		}
		if lastErr != nil {
			o.Failf(c19.P, "gelf:batch-not-accepted", "batch %d: out() still fails after %d attempts although writes succeed: %v", bi, attempts, lastErr)
		}
		if attempts > 1 {
			o.Class("retried")
		}
		writes := st.writes
		if len(writes) != 1 && lastErr == nil {
			o.Failf(c19.P, "gelf:not-one-write-per-successful-attempt", "batch %d: %d successful writes", bi, len(writes))
		}
		if !o.Failed() {
			what := fmt.Sprintf("batch %d, write of attempt %d", bi, attempts-1)
			retrySig := ""
			if attempts > 1 {
				retrySig = "gelf:retry-resends-changed-events"
			}
			c19.Sub(o, retrySig, func(so *vkit.Outcome) {
				verifC19StreamCheck(so, c, what, writes[0], b.Deliverable(), c19.ParentSet(b), earlier)
			})
		}
		bt.Release()
		c19.AddAll(earlier, b)
		if o.Failed() {
			return
		}
	}
}

func verifC19Run(c VerifC19Case) *vkit.Outcome {
	verifC19Setup()
	o := vkit.NewOutcome()
	if c.FakeConn {
		o.Class("transport=fake-conn(with write failures)")
		if verifC19T != nil {
			var rec any
			var stack string
			synctest.Test(verifC19T, func(*testing.T) {
				rec, stack = fdkit.CatchPanic(func() { verifC19RunFake(o, c) })
			})
			if rec != nil {
				o.Failf(c19.P, vkit.PanicSig(rec, stack), "panic: %v\n%s", rec, stack)
			}
		} else {
			verifC19RunFake(o, c)
		}
	} else {
		o.Class("transport=loopback-tcp")
		verifC19RunTCP(o, c)
	}
	o.Class(fmt.Sprintf("batches=%d", len(c.Batches)))
	if verifC19Nontrivial(c) {
		o.Nontrivial(c19.P)
	}
	return o
}

var verifC19Prop = vkit.NewProp([]string{c19.P}, "c19gelf", verifC19Gen, verifC19Run)

func TestVerifC19Gelf(t *testing.T) {
	verifC19T = t
	verifC19Setup()
	defer verifC19Teardown()
	verifC19Prop.CrashFile = true
	verifC19Prop.Check(t)
}
