package kafka

// C19 (white-box): Plugin.out hands the Kafka client exactly one record per
// deliverable event, in batch order; the record value is the event's JSON, the
// topic is the routing field's value (or the default topic).

import (
	"context"
	"errors"
	"fmt"
	"testing"
	"time"

	"github.com/ozontech/file.d/pipeline"
	"github.com/ozontech/file.d/zzverif/checks/c19"
	"github.com/ozontech/file.d/zzverif/fdkit"
	"github.com/ozontech/file.d/zzverif/vkit"
	"github.com/twmb/franz-go/pkg/kgo"
	"pgregory.net/rapid"
)

func TestMain(m *testing.M)   { c19.CapMemory(); fdkit.InstallLogger(); vkit.Main(m) }
func TestReplay(t *testing.T) { vkit.Replay(t) }

// VerifC19Case: a config and successive batches produced through the same worker data.
type VerifC19Case struct {
	UseTopicField bool        `json:"use_topic_field"`
	TopicField    string      `json:"topic_field"`
	DefaultTopic  string      `json:"default_topic"`
	BatchSize     int         `json:"batch_size"`
	AvgEventSize  int         `json:"avg_event_size"`
	Batches       []c19.Batch `json:"batches"` // Plan.Script: a non-zero entry = that ProduceSync call fails
}

func verifC19Gen(t *rapid.T) VerifC19Case {
	c := VerifC19Case{
		UseTopicField: rapid.IntRange(0, 3).Draw(t, "usetopic") > 0,
		TopicField:    rapid.SampledFrom([]string{"topic", "pipeline_kafka_topic"}).Draw(t, "topicfield"),
		DefaultTopic:  "default_topic",
		AvgEventSize:  rapid.SampledFrom([]int{1, 16, 256, 4096}).Draw(t, "avg"),
	}
	opts := c19.EventOpts{InvalidUTF8: true, Decorate: func(t *rapid.T, label string, obj *vkit.JNode, id string) {
		obj.Del(c.TopicField)
		if v := c19.GenRouteValue(t, label+"/topic", true); v != nil {
			obj.Set(c.TopicField, v)
		}
	}}
	c.Batches = c19.GenBatches(t, opts, c19.GenPlan([]int{500}, false))
	maxLen := 1
	for _, b := range c.Batches {
		maxLen = max(maxLen, len(b.Events))
	}
	c.BatchSize = maxLen + rapid.SampledFrom([]int{0, 0, 1, 100}).Draw(t, "bsx")
	return c
}

// verifC19Rec is a snapshot of one record at the moment ProduceSync got it.
type verifC19Rec struct {
	Topic     string
	Value     []byte
	HasKey    bool
	NHeaders  int
	Partition int32
	CtxSet    bool
}

// verifC19Client records what out() produces; call i fails if script says so.
type verifC19Client struct {
	script []int
	calls  [][]verifC19Rec
}

func (k *verifC19Client) ProduceSync(_ context.Context, rs ...*kgo.Record) kgo.ProduceResults {
	i := len(k.calls)
	var snap []verifC19Rec
	for _, r := range rs {
		if r == nil {
			snap = append(snap, verifC19Rec{Topic: "<nil record>"})
			continue
		}
		snap = append(snap, verifC19Rec{Topic: r.Topic, Value: append([]byte(nil), r.Value...), HasKey: r.Key != nil, NHeaders: len(r.Headers), Partition: r.Partition, CtxSet: r.Context != nil})
	}
	k.calls = append(k.calls, snap)
	res := make(kgo.ProduceResults, 0, len(rs))
	var err error
	if i < len(k.script) && k.script[i] != 0 {
		err = errors.New("scripted produce failure")
	}
	for _, r := range rs {
		res = append(res, kgo.ProduceResult{Record: r, Err: err})
	}
	return res
}

func (k *verifC19Client) Close() {}

// verifC19Topic: documented routing — the topic field's value if use_topic_field
// is set and the event has one, else default_topic.
func verifC19Topic(c VerifC19Case, ev *vkit.JNode) (string, bool) {
	if !c.UseTopicField {
		return c.DefaultTopic, false
	}
	v := ev.Get(c.TopicField)
	s := ""
	if v != nil {
		switch v.Kind {
		case 's', 'n':
			s = v.Str
		case 't':
			s = "true"
		case 'f':
			s = "false"
		case 'z':
			s = "null"
		}
	}
	if s == "" {
		return c.DefaultTopic, false
	}
	return s, c19.Hostile(s)
}

var verifC19Base *Plugin

func verifC19Run(c VerifC19Case) *vkit.Outcome {
	o := vkit.NewOutcome()
	if verifC19Base == nil {
		verifC19Base = &Plugin{}
		verifC19Base.registerMetrics(fdkit.MetricCtl("c19kafka"))
	}
	p := &Plugin{
		logger: fdkit.NewLogger().Sugar(),
		config: &Config{DefaultTopic: c.DefaultTopic, UseTopicField: c.UseTopicField, TopicField: c.TopicField,
			BatchSize_: c.BatchSize, Timeout_: 15 * time.Second},
		avgEventSize:    c.AvgEventSize,
		ctx:             context.Background(),
		sendErrorMetric: verifC19Base.sendErrorMetric,
	}
	var wd pipeline.WorkerData
	earlier := map[string]bool{}
	nontrivial := false
	for bi, b := range c.Batches {
		bt := c19.Build(b)
		cl := &verifC19Client{script: b.Plan.Script}
		p.client = cl
		var lastErr error
		for a := 0; a < b.Plan.MaxAttempts(); a++ {
			if lastErr = p.out(&wd, bt.Batch); lastErr == nil {
				break
			}
		}
		want := b.Deliverable()
		if len(want) >= 2 {
			nontrivial = true
		}
		if lastErr != nil {
			o.Failf(c19.P, "kafka:batch-not-accepted", "batch %d: out() still fails after %d calls although the client accepts: %v", bi, len(cl.calls), lastErr)
		}
		if len(cl.calls) > 1 {
			o.Class("retried")
		}
		// every ProduceSync call (also a retry after a failure) carries the whole batch
		for ci, recs := range cl.calls {
			what := fmt.Sprintf("batch %d produce call %d", bi, ci)
			var gotIDs []string
			for i, r := range recs {
				doc, err := vkit.ParseJSON(r.Value)
				if err != nil || doc.Kind != 'o' {
					o.Failf(c19.P, "kafka:record-value-invalid-json", "%s: record %d value is not a JSON object (%v): %q", what, i, err, c19.Clip(string(r.Value)))
					break
				}
				id := c19.IDOf(doc, c19.IDKey)
				gotIDs = append(gotIDs, id)
				if i < len(want) && want[i].ID == id {
					tree := want[i].Tree()
					if d := vkit.DiffJ(tree, doc, false); d != "" {
						o.Failf(c19.P, "kafka:record-value-differs", "%s: event %s: record value differs from the event: %s\nevent %q\nvalue %q", what, id, d, c19.Clip(want[i].Text()), c19.Clip(string(r.Value)))
						break
					}
					wt, hostile := verifC19Topic(c, tree)
					if hostile {
						nontrivial = true
						o.Class("hostile-topic-value")
					}
					if c19.NormUTF8(r.Topic) != c19.NormUTF8(wt) { // the model tree was parsed by encoding/json, which replaces invalid UTF-8
						o.Failf(c19.P, "kafka:wrong-topic", "%s: event %s: record topic %q, want %q (use_topic_field=%v, field %q)", what, id, c19.Clip(r.Topic), c19.Clip(wt), c.UseTopicField, c.TopicField)
						break
					}
					if r.HasKey || r.NHeaders != 0 || r.CtxSet {
						o.Failf(c19.P, "kafka:record-carries-stale-metadata", "%s: event %s: record has key=%v headers=%d context=%v", what, id, r.HasKey, r.NHeaders, r.CtxSet)
						break
					}
				}
			}
			if o.Failed() {
				break
			}
			if clause, msg := c19.SeqProblem(gotIDs, c19.IDs(want), c19.ParentSet(b), earlier); clause != "" {
				o.Failf(c19.P, "kafka:"+clause, "%s: %s", what, msg)
				break
			}
		}
		bt.Release()
		c19.AddAll(earlier, b)
		if o.Failed() {
			break
		}
	}
	o.Class(fmt.Sprintf("batches=%d", len(c.Batches)))
	if nontrivial {
		o.Nontrivial(c19.P)
	}
	return o
}

var verifC19Prop = vkit.NewProp([]string{c19.P}, "c19kafka", verifC19Gen, verifC19Run)

func TestVerifC19Kafka(t *testing.T) { verifC19Prop.CrashFile = true; verifC19Prop.Check(t) }
