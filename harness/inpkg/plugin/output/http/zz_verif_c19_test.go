package http

// C19 (white-box): the POST bodies Plugin.out builds carry one newline-terminated
// JSON line per deliverable event, in order (json encoding: the event; raw
// encoding: the JSON value of the configured field); split-and-resend parts
// cover the batch exactly once.

import (
	"fmt"
	"strings"
	"testing"
	"time"

	"github.com/ozontech/file.d/pipeline"
	"github.com/ozontech/file.d/zzverif/checks/c19"
	"github.com/ozontech/file.d/zzverif/fdkit"
	"github.com/ozontech/file.d/zzverif/vkit"
	"pgregory.net/rapid"
)

func TestMain(m *testing.M)   { c19.CapMemory(); fdkit.InstallLogger(); vkit.Main(m) }
func TestReplay(t *testing.T) { verifC19Setup(); defer verifC19Teardown(); vkit.Replay(t) }

// VerifC19Case: a config and successive batches sent through the same worker data.
type VerifC19Case struct {
	Encoding     string      `json:"encoding"`  // json | raw
	RawField     string      `json:"raw_field"` // raw: field to send ("" = default "message")
	Split        bool        `json:"split_batch"`
	Gzip         bool        `json:"use_gzip"`
	BatchSize    int         `json:"batch_size"`
	AvgEventSize int         `json:"avg_event_size"`
	Batches      []c19.Batch `json:"batches"`
}

func (c VerifC19Case) field() string {
	if c.RawField == "" {
		return "message"
	}
	return c.RawField
}

func verifC19Gen(t *rapid.T) VerifC19Case {
	c := VerifC19Case{
		Encoding:     rapid.SampledFrom([]string{"json", "json", "raw"}).Draw(t, "enc"),
		Split:        rapid.Bool().Draw(t, "split"),
		Gzip:         rapid.IntRange(0, 5).Draw(t, "gzip") == 0,
		AvgEventSize: rapid.SampledFrom([]int{1, 16, 256, 4096}).Draw(t, "avg"),
	}
	if c.Encoding == "raw" {
		c.RawField = rapid.SampledFrom([]string{"", "message", "log"}).Draw(t, "rawfield")
	}
	opts := c19.EventOpts{InvalidUTF8: true, Decorate: func(t *rapid.T, label string, obj *vkit.JNode, id string) {
		if c.Encoding != "raw" {
			if rapid.IntRange(0, 3).Draw(t, label+"/hostile") == 0 {
				obj.Set("message", vkit.JStr(c19.GenRouteString(t, label+"/msg", true)))
			}
			return
		}
		// raw: the sent value must carry the id; the field is sometimes absent
		f := c.field()
		obj.Del(f)
		switch rapid.IntRange(0, 7).Draw(t, label+"/rawkind") {
		case 0:
		case 1, 2:
			obj.Set(f, vkit.JObj().Set(c19.IDKey, vkit.JStr(id)).Set("p", vkit.JStr(c19.GenRouteString(t, label+"/rawp", true))))
		default:
			obj.Set(f, vkit.JStr(id+"|"+c19.GenRouteString(t, label+"/raws", true)))
		}
	}}
	c.Batches = c19.GenBatches(t, opts, c19.GenPlan([]int{500, 503, 429}, true))
	maxLen := 1
	for _, b := range c.Batches {
		maxLen = max(maxLen, len(b.Events))
	}
	c.BatchSize = maxLen + rapid.SampledFrom([]int{0, 0, 1, 100}).Draw(t, "bsx")
	return c
}

var (
	verifC19Srv    *c19.Server
	verifC19Base   *Plugin
	verifC19Client = map[bool]*Plugin{}
)

func verifC19Teardown() {
	if verifC19Srv != nil {
		verifC19Srv.Close()
		verifC19Srv = nil
	}
}

func verifC19Setup() {
	if verifC19Srv != nil {
		return
	}
	fdkit.InstallLogger()
	verifC19Srv = c19.NewServer(200, `ok`)
	if verifC19Base == nil {
		verifC19Base = &Plugin{logger: fdkit.NewLogger()}
		verifC19Base.registerMetrics(fdkit.MetricCtl("c19http"))
	}
	for _, gz := range []bool{false, true} {
		p := &Plugin{logger: fdkit.NewLogger(), config: &Config{
			Endpoints: []string{verifC19Srv.URL + "/"}, UseGzip: gz, GzipCompressionLevel: "default",
			ConnectionTimeout_: 30 * time.Second,
		}}
		p.config.KeepAlive.MaxConnDuration_ = 5 * time.Minute
		p.config.KeepAlive.MaxIdleConnDuration_ = 10 * time.Second
		p.prepareClient()
		verifC19Client[gz] = p
	}
}

// verifC19Sent is what the body must carry for one event (nil = nothing: raw
// encoding and the event has no such field).
func verifC19Sent(c VerifC19Case, e c19.Ev) *vkit.JNode {
	tree := e.Tree()
	if c.Encoding != "raw" {
		return tree
	}
	return tree.Get(c.field())
}

func verifC19IDOf(c VerifC19Case, doc *vkit.JNode) string {
	if c.Encoding != "raw" {
		return c19.IDOf(doc, c19.IDKey)
	}
	switch doc.Kind {
	case 'o':
		return c19.IDOf(doc, c19.IDKey)
	case 's':
		if i := strings.IndexByte(doc.Str, '|'); i >= 0 {
			return doc.Str[:i]
		}
	}
	return ""
}

func verifC19Body(o *vkit.Outcome, c VerifC19Case, what string, body []byte, batch c19.Batch, earlier map[string]bool) {
	lines, nlTerminated := c19.SplitLines(body)
	if !nlTerminated {
		o.Failf(c19.P, "http:not-newline-terminated", "%s: body does not end in a newline: …%q", what, c19.Clip(string(body[max(0, len(body)-80):])))
		return
	}
	var want []c19.Ev
	var wantTrees []*vkit.JNode
	absent := 0
	for _, e := range batch.Deliverable() {
		if s := verifC19Sent(c, e); s != nil {
			want = append(want, e)
			wantTrees = append(wantTrees, s)
		} else {
			absent++
		}
	}
	var gotIDs []string
	empty := 0
	k := 0
	for i, ln := range lines {
		if len(ln) == 0 && c.Encoding == "raw" {
			// weaker reading: an event without the raw field may leave an empty line or nothing
			empty++
			continue
		}
		doc, err := vkit.ParseJSON(ln)
		if err != nil || (c.Encoding != "raw" && doc.Kind != 'o') {
			o.Failf(c19.P, "http:line-invalid-json", "%s: line %d is not a JSON document (%v): %q", what, i, err, c19.Clip(string(ln)))
			return
		}
		id := verifC19IDOf(c, doc)
		gotIDs = append(gotIDs, id)
		if k < len(want) && want[k].ID == id {
			if d := vkit.DiffJ(wantTrees[k], doc, false); d != "" {
				o.Failf(c19.P, "http:document-differs", "%s: event %s: line differs from what the %s encoding documents: %s\nevent %q\n line %q", what, id, c.Encoding, d, c19.Clip(want[k].Text()), c19.Clip(string(ln)))
				return
			}
		}
		k++
	}
	if clause, msg := c19.SeqProblem(gotIDs, c19.IDs(want), c19.ParentSet(batch), earlier); clause != "" {
		o.Failf(c19.P, "http:"+clause, "%s (%s encoding): %s\nbody %q", what, c.Encoding, msg, c19.Clip(string(body)))
		return
	}
	if empty > absent {
		o.Failf(c19.P, "http:unexpected-empty-line", "%s: %d empty lines but only %d events without the raw field", what, empty, absent)
	}
}

func verifC19Run(c VerifC19Case) *vkit.Outcome {
	verifC19Setup()
	o := vkit.NewOutcome()
	cfg := &Config{
		ContentType: "application/json", SplitBatch: c.Split, UseGzip: c.Gzip, BatchSize_: c.BatchSize,
		ConnectionTimeout_: 30 * time.Second,
	}
	cfg.Encoding.Type = c.Encoding
	if c.Encoding == "raw" && c.RawField != "" {
		cfg.Encoding.Params = []byte(fmt.Sprintf(`{"field":%q}`, c.RawField))
	}
	enc, err := NewEncoder(cfg.Encoding)
	if err != nil {
		panic(err)
	}
	p := &Plugin{
		config:          cfg,
		client:          verifC19Client[c.Gzip].client,
		encoder:         enc,
		logger:          verifC19Base.logger,
		avgEventSize:    c.AvgEventSize,
		sendErrorMetric: verifC19Base.sendErrorMetric,
	}
	var wd pipeline.WorkerData
	earlier := map[string]bool{}
	nontrivial := false
	o.Class("encoding=" + c.Encoding)
	for bi, b := range c.Batches {
		bt := c19.Build(b)
		var atts []c19.Attempt
		rec, stack := fdkit.CatchPanic(func() {
			atts = verifC19Srv.Drive(b.Plan, func() error { return p.out(&wd, bt.Batch) })
		})
		if rec != nil {
			o.Failf(c19.P, "http:out-panics", "batch %d (%s encoding, split=%v): out() panicked: %v\n%s", bi, c.Encoding, c.Split, rec, stack)
			bt.Release()
			break
		}
		if len(b.Deliverable()) >= 2 {
			nontrivial = true
		}
		last := atts[len(atts)-1]
		if last.Err != nil {
			o.Failf(c19.P, "http:batch-not-accepted", "batch %d: out() still fails after %d attempts although the endpoint accepts: %v", bi, len(atts), last.Err)
		}
		saw413 := false
		for ai, att := range atts {
			for ri, rq := range att.Reqs {
				what := fmt.Sprintf("batch %d attempt %d request %d (status %d)", bi, ai, ri, rq.Status)
				if rq.BadGzip || rq.Gzip != c.Gzip {
					o.Failf(c19.P, "http:bad-content-encoding", "%s: gzip=%v badgzip=%v want gzip=%v", what, rq.Gzip, rq.BadGzip, c.Gzip)
				}
				if rq.Status == 413 {
					saw413 = true
				}
				if ri == 0 {
					verifC19Body(o, c, what, rq.Body, b, earlier)
				}
				if o.Failed() {
					break
				}
			}
		}
		if !o.Failed() && last.Err == nil {
			if c19.GaveUp(last, 200) {
				o.Class("gave-up-non-retryable")
			} else {
				var all []byte
				acc := c19.Accepted(last, 200)
				for _, rq := range acc {
					all = append(all, rq.Body...)
				}
				verifC19Body(o, c, fmt.Sprintf("batch %d: concatenation of the %d accepted request bodies of the final attempt", bi, len(acc)), all, b, earlier)
				if len(acc) > 1 {
					o.Class("split-resend-accepted-parts>1")
				}
			}
		}
		if saw413 {
			nontrivial = true
			o.Class("saw-413")
		}
		if len(atts) > 1 {
			o.Class("retried")
		}
		bt.Release()
		c19.AddAll(earlier, b)
		if o.Failed() {
			break
		}
	}
	o.Class(fmt.Sprintf("batches=%d", len(c.Batches)))
	if nontrivial {
		o.Nontrivial(c19.P)
	}
	return o
}

var verifC19Prop = vkit.NewProp([]string{c19.P}, "c19http", verifC19Gen, verifC19Run)

func TestVerifC19HTTP(t *testing.T) {
	verifC19Setup()
	defer verifC19Teardown()
	verifC19Prop.CrashFile = true
	verifC19Prop.Check(t)
}
