package offset

// C07, the load side of the YAML offsets file (journalctl, dmesg; white box): a read that fails in the
// middle of the file must not yield a state. A prefix of a good file is often valid YAML again
// ("offset: 1234567" cut after "offset: 1234"), so a swallowed read error loads an offset that was
// never committed. Touched unexported surface: yamlValue.

import (
	"errors"
	"fmt"
	"io"
	"syscall"
	"testing"

	"github.com/ozontech/file.d/zzverif/fdkit"
	"github.com/ozontech/file.d/zzverif/vkit"
	"pgregory.net/rapid"
)

const verifP = "C07"

func TestMain(m *testing.M)   { fdkit.InstallLogger(); vkit.Main(m) }
func TestReplay(t *testing.T) { vkit.Replay(t) }

type VerifLoadState struct {
	Offset int64  `json:"offset"`
	Cursor string `json:"cursor"`
}

type VerifLoadCase struct {
	State VerifLoadState `json:"state"`
	// FailAt: the read returns that many bytes of the file and then EIO; -1 = every prefix is tried
	FailAt int `json:"fail_at"`
	// Piece: the reader hands out at most that many bytes per call
	Piece int `json:"piece"`
}

type verifFailingReader struct {
	data  []byte
	pos   int
	stop  int
	piece int
}

func (r *verifFailingReader) Read(p []byte) (int, error) {
	if r.pos >= r.stop {
		if r.stop >= len(r.data) {
			return 0, io.EOF
		}
		return 0, syscall.EIO
	}
	n := min(len(p), r.stop-r.pos, r.piece)
	copy(p, r.data[r.pos:r.pos+n])
	r.pos += n
	return n, nil
}

func verifGenLoad(t *rapid.T) VerifLoadCase {
	c := VerifLoadCase{FailAt: -1, Piece: rapid.SampledFrom([]int{1, 7, 4096}).Draw(t, "piece")}
	c.State.Offset = rapid.OneOf(rapid.Int64Range(0, 1000), rapid.Int64Range(1000, 1<<40), rapid.Just(int64(1234567)), rapid.Int64Range(-1000, -1)).Draw(t, "offset")
	c.State.Cursor = rapid.SampledFrom([]string{"", "s=abc;i=1f;b=22", "s=0123456789abcdef;i=2a5;b=9f;m=1;t=5;x=7", "plain", "a: b", "12"}).Draw(t, "cursor")
	if rapid.IntRange(0, 3).Draw(t, "one_point") == 0 {
		c.FailAt = rapid.IntRange(0, 80).Draw(t, "fail_at")
	}
	return c
}

func verifRunLoad(c VerifLoadCase) *vkit.Outcome {
	o := vkit.NewOutcome()
	if c.Piece < 1 {
		o.Class("invalid-case")
		return o
	}
	saved := c.State
	w := &verifBuf{}
	if err := (&yamlValue{&saved}).Save(w); err != nil {
		o.Failf(verifP, "yaml-load:save-failed", "%+v: %v", saved, err)
		return o
	}
	file := w.b
	// the whole file loads back
	var full VerifLoadState
	if err := (&yamlValue{&full}).Load(&verifFailingReader{data: file, stop: len(file), piece: c.Piece}); err != nil || full != saved {
		o.Failf(verifP, "yaml-load:good-file-does-not-load", "saved %+v, file %q loads to %+v, %v", saved, file, full, err)
		return o
	}
	lo, hi := 0, len(file)-1
	if c.FailAt >= 0 {
		lo, hi = min(c.FailAt, len(file)-1), min(c.FailAt, len(file)-1)
	}
	swallowed := 0
	for k := lo; k <= hi && k >= 0; k++ {
		var got VerifLoadState
		err := (&yamlValue{&got}).Load(&verifFailingReader{data: file, stop: k, piece: c.Piece})
		if err == nil {
			swallowed++
			if got != saved {
				o.Failf(verifP, "yaml-load:read-error-swallowed", "file %q (state %+v): the read failed with EIO after %d of %d bytes, Load returned nil and the state %+v, which was never saved", file, saved, k, len(file), got)
				return o
			}
		} else if !errors.Is(err, syscall.EIO) {
			o.Class("yaml-load:read-error-reported-as-another-error")
		}
	}
	o.Class(fmt.Sprintf("yaml-load:prefixes-tried>=%d", min(hi-lo+1, 16)/16*16))
	if hi > lo {
		o.Nontrivial(verifP)
	}
	return o
}

type verifBuf struct{ b []byte }

func (b *verifBuf) Write(p []byte) (int, error) { b.b = append(b.b, p...); return len(p), nil }

var verifLoadProp = vkit.NewProp([]string{verifP}, "c07yamlload", verifGenLoad, verifRunLoad)

func TestVerifC07YAMLLoad(t *testing.T) { verifLoadProp.Check(t) }
