// Package vkit holds the file.d-independent helpers every check uses:
// evidence counters, violation/replay files, known-finding handling, soft
// time budgets. It must never import a file.d package (in-package white-box
// tests import it too).
package vkit

import (
	"bufio"
	"crypto/sha256"
	"encoding/binary"
	"encoding/json"
	"fmt"
	"os"
	"path/filepath"
	"runtime/debug"
	"sort"
	"strconv"
	"strings"
	"sync"
	"sync/atomic"
	"testing"
	"time"
)

// ---------------------------------------------------------------- environment

var (
	envOnce    sync.Once
	statsOut   string
	replayDir  string
	tier       string
	budget     time.Duration
	startTime  = time.Now()
	known      = map[string]map[string]string{} // prop -> sig -> text
	sizeFactor = 1
)

func loadEnv() {
	envOnce.Do(func() {
		statsOut = os.Getenv("VERIF_STATS_OUT")
		replayDir = os.Getenv("VERIF_REPLAY_DIR")
		if replayDir == "" {
			replayDir = filepath.Join(os.TempDir(), "verif-replays")
		}
		tier = os.Getenv("VERIF_TIER")
		if tier == "" {
			tier = "quick"
		}
		if s := os.Getenv("VERIF_BUDGET_S"); s != "" {
			if f, err := strconv.ParseFloat(s, 64); err == nil && f > 0 {
				budget = time.Duration(f * float64(time.Second))
			}
		}
		if p := os.Getenv("VERIF_KNOWN"); p != "" {
			loadKnown(p)
		}
	})
}

func loadKnown(path string) {
	f, err := os.Open(path)
	if err != nil {
		return
	}
	defer f.Close()
	sc := bufio.NewScanner(f)
	sc.Buffer(make([]byte, 1<<20), 1<<20)
	for sc.Scan() {
		line := strings.TrimSpace(sc.Text())
		if !strings.HasPrefix(line, "known:") {
			continue
		}
		var prop, sig string
		rest := strings.Fields(strings.TrimPrefix(line, "known:"))
		for _, w := range rest {
			if strings.HasPrefix(w, "property=") {
				prop = strings.TrimPrefix(w, "property=")
			}
			if strings.HasPrefix(w, "sig=") {
				sig = strings.TrimPrefix(w, "sig=")
			}
		}
		if prop == "" || sig == "" {
			continue
		}
		if known[prop] == nil {
			known[prop] = map[string]string{}
		}
		known[prop][sig] = line
	}
}

// Tier returns "quick" or "thorough".
func Tier() string { loadEnv(); return tier }

// Thorough reports whether the thorough tier runs.
func Thorough() bool { return Tier() == "thorough" }

// OverBudget reports whether the soft wall-clock budget of this process is
// used up. Properties return early (uncounted) once it is; a budget hit is
// never a violation.
func OverBudget() bool {
	loadEnv()
	return budget > 0 && time.Since(startTime) > budget
}

// ---------------------------------------------------------------- statistics

// Violation is one oracle failure that is not a listed known finding.
type Violation struct {
	Property string `json:"property"`
	Sig      string `json:"sig"`
	Msg      string `json:"msg"`
	Replay   string `json:"replay"`
}

type propStats struct {
	Evaluations int64            `json:"evaluations"`
	Nontrivial  map[uint64]bool  `json:"-"`
	NTHashes    []string         `json:"nontrivial_hashes"`
	Classes     map[string]int64 `json:"classes"`
	Samples     []any            `json:"samples"`
	Violations  []Violation      `json:"violations"`
	KnownHits   map[string]int64 `json:"known_hits"`
	Excluded    int64            `json:"excluded"`
	Notes       []string         `json:"notes"`
	BudgetHit   bool             `json:"budget_hit"`
}

var (
	mu    sync.Mutex
	stats = map[string]*propStats{}
)

func ps(prop string) *propStats {
	s := stats[prop]
	if s == nil {
		s = &propStats{Nontrivial: map[uint64]bool{}, Classes: map[string]int64{}, KnownHits: map[string]int64{}}
		stats[prop] = s
	}
	return s
}

// Eval counts one generated case that was actually executed for prop.
func Eval(prop string) {
	mu.Lock()
	ps(prop).Evaluations++
	mu.Unlock()
}

// Class increments a class label of prop's case histogram.
func Class(prop, label string) {
	mu.Lock()
	ps(prop).Classes[label]++
	mu.Unlock()
}

// ClassN adds n to a class label.
func ClassN(prop, label string, n int) {
	mu.Lock()
	ps(prop).Classes[label] += int64(n)
	mu.Unlock()
}

// Excluded counts a case (or clause) skipped because it is covered by a listed known finding.
func Excluded(prop string) {
	mu.Lock()
	ps(prop).Excluded++
	mu.Unlock()
}

// Note stores a free-text remark for the evidence file (deduplicated).
func Note(prop, note string) {
	mu.Lock()
	defer mu.Unlock()
	s := ps(prop)
	for _, n := range s.Notes {
		if n == note {
			return
		}
	}
	if len(s.Notes) < 40 {
		s.Notes = append(s.Notes, note)
	}
}

const maxHashes = 400000
const maxSamples = 6

// Hash returns a 64-bit hash of v's JSON form (or of the string / bytes given).
func Hash(v any) uint64 {
	var b []byte
	switch x := v.(type) {
	case string:
		b = []byte(x)
	case []byte:
		b = x
	default:
		b, _ = json.Marshal(v)
	}
	h := sha256.Sum256(b)
	return binary.LittleEndian.Uint64(h[:8])
}

// Nontrivial records that the case (identified by hash) is non-trivial by the
// property's stated rule; sample is stored for the first few distinct ones.
func Nontrivial(prop string, hash uint64, sample any) {
	mu.Lock()
	defer mu.Unlock()
	s := ps(prop)
	if s.Nontrivial[hash] {
		return
	}
	if len(s.Nontrivial) < maxHashes {
		s.Nontrivial[hash] = true
	}
	if len(s.Samples) < maxSamples && sample != nil {
		s.Samples = append(s.Samples, trimSample(sample))
	}
}

func trimSample(v any) any {
	b, err := json.Marshal(v)
	if err != nil {
		return fmt.Sprintf("%v", v)
	}
	if len(b) > 3000 {
		return string(b[:3000]) + "…(truncated)"
	}
	return json.RawMessage(b)
}

// IsKnown reports whether sig is a listed known finding of prop.
func IsKnown(prop, sig string) bool {
	loadEnv()
	_, ok := known[prop][sig]
	return ok
}

// ReplayFile is the on-disk form of a case.
type ReplayFile struct {
	Property string          `json:"property"`
	Test     string          `json:"test"` // replay handler name
	Sig      string          `json:"sig,omitempty"`
	Msg      string          `json:"msg,omitempty"`
	Case     json.RawMessage `json:"case"`
	History  any             `json:"history,omitempty"`
}

var replaySeq atomic.Int64

// Failer is what Fail needs from *rapid.T / *testing.T.
type Failer interface {
	Fatalf(format string, args ...any)
	Helper()
}

// lastFail keeps, per (prop,test), the most recent failing case: rapid's last
// failing invocation during shrinking is the minimal one.
var lastFail = map[string]*ReplayFile{}

// Fail reports an oracle failure. If sig is a listed known finding the hit is
// counted and Fail returns false (the caller goes on / returns normally, so the
// search continues). Otherwise the case is remembered as replay candidate and
// t.Fatalf is called (does not return).
func Fail(t Failer, prop, test, sig string, cas any, history any, format string, args ...any) bool {
	t.Helper()
	loadEnv()
	msg := fmt.Sprintf(format, args...)
	if IsKnown(prop, sig) {
		mu.Lock()
		ps(prop).KnownHits[sig]++
		mu.Unlock()
		return false
	}
	raw, _ := json.Marshal(cas)
	rf := &ReplayFile{Property: prop, Test: test, Sig: sig, Msg: msg, Case: raw, History: history}
	mu.Lock()
	lastFail[prop+"/"+test] = rf
	mu.Unlock()
	t.Fatalf("VERIF-FAIL property=%s sig=%s: %s", prop, sig, msg)
	return true
}

// FlushFailures writes the remembered (minimal) failing cases as replay files
// and records them as violations. Deferred by Check wrappers; also run by Main.
func FlushFailures() {
	mu.Lock()
	defer mu.Unlock()
	for k, rf := range lastFail {
		delete(lastFail, k)
		path := writeReplayLocked(rf)
		s := ps(rf.Property)
		s.Violations = append(s.Violations, Violation{Property: rf.Property, Sig: rf.Sig, Msg: truncate(rf.Msg, 2000), Replay: path})
	}
}

func truncate(s string, n int) string {
	if len(s) > n {
		return s[:n] + "…"
	}
	return s
}

func writeReplayLocked(rf *ReplayFile) string {
	dir := filepath.Join(replayDir, rf.Property)
	_ = os.MkdirAll(dir, 0o755)
	name := fmt.Sprintf("%s-%s-%d-%d.json", rf.Test, sanitize(rf.Sig), os.Getpid(), replaySeq.Add(1))
	path := filepath.Join(dir, name)
	b, _ := json.MarshalIndent(rf, "", " ")
	_ = os.WriteFile(path, b, 0o644)
	return path
}

func sanitize(s string) string {
	var sb strings.Builder
	for _, r := range s {
		if r >= 'a' && r <= 'z' || r >= 'A' && r <= 'Z' || r >= '0' && r <= '9' || r == '-' || r == '_' {
			sb.WriteRune(r)
		} else {
			sb.WriteByte('_')
		}
	}
	if sb.Len() > 100 {
		return sb.String()[:100]
	}
	return sb.String()
}

// InFlight writes the case about to be executed to a fixed file so that a
// process-killing failure (unrecovered panic in a file.d goroutine, os.Exit)
// still leaves its input behind. Returns a func that removes the file.
func InFlight(prop, test string, cas any) func() {
	loadEnv()
	if statsOut == "" {
		return func() {}
	}
	raw, _ := json.Marshal(cas)
	rf := &ReplayFile{Property: prop, Test: test, Sig: "process-crash", Case: raw}
	b, _ := json.Marshal(rf)
	path := statsOut + ".inflight"
	_ = os.WriteFile(path, b, 0o644)
	return func() { _ = os.Remove(path) }
}

// WriteStats flushes the per-process statistics file.
func WriteStats() {
	loadEnv()
	FlushFailures()
	if statsOut == "" {
		return
	}
	mu.Lock()
	defer mu.Unlock()
	for _, s := range stats {
		s.NTHashes = s.NTHashes[:0]
		for h := range s.Nontrivial {
			s.NTHashes = append(s.NTHashes, strconv.FormatUint(h, 16))
		}
		sort.Strings(s.NTHashes)
		s.BudgetHit = budget > 0 && time.Since(startTime) > budget
	}
	b, _ := json.Marshal(stats)
	tmp := statsOut + ".tmp"
	_ = os.WriteFile(tmp, b, 0o644)
	_ = os.Rename(tmp, statsOut)
}

// Main is the TestMain body of every check package.
func Main(m *testing.M) {
	loadEnv()
	debug.SetTraceback("all")
	code := m.Run()
	WriteStats()
	os.Exit(code)
}

// ---------------------------------------------------------------- replay

// ReplayFn re-executes one stored case and returns an oracle error (nil = held).
type ReplayFn func(raw json.RawMessage) error

var replayFns = map[string]ReplayFn{}

// RegisterReplay registers the handler for ReplayFile.Test == name.
func RegisterReplay(name string, fn ReplayFn) { replayFns[name] = fn }

// Replay runs every file listed in VERIF_REPLAY_FILES (':'-separated) through
// its handler, bypassing rapid. A failing file is a violation unless its
// signature is a known finding.
func Replay(t *testing.T) {
	loadEnv()
	SetT(t)
	files := os.Getenv("VERIF_REPLAY_FILES")
	if files == "" {
		t.Skip("no VERIF_REPLAY_FILES")
	}
	for _, f := range strings.Split(files, ":") {
		if f == "" {
			continue
		}
		b, err := os.ReadFile(f)
		if err != nil {
			t.Errorf("replay %s: %v", f, err)
			continue
		}
		var rf ReplayFile
		if err := json.Unmarshal(b, &rf); err != nil {
			t.Errorf("replay %s: %v", f, err)
			continue
		}
		fn := replayFns[rf.Test]
		if fn == nil {
			// not for this package
			continue
		}
		Eval(rf.Property)
		Class(rf.Property, "replayed-file")
		if statsOut != "" {
			_ = os.WriteFile(statsOut+".inflight", b, 0o644)
		}
		err = runReplay(fn, rf.Case)
		if statsOut != "" {
			_ = os.Remove(statsOut + ".inflight")
		}
		if err != nil {
			sig := rf.Sig
			if se, ok := err.(*SigError); ok {
				sig = se.Sig
			}
			if IsKnown(rf.Property, sig) {
				mu.Lock()
				ps(rf.Property).KnownHits[sig]++
				mu.Unlock()
				continue
			}
			mu.Lock()
			s := ps(rf.Property)
			s.Violations = append(s.Violations, Violation{Property: rf.Property, Sig: sig, Msg: truncate(err.Error(), 2000), Replay: f})
			mu.Unlock()
			t.Errorf("VERIF-FAIL property=%s sig=%s replay=%s: %v", rf.Property, sig, f, err)
		} else {
			t.Logf("replay %s: held", f)
		}
	}
}

func runReplay(fn ReplayFn, raw json.RawMessage) (err error) {
	defer func() {
		if r := recover(); r != nil {
			st := string(debug.Stack())
			if pw, ok := r.(*PanicWithStack); ok {
				r, st = pw.Val, pw.Stack
			}
			err = &SigError{Sig: PanicSig(r, st), Err: fmt.Errorf("panic: %v\n%s", r, st)}
		}
	}()
	return fn(raw)
}

// SigError is an oracle error carrying a signature.
type SigError struct {
	Sig string
	Err error
}

func (e *SigError) Error() string { return e.Sig + ": " + e.Err.Error() }

// Errf builds a SigError.
func Errf(sig, format string, args ...any) *SigError {
	return &SigError{Sig: sig, Err: fmt.Errorf(format, args...)}
}
