package vkit

import (
	"fmt"
	"runtime/debug"
	"sync"
	"testing"
	"testing/synctest"
)

var (
	curTMu sync.Mutex
	curT   *testing.T
)

// SetT remembers the running *testing.T (needed to open synctest bubbles).
func SetT(t *testing.T) {
	curTMu.Lock()
	curT = t
	curTMu.Unlock()
}

// PanicWithStack carries a panic out of a bubble together with its stack.
type PanicWithStack struct {
	Val   any
	Stack string
}

func (p *PanicWithStack) Error() string { return fmt.Sprint(p.Val) }

// Bubble runs fn inside a testing/synctest bubble (virtual time). Every
// goroutine started inside must have exited when fn returns, otherwise
// synctest reports a deadlock (which surfaces here as a panic). A panic inside
// fn is re-raised outside the bubble as *PanicWithStack.
func Bubble(fn func()) {
	curTMu.Lock()
	t := curT
	curTMu.Unlock()
	if t == nil {
		panic("vkit.Bubble: no *testing.T set (use Prop.Check / vkit.Replay)")
	}
	var pw *PanicWithStack
	synctest.Test(t, func(*testing.T) {
		defer func() {
			if r := recover(); r != nil {
				pw = &PanicWithStack{Val: r, Stack: string(debug.Stack())}
			}
		}()
		fn()
	})
	if pw != nil {
		panic(pw)
	}
}
