package vkit

import (
	"bytes"
	"encoding/json"
	"fmt"
	"io"
	"math/big"
	"strings"
	"unicode/utf8"

	"pgregory.net/rapid"
)

// JNode is an ordered JSON tree, independent of file.d's insane-json. It is the
// representation every reference model works on.
type JNode struct {
	Kind  byte // 'o' object, 'a' array, 's' string, 'n' number, 't' true, 'f' false, 'z' null
	Keys  []string
	Vals  []*JNode // object values (parallel to Keys) or array items
	Str   string   // string value (decoded) or number literal
}

func JStr(s string) *JNode  { return &JNode{Kind: 's', Str: s} }
func JNum(lit string) *JNode { return &JNode{Kind: 'n', Str: lit} }
func JNull() *JNode         { return &JNode{Kind: 'z'} }
func JBool(b bool) *JNode {
	if b {
		return &JNode{Kind: 't'}
	}
	return &JNode{Kind: 'f'}
}
func JObj() *JNode { return &JNode{Kind: 'o'} }
func JArr(items ...*JNode) *JNode { return &JNode{Kind: 'a', Vals: items} }

// Set appends or replaces key k of an object.
func (n *JNode) Set(k string, v *JNode) *JNode {
	for i, kk := range n.Keys {
		if kk == k {
			n.Vals[i] = v
			return n
		}
	}
	n.Keys = append(n.Keys, k)
	n.Vals = append(n.Vals, v)
	return n
}

// Get returns the value of key k of an object (first occurrence) or nil.
func (n *JNode) Get(k string) *JNode {
	if n == nil || n.Kind != 'o' {
		return nil
	}
	for i, kk := range n.Keys {
		if kk == k {
			return n.Vals[i]
		}
	}
	return nil
}

// Dig follows object keys.
func (n *JNode) Dig(path ...string) *JNode {
	cur := n
	for _, p := range path {
		cur = cur.Get(p)
		if cur == nil {
			return nil
		}
	}
	return cur
}

// Del removes key k from an object; reports whether it existed.
func (n *JNode) Del(k string) bool {
	if n == nil || n.Kind != 'o' {
		return false
	}
	for i, kk := range n.Keys {
		if kk == k {
			n.Keys = append(n.Keys[:i:i], n.Keys[i+1:]...)
			n.Vals = append(n.Vals[:i:i], n.Vals[i+1:]...)
			return true
		}
	}
	return false
}

// Clone deep-copies the tree.
func (n *JNode) Clone() *JNode {
	if n == nil {
		return nil
	}
	c := &JNode{Kind: n.Kind, Str: n.Str}
	if n.Keys != nil {
		c.Keys = append([]string{}, n.Keys...)
	}
	for _, v := range n.Vals {
		c.Vals = append(c.Vals, v.Clone())
	}
	return c
}

// EncodeString writes s as a JSON string literal (valid UTF-8 kept verbatim,
// invalid bytes kept verbatim too — the caller decides whether to generate them).
func EncodeString(sb *strings.Builder, s string) {
	sb.WriteByte('"')
	for i := 0; i < len(s); i++ {
		c := s[i]
		switch {
		case c == '"':
			sb.WriteString(`\"`)
		case c == '\\':
			sb.WriteString(`\\`)
		case c == '\n':
			sb.WriteString(`\n`)
		case c == '\r':
			sb.WriteString(`\r`)
		case c == '\t':
			sb.WriteString(`\t`)
		case c < 0x20:
			fmt.Fprintf(sb, `\u%04x`, c)
		default:
			sb.WriteByte(c)
		}
	}
	sb.WriteByte('"')
}

// Encode renders the tree as compact JSON text.
func (n *JNode) Encode() string {
	var sb strings.Builder
	n.encode(&sb)
	return sb.String()
}

func (n *JNode) encode(sb *strings.Builder) {
	switch n.Kind {
	case 'o':
		sb.WriteByte('{')
		for i, k := range n.Keys {
			if i > 0 {
				sb.WriteByte(',')
			}
			EncodeString(sb, k)
			sb.WriteByte(':')
			n.Vals[i].encode(sb)
		}
		sb.WriteByte('}')
	case 'a':
		sb.WriteByte('[')
		for i, v := range n.Vals {
			if i > 0 {
				sb.WriteByte(',')
			}
			v.encode(sb)
		}
		sb.WriteByte(']')
	case 's':
		EncodeString(sb, n.Str)
	case 'n':
		sb.WriteString(n.Str)
	case 't':
		sb.WriteString("true")
	case 'f':
		sb.WriteString("false")
	default:
		sb.WriteString("null")
	}
}

// ParseJSON parses text strictly with encoding/json (one value, nothing after
// it), keeping key order and number literals.
func ParseJSON(text []byte) (*JNode, error) {
	dec := json.NewDecoder(bytes.NewReader(text))
	dec.UseNumber()
	n, err := parseValue(dec)
	if err != nil {
		return nil, err
	}
	if _, err := dec.Token(); err != io.EOF {
		return nil, fmt.Errorf("trailing data after JSON value")
	}
	return n, nil
}

func parseValue(dec *json.Decoder) (*JNode, error) {
	tok, err := dec.Token()
	if err != nil {
		return nil, err
	}
	switch t := tok.(type) {
	case json.Delim:
		switch t {
		case '{':
			n := JObj()
			for dec.More() {
				kt, err := dec.Token()
				if err != nil {
					return nil, err
				}
				k, ok := kt.(string)
				if !ok {
					return nil, fmt.Errorf("non-string key")
				}
				v, err := parseValue(dec)
				if err != nil {
					return nil, err
				}
				n.Keys = append(n.Keys, k)
				n.Vals = append(n.Vals, v)
			}
			if _, err := dec.Token(); err != nil {
				return nil, err
			}
			return n, nil
		case '[':
			n := &JNode{Kind: 'a'}
			for dec.More() {
				v, err := parseValue(dec)
				if err != nil {
					return nil, err
				}
				n.Vals = append(n.Vals, v)
			}
			if _, err := dec.Token(); err != nil {
				return nil, err
			}
			return n, nil
		}
		return nil, fmt.Errorf("unexpected delimiter %v", t)
	case string:
		return JStr(t), nil
	case json.Number:
		return JNum(string(t)), nil
	case bool:
		return JBool(t), nil
	case nil:
		return JNull(), nil
	}
	return nil, fmt.Errorf("unexpected token %v", tok)
}

// ValidJSON reports whether text is exactly one JSON value for encoding/json.
func ValidJSON(text []byte) bool { return json.Valid(text) }

// NumEqual compares two number literals numerically (exact, big.Rat / big.Float).
func NumEqual(a, b string) bool {
	if a == b {
		return true
	}
	ra, ok1 := new(big.Rat).SetString(a)
	rb, ok2 := new(big.Rat).SetString(b)
	if ok1 && ok2 {
		return ra.Cmp(rb) == 0
	}
	return false
}

// EqualJ compares two trees; ordered = object key order matters.
// Strings are compared after replacing invalid UTF-8 by U+FFFD on both sides
// (encoding/json does that while parsing).
func EqualJ(a, b *JNode, ordered bool) bool {
	return DiffJ(a, b, ordered) == ""
}

// DiffJ returns "" if equal, else a description of the first difference.
func DiffJ(a, b *JNode, ordered bool) string {
	return diffJ(a, b, ordered, "$")
}

func diffJ(a, b *JNode, ordered bool, path string) string {
	if a == nil || b == nil {
		if a == b {
			return ""
		}
		return path + ": one side missing"
	}
	if a.Kind != b.Kind {
		return fmt.Sprintf("%s: kind %c vs %c (%s vs %s)", path, a.Kind, b.Kind, clip(a.Encode()), clip(b.Encode()))
	}
	switch a.Kind {
	case 's':
		if strings.ToValidUTF8(a.Str, "�") != strings.ToValidUTF8(b.Str, "�") {
			return fmt.Sprintf("%s: string %q vs %q", path, clip(a.Str), clip(b.Str))
		}
	case 'n':
		if !NumEqual(a.Str, b.Str) {
			return fmt.Sprintf("%s: number %s vs %s", path, a.Str, b.Str)
		}
	case 'a':
		if len(a.Vals) != len(b.Vals) {
			return fmt.Sprintf("%s: array len %d vs %d", path, len(a.Vals), len(b.Vals))
		}
		for i := range a.Vals {
			if d := diffJ(a.Vals[i], b.Vals[i], ordered, fmt.Sprintf("%s[%d]", path, i)); d != "" {
				return d
			}
		}
	case 'o':
		if len(a.Keys) != len(b.Keys) {
			return fmt.Sprintf("%s: object has %d keys %q vs %d keys %q", path, len(a.Keys), a.Keys, len(b.Keys), b.Keys)
		}
		if ordered {
			for i := range a.Keys {
				if a.Keys[i] != b.Keys[i] {
					return fmt.Sprintf("%s: key #%d %q vs %q", path, i, a.Keys[i], b.Keys[i])
				}
				if d := diffJ(a.Vals[i], b.Vals[i], ordered, path+"."+a.Keys[i]); d != "" {
					return d
				}
			}
		} else {
			for i, k := range a.Keys {
				bv := b.Get(k)
				if bv == nil {
					return fmt.Sprintf("%s: key %q missing on right", path, k)
				}
				if d := diffJ(a.Vals[i], bv, ordered, path+"."+k); d != "" {
					return d
				}
			}
		}
	}
	return ""
}

func clip(s string) string {
	if len(s) > 120 {
		return s[:120] + "…"
	}
	return s
}

// ---------------------------------------------------------------- generators

// TextOpts selects which string classes GenText may draw.
type TextOpts struct {
	InvalidUTF8 bool // allow raw invalid bytes
	Pool        []string
}

var asciiPieces = []string{"a", "b", "x", "err", "info", "WARN", "foo", "bar", "id", " ", "  ", "-", "_", ".", ":", "/", "0", "42", "-7", "1e3"}
var escapePieces = []string{`"`, `\`, "\n", "\r", "\t", "\x00", "\x01", "\x1f", "\u007f", `\"`, `\\`, `\n`, `A`, "\b", "\f", "/"}
var unicodePieces = []string{"é", "ß", "İ", "\u212a", "ſ", "日本", "я", "😀", "𝔘", "\u00a0", "\u2028", "\ufeff", "ǅ", "ﬁ"}
var invalidPieces = []string{"\xff", "\xc3", "\xe2\x82", "\xed\xa0\x80", "\xf8", "\x80"}

// GenText draws a string mixing ASCII, characters that need escaping,
// multi-byte and case-folding oddities, optionally invalid UTF-8.
func GenText(t *rapid.T, label string, o *TextOpts) string {
	if o == nil {
		o = &TextOpts{}
	}
	kind := rapid.IntRange(0, 9).Draw(t, label+"/kind")
	if kind == 0 {
		return ""
	}
	if kind == 1 && len(o.Pool) > 0 {
		return rapid.SampledFrom(o.Pool).Draw(t, label+"/pool")
	}
	n := rapid.IntRange(1, 6).Draw(t, label+"/n")
	var sb strings.Builder
	for i := 0; i < n; i++ {
		c := rapid.IntRange(0, 9).Draw(t, label+"/c")
		switch {
		case c < 5:
			sb.WriteString(rapid.SampledFrom(asciiPieces).Draw(t, label+"/a"))
		case c < 7:
			sb.WriteString(rapid.SampledFrom(escapePieces).Draw(t, label+"/e"))
		case c < 9:
			sb.WriteString(rapid.SampledFrom(unicodePieces).Draw(t, label+"/u"))
		default:
			if o.InvalidUTF8 {
				sb.WriteString(rapid.SampledFrom(invalidPieces).Draw(t, label+"/i"))
			} else if len(o.Pool) > 0 {
				sb.WriteString(rapid.SampledFrom(o.Pool).Draw(t, label+"/p"))
			} else {
				sb.WriteString(rapid.SampledFrom(asciiPieces).Draw(t, label+"/a2"))
			}
		}
	}
	s := sb.String()
	if !o.InvalidUTF8 && !utf8.ValidString(s) {
		s = strings.ToValidUTF8(s, "?")
	}
	return s
}

var numberPool = []string{"0", "-0", "1", "-1", "7", "42", "100", "2147483648", "9223372036854775807", "-9223372036854775808",
	"18446744073709551616", "123456789012345678901234567890", "0.5", "-3.25", "1e3", "1E-2", "1.5e+300", "1e400", "0.0000001", "3.0"}

// TreeOpts drives GenTree.
type TreeOpts struct {
	MaxDepth  int
	MaxWidth  int
	Keys      []string // key pool (nil = default)
	Text      *TextOpts
	NoArrays  bool
	Scalars   func(t *rapid.T, label string) *JNode // optional override for leaves
}

var defaultKeys = []string{"a", "b", "c", "level", "message", "msg", "ts", "time", "stream", "k8s_pod", "log", "id", "user.name", "x y", "ключ", "", "A"}

// GenScalar draws a scalar leaf.
func GenScalar(t *rapid.T, label string, o *TreeOpts) *JNode {
	if o.Scalars != nil {
		return o.Scalars(t, label)
	}
	switch rapid.IntRange(0, 9).Draw(t, label+"/sk") {
	case 0:
		return JNull()
	case 1:
		return JBool(true)
	case 2:
		return JBool(false)
	case 3, 4:
		return JNum(rapid.SampledFrom(numberPool).Draw(t, label+"/num"))
	default:
		return JStr(GenText(t, label+"/str", o.Text))
	}
}

// GenTree draws a JSON value of depth <= o.MaxDepth.
func GenTree(t *rapid.T, label string, o *TreeOpts, depth int) *JNode {
	if depth >= o.MaxDepth {
		return GenScalar(t, label, o)
	}
	k := rapid.IntRange(0, 9).Draw(t, label+"/tk")
	switch {
	case k < 3:
		return GenObject(t, label, o, depth+1)
	case k < 5 && !o.NoArrays:
		n := rapid.IntRange(0, max(1, o.MaxWidth)).Draw(t, label+"/alen")
		a := &JNode{Kind: 'a'}
		for i := 0; i < n; i++ {
			a.Vals = append(a.Vals, GenTree(t, fmt.Sprintf("%s[%d]", label, i), o, depth+1))
		}
		return a
	default:
		return GenScalar(t, label, o)
	}
}

// GenObject draws an object with unique keys.
func GenObject(t *rapid.T, label string, o *TreeOpts, depth int) *JNode {
	keys := o.Keys
	if keys == nil {
		keys = defaultKeys
	}
	w := o.MaxWidth
	if w <= 0 {
		w = 4
	}
	n := rapid.IntRange(0, w).Draw(t, label+"/olen")
	obj := JObj()
	seen := map[string]bool{}
	for i := 0; i < n; i++ {
		k := rapid.SampledFrom(keys).Draw(t, fmt.Sprintf("%s/k%d", label, i))
		if seen[k] {
			continue
		}
		seen[k] = true
		obj.Keys = append(obj.Keys, k)
		obj.Vals = append(obj.Vals, GenTree(t, label+"."+k, o, depth))
	}
	return obj
}

// Walk calls fn for every node with its path of object keys / array indexes.
func (n *JNode) Walk(path []string, fn func(path []string, n *JNode)) {
	fn(path, n)
	switch n.Kind {
	case 'o':
		for i, k := range n.Keys {
			n.Vals[i].Walk(append(append([]string{}, path...), k), fn)
		}
	case 'a':
		for i, v := range n.Vals {
			v.Walk(append(append([]string{}, path...), fmt.Sprintf("[%d]", i)), fn)
		}
	}
}
