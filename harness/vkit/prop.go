package vkit

import (
	"encoding/json"
	"os"
	"fmt"
	"regexp"
	"runtime/debug"
	"strings"
	"testing"

	"pgregory.net/rapid"
)

// Outcome is what one execution of a case reports.
type Outcome struct {
	fails      []fail
	classes    map[string][]string
	nontrivial map[string]bool
	excluded   map[string]int
	History    any
}

type fail struct{ prop, sig, msg string }

// NewOutcome returns an empty outcome.
func NewOutcome() *Outcome {
	return &Outcome{classes: map[string][]string{}, nontrivial: map[string]bool{}, excluded: map[string]int{}}
}

// Failf records an oracle failure of prop with signature sig.
func (o *Outcome) Failf(prop, sig, format string, args ...any) {
	o.fails = append(o.fails, fail{prop, sig, fmt.Sprintf(format, args...)})
}

// Failed reports whether any failure was recorded.
func (o *Outcome) Failed() bool { return len(o.fails) > 0 }

// FirstErr returns the first failure as error (nil if none).
func (o *Outcome) FirstErr() error {
	if len(o.fails) == 0 {
		return nil
	}
	f := o.fails[0]
	return &SigError{Sig: f.sig, Err: fmt.Errorf("[%s] %s", f.prop, f.msg)}
}

// errFor is FirstErr restricted to the property a replay is run for (when the test decides several
// properties): a failure that is not a known finding wins over a known one, sibling properties' failures
// are left out.
func (o *Outcome) errFor(target string, props []string) error {
	inProps := false
	for _, p := range props {
		inProps = inProps || p == target
	}
	if !inProps {
		return o.FirstErr()
	}
	var known *fail
	for i := range o.fails {
		f := &o.fails[i]
		if f.prop != target {
			continue
		}
		if IsKnown(f.prop, f.sig) {
			if known == nil {
				known = f
			}
			continue
		}
		return &SigError{Sig: f.sig, Err: fmt.Errorf("[%s] %s", f.prop, f.msg)}
	}
	if known != nil {
		return &SigError{Sig: known.sig, Err: fmt.Errorf("[%s] %s", known.prop, known.msg)}
	}
	return nil
}

// Class adds a class label for every property of the Prop ("" key).
func (o *Outcome) Class(label string) { o.classes[""] = append(o.classes[""], label) }

// ClassP adds a class label for one property.
func (o *Outcome) ClassP(prop, label string) { o.classes[prop] = append(o.classes[prop], label) }

// Nontrivial marks the case non-trivial for prop ("" = all properties).
func (o *Outcome) Nontrivial(prop string) { o.nontrivial[prop] = true }

// Excluded counts a clause skipped for prop because of a known finding.
func (o *Outcome) Excluded(prop string) { o.excluded[prop]++ }

// Prop is a generated property: gen draws a serialisable case, run executes it
// against real file.d code and applies the oracle. run must be a pure function
// of the case (plus the code under test).
type Prop[C any] struct {
	Props []string
	Test  string
	Gen   func(*rapid.T) C
	Run   func(C) *Outcome
	// CrashFile: write every case to an in-flight file before running it, so a
	// process-killing failure leaves its input behind (costly; off for pure checks).
	CrashFile bool
}

// NewProp registers the replay handler and returns the property.
func NewProp[C any](props []string, test string, gen func(*rapid.T) C, run func(C) *Outcome) *Prop[C] {
	p := &Prop[C]{Props: props, Test: test, Gen: gen, Run: run}
	RegisterReplay(test, func(raw json.RawMessage) error {
		var c C
		if err := json.Unmarshal(raw, &c); err != nil {
			return fmt.Errorf("bad case: %w", err)
		}
		o := p.safeRun(c)
		if os.Getenv("VERIF_DEBUG") != "" && o.History != nil {
			b, _ := json.MarshalIndent(o.History, "", " ")
			fmt.Fprintf(os.Stderr, "HISTORY %s\n", b)
		}
		return o.errFor(os.Getenv("VERIF_PROP"), p.Props)
	})
	return p
}

func (p *Prop[C]) safeRun(c C) (o *Outcome) {
	defer func() {
		if r := recover(); r != nil {
			st := string(debug.Stack())
			if pw, ok := r.(*PanicWithStack); ok {
				r, st = pw.Val, pw.Stack
			}
			o = NewOutcome()
			o.Failf(p.Props[0], PanicSig(r, st), "panic: %v\n%s", r, st)
		}
	}()
	return p.Run(c)
}

// Exec runs one case outside rapid and books it (used by enumerators).
func (p *Prop[C]) Exec(t Failer, c C) {
	p.exec(t, c)
}

func (p *Prop[C]) exec(t Failer, c C) {
	done := func() {}
	if p.CrashFile {
		owner := p.Props[0]
		for _, pp := range p.Props {
			if pp == os.Getenv("VERIF_PROP") {
				owner = pp
			}
		}
		done = InFlight(owner, p.Test, c)
	}
	o := p.safeRun(c)
	done()
	var h uint64
	hashed := false
	for _, prop := range p.Props {
		Eval(prop)
		for _, l := range o.classes[""] {
			Class(prop, l)
		}
		for _, l := range o.classes[prop] {
			Class(prop, l)
		}
		for i := 0; i < o.excluded[prop]; i++ {
			Excluded(prop)
		}
		if o.nontrivial[""] || o.nontrivial[prop] {
			if !hashed {
				h = Hash(c)
				hashed = true
			}
			Nontrivial(prop, h, map[string]any{"case": c, "classes": append(append([]string{}, o.classes[""]...), o.classes[prop]...)})
		}
	}
	// known findings first (counted, do not stop the search), then real failures.
	// When the driver checks one property (VERIF_PROP) only that property's
	// failures stop the run; sibling properties' failures are noted.
	target := os.Getenv("VERIF_PROP")
	inProps := false
	for _, pp := range p.Props {
		if pp == target {
			inProps = true
		}
	}
	var real *fail
	for i := range o.fails {
		f := &o.fails[i]
		if IsKnown(f.prop, f.sig) {
			mu.Lock()
			ps(f.prop).KnownHits[f.sig]++
			mu.Unlock()
			continue
		}
		if inProps && f.prop != target {
			Note(target, "sibling property "+f.prop+" failed in a shared run: sig="+f.sig)
			continue
		}
		if real == nil {
			real = f
		}
	}
	if real != nil {
		Fail(t, real.prop, p.Test, real.sig, c, o.History, "%s", real.msg)
	}
}

// Check drives the property with rapid. Case count and seed come from the
// -rapid.checks / -rapid.seed flags the driver passes.
func (p *Prop[C]) Check(t *testing.T) {
	SetT(t)
	defer FlushFailures()
	rapid.Check(t, func(rt *rapid.T) {
		if OverBudget() {
			return
		}
		c := p.Gen(rt)
		p.exec(rt, c)
	})
}

var reDigits = regexp.MustCompile(`[0-9]+`)

// PanicSig derives a stable signature from a panic value and stack: the
// message with numbers removed plus the first file.d frame.
func PanicSig(r any, stack string) string {
	msg := fmt.Sprint(r)
	if len(msg) > 80 {
		msg = msg[:80]
	}
	msg = reDigits.ReplaceAllString(msg, "N")
	frame := ""
	for _, line := range strings.Split(stack, "\n") {
		if strings.HasPrefix(line, "github.com/ozontech/file.d/") && !strings.Contains(line, "/zzverif/") && !strings.Contains(line, "zz_verif") && !strings.Contains(line, "Verif") {
			frame = strings.TrimPrefix(line, "github.com/ozontech/file.d/")
			if i := strings.LastIndex(frame, "("); i > 0 {
				frame = frame[:i]
			}
			break
		}
	}
	return sanitize("panic:" + frame + ":" + msg)
}

// AppendContext appends s to the message of every recorded failure.
func (o *Outcome) AppendContext(s string) {
	for i := range o.fails {
		o.fails[i].msg += "\n" + s
	}
}
