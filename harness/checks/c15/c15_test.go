// Package c15 decides C15 — multi-line reassembly (join, join_template, k8s
// multi-line action) keeps every byte, in order, within one stream.
//
// Black-box, in VIRTUAL TIME: a real pipeline.Pipeline (several processors,
// streamer heartbeat, event time-out) is assembled inside a testing/synctest
// bubble from a harness input plugin (feeder goroutines call Controller.In),
// the REAL action under test (factory from fd.DefaultPluginRegistry, config
// through pipeline.GetConfig like fd.setupAction / fd.setupInput do), optional
// pass-through harness actions around it, and a harness output plugin that
// records every event in arrival order and commits inside Out.
//
// The oracle is a reference state machine per (source, stream) written from
// the property text and the plugin READMEs (model_test.go).
package c15

import (
	"fmt"
	simplejson "github.com/bitly/go-simplejson"
	"github.com/ozontech/file.d/pipeline/doif"
	"runtime"
	"runtime/debug"
	"sort"
	"strings"
	"sync"
	"sync/atomic"
	"testing"
	"time"

	"github.com/ozontech/file.d/fd"
	"github.com/ozontech/file.d/logger"
	"github.com/ozontech/file.d/pipeline"
	"github.com/ozontech/file.d/pipeline/metadata"
	_ "github.com/ozontech/file.d/plugin/action/join"
	_ "github.com/ozontech/file.d/plugin/action/join_template"
	"github.com/ozontech/file.d/plugin/input/k8s"
	"github.com/ozontech/file.d/plugin/input/k8s/meta"
	"github.com/ozontech/file.d/zzverif/fdkit"
	"github.com/ozontech/file.d/zzverif/vkit"
)

const P = "C15"

const (
	modeJoin     = "join"
	modeTemplate = "join_template"
	modeK8s      = "k8s"

	heartbeatMs = 200 // streamer heartbeat period (pipeline/streamer.go)
	// a stream blocked since t gets its time-out at the first heartbeat tick >= t+event_timeout,
	// i.e. before t+event_timeout+200ms; the oracle allows twice the period.
	timeoutSlackMs = 2 * heartbeatMs
	nodeName       = "verif-node"
)

func TestMain(m *testing.M) {
	fdkit.InstallLogger()
	setupK8sMeta()
	vkit.Main(m)
}
func TestReplay(t *testing.T) { vkit.Replay(t) }

// setupK8sMeta initialises the package-level state of plugin/input/k8s/meta that the
// k8s input's Start would initialise (the multi-line action dereferences it), without
// a Kubernetes API client: meta updates are disabled, so GetPodMeta answers "unknown
// pod" at once and no label fields are added. Runs outside any bubble (it starts the
// package's maintenance goroutine).
func setupK8sMeta() {
	meta.DisableMetaUpdates = true
	meta.MaintenanceInterval = time.Hour
	meta.SelfNodeName = nodeName
	meta.EnableGatherer(logger.Instance)
}

// ------------------------------------------------------------------ case

// Case is one generated scenario (plain JSON).
type Case struct {
	Mode string `json:"mode"` // join | join_template | k8s

	// join / join_template options
	Field       string   `json:"field,omitempty"`    // field selector, e.g. "log" or "k.log"
	Start       string   `json:"start,omitempty"`    // regexp source (join)
	Continue    string   `json:"continue,omitempty"` // regexp source (join)
	Negate      bool     `json:"negate,omitempty"`
	Templates   []string `json:"templates,omitempty"`    // join_template
	TemplateKey bool     `json:"template_key,omitempty"` // join_template: use the deprecated single "template" option
	// join / join_template: the action's max_event_size; k8s: the pipeline's max_event_size setting
	MaxEventSize int `json:"max_event_size,omitempty"`

	// k8s
	Format         string `json:"format,omitempty"` // docker (json decoder) | cri
	SplitEventSize int    `json:"split_event_size,omitempty"`
	CutOff         bool   `json:"cut_off,omitempty"`
	CutOffField    string `json:"cut_off_field,omitempty"`
	// k8s: a join action (field "log", Start / Continue / Negate above) follows the k8s multi-line
	// action in the same chain — the separate ":two-holders" class
	ThenJoin bool `json:"then_join,omitempty"`

	// pipeline
	EventTimeoutMs int    `json:"event_timeout_ms"`
	Pool           string `json:"pool"`
	SingleProc     bool   `json:"single_proc,omitempty"`
	PassBefore     int    `json:"pass_before,omitempty"` // pass-through actions in front of the action under test
	PassAfter      int    `json:"pass_after,omitempty"`
	// DiscardAfterMod > 0: a last action discards every event whose encoded length is a multiple of it
	// (after recording it like the output would): what the action under test emitted is judged all the
	// same, but the joined event is now finalized by a discard inside Propagate instead of by the output
	DiscardAfterMod int `json:"discard_after_mod,omitempty"`
	// Selector (join / join_template): the action under test carries a selector on the field "sel" == "1",
	// written as match_fields or as a do_if rule. An idle action is skipped by the events it does not
	// select (they pass unchanged); an action that is in the middle of a run receives every event of the
	// stream, selected or not, because only the action itself can end its run.
	Selector string `json:"selector,omitempty"` // "" | match_fields | do_if
	// DeferOut > 0: the output keeps up to that many events before it encodes and commits the oldest one,
	// like a batching output whose worker encodes after Out returned (flushed every 5 ms as well)
	DeferOut int `json:"defer_out,omitempty"`

	Sources []Source `json:"sources"`

	// number of "partial k8s run cut by a time-out" shapes the generator wanted and replaced
	// by short gaps (known finding k8s-multiline:partial-run-lost-on-time-out)
	ExcludedK8sTimeoutCuts int `json:"excluded_k8s_timeout_cuts,omitempty"`
}

// Source is one input source (like one file), fed by its own goroutine.
type Source struct {
	ID    uint64 `json:"id"`
	Lines []Line `json:"lines"`
}

// Line is one input record.
type Line struct {
	Stream string `json:"stream"`
	GapMs  int    `json:"gap_ms,omitempty"` // feeder pause before this line
	// join modes: the event as JSON text (has "id" and "stream" fields)
	Doc string `json:"doc,omitempty"`
	// k8s mode: one chunk of a container log line
	Log string `json:"log,omitempty"` // content without the line end
	End bool   `json:"end,omitempty"` // the chunk closes the line (its log ends in "\n")
	Esc int    `json:"esc,omitempty"` // docker format: escape style of the log string
}

func (c *Case) plugin() string {
	if c.Mode == modeK8s && c.ThenJoin {
		return "k8s-multiline+join"
	}
	if c.Mode == modeK8s {
		return "k8s-multiline"
	}
	return c.Mode
}

// k8s meta of a source (what the k8s input derives from the file name).
func k8sMeta(src uint64) metadata.MetaData {
	return metadata.MetaData{
		"k8s_pod":          fmt.Sprintf("pod-%d", src),
		"k8s_namespace":    "ns",
		"k8s_container":    fmt.Sprintf("ctr-%d", src),
		"k8s_container_id": fmt.Sprintf("%064x", src),
	}
}

// raw renders the bytes handed to Controller.In (without the final line break).
func (c *Case) raw(l *Line, src uint64, idx int) string {
	if c.Mode != modeK8s {
		return l.Doc
	}
	ts := fmt.Sprintf("2024-01-02T03:04:05.%09dZ", int(src)*1000+idx)
	if c.Format == "cri" {
		tag := "P"
		if l.End {
			tag = "F"
		}
		return ts + " " + l.Stream + " " + tag + " " + l.Log
	}
	text := l.Log
	if l.End {
		text += "\n"
	}
	return `{"log":` + escapeJSON(text, l.Esc) + `,"stream":"` + l.Stream + `","time":"` + ts + `"}`
}

// escapeJSON renders s as a JSON string literal. style bit 0: non-ASCII as \uXXXX
// (surrogate pairs for astral runes), bit 1: "/" as "\/".
func escapeJSON(s string, style int) string {
	var sb strings.Builder
	sb.WriteByte('"')
	for _, r := range s {
		switch {
		case r == '"':
			sb.WriteString(`\"`)
		case r == '\\':
			sb.WriteString(`\\`)
		case r == '\n':
			sb.WriteString(`\n`)
		case r == '\t':
			sb.WriteString(`\t`)
		case r == '\r':
			sb.WriteString(`\r`)
		case r < 0x20:
			fmt.Fprintf(&sb, `\u%04x`, r)
		case r == '/' && style&2 != 0:
			sb.WriteString(`\/`)
		case r >= 0x80 && style&1 != 0:
			if r >= 0x10000 {
				r2 := r - 0x10000
				fmt.Fprintf(&sb, `\u%04x\u%04x`, 0xd800+(r2>>10), 0xdc00+(r2&0x3ff))
			} else {
				fmt.Fprintf(&sb, `\u%04x`, r)
			}
		default:
			sb.WriteRune(r)
		}
	}
	sb.WriteByte('"')
	return sb.String()
}

// ------------------------------------------------------------------ execution

type outRec struct {
	Seq    int64  `json:"-"` // arrival order at the end of the chain (the content may be taken later)
	Source uint64 `json:"source"`
	Doc    string `json:"doc"`
	AtUs   int64  `json:"at_us"` // virtual microseconds since the pipeline was started
}

type panicRec struct {
	Val   string
	Stack string
	Sig   string
}

type execResult struct {
	configErr   string
	outs        []outRec
	feedAtUs    [][]int64 // [source][line] virtual time at which In was called
	accepted    [][]bool
	timeouts    int // time-out events seen by the action under test
	tapDiscards int
	holds       int
	collapses   int
	panics      []panicRec
	commits     int
}

type harness struct {
	seq   atomic.Int64
	c     *Case
	mu    sync.Mutex
	res   *execResult
	start time.Time
	ctl   pipeline.InputPluginController
}

type hInput struct{ h *harness }

func (i *hInput) Start(_ pipeline.AnyConfig, params *pipeline.InputPluginParams) {
	i.h.ctl = params.Controller
}
func (i *hInput) Stop()                          {}
func (i *hInput) PassEvent(*pipeline.Event) bool { return true }
func (i *hInput) Commit(*pipeline.Event) {
	i.h.mu.Lock()
	i.h.res.commits++
	i.h.mu.Unlock()
}

type hOutput struct {
	h       *harness
	ctl     pipeline.OutputPluginController
	qmu     sync.Mutex
	queue   []deferred
	stopped atomic.Bool
}

func (o *hOutput) Start(_ pipeline.AnyConfig, params *pipeline.OutputPluginParams) {
	o.ctl = params.Controller
	if o.h.c.DeferOut > 0 {
		// the "flush timeout" of the deferring output: whatever waits is encoded and committed every
		// 5 (virtual) ms. Needed for liveness, not only at the end: once a processor has left a stream
		// the stream is handed out again only after its last event was committed.
		go func() {
			for !o.stopped.Load() {
				time.Sleep(5 * time.Millisecond)
				o.flush()
			}
		}()
	}
}
func (o *hOutput) Stop() { o.stopped.Store(true) }
func (o *hOutput) Out(e *pipeline.Event) {
	if o.h.c.DeferOut > 0 {
		// arrival time now, content when the "worker" gets to it
		o.qmu.Lock()
		o.queue = append(o.queue, deferred{e, time.Since(o.h.start).Microseconds(), o.h.nextSeq()})
		var due []deferred
		for len(o.queue) > o.h.c.DeferOut {
			due = append(due, o.queue[0])
			o.queue = o.queue[1:]
		}
		o.qmu.Unlock()
		for _, d := range due {
			o.emit(d.e, d.atUs, d.seq)
		}
		return
	}
	o.emit(e, time.Since(o.h.start).Microseconds(), o.h.nextSeq())
}

type deferred struct {
	e    *pipeline.Event
	atUs int64
	seq  int64
}

func (h *harness) nextSeq() int64 { return h.seq.Add(1) }

func (o *hOutput) emit(e *pipeline.Event, atUs, seq int64) {
	doc := e.Root.EncodeToString()
	o.h.mu.Lock()
	o.h.res.outs = append(o.h.res.outs, outRec{Seq: seq, Source: uint64(e.SourceID), Doc: doc, AtUs: atUs})
	o.h.mu.Unlock()
	o.ctl.Commit(e) // commits from the calling goroutine (bubble rule: no batcher mutex)
}

// flush encodes and commits what is still queued (input exhausted).
func (o *hOutput) flush() {
	o.qmu.Lock()
	due := o.queue
	o.queue = nil
	o.qmu.Unlock()
	for _, d := range due {
		o.emit(d.e, d.atUs, d.seq)
	}
}

// passAction never holds, collapses or discards.
type passAction struct{}

func (passAction) Start(pipeline.AnyConfig, *pipeline.ActionPluginParams) {}
func (passAction) Stop()                                                  {}
func (passAction) Do(*pipeline.Event) pipeline.ActionResult               { return pipeline.ActionPass }

// tapDiscard records an event like the output does and discards it when its encoded length is a
// multiple of mod; it never holds or collapses.
type tapDiscard struct {
	h   *harness
	mod int
}

func (tapDiscard) Start(pipeline.AnyConfig, *pipeline.ActionPluginParams) {}
func (tapDiscard) Stop()                                                  {}
func (a tapDiscard) Do(e *pipeline.Event) pipeline.ActionResult {
	if e.IsTimeoutKind() {
		return pipeline.ActionDiscard
	}
	doc := e.Root.EncodeToString()
	if len(doc)%a.mod != 0 {
		return pipeline.ActionPass
	}
	a.h.mu.Lock()
	a.h.res.outs = append(a.h.res.outs, outRec{Seq: a.h.nextSeq(), Source: uint64(e.SourceID), Doc: doc, AtUs: time.Since(a.h.start).Microseconds()})
	a.h.res.tapDiscards++
	a.h.mu.Unlock()
	return pipeline.ActionDiscard
}

// watched delegates to the real action; it only counts results and turns a panic of
// Do (which would take the whole process down from a processor goroutine) into a
// recorded failure.
type watched struct {
	h     *harness
	inner pipeline.ActionPlugin
}

func (w *watched) Start(c pipeline.AnyConfig, p *pipeline.ActionPluginParams) { w.inner.Start(c, p) }
func (w *watched) Stop()                                                      { w.inner.Stop() }
func (w *watched) Do(e *pipeline.Event) (res pipeline.ActionResult) {
	isTimeout := e.IsTimeoutKind()
	defer func() {
		if r := recover(); r != nil {
			st := string(debug.Stack())
			w.h.mu.Lock()
			w.h.res.panics = append(w.h.res.panics, panicRec{Val: fmt.Sprint(r), Stack: st, Sig: vkit.PanicSig(r, st)})
			w.h.mu.Unlock()
			res = pipeline.ActionDiscard
			return
		}
		w.h.mu.Lock()
		switch res {
		case pipeline.ActionHold:
			w.h.res.holds++
		case pipeline.ActionCollapse:
			w.h.res.collapses++
		}
		if isTimeout {
			w.h.res.timeouts++
		}
		w.h.mu.Unlock()
	}()
	return w.inner.Do(e)
}

func (h *harness) watchedFactory(real pipeline.PluginFactory) pipeline.PluginFactory {
	return func() (pipeline.AnyPlugin, pipeline.AnyConfig) {
		p, cfg := real()
		return &watched{h: h, inner: p.(pipeline.ActionPlugin)}, cfg
	}
}

func jsonStr(s string) string {
	var sb strings.Builder
	vkit.EncodeString(&sb, s)
	return sb.String()
}

// actionInfo builds the static info of the action under test the way file.d does.
func (h *harness) actionInfo(settings *pipeline.Settings) (*pipeline.ActionPluginStaticInfo, error) {
	c := h.c
	values := map[string]int{"capacity": settings.Capacity, "gomaxprocs": runtime.GOMAXPROCS(0)}
	switch c.Mode {
	case modeJoin, modeTemplate:
		info, err := fd.DefaultPluginRegistry.GetActionByType(c.Mode)
		if err != nil {
			return nil, err
		}
		var js string
		if c.Mode == modeJoin {
			js = fmt.Sprintf(`{"field":%s,"start":%s,"continue":%s,"negate":%v,"max_event_size":%d}`,
				jsonStr(c.Field), jsonStr("/"+c.Start+"/"), jsonStr("/"+c.Continue+"/"), c.Negate, c.MaxEventSize)
		} else {
			if c.TemplateKey && len(c.Templates) == 1 {
				js = fmt.Sprintf(`{"field":%s,"template":%s,"max_event_size":%d}`, jsonStr(c.Field), jsonStr(c.Templates[0]), c.MaxEventSize)
			} else {
				var names []string
				for _, n := range c.Templates {
					names = append(names, jsonStr(n))
				}
				js = fmt.Sprintf(`{"field":%s,"templates":[%s],"max_event_size":%d}`, jsonStr(c.Field), strings.Join(names, ","), c.MaxEventSize)
			}
		}
		cfg, err := pipeline.GetConfig(info, []byte(js), values)
		if err != nil {
			return nil, err
		}
		cp := *info
		cp.Config = cfg
		cp.Type = c.Mode
		cp.Factory = h.watchedFactory(info.Factory)
		info2 := &pipeline.ActionPluginStaticInfo{PluginStaticInfo: &cp, MatchMode: pipeline.MatchModeAnd}
		switch c.Selector {
		case "match_fields":
			info2.MatchConditions = pipeline.MatchConditions{{Field: []string{"sel"}, Values: []string{"1"}}}
		case "do_if":
			// built the way fd.extractDoIfChecker does: simplejson -> map -> doif.NewFromMap
			sj, err := simplejson.NewJson([]byte(`{"op":"equal","field":"sel","values":["1"]}`))
			if err != nil {
				return nil, err
			}
			ch, err := doif.NewFromMap(sj.MustMap())
			if err != nil {
				return nil, err
			}
			info2.DoIfChecker = ch
		}
		return info2, nil
	case modeK8s:
		// fd.setupInput: the additional action "k8s-multiline" gets the k8s INPUT's parsed config
		inInfo := &pipeline.PluginStaticInfo{Type: "k8s", Factory: k8s.Factory}
		js := fmt.Sprintf(`{"offsets_file":"/nonexistent/offsets.yaml","split_event_size":%d}`, c.SplitEventSize)
		cfg, err := pipeline.GetConfig(inInfo, []byte(js), values)
		if err != nil {
			return nil, err
		}
		actInfo, err := fd.DefaultPluginRegistry.GetActionByType("k8s-multiline")
		if err != nil {
			return nil, err
		}
		cp := *actInfo
		cp.Config = cfg
		cp.Type = "k8s-multiline"
		cp.Factory = h.watchedFactory(actInfo.Factory)
		return &pipeline.ActionPluginStaticInfo{PluginStaticInfo: &cp, MatchConditions: pipeline.MatchConditions{}}, nil
	}
	return nil, fmt.Errorf("unknown mode %q", c.Mode)
}

func passInfo() *pipeline.ActionPluginStaticInfo {
	return &pipeline.ActionPluginStaticInfo{
		PluginStaticInfo: &pipeline.PluginStaticInfo{
			Type:    "verif_pass",
			Factory: func() (pipeline.AnyPlugin, pipeline.AnyConfig) { return passAction{}, nil },
		},
		MatchMode: pipeline.MatchModeAnd,
	}
}

func (c *Case) totalLines() int {
	n := 0
	for _, s := range c.Sources {
		n += len(s.Lines)
	}
	return n
}

// execute runs the case; must be called inside a bubble.
func execute(c *Case) *execResult {
	res := &execResult{}
	h := &harness{c: c, res: res}
	settings := fdkit.DefaultSettings()
	settings.Capacity = c.totalLines() + 64 // never back-pressure: feed times stay exactly as planned
	settings.EventTimeout = time.Duration(c.EventTimeoutMs) * time.Millisecond
	settings.MaintenanceInterval = time.Hour
	settings.Antispam.MaintenanceInterval = time.Hour
	if c.Pool == "low_memory" {
		settings.Pool = pipeline.PoolTypeLowMem
	} else {
		settings.Pool = pipeline.PoolTypeStd
	}
	if c.Mode == modeK8s {
		settings.MaxEventSize = c.MaxEventSize
		settings.CutOffEventByLimit = c.CutOff
		settings.CutOffEventByLimitField = c.CutOffField
		if c.Format == "cri" {
			settings.Decoder = "cri"
		}
	}
	act, err := h.actionInfo(settings)
	if err != nil {
		res.configErr = err.Error()
		return res
	}
	p := fdkit.NewPipeline(fdkit.UniqueName("c15"), settings)
	if c.SingleProc {
		p.DisableParallelism()
	}
	p.SetInput(&pipeline.InputPluginInfo{
		PluginStaticInfo:  &pipeline.PluginStaticInfo{Type: "verif_input"},
		PluginRuntimeInfo: &pipeline.PluginRuntimeInfo{Plugin: &hInput{h: h}, ID: "verif_input"},
	})
	for i := 0; i < c.PassBefore; i++ {
		p.AddAction(passInfo())
	}
	p.AddAction(act)
	if c.Mode == modeK8s && c.ThenJoin {
		info, err := fd.DefaultPluginRegistry.GetActionByType(modeJoin)
		if err == nil {
			js := fmt.Sprintf(`{"field":"log","start":%s,"continue":%s,"negate":%v}`, jsonStr("/"+c.Start+"/"), jsonStr("/"+c.Continue+"/"), c.Negate)
			var cfg pipeline.AnyConfig
			if cfg, err = pipeline.GetConfig(info, []byte(js), map[string]int{"capacity": settings.Capacity, "gomaxprocs": runtime.GOMAXPROCS(0)}); err == nil {
				cp := *info
				cp.Config = cfg
				cp.Type = modeJoin
				cp.Factory = h.watchedFactory(info.Factory)
				p.AddAction(&pipeline.ActionPluginStaticInfo{PluginStaticInfo: &cp, MatchMode: pipeline.MatchModeAnd})
			}
		}
		if err != nil {
			res.configErr = err.Error()
			return res
		}
	}
	for i := 0; i < c.PassAfter; i++ {
		p.AddAction(passInfo())
	}
	if c.DiscardAfterMod > 0 {
		mod := c.DiscardAfterMod
		p.AddAction(&pipeline.ActionPluginStaticInfo{
			PluginStaticInfo: &pipeline.PluginStaticInfo{
				Type:    "verif_tap_discard",
				Factory: func() (pipeline.AnyPlugin, pipeline.AnyConfig) { return tapDiscard{h: h, mod: mod}, nil },
			},
			MatchMode: pipeline.MatchModeAnd,
		})
	}
	outp := &hOutput{h: h}
	p.SetOutput(&pipeline.OutputPluginInfo{
		PluginStaticInfo:  &pipeline.PluginStaticInfo{Type: "verif_output"},
		PluginRuntimeInfo: &pipeline.PluginRuntimeInfo{Plugin: outp, ID: "verif_output"},
	})
	res.feedAtUs = make([][]int64, len(c.Sources))
	res.accepted = make([][]bool, len(c.Sources))
	h.start = time.Now()
	p.Start()

	var wg sync.WaitGroup
	for si := range c.Sources {
		src := &c.Sources[si]
		res.feedAtUs[si] = make([]int64, len(src.Lines))
		res.accepted[si] = make([]bool, len(src.Lines))
		wg.Add(1)
		go func() {
			defer wg.Done()
			off := int64(0)
			var md metadata.MetaData
			name := fmt.Sprintf("src%d", src.ID)
			if c.Mode == modeK8s {
				md = k8sMeta(src.ID)
				name = fmt.Sprintf("/k8s/%s_%s_%s-%s.log", md["k8s_pod"], md["k8s_namespace"], md["k8s_container"], md["k8s_container_id"])
			}
			for li := range src.Lines {
				l := &src.Lines[li]
				if l.GapMs > 0 {
					time.Sleep(time.Duration(l.GapMs) * time.Millisecond)
				}
				data := []byte(c.raw(l, src.ID, li) + "\n")
				off += int64(len(data))
				at := time.Since(h.start).Microseconds()
				seq := h.ctl.In(pipeline.SourceID(src.ID), name, pipeline.NewOffsets(off, nil), data, li == 0, md)
				h.mu.Lock()
				res.feedAtUs[si][li] = at
				res.accepted[si][li] = seq != 0
				h.mu.Unlock()
			}
		}()
	}
	wg.Wait()
	// every held run is flushed by a time-out within event_timeout + one heartbeat period
	time.Sleep(time.Duration(c.EventTimeoutMs+timeoutSlackMs+1000) * time.Millisecond)
	if c.DeferOut > 0 {
		outp.flush()
		time.Sleep(10 * time.Millisecond)
	}
	h.mu.Lock()
	outs := append([]outRec{}, res.outs...)
	h.mu.Unlock()
	sort.SliceStable(outs, func(i, j int) bool { return outs[i].Seq < outs[j].Seq })
	p.Stop()
	p.VerifWakeProcessors()
	res.outs = outs
	return res
}

func run(c Case) *vkit.Outcome {
	// the time-out placement of the model assumes that every (source, stream) with an open run
	// has a processor of its own (a pipeline starts with 2*GOMAXPROCS processors)
	if !c.SingleProc {
		pairs := map[pairKey]bool{}
		for si := range c.Sources {
			for li := range c.Sources[si].Lines {
				pairs[pairKey{c.Sources[si].ID, c.Sources[si].Lines[li].Stream}] = true
			}
		}
		if len(pairs) > 2*runtime.GOMAXPROCS(0) {
			o := vkit.NewOutcome()
			o.Class("skipped:fewer-processors-than-streams")
			return o
		}
	}
	var res *execResult
	var bubblePanic any
	func() {
		defer func() { bubblePanic = recover() }()
		vkit.Bubble(func() {
			res = execute(&c)
			// let maintenance goroutines (hour-long virtual sleeps) observe the stop flag
			time.Sleep(3 * time.Hour)
		})
	}()
	if res == nil {
		panic(bubblePanic)
	}
	o := judge(&c, res)
	if bubblePanic != nil && !o.Failed() {
		o.Failf(P, c.plugin()+":pipeline-goroutines-left-blocked", "after Stop some pipeline goroutines stay blocked forever: %v", bubblePanic)
	}
	return o
}

var prop = vkit.NewProp([]string{P}, "c15multiline", genCase, run)

func TestC15Multiline(t *testing.T) { prop.CrashFile = true; prop.Check(t) }

// Two holding actions in one chain (k8s-multiline followed by join, the usual production
// set-up) are a separate class: every failure there carries the suffix ":two-holders".
var propTwo = vkit.NewProp([]string{P}, "c15twoholders", genTwoHolders, run)

func TestC15TwoHolders(t *testing.T) { propTwo.CrashFile = true; propTwo.Check(t) }

// pairKey orders (source, stream) pairs deterministically.
type pairKey struct {
	src    uint64
	stream string
}

func sortedPairs(m map[pairKey]bool) []pairKey {
	var ks []pairKey
	for k := range m {
		ks = append(ks, k)
	}
	sort.Slice(ks, func(i, j int) bool {
		if ks[i].src != ks[j].src {
			return ks[i].src < ks[j].src
		}
		return ks[i].stream < ks[j].stream
	})
	return ks
}
