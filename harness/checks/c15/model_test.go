package c15

// Reference models and oracles. Written from the property text and the plugin
// READMEs with encoding/json (vkit.ParseJSON), regexp and plain Go; the code
// under test is not called, with one deliberate exception stated in DESIGN.md:
// for join_template the line classifier is the template package's own exported
// StartCheck / ContinueCheck (the property is about reassembly, not about what
// counts as a Go panic).

import (
	"fmt"
	"regexp"
	"strings"

	"github.com/ozontech/file.d/plugin/action/join_template/template"
	"github.com/ozontech/file.d/zzverif/vkit"
)

// look-ahead the k8s multi-line action adds to the accumulated size before comparing it with
// split_event_size (README: "not a strict rule, events may be split even if they won't exceed
// the limit"). The exact model is applied only when TWICE the accumulated input size plus this
// constant stays within split_event_size.
const k8sLookahead = 128 * 1024

func judge(c *Case, res *execResult) *vkit.Outcome {
	o := vkit.NewOutcome()
	pl := c.plugin()
	o.Class("mode=" + c.Mode)
	for i := 0; i < c.ExcludedK8sTimeoutCuts; i++ {
		o.Excluded(P)
	}
	if res.configErr != "" {
		o.Class("harness:config-rejected")
		vkit.Note(P, "config rejected: "+res.configErr)
		return o
	}
	if len(res.panics) > 0 {
		p := res.panics[0]
		if c.ThenJoin {
			p.Sig += ":two-holders"
		}
		o.Failf(P, pl+":"+p.Sig, "%s action panicked in Do (in a processor goroutine: takes the process down): %s\n%s", pl, p.Val, p.Stack)
		o.History = history(c, res)
		return o
	}
	// harness sanity: every line was accepted, at exactly the planned virtual time
	for si := range c.Sources {
		at := int64(0)
		for li := range c.Sources[si].Lines {
			at += int64(c.Sources[si].Lines[li].GapMs) * 1000
			if !res.accepted[si][li] {
				o.Class("harness:line-refused")
				return o
			}
			if res.feedAtUs[si][li] != at {
				o.Class("harness:feed-time-drift")
				return o
			}
		}
	}
	if c.Mode == modeK8s && c.ThenJoin {
		judgeTwoHolders(c, res, o)
	} else if c.Mode == modeK8s {
		judgeK8s(c, res, o)
	} else {
		judgeJoin(c, res, o)
	}
	if o.Failed() {
		o.History = history(c, res)
	}
	return o
}

func history(c *Case, res *execResult) any {
	type fed struct {
		Source uint64 `json:"source"`
		Line   int    `json:"line"`
		AtUs   int64  `json:"at_us"`
		Raw    string `json:"raw"`
	}
	var feeds []fed
	for si := range c.Sources {
		for li := range c.Sources[si].Lines {
			at := int64(-1)
			if si < len(res.feedAtUs) && li < len(res.feedAtUs[si]) {
				at = res.feedAtUs[si][li]
			}
			feeds = append(feeds, fed{c.Sources[si].ID, li, at, c.raw(&c.Sources[si].Lines[li], c.Sources[si].ID, li)})
		}
	}
	return map[string]any{"fed": feeds, "outputs": res.outs, "timeouts_seen_by_action": res.timeouts}
}

// ------------------------------------------------------------------ join / join_template

type jline struct {
	pair pairKey
	li   int
	id   string
	node *vkit.JNode
	kind byte   // 's' string, 'm' missing, 'v' non-string scalar, 'c' object / array
	text string // string value; literal text of a scalar
	atUs int64
}

type expEvent struct {
	first    *jline   // exact event, or the first line of a run
	run      []*jline // nil for a non-joined event
	full     string   // in-order concatenation of the run's field values
	cause    string   // what ends the run: "event" | "timeout"
	deadline int64    // cause timeout: latest virtual time (us) at which the joined event must be out
}

type classifier struct {
	c       *Case
	startRe *regexp.Regexp
	contRe  *regexp.Regexp
	tmpl    []template.Template
	cur     int
}

func newClassifier(c *Case) (*classifier, error) {
	cl := &classifier{c: c, cur: -1}
	if c.Mode == modeJoin {
		var err error
		if cl.startRe, err = regexp.Compile(c.Start); err != nil {
			return nil, err
		}
		if cl.contRe, err = regexp.Compile(c.Continue); err != nil {
			return nil, err
		}
		return cl, nil
	}
	for _, n := range c.Templates {
		t, err := template.InitTemplate(n)
		if err != nil {
			return nil, err
		}
		cl.tmpl = append(cl.tmpl, t)
	}
	return cl, nil
}

// isStart: the value starts a run (README: "a regexp which will start the join sequence").
func (cl *classifier) isStart(text string) bool {
	if cl.c.Mode == modeJoin {
		return cl.startRe.MatchString(text)
	}
	for i, t := range cl.tmpl {
		if t.StartCheck(text) {
			cl.cur = i
			return true
		}
	}
	return false
}

// isNext: the value continues the current run ("a regexp which will continue the join
// sequence", "negate match logic for Continue").
func (cl *classifier) isNext(text string) bool {
	if cl.c.Mode == modeJoin {
		return cl.contRe.MatchString(text) != cl.c.Negate
	}
	t := cl.tmpl[cl.cur]
	return t.ContinueCheck(text) != t.Negate
}

func fieldPath(c *Case) []string { return strings.Split(c.Field, ".") }

func parseJoinLine(c *Case, src uint64, li int, l *Line, atUs int64) (*jline, error) {
	n, err := vkit.ParseJSON([]byte(l.Doc))
	if err != nil {
		return nil, err
	}
	jl := &jline{pair: pairKey{src, l.Stream}, li: li, node: n, atUs: atUs}
	if idn := n.Get("id"); idn != nil && idn.Kind == 's' {
		jl.id = idn.Str
	} else {
		return nil, fmt.Errorf("line has no id")
	}
	if st := n.Get("stream"); st == nil || st.Kind != 's' || st.Str != l.Stream {
		return nil, fmt.Errorf("line's stream field differs from its stream")
	}
	f := n.Dig(fieldPath(c)...)
	switch {
	case f == nil:
		jl.kind = 'm'
	case f.Kind == 's':
		jl.kind, jl.text = 's', f.Str
	case f.Kind == 'o' || f.Kind == 'a':
		jl.kind = 'c'
	case f.Kind == 'n':
		jl.kind, jl.text = 'v', f.Str
	case f.Kind == 't':
		jl.kind, jl.text = 'v', "true"
	case f.Kind == 'f':
		jl.kind, jl.text = 'v', "false"
	default:
		jl.kind, jl.text = 'v', "null"
	}
	return jl, nil
}

// joinModel is the reference state machine of one (source, stream).
// seen reports whether a line's id occurs among the observed events of the stream; it is
// consulted only for the one documented-nowhere case (see below).
func joinModel(c *Case, cl *classifier, lines []*jline, seen func(id string) bool) (exp []expEvent, unsafeGap bool) {
	toUs := int64(c.EventTimeoutMs) * 1000
	slackUs := int64(timeoutSlackMs) * 1000
	var cur *expEvent
	flush := func(cause string, deadline int64) {
		if cur != nil {
			cur.cause, cur.deadline = cause, deadline
			exp = append(exp, *cur)
			cur = nil
		}
	}
	for k, l := range lines {
		if k > 0 && cur != nil {
			delta := l.atUs - lines[k-1].atUs
			switch {
			case delta > toUs+slackUs:
				// the stream stayed blocked longer than event_timeout + heartbeat: a time-out is certain
				flush("timeout", lines[k-1].atUs+toUs+slackUs)
			case delta*2 >= toUs:
				unsafeGap = true // neither impossible nor certain: the generator never produces it
			}
		}
		if c.Selector != "" && cur == nil {
			// the action is idle: an event its selector does not pick skips it and passes unchanged
			// (while a run is open the action receives every event of the stream, see Case.Selector)
			if sel := l.node.Get("sel"); sel == nil || sel.Kind != 's' || sel.Str != "1" {
				exp = append(exp, expEvent{first: l})
				continue
			}
		}
		switch l.kind {
		case 's':
			switch {
			case cl.isStart(l.text):
				flush("event", 0)
				cur = &expEvent{first: l, run: []*jline{l}, full: l.text}
			case cur != nil && cl.isNext(l.text):
				cur.run = append(cur.run, l)
				cur.full += l.text
			default:
				flush("event", 0)
				exp = append(exp, expEvent{first: l})
			}
		case 'v':
			// A non-string scalar (number, true, false, null) in the join field. It never matches a
			// generated start pattern (those need an upper-case marker). Whether it can CONTINUE a run
			// is documented nowhere; both readings are accepted: if its literal text continues the run
			// by the configured pattern it may either be appended (its text is kept, in order) or be
			// treated as a non-continuing event. The observation decides which branch is checked.
			if cur != nil && cl.isNext(l.text) && !seen(l.id) {
				cur.run = append(cur.run, l)
				cur.full += l.text
			} else {
				flush("event", 0)
				exp = append(exp, expEvent{first: l})
			}
		default:
			// field missing, or an object / array: not a line of text, so a non-continuing event
			// that is output unchanged ("outputs the non-joined events unchanged"). An object has no
			// text that could be appended without losing its content.
			flush("event", 0)
			exp = append(exp, expEvent{first: l})
		}
	}
	if cur != nil {
		last := lines[len(lines)-1]
		flush("timeout", last.atUs+toUs+slackUs)
	}
	return exp, unsafeGap
}

type obsEvent struct {
	node *vkit.JNode
	id   string
	atUs int64
	doc  string
}

// setPath replaces the value at path (object keys) by v; reports whether the path existed.
func setPath(n *vkit.JNode, path []string, v *vkit.JNode) bool {
	cur := n
	for i, p := range path {
		if cur == nil || cur.Kind != 'o' {
			return false
		}
		if i == len(path)-1 {
			if cur.Get(p) == nil {
				return false
			}
			cur.Set(p, v)
			return true
		}
		cur = cur.Get(p)
	}
	return false
}

func judgeJoin(c *Case, res *execResult, o *vkit.Outcome) {
	pl := c.plugin()
	cl, err := newClassifier(c)
	if err != nil {
		o.Class("harness:bad-pattern")
		return
	}
	path := fieldPath(c)
	// input lines per pair, in feed order of their source
	pairs := map[pairKey]bool{}
	lines := map[pairKey][]*jline{}
	byID := map[string]*jline{}
	for si := range c.Sources {
		src := &c.Sources[si]
		for li := range src.Lines {
			jl, err := parseJoinLine(c, src.ID, li, &src.Lines[li], res.feedAtUs[si][li])
			if err != nil || byID[jl.id] != nil {
				o.Class("harness:bad-line")
				return
			}
			byID[jl.id] = jl
			pairs[jl.pair] = true
			lines[jl.pair] = append(lines[jl.pair], jl)
		}
	}
	// observed events per pair, in arrival order
	obs := map[pairKey][]obsEvent{}
	for _, r := range res.outs {
		n, err := vkit.ParseJSON([]byte(r.Doc))
		if err != nil || n.Kind != 'o' {
			o.Failf(P, pl+":output-not-valid-json", "output event is not a JSON object: %q (%v)", r.Doc, err)
			return
		}
		ev := obsEvent{node: n, atUs: r.AtUs, doc: r.Doc}
		if idn := n.Get("id"); idn != nil && idn.Kind == 's' {
			ev.id = idn.Str
		}
		stream := ""
		if st := n.Get("stream"); st != nil && st.Kind == 's' {
			stream = st.Str
		}
		k := pairKey{r.Source, stream}
		if src := byID[ev.id]; src == nil || src.pair != k {
			o.Failf(P, pl+":event-of-unknown-origin", "output event %q (source %d, stream %q) does not carry the id of a line of that source and stream", r.Doc, r.Source, stream)
			return
		}
		obs[k] = append(obs[k], ev)
	}

	maxRun, timeoutCuts, joinedRuns, limited := 0, 0, 0, 0
	for _, k := range sortedPairs(pairs) {
		seenIDs := map[string]bool{}
		for _, e := range obs[k] {
			seenIDs[e.id] = true
		}
		exp, unsafeGap := joinModel(c, cl, lines[k], func(id string) bool { return seenIDs[id] })
		if unsafeGap {
			o.Class("harness:unsafe-gap")
			return
		}
		got := obs[k]
		where := fmt.Sprintf("source %d stream %q", k.src, k.stream)
		for i := range exp {
			e := &exp[i]
			if i >= len(got) {
				if e.run == nil && e.first.kind == 'c' {
					o.Failf(P, pl+":object-valued-field-event-swallowed-by-run", "%s: line %s has an object/array in the join field; it is not a line of text, yet it was consumed as a continuation of the run in progress and its content is gone (%d events out, %d expected)", where, e.first.id, len(got), len(exp))
				} else if e.run != nil && e.cause == "timeout" {
					o.Failf(P, pl+":held-run-never-flushed", "%s: the run starting with line %s (%d lines) was never output although the stream stayed silent for more than event_timeout+%dms afterwards", where, e.first.id, len(e.run), timeoutSlackMs)
				} else {
					o.Failf(P, pl+":event-missing", "%s: expected event #%d (line %s) never reached the output; got %d events, expected %d", where, i, e.first.id, len(got), len(exp))
				}
				return
			}
			g := &got[i]
			if !matchesID(e, g.id) {
				if e.run == nil && e.first.kind == 'c' && !seenIDs[e.first.id] {
					o.Failf(P, pl+":object-valued-field-event-swallowed-by-run", "%s: line %s has an object/array in the join field; it is not a line of text, yet it was consumed as a continuation of the run in progress and its content is gone (next output: %s)", where, e.first.id, g.doc)
				} else {
					o.Failf(P, pl+":output-sequence-differs", "%s: output event #%d is line %s, the reference model expects line %s (%s)", where, i, g.id, e.first.id, describe(e))
				}
				return
			}
			if e.run == nil {
				if d := vkit.DiffJ(e.first.node, g.node, true); d != "" {
					o.Failf(P, pl+":non-joined-event-changed", "%s: line %s is not part of a run but was changed: %s\n in: %s\nout: %s", where, e.first.id, d, e.first.node.Encode(), g.doc)
					return
				}
				continue
			}
			// joined event
			joinedRuns++
			if len(e.run) > maxRun {
				maxRun = len(e.run)
			}
			if e.cause == "timeout" {
				timeoutCuts++
			}
			f := g.node.Dig(path...)
			if f == nil || f.Kind != 's' {
				o.Failf(P, pl+":joined-field-not-in-order-concatenation", "%s: run of %d lines starting at %s: the join field of the output is not a string: %s", where, len(e.run), e.first.id, g.doc)
				return
			}
			if c.MaxEventSize <= 0 {
				if f.Str != e.full {
					o.Failf(P, pl+":joined-field-not-in-order-concatenation", "%s: run %s: joined field is %q, the in-order concatenation of the run is %q", where, runIDs(e), f.Str, e.full)
					return
				}
			} else {
				// loose reading of "up to the configured size limit" / README "max size of the resulted
				// event ... the event will be truncated": a byte prefix of the full concatenation that is
				// (a) complete, or (b) has reached the limit, or (c) ends at a line boundary where the
				// next line of the run would have taken it over the limit. Covers cutting bytes at the
				// limit, "stop appending once the limit is reached" and "never exceed the limit".
				if !sizeRuleOK(e, f.Str, c.MaxEventSize) {
					o.Failf(P, pl+":joined-field-breaks-size-limit-rule", "%s: run %s max_event_size %d: joined field %q (%d bytes) is not a prefix of the concatenation %q that is complete, has reached the limit, or stops before a line that does not fit", where, runIDs(e), c.MaxEventSize, f.Str, len(f.Str), e.full)
					return
				}
				if f.Str != e.full {
					limited++
				}
			}
			// other fields: README promises nothing; accepted: those of any one event of the run
			gc := g.node.Clone()
			setPath(gc, path, vkit.JNull())
			okOther := false
			for _, rl := range e.run {
				rc := rl.node.Clone()
				setPath(rc, path, vkit.JNull())
				if vkit.DiffJ(rc, gc, false) == "" {
					okOther = true
					break
				}
			}
			if !okOther {
				o.Failf(P, pl+":joined-event-other-fields-changed", "%s: run %s: the fields other than %q of the output equal those of no event of the run: %s", where, runIDs(e), c.Field, g.doc)
				return
			}
			if e.cause == "timeout" && g.atUs > e.deadline {
				o.Failf(P, pl+":held-run-flushed-later-than-time-out-bound", "%s: run %s: last line fed at %dus, event_timeout %dms, output at %dus > bound %dus", where, runIDs(e), e.run[len(e.run)-1].atUs, c.EventTimeoutMs, g.atUs, e.deadline)
				return
			}
		}
		if len(got) > len(exp) {
			o.Failf(P, pl+":unexpected-event", "%s: %d events expected, got %d; first extra: %s", where, len(exp), len(got), got[len(exp)].doc)
			return
		}
	}
	if c.Negate {
		o.Class("negate")
	}
	if strings.Contains(c.Field, ".") {
		o.Class("nested-field")
	}
	for _, ls := range lines {
		for _, l := range ls {
			switch l.kind {
			case 'm':
				o.Class("line:field-missing")
			case 'v':
				o.Class("line:non-string-scalar")
			case 'c':
				o.Class("line:object-or-array")
			}
		}
	}
	if len(c.Templates) > 1 {
		o.Class("several-templates")
	}
	classify(c, o, maxRun, timeoutCuts, joinedRuns, limited, res)
}

func sizeRuleOK(e *expEvent, got string, limit int) bool {
	n := len(got)
	got = strings.TrimRight(got, "\ufffd") // a byte cut may fall inside a multi-byte character
	if !strings.HasPrefix(e.full, got) {
		return false
	}
	if got == e.full || n >= limit {
		return true
	}
	acc := 0
	for _, l := range e.run {
		if acc == len(got) {
			return acc+len(l.text) > limit
		}
		acc += len(l.text)
		if acc > len(got) {
			return false // ends inside a line without having reached the limit
		}
	}
	return false
}

func matchesID(e *expEvent, id string) bool {
	if e.run == nil {
		return e.first.id == id
	}
	for _, l := range e.run {
		if l.id == id {
			return true
		}
	}
	return false
}

func runIDs(e *expEvent) string {
	var ids []string
	for _, l := range e.run {
		ids = append(ids, l.id)
	}
	return "[" + strings.Join(ids, " ") + "]"
}

func describe(e *expEvent) string {
	if e.run == nil {
		return "a non-joined event"
	}
	return fmt.Sprintf("a run of %d lines %s ended by %s", len(e.run), runIDs(e), e.cause)
}

// overlapped reports whether at some moment two (source, stream) pairs were both inside
// [first line, last line] of their feed (=> they were served by different processors when
// both had an open run; with one processor they queue behind each other).
func overlapped(c *Case) bool {
	type span struct{ lo, hi, n int64 }
	spans := map[pairKey]*span{}
	for si := range c.Sources {
		at := int64(0)
		for li := range c.Sources[si].Lines {
			l := &c.Sources[si].Lines[li]
			at += int64(l.GapMs)
			k := pairKey{c.Sources[si].ID, l.Stream}
			if s := spans[k]; s == nil {
				spans[k] = &span{at, at, 1}
			} else {
				s.hi = at
				s.n++
			}
		}
	}
	var ks []pairKey
	for k := range spans {
		ks = append(ks, k)
	}
	for i := range ks {
		for j := i + 1; j < len(ks); j++ {
			a, b := spans[ks[i]], spans[ks[j]]
			if a.n >= 2 && b.n >= 2 && a.lo <= b.hi && b.lo <= a.hi {
				return true
			}
		}
	}
	return false
}

func classify(c *Case, o *vkit.Outcome, maxRun, timeoutCuts, joinedRuns, limited int, res *execResult) {
	if joinedRuns > 0 {
		o.Class("has-joined-run")
	}
	if maxRun >= 3 {
		o.Class("run>=3-lines")
	}
	if timeoutCuts > 0 {
		o.Class("run-ended-by-time-out")
	}
	if limited > 0 {
		o.Class("size-limit-applied")
	}
	inter := overlapped(c)
	if inter && !c.SingleProc {
		o.Class("streams-interleaved-on-several-processors")
	}
	if inter && c.SingleProc {
		o.Class("streams-interleaved-on-one-processor")
	}
	if res.timeouts > 0 {
		o.Class("time-out-event-delivered")
	}
	if res.tapDiscards > 0 {
		o.Class("emitted-events-discarded-by-a-later-action")
	}
	if c.Selector != "" {
		o.Class("action-with-selector:" + c.Selector)
	}
	if c.DeferOut > 0 {
		o.Class("output-encodes-after-out-returned")
	}
	if c.PassBefore+c.PassAfter > 0 {
		o.Class("with-pass-through-actions")
	}
	// non-trivial: a run of >= 3 lines, and it was cut by a time-out or two streams were interleaved
	if maxRun >= 3 && (timeoutCuts > 0 || inter) {
		o.Nontrivial(P)
	}
}

// ------------------------------------------------------------------ k8s multi-line

type chunk struct {
	li      int
	log     string // decoded content, with the final "\n" for a closing chunk
	end     bool
	rawSize int
	atUs    int64
	tag     string
	run     int // index of its line-run
	ts      string
}

type lineRun struct {
	lo, hi   int // chunk indexes
	sumRaw   int
	closed   bool // last chunk closes the line
	timedOut bool // a gap inside the run (or after its unterminated end) makes a time-out certain
	cut      bool // its output was observed to end inside a chunk (max_event_size with cut-off)
}

func k8sTag(src uint64, stream string, li int) string {
	return fmt.Sprintf("[%d/%s/%d]", src, stream, li)
}

var reK8sTag = regexp.MustCompile(`\[(\d+)/(stdout|stderr)/(\d+)\]`)

func judgeK8s(c *Case, res *execResult, o *vkit.Outcome) {
	const pl = "k8s-multiline"
	toUs := int64(c.EventTimeoutMs) * 1000
	slackUs := int64(timeoutSlackMs) * 1000
	pairs := map[pairKey]bool{}
	chunks := map[pairKey][]*chunk{}
	for si := range c.Sources {
		src := &c.Sources[si]
		for li := range src.Lines {
			l := &src.Lines[li]
			k := pairKey{src.ID, l.Stream}
			pairs[k] = true
			ch := &chunk{li: li, log: l.Log, end: l.End, atUs: res.feedAtUs[si][li], tag: k8sTag(src.ID, l.Stream, li)}
			if l.End {
				ch.log += "\n"
			}
			if l.Log == "" && l.End {
				ch.tag = "\n" // an empty line: its whole content stands in for the tag
				o.Class("k8s:empty-line")
			} else if !strings.HasPrefix(l.Log, ch.tag) || strings.ContainsAny(l.Log, "\n") {
				o.Class("harness:bad-line")
				return
			}
			raw := c.raw(l, src.ID, li)
			ch.rawSize = len(raw) + 1
			ch.ts = raw // only used to derive the expected time field below
			chunks[k] = append(chunks[k], ch)
		}
	}
	type k8sObs struct {
		node *vkit.JNode
		log  string
		doc  string
		atUs int64
	}
	obs := map[pairKey][]k8sObs{}
	for _, r := range res.outs {
		n, err := vkit.ParseJSON([]byte(r.Doc))
		if err != nil || n.Kind != 'o' {
			sig := pl + ":output-not-valid-json"
			if c.CutOff && c.MaxEventSize > 0 {
				sig = pl + ":invalid-json-after-cut-off"
			}
			o.Failf(P, sig, "output event is not valid JSON (%v): %q", err, r.Doc)
			return
		}
		stream := ""
		if st := n.Get("stream"); st != nil && st.Kind == 's' {
			stream = st.Str
		}
		k := pairKey{r.Source, stream}
		lg := n.Get("log")
		if !pairs[k] || lg == nil || lg.Kind != 's' {
			o.Failf(P, pl+":event-of-unknown-origin", "output event of source %d has stream %q / log field that fits no input: %s", r.Source, stream, r.Doc)
			return
		}
		obs[k] = append(obs[k], k8sObs{n, lg.Str, r.Doc, r.AtUs})
	}

	maxRun, joinedRuns, limited, splits := 0, 0, 0, 0
	for _, k := range sortedPairs(pairs) {
		ch := chunks[k]
		where := fmt.Sprintf("source %d stream %q", k.src, k.stream)
		// line-runs
		var runs []*lineRun
		for i := 0; i < len(ch); {
			r := &lineRun{lo: i}
			for ; i < len(ch); i++ {
				ch[i].run = len(runs)
				r.sumRaw += ch[i].rawSize
				r.hi = i
				if ch[i].end {
					r.closed = true
					i++
					break
				}
				// the action waits for the next chunk of this stream: a long silence is a certain time-out
				if i+1 < len(ch) {
					d := ch[i+1].atUs - ch[i].atUs
					if d > toUs+slackUs {
						r.timedOut = true
					} else if d*2 >= toUs {
						o.Class("harness:unsafe-gap")
						return
					}
				} else {
					r.timedOut = true
				}
			}
			runs = append(runs, r)
		}
		oversize := func(r *lineRun) bool { return c.MaxEventSize > 0 && r.sumRaw >= c.MaxEventSize }
		for i, r := range runs {
			if c.CutOff && oversize(r) && r.hi > r.lo {
				for _, later := range runs[i+1:] {
					if later.hi > later.lo && !oversize(later) {
						o.Class("k8s:line-in-chunks-after-a-line-over-the-limit")
					}
				}
			}
		}
		noSplit := func(r *lineRun) bool { return 2*r.sumRaw+k8sLookahead <= c.SplitEventSize }
		concat := func(a, b int) string {
			var sb strings.Builder
			for i := a; i <= b; i++ {
				sb.WriteString(ch[i].log)
			}
			return sb.String()
		}
		// chunks lo..hi reached no output: allowed only for runs that may be discarded by max_event_size
		uncovered := func(lo, hi int) bool {
			for i := lo; i <= hi; i++ {
				r := runs[ch[i].run]
				if oversize(r) {
					continue
				}
				if r.timedOut {
					o.Failf(P, pl+":partial-run-lost-on-time-out", "%s: chunks %d..%d of a line (first %q) were followed by a silence longer than event_timeout+%dms; the property requires the partial run to be flushed, it was dropped", where, r.lo, r.hi, ch[r.lo].log, timeoutSlackMs)
					// (a known finding: go on judging what follows the time-out)
					if vkit.IsKnown(P, pl+":partial-run-lost-on-time-out") {
						continue
					}
				} else {
					o.Failf(P, pl+":chunk-lost", "%s: chunk %d %q reached no output event (max_event_size %d, bytes of its whole line %d)", where, i, ch[i].log, c.MaxEventSize, r.sumRaw)
				}
				return false
			}
			return true
		}
		pos := 0
		for oi, g := range obs[k] {
			a := -1
			for i := pos; i < len(ch); i++ {
				if strings.HasPrefix(g.log, ch[i].tag) {
					a = i
					break
				}
			}
			if a < 0 {
				for i := 0; i < pos; i++ {
					if strings.HasPrefix(g.log, ch[i].tag) {
						o.Failf(P, pl+":chunk-duplicated-or-reordered", "%s: output #%d %q starts with chunk %d, which an earlier output already covered", where, oi, g.log, i)
						return
					}
				}
				if m := reK8sTag.FindString(g.log); m != "" && !strings.HasPrefix(m, fmt.Sprintf("[%d/%s/", k.src, k.stream)) {
					o.Failf(P, pl+":text-of-another-stream-merged", "%s: output #%d %q carries text of another source/stream", where, oi, g.log)
					return
				}
				o.Failf(P, pl+":output-does-not-start-at-chunk-boundary", "%s: output #%d %q does not start with the beginning of a not yet covered chunk", where, oi, g.log)
				return
			}
			if a > pos && !uncovered(pos, a-1) {
				return
			}
			r := runs[ch[a].run]
			full := concat(a, r.hi)
			body, cut := g.log, false
			if !strings.HasPrefix(full, body) {
				// a cut-off event ends with an added line end; a cut may fall inside a multi-byte character
				b2 := strings.TrimSuffix(body, "\n")
				b2 = strings.TrimRight(b2, "�")
				if c.CutOff && oversize(r) && strings.HasPrefix(full, b2) {
					body, cut = b2, true
				} else if m := reK8sTag.FindAllString(g.log, -1); len(m) > 0 && foreignTag(m, k) {
					o.Failf(P, pl+":text-of-another-stream-merged", "%s: output #%d %q carries text of another source/stream", where, oi, g.log)
					return
				} else if c.CutOff && oversize(r) {
					o.Failf(P, pl+":cut-off-log-not-prefix-of-line", "%s: output #%d log %q is not a prefix of the line's text %q (max_event_size %d, cut_off_event_by_limit)", where, oi, g.log, full, c.MaxEventSize)
					return
				} else {
					o.Failf(P, pl+":log-not-contiguous-run-of-chunks", "%s: output #%d log %q is not the in-order concatenation of chunks %d.. of the line %q", where, oi, g.log, a, full)
					return
				}
			}
			acc, b := 0, a
			for b = a; b <= r.hi; b++ {
				acc += len(ch[b].log)
				if acc >= len(body) {
					break
				}
			}
			if b > r.hi {
				b = r.hi
			}
			if acc != len(body) {
				cut = true
			}
			// the plugin's own marker says the event was cut (a cut may end exactly on a chunk boundary)
			marked := c.CutOffField != "" && g.node.Get(c.CutOffField) != nil
			if marked && c.CutOff && oversize(r) {
				cut = true
			}
			if cut && !(c.CutOff && oversize(r)) {
				o.Failf(P, pl+":log-cut-without-size-limit", "%s: output #%d log %q ends inside chunk %d of the line %q although max_event_size (%d) cannot apply to %d input bytes", where, oi, g.log, b, full, c.MaxEventSize, r.sumRaw)
				return
			}
			if !cut && (a != r.lo || b != r.hi) {
				// the line was emitted in pieces: allowed after a time-out (the rest of the line starts a
				// new event) and wherever split_event_size / max_event_size may apply
				if !r.timedOut && noSplit(r) && !oversize(r) {
					if b < r.hi && strings.HasSuffix(ch[b].log, `\n`) {
						o.Failf(P, pl+":chunk-ending-in-backslash-n-taken-as-line-end", "%s: partial chunk %d %q ends with a backslash followed by the letter n (not a line break); the line was closed there: output %q, whole line %q", where, b, ch[b].log, g.log, concat(r.lo, r.hi))
						return
					}
					o.Failf(P, pl+":line-split-far-below-split-event-size", "%s: output #%d %q covers chunks %d..%d of the line %d..%d (%d input bytes, split_event_size %d)", where, oi, g.log, a, b, r.lo, r.hi, r.sumRaw, c.SplitEventSize)
					return
				}
				splits++
			}
			if cut {
				limited++
				r.cut = true
				for _, later := range runs[ch[a].run+1:] {
					if later.hi > later.lo {
						o.Class("k8s:line-in-chunks-after-a-line-that-was-cut")
					}
				}
			}
			// other fields: those of one chunk event of the covered line + k8s_node (+ the cut-off marker)
			gc := g.node.Clone()
			gc.Del("log")
			if c.CutOffField != "" {
				if m := gc.Get(c.CutOffField); m != nil {
					if !cut || m.Kind != 't' {
						o.Failf(P, pl+":cut-off-marker-on-uncut-event", "%s: output #%d carries %q although its log was not cut: %s", where, oi, c.CutOffField, g.doc)
						return
					}
					gc.Del(c.CutOffField)
				} else if cut {
					o.Failf(P, pl+":cut-off-marker-missing", "%s: output #%d was cut by max_event_size but lacks the configured marker field %q: %s", where, oi, c.CutOffField, g.doc)
					return
				}
			}
			okOther := false
			var want *vkit.JNode
			for i := a; i <= r.hi && !okOther; i++ {
				want = k8sExpectedFields(c, k, ch[i])
				okOther = vkit.DiffJ(want, gc, false) == ""
			}
			if !okOther {
				o.Failf(P, pl+":event-fields-changed", "%s: output #%d: fields other than log equal those of no chunk event of its line (+k8s_node): got %s, e.g. want %s", where, oi, gc.Encode(), want.Encode())
				return
			}
			if b-a+1 > maxRun {
				maxRun = b - a + 1
			}
			if b > a {
				joinedRuns++
			}
			pos = b + 1
			if cut {
				pos = r.hi + 1 // the rest of a cut line is dropped
			}
		}
		if pos < len(ch) && !uncovered(pos, len(ch)-1) {
			return
		}
	}
	if splits > 0 {
		o.Class("line-emitted-in-pieces")
	}
	classify(c, o, maxRun, 0, joinedRuns, limited, res)
}

func foreignTag(tags []string, k pairKey) bool {
	pfx := fmt.Sprintf("[%d/%s/", k.src, k.stream)
	for _, t := range tags {
		if !strings.HasPrefix(t, pfx) {
			return true
		}
	}
	return false
}

// k8sExpectedFields: the chunk's event without log, as the decoder + k8s input meta + the
// action's k8s_node produce it.
func k8sExpectedFields(c *Case, k pairKey, ch *chunk) *vkit.JNode {
	n := vkit.JObj()
	ts := ""
	if c.Format == "cri" {
		ts = ch.ts[:strings.IndexByte(ch.ts, ' ')]
	} else {
		i := strings.LastIndex(ch.ts, `"time":"`)
		ts = ch.ts[i+len(`"time":"`) : len(ch.ts)-2]
	}
	n.Set("stream", vkit.JStr(k.stream))
	n.Set("time", vkit.JStr(ts))
	md := k8sMeta(k.src)
	for _, mk := range []string{"k8s_pod", "k8s_namespace", "k8s_container", "k8s_container_id"} {
		n.Set(mk, vkit.JStr(md[mk]))
	}
	n.Set("k8s_node", vkit.JStr(nodeName))
	return n
}

// ------------------------------------------------------------------ k8s multi-line followed by join

// judgeTwoHolders: exact k8s model (no size limits are generated in this class) whose
// complete lines feed the join state machine on the field "log".
func judgeTwoHolders(c *Case, res *execResult, o *vkit.Outcome) {
	const pl = "k8s-multiline+join"
	const sfx = ":two-holders"
	o.Class("class=two-holders")
	startRe, err1 := regexp.Compile(c.Start)
	contRe, err2 := regexp.Compile(c.Continue)
	if err1 != nil || err2 != nil {
		o.Class("harness:bad-pattern")
		return
	}
	toUs := int64(c.EventTimeoutMs) * 1000
	slackUs := int64(timeoutSlackMs) * 1000
	type cline struct {
		tag          string
		text         string
		firstAt, end int64 // arrival of its first / closing chunk
		nchunks      int
		lastChunk    *chunk
	}
	pairs := map[pairKey]bool{}
	lines := map[pairKey][]*cline{}
	open := map[pairKey]*cline{}
	for si := range c.Sources {
		src := &c.Sources[si]
		for li := range src.Lines {
			l := &src.Lines[li]
			k := pairKey{src.ID, l.Stream}
			pairs[k] = true
			tag := k8sTag(src.ID, l.Stream, li)
			if !strings.HasPrefix(l.Log, tag) || strings.ContainsAny(l.Log, "\n\r") {
				o.Class("harness:bad-line")
				return
			}
			at := res.feedAtUs[si][li]
			cur := open[k]
			if cur == nil {
				cur = &cline{tag: tag, firstAt: at}
				open[k] = cur
			}
			cur.text += l.Log
			cur.nchunks++
			cur.end = at
			if l.End {
				cur.text += "\n"
				cur.lastChunk = &chunk{ts: c.raw(l, src.ID, li)}
				lines[k] = append(lines[k], cur)
				open[k] = nil
			}
		}
	}
	for _, v := range open {
		if v != nil {
			o.Class("harness:unterminated-line")
			return
		}
	}
	type obsT struct {
		log, doc string
		node     *vkit.JNode
		atUs     int64
	}
	obs := map[pairKey][]obsT{}
	for _, r := range res.outs {
		n, err := vkit.ParseJSON([]byte(r.Doc))
		if err != nil || n.Kind != 'o' {
			o.Failf(P, pl+":output-not-valid-json"+sfx, "output event is not valid JSON (%v): %q", err, r.Doc)
			return
		}
		st, lg := n.Get("stream"), n.Get("log")
		if st == nil || st.Kind != 's' || lg == nil || lg.Kind != 's' || !pairs[pairKey{r.Source, st.Str}] {
			o.Failf(P, pl+":event-of-unknown-origin"+sfx, "output event fits no input: %s", r.Doc)
			return
		}
		k := pairKey{r.Source, st.Str}
		obs[k] = append(obs[k], obsT{lg.Str, r.Doc, n, r.AtUs})
	}
	maxRun, timeoutCuts, joined := 0, 0, 0
	for _, k := range sortedPairs(pairs) {
		where := fmt.Sprintf("source %d stream %q", k.src, k.stream)
		type expT struct {
			run      []*cline
			full     string
			joinRun  bool
			cause    string
			deadline int64
		}
		var exp []expT
		var cur *expT
		flush := func(cause string, deadline int64) {
			if cur != nil {
				cur.cause, cur.deadline = cause, deadline
				exp = append(exp, *cur)
				cur = nil
			}
		}
		ls := lines[k]
		for i, l := range ls {
			if i > 0 && cur != nil {
				d := l.firstAt - ls[i-1].end
				if d > toUs+slackUs {
					flush("timeout", ls[i-1].end+toUs+slackUs)
				} else if d*2 >= toUs {
					o.Class("harness:unsafe-gap")
					return
				}
			}
			switch {
			case startRe.MatchString(l.text):
				flush("event", 0)
				cur = &expT{run: []*cline{l}, full: l.text, joinRun: true}
			case cur != nil && contRe.MatchString(l.text) != c.Negate:
				cur.run = append(cur.run, l)
				cur.full += l.text
			default:
				flush("event", 0)
				exp = append(exp, expT{run: []*cline{l}, full: l.text})
			}
		}
		if cur != nil {
			flush("timeout", ls[len(ls)-1].end+toUs+slackUs)
		}
		got := obs[k]
		for i := range exp {
			e := &exp[i]
			if i >= len(got) {
				sig := ":event-missing"
				if e.joinRun && e.cause == "timeout" {
					sig = ":held-run-never-flushed"
				}
				o.Failf(P, pl+sig+sfx, "%s: expected event #%d (starting with %s, %d lines) never reached the output; got %d of %d events", where, i, e.run[0].tag, len(e.run), len(got), len(exp))
				return
			}
			g := got[i]
			if g.log != e.full {
				o.Failf(P, pl+":output-differs-from-model"+sfx, "%s: output #%d log %q, the reference model (k8s lines joined by start %q continue %q negate %v) expects %q", where, i, g.log, c.Start, c.Continue, c.Negate, e.full)
				return
			}
			gc := g.node.Clone()
			gc.Del("log")
			ok := false
			for _, l := range e.run {
				if vkit.DiffJ(k8sExpectedFields(c, k, l.lastChunk), gc, false) == "" {
					ok = true
				}
			}
			if !ok {
				o.Failf(P, pl+":event-fields-changed"+sfx, "%s: output #%d: fields other than log equal those of no line of the run: %s", where, i, g.doc)
				return
			}
			if e.joinRun && e.cause == "timeout" && g.atUs > e.deadline {
				o.Failf(P, pl+":held-run-flushed-later-than-time-out-bound"+sfx, "%s: output #%d out at %dus > bound %dus", where, i, g.atUs, e.deadline)
				return
			}
			if e.joinRun {
				joined++
				if len(e.run) > maxRun {
					maxRun = len(e.run)
				}
				if e.cause == "timeout" {
					timeoutCuts++
				}
			}
		}
		if len(got) > len(exp) {
			o.Failf(P, pl+":unexpected-event"+sfx, "%s: %d events expected, got %d; first extra: %s", where, len(exp), len(got), got[len(exp)].doc)
			return
		}
	}
	classify(c, o, maxRun, timeoutCuts, joined, 0, res)
}
