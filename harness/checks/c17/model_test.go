package c17

import (
	"regexp"
	"sort"
	"strings"
	"unicode/utf8"
)

// ---------------------------------------------------------------- configuration (JSON form = what a user writes)

type Rule struct {
	Values          []string `json:"values"`
	Mode            string   `json:"mode"` // prefix | contains | suffix
	CaseInsensitive bool     `json:"case_insensitive,omitempty"`
	Invert          bool     `json:"invert,omitempty"`
}

type RuleSet struct {
	Cond  string `json:"cond"` // and | or
	Rules []Rule `json:"rules"`
}

type MaskCfg struct {
	MatchRules    []RuleSet `json:"match_rules,omitempty"`
	Re            string    `json:"re,omitempty"`
	Groups        []int     `json:"groups,omitempty"`
	MaxCount      int       `json:"max_count,omitempty"`
	ReplaceWord   string    `json:"replace_word,omitempty"`
	CutValues     bool      `json:"cut_values,omitempty"`
	IgnoreFields  []string  `json:"ignore_fields,omitempty"`
	ProcessFields []string  `json:"process_fields,omitempty"`
	AppliedField  string    `json:"applied_field,omitempty"`
	AppliedValue  string    `json:"applied_value,omitempty"`
	MetricName    string    `json:"metric_name,omitempty"`
	MetricLabels  []string  `json:"metric_labels,omitempty"`
}

type PluginCfg struct {
	Masks            []MaskCfg `json:"masks"`
	MaskAppliedField string    `json:"mask_applied_field,omitempty"`
	MaskAppliedValue string    `json:"mask_applied_value,omitempty"`
	IgnoreFields     []string  `json:"ignore_fields,omitempty"`
	ProcessFields    []string  `json:"process_fields,omitempty"`
}

// ---------------------------------------------------------------- selectors

func renderSelector(path []string) string {
	parts := make([]string, len(path))
	for i, p := range path {
		parts[i] = strings.ReplaceAll(p, ".", `\.`)
	}
	return strings.Join(parts, ".")
}

// refParse: split at dots not preceded by a backslash, `\.` is a dot inside a name.
func refParse(sel string) []string {
	var out []string
	var cur strings.Builder
	for i := 0; i < len(sel); i++ {
		switch {
		case sel[i] == '\\' && i+1 < len(sel) && sel[i+1] == '.':
			cur.WriteByte('.')
			i++
		case sel[i] == '.':
			out = append(out, cur.String())
			cur.Reset()
		default:
			cur.WriteByte(sel[i])
		}
	}
	return append(out, cur.String())
}

// step of a leaf's position in the event.
type step struct {
	index bool
	name  string
}

// covers: the list element p addresses a field (object members only, as the
// README describes "json paths": `field.subfield` = member of an object value)
// and the leaf lies in that field's value ("all nested fields").
func covers(p []string, leaf []step) bool {
	if len(p) > len(leaf) {
		return false
	}
	for i, name := range p {
		if leaf[i].index || leaf[i].name != name {
			return false
		}
	}
	return true
}

func anyCovers(list [][]string, leaf []step) bool {
	for _, p := range list {
		if covers(p, leaf) {
			return true
		}
	}
	return false
}

// ---------------------------------------------------------------- match rules (naive)

// ruleMatch: lower-case the whole value and the rule values when the rule is
// case-insensitive, then prefix / suffix / contains against any value; invert.
func ruleMatch(r Rule, v string) bool {
	if r.CaseInsensitive {
		v = strings.ToLower(v)
	}
	ok := false
	for _, val := range r.Values {
		if r.CaseInsensitive {
			val = strings.ToLower(val)
		}
		switch r.Mode {
		case "prefix":
			ok = ok || strings.HasPrefix(v, val)
		case "suffix":
			ok = ok || strings.HasSuffix(v, val)
		default:
			ok = ok || strings.Contains(v, val)
		}
	}
	return ok != r.Invert
}

func ruleSetMatch(rs RuleSet, v string) bool {
	if len(rs.Rules) == 0 {
		return false
	}
	if rs.Cond == "or" {
		for _, r := range rs.Rules {
			if ruleMatch(r, v) {
				return true
			}
		}
		return false
	}
	for _, r := range rs.Rules {
		if !ruleMatch(r, v) {
			return false
		}
	}
	return true
}

// rulesOK: no rule sets = always; otherwise any rule set matches.
func rulesOK(sets []RuleSet, v string) bool {
	if len(sets) == 0 {
		return true
	}
	for _, rs := range sets {
		if ruleSetMatch(rs, v) {
			return true
		}
	}
	return false
}

// ---------------------------------------------------------------- one mask on one value

type maskModel struct {
	cfg MaskCfg
	re  *regexp.Regexp // nil when the mask has only match rules
}

const maxCandidates = 96

type rng struct{ s, e int }

// expand returns every output the property allows for input `in` when this
// mask's regexp is applied:
//
//	U = union of the selected groups' ranges over all matches. The output is
//	gap0 R1 gap1 … Rn gapn where the gaps are the input outside U, byte for
//	byte, and each Ri is replacement material for one connected piece of U:
//	 - cut_values: nothing;
//	 - piece made of pairwise disjoint ranges (the usual case, also adjacent
//	   groups): per range min(runes, max_count) asterisks / the replace word;
//	 - piece with nested ranges (weaker reading, the text does not say how
//	   nested groups combine): asterisks: one per character of the piece when
//	   max_count is 0, else 1..min(runes, max_count*ranges); replace word: 1..ranges times;
//	 - a selected group that matched the empty string: nothing, or (replace
//	   mode) the word inserted at that position.
//
// matched: the regexp matched at all; strong: some selected group covers at
// least one byte (a secret is there to hide).
func (m *maskModel) expand(in string) (outs []string, matched, strong, overflow bool) {
	idx := m.re.FindAllStringSubmatchIndex(in, -1)
	if len(idx) == 0 {
		return []string{in}, false, false, false
	}
	var rs []rng
	for _, mt := range idx {
		for _, g := range m.cfg.Groups {
			s, e := mt[2*g], mt[2*g+1]
			if s < 0 || e < 0 {
				continue
			}
			rs = append(rs, rng{s, e})
			if e > s {
				strong = true
			}
		}
	}
	sort.Slice(rs, func(i, j int) bool {
		if rs[i].s != rs[j].s {
			return rs[i].s < rs[j].s
		}
		return rs[i].e < rs[j].e
	})
	// connected pieces (overlapping or touching ranges)
	type piece struct {
		s, e int
		rs   []rng
	}
	var pieces []piece
	for _, r := range rs {
		if n := len(pieces); n > 0 && r.s <= pieces[n-1].e {
			p := &pieces[n-1]
			p.rs = append(p.rs, r)
			if r.e > p.e {
				p.e = r.e
			}
			continue
		}
		pieces = append(pieces, piece{r.s, r.e, []rng{r}})
	}
	stars := func(n int) string { return strings.Repeat("*", n) }
	options := func(p piece) []string {
		if m.cfg.CutValues {
			return []string{""}
		}
		disjoint := true
		for i := 1; i < len(p.rs); i++ {
			if p.rs[i].s < p.rs[i-1].e {
				disjoint = false
			}
		}
		if disjoint {
			opts := []string{""}
			for _, r := range p.rs {
				var ro []string
				switch {
				case m.cfg.ReplaceWord != "" && r.e > r.s:
					ro = []string{m.cfg.ReplaceWord}
				case m.cfg.ReplaceWord != "":
					ro = []string{"", m.cfg.ReplaceWord}
				default:
					n := utf8.RuneCountInString(in[r.s:r.e])
					if m.cfg.MaxCount > 0 && n > m.cfg.MaxCount {
						n = m.cfg.MaxCount
					}
					ro = []string{stars(n)}
				}
				var next []string
				for _, a := range opts {
					for _, b := range ro {
						next = append(next, a+b)
					}
				}
				opts = dedup(next)
				if len(opts) > maxCandidates {
					return nil
				}
			}
			return opts
		}
		// nested ranges
		n := len(p.rs)
		if m.cfg.ReplaceWord != "" {
			var opts []string
			for k := 1; k <= n; k++ {
				opts = append(opts, strings.Repeat(m.cfg.ReplaceWord, k))
			}
			return opts
		}
		runes := utf8.RuneCountInString(in[p.s:p.e])
		if m.cfg.MaxCount == 0 {
			return []string{stars(runes)}
		}
		hi := m.cfg.MaxCount * n
		if runes < hi {
			hi = runes
		}
		var opts []string
		for k := 1; k <= hi; k++ {
			opts = append(opts, stars(k))
		}
		return opts
	}
	outs = []string{""}
	pos := 0
	for _, p := range pieces {
		opts := options(p)
		if opts == nil || len(outs)*len(opts) > maxCandidates {
			return nil, true, strong, true
		}
		gap := in[pos:p.s]
		var next []string
		for _, a := range outs {
			for _, b := range opts {
				next = append(next, a+gap+b)
			}
		}
		outs = dedup(next)
		pos = p.e
	}
	for i := range outs {
		outs[i] += in[pos:]
	}
	return dedup(outs), true, strong, false
}

func dedup(in []string) []string {
	seen := map[string]bool{}
	var out []string
	for _, s := range in {
		if !seen[s] {
			seen[s] = true
			out = append(out, s)
		}
	}
	return out
}

// ---------------------------------------------------------------- which masks see a leaf

type listModel struct {
	globalIgnore, globalProcess [][]string
	maskIgnore, maskProcess     [][][]string
}

func parseList(l []string) [][]string {
	var out [][]string
	for _, s := range l {
		out = append(out, refParse(s))
	}
	return out
}

func newListModel(c PluginCfg) *listModel {
	lm := &listModel{globalIgnore: parseList(c.IgnoreFields), globalProcess: parseList(c.ProcessFields)}
	for _, m := range c.Masks {
		lm.maskIgnore = append(lm.maskIgnore, parseList(m.IgnoreFields))
		lm.maskProcess = append(lm.maskProcess, parseList(m.ProcessFields))
	}
	return lm
}

// sees: does mask i process the leaf? A mask's own list overrides the plugin's
// lists (README); ignore = everything but the listed fields and what is nested
// in them; process = only the listed fields and what is nested in them; no list
// at all = everything.
func (lm *listModel) sees(i int, leaf []step) bool {
	switch {
	case len(lm.maskIgnore[i]) > 0:
		return !anyCovers(lm.maskIgnore[i], leaf)
	case len(lm.maskProcess[i]) > 0:
		return anyCovers(lm.maskProcess[i], leaf)
	case len(lm.globalIgnore) > 0:
		return !anyCovers(lm.globalIgnore, leaf)
	case len(lm.globalProcess) > 0:
		return anyCovers(lm.globalProcess, leaf)
	}
	return true
}

// hasLists reports whether any list restricts mask i.
func (lm *listModel) hasLists(i int) bool {
	return len(lm.maskIgnore[i])+len(lm.maskProcess[i])+len(lm.globalIgnore)+len(lm.globalProcess) > 0
}

// ---------------------------------------------------------------- all masks on one leaf

type stageVal struct {
	text    string
	touched bool // some mask's regexp matched on the way (a number may have become a string)
}

type leafResult struct {
	vals     []stageVal
	must     []bool // per mask: it certainly applied here
	may      []bool // per mask: it may have applied here
	overflow bool
	excluded []bool // per mask: kept away by lists although its regexp matches the value
}

// leafModel applies the masks in configuration order, each on the result of
// the previous ones (the plugin documents this in processMask).
//
// Weaker readings taken:
//   - match rules are evaluated either on the original value (what the plugin
//     does) or on the value as left by earlier masks; where the two differ both
//     outcomes are allowed;
//   - "mask matched" (applied marks): certainly = rules hold and a selected
//     group covers >= 1 byte (or the mask has no regexp and its rules hold on a
//     non-empty value); possibly = rules hold and the regexp matches at all;
//   - an empty value is never certainly matched (the plugin skips empty values).
func leafModel(ms []*maskModel, lm *listModel, leaf []step, orig string) leafResult {
	return leafModelForced(ms, lm, leaf, orig, nil)
}

// leafModelForced: force[i] = +1 applies mask i whatever its lists and rules
// say, -1 skips it, 0 follows the model. Forcing is used only to diagnose a
// failure (which decision of the plugin differs), never to accept a result.
func leafModelForced(ms []*maskModel, lm *listModel, leaf []step, orig string, force []int8) leafResult {
	res := leafResult{vals: []stageVal{{orig, false}}, must: make([]bool, len(ms)), may: make([]bool, len(ms)), excluded: make([]bool, len(ms))}
	for i, m := range ms {
		forced := int8(0)
		if force != nil {
			forced = force[i]
		}
		if forced < 0 || (forced == 0 && !lm.sees(i, leaf)) {
			if m.re != nil && m.re.MatchString(orig) && rulesOK(m.cfg.MatchRules, orig) {
				res.excluded[i] = true
			}
			continue
		}
		ruleOrig := rulesOK(m.cfg.MatchRules, orig) || forced > 0
		must := true
		may := false
		var next []stageVal
		for _, v := range res.vals {
			ruleCur := rulesOK(m.cfg.MatchRules, v.text) || forced > 0
			for _, rule := range []bool{ruleOrig, ruleCur} {
				if !rule {
					must = false
					next = append(next, v)
					continue
				}
				if m.re == nil {
					may = true
					next = append(next, v)
					continue
				}
				outs, matched, strong, overflow := m.expand(v.text)
				if overflow {
					res.overflow = true
					return res
				}
				if matched {
					may = true
				}
				if !strong {
					must = false
				}
				for _, o := range outs {
					next = append(next, stageVal{o, v.touched || matched})
				}
			}
		}
		if orig == "" {
			must = false
		}
		res.must[i], res.may[i] = must, may
		// dedup
		seen := map[stageVal]bool{}
		res.vals = res.vals[:0]
		for _, v := range next {
			if !seen[v] {
				seen[v] = true
				res.vals = append(res.vals, v)
			}
		}
		if len(res.vals) > maxCandidates {
			res.overflow = true
			return res
		}
	}
	return res
}
