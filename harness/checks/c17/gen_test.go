package c17

import (
	"encoding/json"
	"fmt"
	"regexp"
	"strings"
	"unicode/utf8"

	"github.com/ozontech/file.d/zzverif/vkit"
	"pgregory.net/rapid"
)

// Case: a mask plugin configuration and one event. Twice = the same plugin
// instance processes the event text a second time (fresh root), as instances
// live for many events and reuse their buffers.
type Case struct {
	Cfg   PluginCfg `json:"cfg"`
	Doc   string    `json:"doc"`
	Twice bool      `json:"twice,omitempty"`
	// Warm: before the event, the same instance processes a copy of it that carries every
	// field a metric label is read from (an earlier event of another service).
	Warm bool `json:"warm,omitempty"`
}

// ---------------------------------------------------------------- regexp grammar with a sampler

type reNode struct {
	kind byte // 'l' literal, 'c' class, 'g' capture group, 'n' non-capturing, 's' sequence, 'a' alternation, 'q' quantified
	lit  string
	cls  int
	kids []*reNode
	q    string
	min  int
	max  int
}

type reClass struct {
	re      string
	samples []string
}

var classes = []reClass{
	{`\d`, []string{"1", "2", "7", "0"}},
	{`\w`, []string{"a", "Z", "5", "_"}},
	{`[a-c]`, []string{"a", "b", "c"}},
	{`.`, []string{"a", " ", "é", "-", "日"}},
	{`[^ ]`, []string{"x", "é", "1"}},
	{`\D`, []string{"a", "-", " ", "é"}},
	{`\s`, []string{" ", "\t"}},
	{`\pL`, []string{"a", "é", "日", "Я"}},
	{`[é日]`, []string{"é", "日"}},
}

var literals = []string{"a", "b", "c", "ab", "x", "y", "1", "-", "é", "日", "=", "@", "tok", " ", "*", "."}

type quant struct {
	q        string
	min, max int
}

var quants = []quant{{"?", 0, 1}, {"*", 0, 3}, {"+", 1, 3}, {"{1,3}", 1, 3}, {"{2}", 2, 2}, {"*?", 0, 2}, {"+?", 1, 2}, {"??", 0, 1}}

type reGen struct {
	t      *rapid.T
	groups int
	nodes  int // size budget: regexps stay readable and shrink well
}

func (g *reGen) atom(label string) *reNode {
	if rapid.Bool().Draw(g.t, label+"/iscls") {
		return &reNode{kind: 'c', cls: rapid.IntRange(0, len(classes)-1).Draw(g.t, label+"/cls")}
	}
	return &reNode{kind: 'l', lit: rapid.SampledFrom(literals).Draw(g.t, label+"/lit")}
}

func (g *reGen) maybeQuant(label string, n *reNode, pct int) *reNode {
	if rapid.IntRange(0, 99).Draw(g.t, label+"/q?") < pct {
		q := rapid.SampledFrom(quants).Draw(g.t, label+"/q")
		return &reNode{kind: 'q', kids: []*reNode{n}, q: q.q, min: q.min, max: q.max}
	}
	return n
}

func (g *reGen) seq(label string, depth int) *reNode {
	n := rapid.IntRange(1, 3).Draw(g.t, label+"/len")
	s := &reNode{kind: 's'}
	for i := 0; i < n; i++ {
		l := fmt.Sprintf("%s/%d", label, i)
		k := rapid.IntRange(0, 9).Draw(g.t, l+"/kind")
		g.nodes++
		if g.nodes > 9 {
			k = 9
		}
		switch {
		case k < 4 && depth < 3 && g.groups < 5:
			g.groups++
			s.kids = append(s.kids, g.maybeQuant(l, &reNode{kind: 'g', kids: []*reNode{g.alt(l, depth+1)}}, 30))
		case k < 5 && depth < 3:
			s.kids = append(s.kids, g.maybeQuant(l, &reNode{kind: 'n', kids: []*reNode{g.alt(l, depth+1)}}, 50))
		default:
			s.kids = append(s.kids, g.maybeQuant(l, g.atom(l), 35))
		}
	}
	return s
}

func (g *reGen) alt(label string, depth int) *reNode {
	n := 1
	if g.nodes <= 9 && rapid.IntRange(0, 9).Draw(g.t, label+"/alt?") < 3 {
		n = rapid.IntRange(2, 3).Draw(g.t, label+"/nalt")
	}
	if n == 1 {
		return g.seq(label, depth)
	}
	a := &reNode{kind: 'a'}
	for i := 0; i < n; i++ {
		if rapid.IntRange(0, 9).Draw(g.t, fmt.Sprintf("%s/empty%d", label, i)) == 0 {
			a.kids = append(a.kids, &reNode{kind: 's'}) // empty alternative
			continue
		}
		a.kids = append(a.kids, g.seq(fmt.Sprintf("%s|%d", label, i), depth))
	}
	return a
}

func (n *reNode) render(sb *strings.Builder) {
	switch n.kind {
	case 'l':
		sb.WriteString(regexp.QuoteMeta(n.lit))
	case 'c':
		sb.WriteString(classes[n.cls].re)
	case 'g':
		sb.WriteByte('(')
		n.kids[0].render(sb)
		sb.WriteByte(')')
	case 'n':
		sb.WriteString("(?:")
		n.kids[0].render(sb)
		sb.WriteByte(')')
	case 's':
		for _, k := range n.kids {
			if k.kind == 'a' {
				sb.WriteString("(?:")
				k.render(sb)
				sb.WriteByte(')')
			} else {
				k.render(sb)
			}
		}
	case 'a':
		for i, k := range n.kids {
			if i > 0 {
				sb.WriteByte('|')
			}
			k.render(sb)
		}
	case 'q':
		k := n.kids[0]
		if (k.kind == 'l' && utf8.RuneCountInString(k.lit) > 1) || k.kind == 's' || k.kind == 'a' || k.kind == 'q' {
			sb.WriteString("(?:")
			k.render(sb)
			sb.WriteByte(')')
		} else {
			k.render(sb)
		}
		sb.WriteString(n.q)
	}
}

// sample draws a string of the node's language (so that events contain text the regexp matches).
func (n *reNode) sample(t *rapid.T, label string, sb *strings.Builder) {
	switch n.kind {
	case 'l':
		sb.WriteString(n.lit)
	case 'c':
		sb.WriteString(rapid.SampledFrom(classes[n.cls].samples).Draw(t, label+"/cs"))
	case 'g', 'n':
		n.kids[0].sample(t, label, sb)
	case 's':
		for i, k := range n.kids {
			k.sample(t, fmt.Sprintf("%s.%d", label, i), sb)
		}
	case 'a':
		n.kids[rapid.IntRange(0, len(n.kids)-1).Draw(t, label+"/alt")].sample(t, label, sb)
	case 'q':
		c := rapid.IntRange(n.min, n.max).Draw(t, label+"/rep")
		for i := 0; i < c; i++ {
			n.kids[0].sample(t, fmt.Sprintf("%s#%d", label, i), sb)
		}
	}
}

type reTemplate struct {
	re      string
	samples []string
}

// shapes named in the property text and realistic masks from the README.
var templates = []reTemplate{
	{`\b(\d{1,4})\D?(\d{1,4})\D?(\d{1,4})\D?(\d{1,4})\b`, []string{"4111 1111 1111 1111", "1234-5678-9012-3456", "12345678"}},
	{`(a(b))`, []string{"ab", "abab"}},
	{`(a)|(b)`, []string{"a", "b", "ab"}},
	{`(a)(b)`, []string{"ab"}},
	{`x(a)?y`, []string{"xy", "xay"}},
	{`(a*)`, []string{"aaa", "b", "baab"}},
	{`(?:(a)|(b))+`, []string{"ba", "ab", "aab"}},
	{`token=(\S+)`, []string{"token=abc", "token=é1"}},
	{`([^ @]+)@([a-z]+)`, []string{"u@host", "é@h"}},
	{`(?i)(secret)`, []string{"SECRET", "Secret", "secret"}},
	{`(é+)`, []string{"éé", "aéb"}},
	{`(.)`, []string{"日", "ab"}},
	{`()`, []string{"a"}},
	{`(a|)b`, []string{"ab", "b"}},
	{`(\d+)`, []string{"1234", "7"}},
	{`((\d)(\d))`, []string{"12", "1234"}},
	{`(a(b)?)`, []string{"a", "ab"}},
	{`(日本)(語)?`, []string{"日本語", "日本"}},
	{`(\d)(\d)?(\d)?`, []string{"1", "12", "123"}},
	{`(x)(y)*(z)`, []string{"xz", "xyz", "xyyz"}},
}

type genMask struct {
	cfg     MaskCfg
	samples []string
	rules   int // 0 none, 1 match rules + regexp, 2 match rules only
}

var ruleValues = []string{"a", "ab", "tok", "token=", "SECRET", "secret", "Err", "err", "1", "12", "é", "É", "日", "", " ", "x", "xy", "İ", "K", "ſ"}

func genRules(t *rapid.T, label string, samples []string) []RuleSet {
	var sets []RuleSet
	n := rapid.IntRange(1, 2).Draw(t, label+"/nsets")
	for i := 0; i < n; i++ {
		rs := RuleSet{Cond: rapid.SampledFrom([]string{"and", "or"}).Draw(t, fmt.Sprintf("%s/cond%d", label, i))}
		nr := rapid.IntRange(1, 2).Draw(t, fmt.Sprintf("%s/nrules%d", label, i))
		for j := 0; j < nr; j++ {
			l := fmt.Sprintf("%s/r%d.%d", label, i, j)
			r := Rule{Mode: rapid.SampledFrom([]string{"prefix", "contains", "suffix"}).Draw(t, l+"/mode"),
				CaseInsensitive: rapid.IntRange(0, 2).Draw(t, l+"/ci") == 0, Invert: rapid.IntRange(0, 3).Draw(t, l+"/inv") == 0}
			nv := rapid.IntRange(1, 2).Draw(t, l+"/nv")
			for k := 0; k < nv; k++ {
				if len(samples) > 0 && rapid.Bool().Draw(t, fmt.Sprintf("%s/fromsample%d", l, k)) {
					// a piece of a sample, so that the rule relates to the event's values
					s := []rune(rapid.SampledFrom(samples).Draw(t, fmt.Sprintf("%s/sv%d", l, k)))
					if len(s) > 0 {
						a := rapid.IntRange(0, len(s)-1).Draw(t, fmt.Sprintf("%s/sa%d", l, k))
						b := rapid.IntRange(a+1, len(s)).Draw(t, fmt.Sprintf("%s/sb%d", l, k))
						v := string(s[a:b])
						switch rapid.IntRange(0, 3).Draw(t, fmt.Sprintf("%s/case%d", l, k)) {
						case 2:
							v = strings.ToUpper(v)
						case 3:
							v = strings.ToLower(v)
						}
						r.Values = append(r.Values, v)
						continue
					}
				}
				r.Values = append(r.Values, rapid.SampledFrom(ruleValues).Draw(t, fmt.Sprintf("%s/v%d", l, k)))
			}
			rs.Rules = append(rs.Rules, r)
		}
		sets = append(sets, rs)
	}
	return sets
}

func genOneMask(t *rapid.T, i int) genMask {
	l := fmt.Sprintf("m%d", i)
	var gm genMask
	var re string
	// NB rapid's integer draws favour small values: common choices sit at the low end of every range
	if rapid.IntRange(0, 9).Draw(t, l+"/tmpl") >= 5 {
		tp := rapid.SampledFrom(templates).Draw(t, l+"/template")
		re = tp.re
		gm.samples = append(gm.samples, rapid.SampledFrom(tp.samples).Draw(t, l+"/ts"))
		if rapid.Bool().Draw(t, l+"/ts2?") {
			gm.samples = append(gm.samples, rapid.SampledFrom(tp.samples).Draw(t, l+"/ts2"))
		}
	} else {
		g := &reGen{t: t}
		root := g.alt(l+"/re", 0)
		var sb strings.Builder
		root.render(&sb)
		re = sb.String()
		if g.groups == 0 {
			re = "(" + re + ")"
		}
		ns := rapid.IntRange(1, 2).Draw(t, l+"/nsamples")
		for k := 0; k < ns; k++ {
			var s strings.Builder
			root.sample(t, fmt.Sprintf("%s/s%d", l, k), &s)
			gm.samples = append(gm.samples, s.String())
		}
	}
	gm.cfg.Re = re
	num := 0
	if cre, err := regexp.Compile(re); err == nil {
		num = cre.NumSubexp()
	}
	// groups: any subset, any order
	pool := make([]int, 0, num+1)
	for g := 1; g <= num; g++ {
		pool = append(pool, g)
	}
	if rapid.IntRange(0, 7).Draw(t, l+"/zero") == 6 || num == 0 {
		pool = append(pool, 0)
	}
	perm := rapid.Permutation(pool).Draw(t, l+"/gperm")
	ng := rapid.IntRange(1, min(len(perm), max(1, num), 4)).Draw(t, l+"/ng")
	gm.cfg.Groups = append([]int{}, perm[:ng]...)
	switch rapid.IntRange(0, 39).Draw(t, l+"/badgroups") {
	case 37:
		gm.cfg.Groups = append(gm.cfg.Groups, gm.cfg.Groups[0]) // duplicate
	case 38:
		gm.cfg.Groups = append(gm.cfg.Groups, num+1) // out of range
	}
	// mode
	switch rapid.IntRange(0, 9).Draw(t, l+"/mode") {
	case 2, 3:
		gm.cfg.MaxCount = rapid.IntRange(1, 3).Draw(t, l+"/max")
	case 4, 5, 6:
		gm.cfg.ReplaceWord = rapid.SampledFrom([]string{"***", "X", "<hidden>", "é", "a", "*", " "}).Draw(t, l+"/word")
	case 7, 8, 9:
		gm.cfg.CutValues = true
	}
	switch rapid.IntRange(0, 59).Draw(t, l+"/badmode") {
	case 57:
		gm.cfg.ReplaceWord, gm.cfg.MaxCount = "X", 2
	case 58:
		gm.cfg.ReplaceWord, gm.cfg.CutValues = "X", true
	}
	switch rapid.IntRange(0, 9).Draw(t, l+"/rules") {
	case 5, 6, 7:
		gm.rules = 1
	case 8:
		gm.rules = 2
		gm.cfg.Re, gm.cfg.Groups = "", nil
		gm.cfg.MaxCount, gm.cfg.ReplaceWord, gm.cfg.CutValues = 0, "", false
	}
	if rapid.Bool().Draw(t, l+"/af") {
		gm.cfg.AppliedField = fmt.Sprintf("applied_m%d", i)
		gm.cfg.AppliedValue = rapid.SampledFrom([]string{"yes", "", "a\"b", "1234"}).Draw(t, l+"/av")
	}
	if rapid.IntRange(0, 2).Draw(t, l+"/metric") == 0 {
		gm.cfg.MetricName = fmt.Sprintf("m%d_total", i)
		// the series of the metric is chosen by fields of the event ("not_set" when a field is absent)
		switch rapid.IntRange(0, 3).Draw(t, l+"/metric_labels") {
		case 1:
			gm.cfg.MetricLabels = []string{rapid.SampledFrom(metricLabelPool).Draw(t, l+"/metric_label")}
		case 2:
			gm.cfg.MetricLabels = []string{"level", "user"}
		}
	}
	return gm
}

// ---------------------------------------------------------------- events and lists

var metricLabelPool = []string{"level", "user", "a", "trace_id", "svc"}
var docKeys = []string{"a", "b", "c", "message", "user", "trace_id", "data", "x.y", "list", "é", "level"}
var contextPieces = []string{"", " ", "-", "id=", " end", "é", "x", "a", "1", "日", "*", "\"", "\n", "pre ", "K", "İ", "ſ", "É", "Tok", "SECRET "}
var numberPool = []string{"12", "1234", "-7", "0.5", "1e3", "-0", "12345678901234567890", "4111", "7"}

func isNumberLiteral(s string) bool {
	if s == "" || len(s) > 20 {
		return false
	}
	var n json.Number
	return json.Unmarshal([]byte(s), &n) == nil && !strings.ContainsAny(s, " \t\n\"")
}

func gen(t *rapid.T) Case {
	var c Case
	nm := rapid.IntRange(1, 3).Draw(t, "nmasks")
	var samples []string
	var wantRules []int
	for i := 0; i < nm; i++ {
		gm := genOneMask(t, i)
		c.Cfg.Masks = append(c.Cfg.Masks, gm.cfg)
		samples = append(samples, gm.samples...)
		wantRules = append(wantRules, gm.rules)
	}
	if len(samples) == 0 {
		samples = []string{"secret"}
	}
	// the event's secrets: samples, some with context around them
	pool := append([]string{}, samples...)
	for i, s := range samples {
		if rapid.Bool().Draw(t, fmt.Sprintf("ctx%d", i)) {
			pool = append(pool, rapid.SampledFrom(contextPieces).Draw(t, fmt.Sprintf("ctxa%d", i))+s+rapid.SampledFrom(contextPieces).Draw(t, fmt.Sprintf("ctxb%d", i)))
		}
		if rapid.IntRange(0, 3).Draw(t, fmt.Sprintf("dbl%d", i)) == 0 {
			pool = append(pool, s+" "+rapid.SampledFrom(samples).Draw(t, fmt.Sprintf("dbls%d", i)))
		}
	}
	for i, r := range wantRules {
		if r > 0 {
			c.Cfg.Masks[i].MatchRules = genRules(t, fmt.Sprintf("m%d/mr", i), pool)
		}
	}
	var nums []string
	for _, s := range pool {
		if isNumberLiteral(s) {
			nums = append(nums, s)
		}
	}
	nums = append(nums, numberPool...)
	scalars := func(t *rapid.T, label string) *vkit.JNode {
		switch k := rapid.IntRange(0, 19).Draw(t, label+"/sk"); {
		case k < 10:
			return vkit.JStr(rapid.SampledFrom(pool).Draw(t, label+"/secret"))
		case k < 14:
			return vkit.JNum(rapid.SampledFrom(nums).Draw(t, label+"/num"))
		case k < 17:
			return vkit.JStr(vkit.GenText(t, label+"/txt", &vkit.TextOpts{Pool: pool}))
		case k == 17:
			return vkit.JStr("")
		case k == 18:
			return vkit.JNull()
		default:
			return vkit.JBool(rapid.Bool().Draw(t, label+"/b"))
		}
	}
	o := &vkit.TreeOpts{MaxDepth: rapid.IntRange(1, 3).Draw(t, "depth"), MaxWidth: rapid.IntRange(2, 5).Draw(t, "width"), Keys: docKeys, Scalars: scalars}
	doc := vkit.GenObject(t, "doc", o, 0)
	if len(doc.Keys) < 2 {
		doc.Set("message", scalars(t, "doc.message0"))
		doc.Set("trace_id", scalars(t, "doc.trace0"))
	}
	c.Doc = doc.Encode()

	// field paths (object members only; a list element cannot address array items)
	var fieldPaths [][]string
	var walk func(n *vkit.JNode, path []string)
	walk = func(n *vkit.JNode, path []string) {
		if n.Kind != 'o' {
			return
		}
		for i, k := range n.Keys {
			p := append(append([]string{}, path...), k)
			fieldPaths = append(fieldPaths, p)
			walk(n.Vals[i], p)
		}
	}
	walk(doc, nil)
	var listed [][]string
	genList := func(label string) []string {
		n := rapid.IntRange(1, 3).Draw(t, label+"/n")
		var out []string
		for i := 0; i < n; i++ {
			l := fmt.Sprintf("%s/%d", label, i)
			var p, twinAfter []string
			switch k := rapid.IntRange(0, 9).Draw(t, l+"/kind"); {
			case k < 2 && len(listed) > 0: // related to a path of another list: the same, a prefix, or a descendant
				base := rapid.SampledFrom(listed).Draw(t, l+"/base")
				var rel [][]string
				for _, fp := range fieldPaths {
					if (len(fp) > len(base) && hasPrefix(fp, base)) || (len(fp) < len(base) && hasPrefix(base, fp)) {
						rel = append(rel, fp)
					}
				}
				if len(rel) > 0 {
					p = rapid.SampledFrom(rel).Draw(t, l+"/rel")
				} else {
					p = base
				}
			case k < 8:
				p = rapid.SampledFrom(fieldPaths).Draw(t, l+"/path")
			case k < 9:
				// a nested path together with a single KEY that spells one of its prefixes with literal dots
				// ("meta\\.labels" next to "meta.labels.trace"): different fields with the same dotted text
				var deep [][]string
				for _, fp := range fieldPaths {
					if len(fp) >= 2 {
						deep = append(deep, fp)
					}
				}
				if len(deep) == 0 {
					p = rapid.SampledFrom(fieldPaths).Draw(t, l+"/path")
					break
				}
				p = rapid.SampledFrom(deep).Draw(t, l+"/deep_path")
				j := len(p)
				if len(p) >= 3 {
					j = rapid.IntRange(2, len(p)-1).Draw(t, l+"/twin_len")
				}
				twin := []string{strings.Join(p[:j], ".")}
				if rapid.Bool().Draw(t, l+"/twin_first") {
					listed = append(listed, twin)
					out = append(out, renderSelector(twin))
				} else {
					twinAfter = twin
				}
			default: // not in the event
				if rapid.Bool().Draw(t, l+"/deep") {
					p = append(append([]string{}, rapid.SampledFrom(fieldPaths).Draw(t, l+"/under")...), "nope")
				} else {
					p = []string{rapid.SampledFrom([]string{"nope", "messag", "messages", "A"}).Draw(t, l+"/nope")}
				}
			}
			listed = append(listed, p)
			out = append(out, renderSelector(p))
			if twinAfter != nil {
				listed = append(listed, twinAfter)
				out = append(out, renderSelector(twinAfter))
			}
		}
		return out
	}
	switch k := rapid.IntRange(0, 19).Draw(t, "glist"); {
	case k < 3:
	case k < 11:
		c.Cfg.IgnoreFields = genList("gignore")
	case k < 18:
		c.Cfg.ProcessFields = genList("gprocess")
	case k > 18:
		c.Cfg.ProcessFields = genList("gprocess")
	default:
		c.Cfg.IgnoreFields = genList("gignore")
		c.Cfg.ProcessFields = genList("gprocess")
	}
	for i := range c.Cfg.Masks {
		l := fmt.Sprintf("mlist%d", i)
		switch k := rapid.IntRange(0, 29).Draw(t, l); {
		case k < 8:
		case k < 18:
			c.Cfg.Masks[i].IgnoreFields = genList(l + "/ignore")
		case k < 28:
			c.Cfg.Masks[i].ProcessFields = genList(l + "/process")
		case k > 28:
		default:
			c.Cfg.Masks[i].IgnoreFields = genList(l + "/ignore")
			c.Cfg.Masks[i].ProcessFields = genList(l + "/process")
		}
	}
	if rapid.Bool().Draw(t, "maf") {
		c.Cfg.MaskAppliedField = "mask_applied"
		c.Cfg.MaskAppliedValue = rapid.SampledFrom([]string{"true", "", "é\n"}).Draw(t, "mav")
	}
	c.Twice = rapid.IntRange(0, 3).Draw(t, "twice") == 0
	for _, m := range c.Cfg.Masks {
		if len(m.MetricLabels) > 0 {
			c.Warm = rapid.Bool().Draw(t, "warm")
			break
		}
	}
	return c
}

func hasPrefix(p, prefix []string) bool {
	if len(p) < len(prefix) {
		return false
	}
	for i := range prefix {
		if p[i] != prefix[i] {
			return false
		}
	}
	return true
}
