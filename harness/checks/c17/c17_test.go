// Package c17 decides C17 — mask hides every matched secret and touches nothing
// else — black-box: the plugin comes from the registry, its config is the JSON a
// user writes and goes through pipeline.GetConfig + Start (so only
// configurations the plugin's own validation accepts are exercised), Do() is
// driven directly on events decoded from generated JSON text.
package c17

import (
	"encoding/json"
	"fmt"
	"regexp"
	"strings"
	"testing"

	"github.com/ozontech/file.d/fd"
	"github.com/ozontech/file.d/metric"
	"github.com/ozontech/file.d/pipeline"
	_ "github.com/ozontech/file.d/plugin/action/mask"
	"github.com/ozontech/file.d/zzverif/fdkit"
	"github.com/ozontech/file.d/zzverif/vkit"
	insaneJSON "github.com/ozontech/insane-json"
	"github.com/prometheus/client_golang/prometheus"
)

const P = "C17"

const pluginMetric = "mask_applied_total" // default of applied_metric_name

func TestMain(m *testing.M)   { fdkit.InstallLogger(); vkit.Main(m) }
func TestReplay(t *testing.T) { vkit.Replay(t) }

// plainlyValid: true only for configurations no reading of the README can call
// wrong; only for those a rejection by the plugin is a failure. (Rejections of
// anything else are the plugin's right and are just counted.)
func plainlyValid(c PluginCfg) (bool, []*maskModel) {
	ok := len(c.Masks) > 0
	if len(c.IgnoreFields) > 0 && len(c.ProcessFields) > 0 {
		ok = false
	}
	var ms []*maskModel
	for _, m := range c.Masks {
		mm := &maskModel{cfg: m}
		if m.Re != "" {
			re, err := regexp.Compile(m.Re)
			if err != nil {
				return false, nil
			}
			mm.re = re
			seen := map[int]bool{}
			for _, g := range m.Groups {
				if g < 0 || g > re.NumSubexp() || seen[g] {
					return false, nil
				}
				seen[g] = true
			}
			// the plugin refuses more group numbers than the regexp has capture groups
			// (so [0] needs at least one capture group) — a configuration rule, not judged here
			if len(m.Groups) == 0 || len(m.Groups) > re.NumSubexp() {
				ok = false
			}
		} else if len(m.MatchRules) == 0 || len(m.Groups) > 0 {
			ok = false
		}
		if m.ReplaceWord != "" && (m.MaxCount > 0 || m.CutValues) {
			ok = false
		}
		if len(m.IgnoreFields) > 0 && len(m.ProcessFields) > 0 {
			ok = false
		}
		for _, rs := range m.MatchRules {
			if len(rs.Rules) == 0 {
				ok = false
			}
			for _, r := range rs.Rules {
				if len(r.Values) == 0 {
					ok = false
				}
			}
		}
		if m.MetricName == pluginMetric {
			ok = false
		}
		ms = append(ms, mm)
	}
	return ok, ms
}

// shortStack keeps the file.d frames of a stack trace.
func shortStack(stack string) string {
	lines := strings.Split(stack, "\n")
	var out []string
	for i := 0; i+1 < len(lines); i++ {
		if strings.HasPrefix(lines[i], "github.com/ozontech/file.d/") && !strings.Contains(lines[i], "/zzverif/") {
			out = append(out, lines[i], lines[i+1])
		}
	}
	return strings.Join(out, "\n")
}

func firstFileDFrame(stack string) string {
	for _, line := range strings.Split(stack, "\n") {
		if strings.HasPrefix(line, "github.com/ozontech/file.d/") && !strings.Contains(line, "/zzverif/") {
			f := strings.TrimPrefix(line, "github.com/ozontech/file.d/")
			if i := strings.LastIndex(f, "("); i > 0 {
				f = f[:i]
			}
			return f
		}
	}
	return "unknown"
}

func counterSum(reg *prometheus.Registry, name string) float64 {
	mfs, err := reg.Gather()
	if err != nil {
		return -1
	}
	total := 0.0
	for _, mf := range mfs {
		if strings.HasSuffix(mf.GetName(), "_"+name) {
			for _, m := range mf.GetMetric() {
				total += m.GetCounter().GetValue()
			}
		}
	}
	return total
}

// counterSeries returns the value of every series of a counter, keyed by its label pairs.
func counterSeries(reg *prometheus.Registry, name string) map[string]float64 {
	out := map[string]float64{}
	mfs, err := reg.Gather()
	if err != nil {
		return out
	}
	for _, mf := range mfs {
		if strings.HasSuffix(mf.GetName(), "_"+name) {
			for _, m := range mf.GetMetric() {
				var sb strings.Builder
				for _, lp := range m.GetLabel() {
					fmt.Fprintf(&sb, "%s=%q;", lp.GetName(), lp.GetValue())
				}
				out[sb.String()] += m.GetCounter().GetValue()
			}
		}
	}
	return out
}

// warmDoc is the event with every field a mask metric label is read from set to a value of its own.
func warmDoc(c Case, doc *vkit.JNode) string {
	w := doc.Clone()
	for _, m := range c.Cfg.Masks {
		for _, l := range m.MetricLabels {
			if w.Get(l) == nil {
				w.Set(l, &vkit.JNode{Kind: 's', Str: "warm-" + l})
			}
		}
	}
	return w.Encode()
}

func run(c Case) *vkit.Outcome {
	o := vkit.NewOutcome()
	doc, err := vkit.ParseJSON([]byte(c.Doc))
	if err != nil || doc.Kind != 'o' {
		o.Class("generator-produced-invalid-doc")
		return o
	}
	valid, ms := plainlyValid(c.Cfg)

	// ---- configure through the path real configs take
	info, err := fd.DefaultPluginRegistry.Get(pipeline.PluginKindAction, "mask")
	if err != nil {
		panic(err)
	}
	cj, _ := json.Marshal(c.Cfg)
	reject := func(why string) *vkit.Outcome {
		o.Class("config-rejected")
		short := why
		if i := strings.IndexAny(short, "{[\""); i > 0 {
			short = short[:i]
		}
		if len(short) > 60 {
			short = short[:60]
		}
		o.Class("rejected: " + short)
		if valid {
			o.Failf(P, "valid-config-rejected", "configuration %s rejected: %s", cj, why)
		}
		return o
	}
	config, cerr := pipeline.GetConfig(info, cj, map[string]int{"capacity": 64, "gomaxprocs": 1})
	if cerr != nil {
		return reject("GetConfig: " + cerr.Error())
	}
	plug, _ := info.Factory()
	ap := plug.(pipeline.ActionPlugin)
	reg := prometheus.NewRegistry()
	params := &pipeline.ActionPluginParams{
		PluginDefaultParams: pipeline.PluginDefaultParams{PipelineName: "c17", PipelineSettings: fdkit.DefaultSettings(), MetricCtl: metric.NewCtl("c17", reg, 0, 0)},
		Logger:              fdkit.NewLogger().Sugar(),
	}
	if rec, stack := fdkit.CatchPanic(func() { ap.Start(config, params) }); rec != nil {
		if fp, ok := rec.(fdkit.FatalPanic); ok {
			return reject("Start: " + fp.Msg)
		}
		o.Failf(P, "start-panics:"+firstFileDFrame(stack), "Start panicked on %s: %v\n%s", cj, rec, shortStack(stack))
		return o
	}
	defer ap.Stop()
	if !valid || ms == nil {
		// accepted although not plainly valid: meaning not defined by the README, not judged
		o.Class("questionable-config-accepted")
		return o
	}
	o.Class("config-accepted")

	// reserved names must not collide with event fields (replay files could violate this)
	reserved := map[string]int{}
	if c.Cfg.MaskAppliedField != "" {
		reserved[c.Cfg.MaskAppliedField] = -1
	}
	for i, m := range c.Cfg.Masks {
		if m.AppliedField != "" {
			if _, dup := reserved[m.AppliedField]; dup {
				o.Class("applied-field-names-collide-skipped")
				return o
			}
			reserved[m.AppliedField] = i
		}
	}
	for _, k := range doc.Keys {
		if _, clash := reserved[k]; clash {
			o.Class("applied-field-names-collide-skipped")
			return o
		}
	}

	lm := newListModel(c.Cfg)
	rounds := 1
	if c.Twice {
		rounds = 2
		o.Class("instance-reused")
	}
	var st caseStats
	if c.Warm {
		o.Class("earlier-event-carried-the-metric-label-fields")
		wroot, werr := fdkit.NewRoot(warmDoc(c, doc))
		if werr == nil {
			if rec, stack := fdkit.CatchPanic(func() { ap.Do(&pipeline.Event{Root: wroot}) }); rec != nil {
				insaneJSON.Release(wroot)
				o.Failf(P, "do-panics:"+firstFileDFrame(stack), "Do panicked on the earlier event: %v\nconfig %s\nevent %s\n%s", rec, cj, warmDoc(c, doc), shortStack(stack))
				return o
			}
			insaneJSON.Release(wroot)
		}
	}
	for round := 0; round < rounds && !o.Failed(); round++ {
		checkEvent(o, c, cj, doc, ms, lm, ap, reg, round, &st)
	}
	if o.Failed() {
		return o
	}

	// ---- classes and non-triviality
	if st.strongProcessed {
		o.Class("match-in-processed-field")
	}
	if st.excludedMatch {
		o.Class("matching-value-in-ignored-field")
	}
	if st.strongProcessed && st.sameSecretExcluded {
		o.Class("same-secret-processed-and-ignored")
		o.Nontrivial(P)
	}
	for _, l := range st.labels() {
		o.Class(l)
	}
	if st.labelledSeriesMoved {
		o.Class("labelled-mask-metric-moved")
		if c.Warm {
			o.Class("labelled-mask-metric-moved-after-an-earlier-event-with-the-label-fields")
		}
	}
	return o
}

type caseStats struct {
	labelledSeriesMoved bool
	strongProcessed    bool
	excludedMatch      bool
	sameSecretExcluded bool
	multibyteMasked    bool
	numberMasked       bool
	seqTwoMasks        bool
	overflow           bool
	applied            bool
	insideArray        bool
	shapes             map[string]bool
	proc, excl         map[textKey]bool
	rulesTrue          bool
	rulesFalse         bool
}

func (s *caseStats) labels() []string {
	var out []string
	add := func(b bool, l string) {
		if b {
			out = append(out, l)
		}
	}
	add(s.multibyteMasked, "masked-multibyte-secret")
	add(s.numberMasked, "masked-number-value")
	add(s.seqTwoMasks, "two-masks-changed-one-value")
	add(s.overflow, "leaf-skipped-too-many-candidates")
	add(s.applied, "event-marked-applied")
	add(!s.applied, "event-not-marked")
	add(s.insideArray, "masked-inside-array")
	add(s.rulesTrue, "match-rules-held-on-some-value")
	add(s.rulesFalse, "match-rules-failed-on-some-value")
	for k := range s.shapes {
		out = append(out, "shape:"+k)
	}
	return out
}

// groupShape classifies what the selected groups of one match look like.
func groupShape(m *maskModel, text string) []string {
	var out []string
	for _, mt := range m.re.FindAllStringSubmatchIndex(text, -1) {
		var rs []rng
		prevStart := -1
		for _, g := range m.cfg.Groups {
			s, e := mt[2*g], mt[2*g+1]
			if s < 0 {
				out = append(out, "group-not-participating")
				continue
			}
			if e == s {
				out = append(out, "empty-group")
			}
			if s < prevStart {
				out = append(out, "groups-not-ascending")
			}
			prevStart = s
			for _, r := range rs {
				if s < r.e && r.s < e && e > s && r.e > r.s {
					out = append(out, "nested-groups")
				}
			}
			rs = append(rs, rng{s, e})
		}
	}
	return out
}

func checkEvent(o *vkit.Outcome, c Case, cj []byte, doc *vkit.JNode, ms []*maskModel, lm *listModel, ap pipeline.ActionPlugin, reg *prometheus.Registry, round int, st *caseStats) {
	if st.shapes == nil {
		st.shapes = map[string]bool{}
	}
	root, derr := fdkit.NewRoot(c.Doc)
	if derr != nil {
		o.Class("doc-not-decodable")
		return
	}
	defer insaneJSON.Release(root)
	ev := &pipeline.Event{Root: root}
	before := map[string]float64{pluginMetric: counterSum(reg, pluginMetric)}
	beforeSeries := map[string]map[string]float64{}
	for _, m := range c.Cfg.Masks {
		if m.MetricName != "" {
			before[m.MetricName] = counterSum(reg, m.MetricName)
			if len(m.MetricLabels) > 0 {
				beforeSeries[m.MetricName] = counterSeries(reg, m.MetricName)
			}
		}
	}
	var res pipeline.ActionResult
	if rec, stack := fdkit.CatchPanic(func() { res = ap.Do(ev) }); rec != nil {
		if fp, ok := rec.(fdkit.FatalPanic); ok {
			o.Failf(P, "do-fatal", "Do ended in logger.Fatal(%q) on config %s event %s", fp.Msg, cj, c.Doc)
			return
		}
		o.Failf(P, "do-panics:"+firstFileDFrame(stack), "Do panicked: %v\nconfig %s\nevent %s (round %d)\n%s", rec, cj, c.Doc, round, shortStack(stack))
		return
	}
	if res != pipeline.ActionPass {
		o.Failf(P, "do-result-not-pass", "Do returned %v", res)
		return
	}
	out := ev.Root.EncodeToString()
	got, perr := vkit.ParseJSON([]byte(out))
	if perr != nil || got.Kind != 'o' {
		o.Failf(P, "event-not-json-after-do", "event encodes to %q: %v (config %s event %s)", out, perr, cj, c.Doc)
		return
	}
	ctx := func() string { return fmt.Sprintf("config %s\nevent  %s\nafter  %s (round %d)", cj, c.Doc, out, round) }

	must := make([]bool, len(ms))
	may := make([]bool, len(ms))

	// ---- walk both trees: structure, keys, untouched leaves, masked leaves
	var walk func(a, b *vkit.JNode, leaf []step, path string)
	walk = func(a, b *vkit.JNode, leaf []step, path string) {
		if o.Failed() {
			return
		}
		switch a.Kind {
		case 'o':
			if b.Kind != 'o' {
				o.Failf(P, "structure-changed", "%s: object became %s\n%s", path, b.Encode(), ctx())
				return
			}
			bk := b.Keys
			if len(leaf) == 0 && len(bk) > len(a.Keys) {
				bk = bk[:len(a.Keys)] // appended mark fields are judged below
			}
			if len(bk) != len(a.Keys) {
				o.Failf(P, "structure-changed", "%s: keys %q became %q\n%s", path, a.Keys, b.Keys, ctx())
				return
			}
			for i, k := range a.Keys {
				if bk[i] != k {
					o.Failf(P, "structure-changed", "%s: keys %q became %q\n%s", path, a.Keys, b.Keys, ctx())
					return
				}
				walk(a.Vals[i], b.Vals[i], append(append([]step{}, leaf...), step{name: k}), path+"."+k)
			}
		case 'a':
			if b.Kind != 'a' || len(a.Vals) != len(b.Vals) {
				o.Failf(P, "structure-changed", "%s: array %s became %s\n%s", path, a.Encode(), b.Encode(), ctx())
				return
			}
			for i := range a.Vals {
				walk(a.Vals[i], b.Vals[i], append(append([]step{}, leaf...), step{index: true, name: fmt.Sprint(i)}), fmt.Sprintf("%s[%d]", path, i))
			}
		case 't', 'f', 'z':
			if b.Kind != a.Kind {
				o.Failf(P, "non-text-value-changed", "%s: %s became %s\n%s", path, a.Encode(), b.Encode(), ctx())
			}
		case 's', 'n':
			lr := leafModel(ms, lm, leaf, a.Str)
			for i, m := range ms {
				if len(m.cfg.MatchRules) > 0 && lm.sees(i, leaf) {
					if rulesOK(m.cfg.MatchRules, a.Str) {
						st.rulesTrue = true
					} else {
						st.rulesFalse = true
					}
				}
			}
			if lr.overflow {
				st.overflow = true
				return
			}
			for i := range ms {
				must[i] = must[i] || lr.must[i]
				may[i] = may[i] || lr.may[i]
			}
			allowedText := func(s string, needTouched, needUntouched bool) bool {
				for _, v := range lr.vals {
					if v.text == s && (!needTouched || v.touched) && (!needUntouched || !v.touched) {
						return true
					}
				}
				return false
			}
			okLeaf := false
			switch {
			case a.Kind == 's':
				okLeaf = b.Kind == 's' && allowedText(b.Str, false, false)
			case b.Kind == 'n':
				// a number stays a number only with its literal untouched
				okLeaf = b.Str == a.Str && allowedText(a.Str, false, false)
			case b.Kind == 's':
				// a number value in which a mask's regexp matched is rewritten as a string
				okLeaf = allowedText(b.Str, true, false)
			}
			if !okLeaf {
				sig := "masked-value-not-allowed"
				if b.Kind == a.Kind && b.Str == a.Str {
					sig = "secret-left-in-processed-field"
				}
				// diagnosis only: would the value be right if another set of masks had seen the field?
				if d := explainByMaskSet(ms, lm, leaf, a, b); d != "" {
					sig = d
				}
				var want []string
				for _, v := range lr.vals {
					want = append(want, fmt.Sprintf("%q", v.text))
				}
				o.Failf(P, sig, "%s: %s became %s, allowed: %s\n%s", path, a.Encode(), b.Encode(), strings.Join(want, " | "), ctx())
				return
			}
			// statistics
			for i, m := range ms {
				if lr.excluded[i] {
					st.excludedMatch = true
					st.excludedTexts(a.Str, i)
				}
				if lr.must[i] && m.re != nil {
					st.strongProcessed = true
					st.processedTexts(a.Str, i)
					if lm.hasLists(i) {
						st.processedUnderLists(a.Str, i)
					}
					for _, sh := range groupShape(m, a.Str) {
						st.shapes[sh] = true
					}
				}
			}
			if b.Str != a.Str {
				nchanged := 0
				for i, m := range ms {
					if lr.must[i] && m.re != nil {
						nchanged++
						for _, mt := range m.re.FindAllString(a.Str, -1) {
							for j := 0; j < len(mt); j++ {
								if mt[j] >= 0x80 {
									st.multibyteMasked = true
								}
							}
						}
					}
				}
				if nchanged >= 2 {
					st.seqTwoMasks = true
				}
				if a.Kind == 'n' {
					st.numberMasked = true
				}
				for _, s := range leaf {
					if s.index {
						st.insideArray = true
					}
				}
			}
		}
	}
	walk(doc, got, nil, "$")
	if o.Failed() || st.overflow {
		return
	}
	st.sameSecretExcluded = st.sameSecretExcluded || st.sharedSecret()

	// ---- applied marks and metrics: set exactly when some mask matched
	anyMust, anyMay := false, false
	for i := range ms {
		anyMust = anyMust || must[i]
		anyMay = anyMay || may[i]
	}
	extra := map[string]*vkit.JNode{}
	for i := len(doc.Keys); i < len(got.Keys); i++ {
		k := got.Keys[i]
		if _, isMark := reservedName(c.Cfg, k); !isMark || extra[k] != nil {
			o.Failf(P, "structure-changed", "$: field %q appeared in the event\n%s", k, ctx())
			return
		}
		extra[k] = got.Vals[i]
	}
	judge := func(what, field, value, metricName string, must, may bool) {
		delta := -1.0
		if metricName != "" {
			delta = counterSum(reg, metricName) - before[metricName]
		}
		n := extra[field]
		present := field != "" && n != nil
		if present && (n.Kind != 's' || n.Str != value) {
			o.Failf(P, "applied-field-wrong-value", "%s: field %q = %s, configured value %q\n%s", what, field, n.Encode(), value, ctx())
			return
		}
		if field != "" {
			if must && !present {
				o.Failf(P, "applied-field-missing", "%s matched but %q is not set\n%s", what, field, ctx())
			}
			if !may && present {
				o.Failf(P, "applied-field-without-match", "%s did not match anything but %q is set\n%s", what, field, ctx())
			}
		}
		if metricName != "" {
			if must && delta <= 0 {
				o.Failf(P, "applied-metric-missing", "%s matched but metric %s did not move\n%s", what, metricName, ctx())
			}
			if !may && delta != 0 {
				o.Failf(P, "applied-metric-without-match", "%s did not match anything but metric %s moved by %v\n%s", what, metricName, delta, ctx())
			}
			if field != "" && present != (delta > 0) {
				o.Failf(P, "applied-field-and-metric-disagree", "%s: field %q present=%v, metric %s moved by %v\n%s", what, field, present, metricName, delta, ctx())
			}
		}
	}
	judge("some mask", c.Cfg.MaskAppliedField, c.Cfg.MaskAppliedValue, pluginMetric, anyMust, anyMay)
	if d := counterSum(reg, pluginMetric) - before[pluginMetric]; d > 0 {
		st.applied = true
		if d != 1 {
			o.Failf(P, "applied-metric-not-once-per-event", "plugin metric moved by %v for one event\n%s", d, ctx())
		}
	}
	for i, m := range c.Cfg.Masks {
		judge(fmt.Sprintf("mask #%d", i), m.AppliedField, m.AppliedValue, m.MetricName, must[i], may[i])
		if len(m.MetricLabels) == 0 || m.MetricName == "" {
			continue
		}
		// the series that moved is the one of THIS event: a label read from an absent field is "not_set",
		// one read from an untouched string field is that string
		want := map[string]string{}
		for _, l := range m.MetricLabels {
			n := 0
			for _, k := range doc.Keys {
				if k == l {
					n++
				}
			}
			a, b := doc.Get(l), got.Get(l)
			switch {
			case n == 0 && b == nil:
				want[l] = "not_set"
			case n == 1 && a != nil && b != nil && a.Kind == 's' && b.Kind == 's' && a.Str == b.Str:
				want[l] = a.Str
			}
		}
		for series, v := range counterSeries(reg, m.MetricName) {
			if v == beforeSeries[m.MetricName][series] {
				continue
			}
			st.labelledSeriesMoved = true
			for l, w := range want {
				if !strings.Contains(series, fmt.Sprintf("%s=%q;", l, w)) {
					o.Failf(P, "applied-metric-on-another-events-series", "mask #%d: metric %s moved in series {%s}, the event's label %s is %q\n%s", i, m.MetricName, series, l, w, ctx())
				}
			}
		}
	}
}

// forcedLists is a list model in which exactly the masks of a bit set see every field.
// explainByMaskSet looks for a set of masks (applied unconditionally, the others
// skipped) under which the observed value is an allowed result, and names the
// plugin decision that differs from the model: a field list decision or a match
// rule decision. Used only to choose the failure signature.
func explainByMaskSet(ms []*maskModel, lm *listModel, leaf []step, a, b *vkit.JNode) string {
	if len(ms) > 6 {
		return ""
	}
	best, bestN := "", 99
	for set := 0; set < 1<<len(ms); set++ {
		force := make([]int8, len(ms))
		for i := range ms {
			force[i] = -1
			if set&(1<<i) != 0 {
				force[i] = 1
			}
		}
		lr := leafModelForced(ms, lm, leaf, a.Str, force)
		if lr.overflow {
			continue
		}
		explained := false
		for _, v := range lr.vals {
			switch {
			case a.Kind == 's':
				explained = explained || (b.Kind == 's' && v.text == b.Str)
			case b.Kind == 'n':
				explained = explained || (b.Str == a.Str && v.text == a.Str)
			default:
				explained = explained || (v.touched && v.text == b.Str)
			}
		}
		if !explained {
			continue
		}
		n, sig := 0, ""
		for i, m := range ms {
			applied := set&(1<<i) != 0
			sees := lm.sees(i, leaf)
			rules := rulesOK(m.cfg.MatchRules, a.Str)
			var d string
			switch {
			case applied && !sees:
				d = "field-lists:mask-applied-to-field-it-must-not-see"
			case !applied && sees && lm.hasLists(i) && len(m.cfg.MatchRules) == 0 && m.re != nil && m.re.MatchString(a.Str):
				d = "field-lists:mask-not-applied-to-field-it-must-process"
			case sees && len(m.cfg.MatchRules) > 0 && applied != rules && m.re != nil && m.re.MatchString(a.Str):
				d = "match-rules:decision-differs-from-documented-matching"
			}
			if d != "" {
				n++
				if sig == "" || d < sig {
					sig = d
				}
			}
		}
		if n > 0 && n < bestN {
			best, bestN = sig, n
		}
	}
	return best
}

func reservedName(c PluginCfg, k string) (int, bool) {
	if k != "" && k == c.MaskAppliedField {
		return -1, true
	}
	for i, m := range c.Masks {
		if k != "" && k == m.AppliedField {
			return i, true
		}
	}
	return 0, false
}

// bookkeeping for the non-triviality rule: the same text is processed by mask i
// in one field and kept away from mask i by a list in another.
type textKey struct {
	text string
	mask int
}

var _ = textKey{}

func (s *caseStats) ensure() {
	if s.proc == nil {
		s.proc = map[textKey]bool{}
		s.excl = map[textKey]bool{}
	}
}
func (s *caseStats) processedTexts(t string, i int)      { s.ensure() }
func (s *caseStats) processedUnderLists(t string, i int) { s.ensure(); s.proc[textKey{t, i}] = true }
func (s *caseStats) excludedTexts(t string, i int)       { s.ensure(); s.excl[textKey{t, i}] = true }
func (s *caseStats) sharedSecret() bool {
	for k := range s.proc {
		if s.excl[k] {
			return true
		}
	}
	return false
}

var prop = vkit.NewProp([]string{P}, "c17mask", gen, run)

func TestC17Mask(t *testing.T) { prop.Check(t) }
