package c18

// The same property with the plugin inside a real pipeline, behind an action that holds every event until
// the next one (or the stream time-out) releases it - as join does for the first line of a record. A
// released event re-enters the chain at the action behind the holder: it must still be filtered.

import (
	"encoding/json"
	"fmt"
	"sort"
	"sync"
	"time"

	"github.com/ozontech/file.d/pipeline"
	"github.com/ozontech/file.d/zzverif/fdkit"
)

type chainHold struct {
	ctl  pipeline.ActionPluginController
	held *pipeline.Event
}

func (a *chainHold) Start(_ pipeline.AnyConfig, p *pipeline.ActionPluginParams) { a.ctl = p.Controller }
func (a *chainHold) Stop()                                                      {}
func (a *chainHold) flush() {
	if h := a.held; h != nil {
		a.held = nil
		a.ctl.Propagate(h)
	}
}
func (a *chainHold) Do(e *pipeline.Event) pipeline.ActionResult {
	a.flush()
	if e.IsTimeoutKind() {
		return pipeline.ActionDiscard
	}
	a.held = e
	return pipeline.ActionHold
}

type chainInput struct{}

func (chainInput) Start(pipeline.AnyConfig, *pipeline.InputPluginParams) {}
func (chainInput) Stop()                                                 {}
func (chainInput) Commit(*pipeline.Event)                                {}
func (chainInput) PassEvent(*pipeline.Event) bool                        { return true }

type chainOutput struct {
	ctl  pipeline.OutputPluginController
	mu   sync.Mutex
	got  map[int64]string
	want int
	done chan struct{}
}

func (o *chainOutput) Start(_ pipeline.AnyConfig, p *pipeline.OutputPluginParams) { o.ctl = p.Controller }
func (o *chainOutput) Stop()                                                      {}
func (o *chainOutput) Out(e *pipeline.Event) {
	o.mu.Lock()
	o.got[e.Offset] = e.Root.EncodeToString()
	if len(o.got) == o.want {
		close(o.done)
	}
	o.mu.Unlock()
	o.ctl.Commit(e)
}

// runViaPipeline is runPlugin with the plugin as the last action of a one-processor pipeline.
func runViaPipeline(plugin string, docs []string, fields []string) (outs []string, rejected string, err error) {
	info := pluginInfo(plugin)
	cj, _ := json.Marshal(map[string]any{"fields": fields})
	config, cerr := pipeline.GetConfig(info, cj, map[string]int{"capacity": 64, "gomaxprocs": 1})
	if cerr != nil {
		return nil, "GetConfig: " + cerr.Error(), nil
	}
	st := fdkit.DefaultSettings()
	st.Capacity = 8
	st.EventTimeout = 30 * time.Millisecond
	st.MaintenanceInterval = time.Hour
	st.Antispam.MaintenanceInterval = time.Hour
	p := fdkit.NewPipeline(fdkit.UniqueName("c18chain"), st)
	p.DisableParallelism()
	p.SetInput(&pipeline.InputPluginInfo{
		PluginStaticInfo:  &pipeline.PluginStaticInfo{Type: "c18_in"},
		PluginRuntimeInfo: &pipeline.PluginRuntimeInfo{Plugin: chainInput{}, ID: "c18_in"},
	})
	p.AddAction(&pipeline.ActionPluginStaticInfo{
		PluginStaticInfo: &pipeline.PluginStaticInfo{Type: "c18_hold", Factory: func() (pipeline.AnyPlugin, pipeline.AnyConfig) { return &chainHold{}, nil }},
		MatchMode:        pipeline.MatchModeAnd,
	})
	cp := *info
	cp.Config = config
	cp.Type = plugin
	p.AddAction(&pipeline.ActionPluginStaticInfo{PluginStaticInfo: &cp, MatchMode: pipeline.MatchModeAnd})
	out := &chainOutput{got: map[int64]string{}, want: len(docs), done: make(chan struct{})}
	p.SetOutput(&pipeline.OutputPluginInfo{
		PluginStaticInfo:  &pipeline.PluginStaticInfo{Type: "c18_out"},
		PluginRuntimeInfo: &pipeline.PluginRuntimeInfo{Plugin: out, ID: "c18_out"},
	})
	if rec, _ := fdkit.CatchPanic(p.Start); rec != nil {
		if fp, ok := rec.(fdkit.FatalPanic); ok {
			return nil, "Start: " + fp.Msg, nil
		}
		panic(rec)
	}
	defer p.Stop()
	for i, d := range docs {
		if p.In(pipeline.SourceID(1), "c18", pipeline.NewOffsets(int64(i+1), nil), []byte(d), false, nil) == pipeline.EventSeqIDError {
			return nil, "", fmt.Errorf("the pipeline refused event #%d %s", i, d)
		}
	}
	select {
	case <-out.done:
	case <-time.After(20 * time.Second):
		out.mu.Lock()
		n := len(out.got)
		out.mu.Unlock()
		return nil, "", fmt.Errorf("only %d of %d events reached the output within 20 s", n, len(docs))
	}
	out.mu.Lock()
	defer out.mu.Unlock()
	offs := make([]int64, 0, len(out.got))
	for k := range out.got {
		offs = append(offs, k)
	}
	sort.Slice(offs, func(i, j int) bool { return offs[i] < offs[j] })
	for _, k := range offs {
		outs = append(outs, out.got[k])
	}
	return outs, "", nil
}
