// Package c18 decides C18 — keep_fields and remove_fields select exactly the
// configured paths — black-box: the plugins come from the registry, their
// config goes through pipeline.GetConfig (the path real configs take), Do() is
// driven directly on events decoded from generated JSON text.
package c18

import (
	"encoding/json"
	"fmt"
	"sort"
	"strconv"
	"strings"
	"testing"

	"github.com/ozontech/file.d/cfg"
	"github.com/ozontech/file.d/fd"
	"github.com/ozontech/file.d/pipeline"
	_ "github.com/ozontech/file.d/plugin/action/keep_fields"
	_ "github.com/ozontech/file.d/plugin/action/remove_fields"
	"github.com/ozontech/file.d/zzverif/fdkit"
	"github.com/ozontech/file.d/zzverif/vkit"
	insaneJSON "github.com/ozontech/insane-json"
	"pgregory.net/rapid"
)

const P = "C18"

func TestMain(m *testing.M)   { fdkit.InstallLogger(); vkit.Main(m) }
func TestReplay(t *testing.T) { vkit.Replay(t) }

// Case: one event, one plugin, the selector list as a user writes it in the
// config, and a variant list (a permutation of Fields plus descendants of
// listed paths) that must give the same result.
type Case struct {
	Plugin  string   `json:"plugin"` // "remove_fields" | "keep_fields"
	Doc     string   `json:"doc"`
	Before  string   `json:"before,omitempty"` // event the same plugin instance processes first (instances live for many events)
	Fields  []string `json:"fields"`
	Variant []string `json:"variant,omitempty"`
	// Instances > 1: that many plugin instances are started on the SAME parsed configuration, one after the
	// other (a pipeline starts one instance per processor on one config object); the last one processes the events
	Instances int `json:"instances,omitempty"`
	// StopFirst: the plugin's Stop was called before the last event is processed. Pipeline.Stop calls
	// the actions' Stop first, while the processors are still running and the input and the output
	// still work, so events are processed, delivered and committed after it.
	StopFirst bool `json:"stop_first,omitempty"`
	// ViaPipeline: the plugin is the last action of a real one-processor pipeline, behind an action that
	// holds every event until the next one or the stream time-out releases it (chain_test.go)
	ViaPipeline bool `json:"via_pipeline,omitempty"`
}

// ---------------------------------------------------------------- selector syntax (reference)

// renderSelector writes a path with the documented escaping: names are joined
// by '.', a dot inside a name is written as `\.` (remove_fields README).
func renderSelector(path []string) string {
	parts := make([]string, len(path))
	for i, p := range path {
		parts[i] = strings.ReplaceAll(p, ".", `\.`)
	}
	return strings.Join(parts, ".")
}

// refParse is the reference reading of a selector: split at dots that are not
// preceded by a backslash; `\.` stands for a dot inside a name. Written from the
// README sentence, not from cfg.ParseFieldSelector.
func refParse(sel string) []string {
	var out []string
	var cur strings.Builder
	for i := 0; i < len(sel); i++ {
		switch {
		case sel[i] == '\\' && i+1 < len(sel) && sel[i+1] == '.':
			cur.WriteByte('.')
			i++
		case sel[i] == '.':
			out = append(out, cur.String())
			cur.Reset()
		default:
			cur.WriteByte(sel[i])
		}
	}
	return append(out, cur.String())
}

// representable: the documented syntax has no escape for a backslash, so a name
// ending in '\' can only be the last one; an empty name can only be the first
// one of a longer path ("a..b" and "a." have an undocumented legacy meaning and
// are kept out of the domain).
func representable(path []string) bool {
	if len(path) == 0 {
		return false
	}
	for i, p := range path {
		if p == "" && (i > 0 || len(path) == 1) {
			return false
		}
		if strings.HasSuffix(p, `\`) && i < len(path)-1 {
			return false
		}
	}
	return true
}

// ---------------------------------------------------------------- generator

var keyPool = []string{"a", "b", "c", "d", "e", "f", "g", "h", "i", "j", "k", "l", "m", "n", "o", "p", "q", "r",
	"level", "level2", "ab", "abc", "message", "ts", "x.y", "a.b", "a.b.c", ".lead", "trail.", "user.name", `a\b`, `back\`, `q\.r`, "x y", "ключ", "日本", "", "0", "1", "A"}

type docPath struct {
	path []string // object keys; array positions as decimal text
	kind byte
	pure bool // reachable through objects only
}

func collectPaths(doc *vkit.JNode) []docPath {
	var out []docPath
	var walk func(n *vkit.JNode, path []string, pure bool)
	walk = func(n *vkit.JNode, path []string, pure bool) {
		if len(path) > 0 {
			out = append(out, docPath{append([]string{}, path...), n.Kind, pure})
		}
		switch n.Kind {
		case 'o':
			for i, k := range n.Keys {
				walk(n.Vals[i], append(append([]string{}, path...), k), pure)
			}
		case 'a':
			for i, v := range n.Vals {
				walk(v, append(append([]string{}, path...), strconv.Itoa(i)), false)
			}
		}
	}
	walk(doc, nil, true)
	return out
}

func gen(t *rapid.T) Case {
	width := rapid.IntRange(2, 7).Draw(t, "width")
	if rapid.IntRange(0, 9).Draw(t, "wide") == 0 {
		width = rapid.IntRange(17, 26).Draw(t, "widew") // > insane-json's map threshold (16 fields)
	}
	o := &vkit.TreeOpts{MaxDepth: rapid.IntRange(1, 4).Draw(t, "depth"), MaxWidth: width, Keys: keyPool}
	doc := vkit.GenObject(t, "doc", o, 0)
	if len(doc.Keys) == 0 && rapid.IntRange(0, 7).Draw(t, "keepempty") > 0 {
		doc.Set(rapid.SampledFrom(keyPool).Draw(t, "k0"), vkit.GenTree(t, "doc.k0", o, 0))
	}
	if rapid.IntRange(0, 19).Draw(t, "very_wide") == 0 {
		// more fields than any fixed-size scratch buffer an implementation may keep per nesting level
		for i, n := 0, rapid.IntRange(98, 135).Draw(t, "njunk"); i < n; i++ {
			doc.Set(fmt.Sprintf("junk%d", i), vkit.JNum("1"))
		}
		// keep the interesting fields behind the junk
		for _, k := range append([]string{}, doc.Keys...) {
			if !strings.HasPrefix(k, "junk") {
				v := doc.Get(k)
				doc.Del(k)
				doc.Set(k, v)
			}
		}
	}
	paths := collectPaths(doc)

	var chosen [][]string
	pick := func(label string, f func(p docPath) bool) (docPath, bool) {
		var c []docPath
		for _, p := range paths {
			if f(p) {
				c = append(c, p)
			}
		}
		if len(c) == 0 {
			return docPath{}, false
		}
		return rapid.SampledFrom(c).Draw(t, label), true
	}
	name := func(label string) string { return rapid.SampledFrom(keyPool).Draw(t, label) }
	n := rapid.IntRange(1, 6).Draw(t, "nsel")
	for i := 0; i < n; i++ {
		var p []string
		switch k := rapid.IntRange(0, 19).Draw(t, "selkind"); {
		case k < 7: // existing path through objects (hit)
			if dp, ok := pick("hit", func(p docPath) bool { return p.pure }); ok {
				p = dp.path
			}
		case k < 10: // existing object + absent key (miss)
			if dp, ok := pick("missbase", func(p docPath) bool { return p.pure && p.kind == 'o' }); ok {
				p = append(append([]string{}, dp.path...), name("missname"))
			} else {
				p = []string{name("missname0")}
			}
		case k < 13: // through a scalar
			if dp, ok := pick("scalar", func(p docPath) bool { return p.pure && p.kind != 'o' && p.kind != 'a' }); ok {
				p = append(append([]string{}, dp.path...), name("below"))
			}
		case k < 16: // through / into an array
			if dp, ok := pick("arr", func(p docPath) bool { return !p.pure }); ok {
				p = dp.path
				if rapid.Bool().Draw(t, "arrdeeper") {
					p = append(append([]string{}, p...), name("below"))
				}
			} else if dp, ok := pick("arr0", func(p docPath) bool { return p.kind == 'a' }); ok {
				p = append(append([]string{}, dp.path...), rapid.SampledFrom([]string{"0", "1", "7", "-1", "x", "a"}).Draw(t, "idx"))
			}
		case k < 18: // prefix or descendant of an already chosen path
			if len(chosen) > 0 {
				base := rapid.SampledFrom(chosen).Draw(t, "base")
				if len(base) > 1 && rapid.Bool().Draw(t, "prefix") {
					p = base[:rapid.IntRange(1, len(base)-1).Draw(t, "plen")]
				} else {
					p = append(append([]string{}, base...), name("desc"))
				}
			}
		default: // unrelated names
			m := rapid.IntRange(1, 3).Draw(t, "rlen")
			for j := 0; j < m; j++ {
				p = append(p, name("rname"))
			}
		}
		if representable(p) {
			chosen = append(chosen, p)
		}
	}
	if len(chosen) == 0 {
		chosen = append(chosen, []string{"a"})
	}
	c := Case{Plugin: rapid.SampledFrom([]string{"remove_fields", "keep_fields"}).Draw(t, "plugin"), Doc: doc.Encode()}
	if rapid.IntRange(0, 2).Draw(t, "reuse") == 0 {
		// an earlier event of similar shape for the same instance: the document with some subtrees dropped / replaced
		b := doc.Clone()
		for i := len(b.Keys) - 1; i >= 0; i-- {
			switch rapid.IntRange(0, 3).Draw(t, "bmut") {
			case 0:
				b.Del(b.Keys[i])
			case 1:
				b.Vals[i] = vkit.GenTree(t, "before", o, 1)
			}
		}
		b.Set(rapid.SampledFrom(keyPool).Draw(t, "bk"), vkit.GenTree(t, "before.k", o, 1))
		c.Before = b.Encode()
	}
	for _, p := range chosen {
		c.Fields = append(c.Fields, renderSelector(p))
	}
	// variant: permutation + descendants of listed paths
	if rapid.IntRange(0, 3).Draw(t, "variant") > 0 {
		v := append([][]string{}, chosen...)
		nd := rapid.IntRange(0, 2).Draw(t, "ndesc")
		for i := 0; i < nd; i++ {
			base := rapid.SampledFrom(chosen).Draw(t, "vbase")
			d := append([]string{}, base...)
			// prefer a descendant that exists in the document
			if dp, ok := pick("vdesc", func(p docPath) bool { return len(p.path) > len(base) && equalPrefix(p.path, base) }); ok && rapid.Bool().Draw(t, "vexist") {
				d = dp.path
			} else {
				d = append(d, name("vname"))
			}
			if representable(d) {
				v = append(v, d)
			}
		}
		perm := rapid.Permutation(v).Draw(t, "perm")
		for _, p := range perm {
			c.Variant = append(c.Variant, renderSelector(p))
		}
	}
	if rapid.IntRange(0, 3).Draw(t, "instances") == 0 {
		c.Instances = rapid.IntRange(2, 3).Draw(t, "ninstances")
	}
	c.StopFirst = rapid.IntRange(0, 7).Draw(t, "stopFirst") == 0
	c.ViaPipeline = rapid.IntRange(0, 59).Draw(t, "viaPipeline") == 23
	return c
}

func equalPrefix(p, prefix []string) bool {
	if len(p) < len(prefix) {
		return false
	}
	for i := range prefix {
		if p[i] != prefix[i] {
			return false
		}
	}
	return true
}

// ---------------------------------------------------------------- reference model

// subtract removes the values addressed by paths. A path addresses a value only
// if every step before the last is an object holding the next name.
func subtract(doc *vkit.JNode, paths [][]string, arrays bool) *vkit.JNode {
	out := doc.Clone()
	// resolve all targets on the untouched tree first, then delete: the result of
	// "delete exactly these values" must not depend on the order of the list
	// (array positions in the `arrays` diagnosis model would shift otherwise).
	type target struct {
		parent *vkit.JNode
		key    string
		idx    *vkit.JNode
	}
	var ts []target
	for _, p := range paths {
		cur := out
		ok := true
		for _, seg := range p[:len(p)-1] {
			cur = step(cur, seg, arrays)
			if cur == nil {
				ok = false
				break
			}
		}
		if !ok {
			continue
		}
		last := p[len(p)-1]
		if cur.Kind == 'o' && cur.Get(last) != nil {
			ts = append(ts, target{parent: cur, key: last})
		} else if arrays && cur.Kind == 'a' {
			if v := step(cur, last, true); v != nil {
				ts = append(ts, target{parent: cur, idx: v})
			}
		}
	}
	for _, tg := range ts {
		if tg.idx == nil {
			tg.parent.Del(tg.key)
			continue
		}
		for i, v := range tg.parent.Vals {
			if v == tg.idx {
				tg.parent.Vals = append(tg.parent.Vals[:i:i], tg.parent.Vals[i+1:]...)
				break
			}
		}
	}
	return out
}

func step(n *vkit.JNode, seg string, arrays bool) *vkit.JNode {
	switch n.Kind {
	case 'o':
		return n.Get(seg)
	case 'a':
		if !arrays {
			return nil
		}
		i, err := strconv.Atoi(seg)
		if err != nil || i < 0 || i >= len(n.Vals) {
			return nil
		}
		return n.Vals[i]
	}
	return nil
}

type trie struct {
	leaf bool
	kids map[string]*trie
}

func buildTrie(paths [][]string) *trie {
	root := &trie{kids: map[string]*trie{}}
	for _, p := range paths {
		cur := root
		for _, seg := range p {
			nx := cur.kids[seg]
			if nx == nil {
				nx = &trie{kids: map[string]*trie{}}
				cur.kids[seg] = nx
			}
			cur = nx
		}
		cur.leaf = true
	}
	return root
}

// project keeps the addressed values and the objects on the way to them.
func project(n *vkit.JNode, tr *trie, root bool) *vkit.JNode {
	if tr.leaf && !root {
		return n.Clone()
	}
	if n.Kind != 'o' {
		return nil
	}
	out := vkit.JObj()
	for i, k := range n.Keys {
		kt := tr.kids[k]
		if kt == nil {
			continue
		}
		if v := project(n.Vals[i], kt, false); v != nil {
			out.Keys = append(out.Keys, k)
			out.Vals = append(out.Vals, v)
		}
	}
	if len(out.Keys) == 0 && !root {
		return nil
	}
	return out
}

// classify a path against the document: "hit", "miss" (objects all the way, key
// absent), "cross" (meets an array or a scalar before it ends).
func classify(doc *vkit.JNode, p []string) string {
	cur := doc
	for i, seg := range p {
		if cur.Kind != 'o' {
			if cur.Kind == 'a' {
				if step(cur, seg, true) != nil && i == len(p)-1 {
					return "cross-array-valid-index"
				}
				return "cross-array"
			}
			return "cross-scalar"
		}
		cur = cur.Get(seg)
		if cur == nil {
			return "miss"
		}
	}
	return "hit"
}

// ---------------------------------------------------------------- execution

func pluginInfo(name string) *pipeline.PluginStaticInfo {
	info, err := fd.DefaultPluginRegistry.Get(pipeline.PluginKindAction, name)
	if err != nil {
		panic(err)
	}
	return info
}

// runPlugin configures a fresh plugin instance with fields and applies it to the
// documents one after the other. rejected != "" means the configuration was refused.
func runPlugin(plugin string, docs []string, fields []string, instances int, stopFirst bool) (outs []string, rejected string, err error) {
	info := pluginInfo(plugin)
	cj, _ := json.Marshal(map[string]any{"fields": fields})
	config, cerr := pipeline.GetConfig(info, cj, map[string]int{"capacity": 64, "gomaxprocs": 1})
	if cerr != nil {
		return nil, "GetConfig: " + cerr.Error(), nil
	}
	params := &pipeline.ActionPluginParams{
		PluginDefaultParams: pipeline.PluginDefaultParams{PipelineName: "c18", PipelineSettings: fdkit.DefaultSettings(), MetricCtl: fdkit.MetricCtl("c18")},
		Logger:              fdkit.NewLogger().Sugar(),
	}
	var ap pipeline.ActionPlugin
	for i := 0; i < max(1, instances); i++ {
		p, _ := info.Factory()
		ap = p.(pipeline.ActionPlugin)
		if rec, _ := fdkit.CatchPanic(func() { ap.Start(config, params) }); rec != nil {
			if fp, ok := rec.(fdkit.FatalPanic); ok {
				return nil, "Start: " + fp.Msg, nil
			}
			panic(rec)
		}
		if i == max(1, instances)-1 && stopFirst {
			break // stopped below, before the last event
		}
		defer ap.Stop()
	}
	for i, doc := range docs {
		if stopFirst && i == len(docs)-1 {
			ap.Stop()
		}
		root, derr := fdkit.NewRoot(doc)
		if derr != nil {
			return nil, "", fmt.Errorf("document not decodable: %w", derr)
		}
		ev := &pipeline.Event{Root: root}
		res := ap.Do(ev)
		out := ev.Root.EncodeToString()
		insaneJSON.Release(root)
		if res != pipeline.ActionPass {
			return nil, "", fmt.Errorf("Do returned %v, want ActionPass", res)
		}
		outs = append(outs, out)
	}
	return outs, "", nil
}

func run(c Case) *vkit.Outcome {
	o := vkit.NewOutcome()
	doc, err := vkit.ParseJSON([]byte(c.Doc))
	if err != nil || doc.Kind != 'o' {
		o.Class("generator-produced-invalid-doc")
		return o
	}
	o.Class("plugin=" + c.Plugin)

	// clause 0: selector syntax
	parse := func(list []string) [][]string {
		var paths [][]string
		for _, sel := range list {
			want := refParse(sel)
			got := cfg.ParseFieldSelector(sel)
			if !equalStrings(want, got) {
				o.Failf(P, "selector-parse-differs", "ParseFieldSelector(%q) = %q, the documented `\\.` escaping gives %q", sel, got, want)
			}
			paths = append(paths, want)
		}
		return paths
	}
	paths := parse(c.Fields)
	if o.Failed() {
		return o
	}

	model := func(d *vkit.JNode, arrays bool) *vkit.JNode {
		if c.Plugin == "remove_fields" {
			return subtract(d, paths, arrays)
		}
		if arrays {
			return nil
		}
		return project(d, buildTrie(paths), true)
	}
	docs := []string{c.Doc}
	srcs := []*vkit.JNode{doc}
	if c.Before != "" {
		if b, err := vkit.ParseJSON([]byte(c.Before)); err == nil && b.Kind == 'o' {
			docs = []string{c.Before, c.Doc}
			srcs = []*vkit.JNode{b, doc}
			o.Class("instance-reused")
		}
	}
	if c.StopFirst && !c.ViaPipeline {
		o.Class("processed-after-the-actions-were-stopped")
	}
	if c.ViaPipeline {
		o.Class("through-a-pipeline-behind-a-holding-action")
	}

	// check runs a fresh instance over docs and compares every event with the
	// model; returns the parsed last event (nil if unusable).
	check := func(which string, fields []string) *vkit.JNode {
		var outs []string
		var rejected string
		var err error
		if c.ViaPipeline {
			outs, rejected, err = runViaPipeline(c.Plugin, docs, fields)
		} else {
			outs, rejected, err = runPlugin(c.Plugin, docs, fields, c.Instances, c.StopFirst)
		}
		if err != nil {
			o.Failf(P, c.Plugin+":do-failed", "%s list %q: %v", which, fields, err)
			return nil
		}
		if rejected != "" {
			o.Failf(P, c.Plugin+":valid-config-rejected", "%s list %q rejected: %s", which, fields, rejected)
			return nil
		}
		var got *vkit.JNode
		for i, out := range outs {
			var perr error
			got, perr = vkit.ParseJSON([]byte(out))
			if perr != nil {
				o.Failf(P, c.Plugin+":event-not-json-after-do", "%s list %q: event #%d encodes to %q: %v", which, fields, i, out, perr)
				return nil
			}
			want := model(srcs[i], false)
			if d := vkit.DiffJ(want, got, false); d != "" {
				sig := c.Plugin + ":result-differs-from-model"
				if wantArr := model(srcs[i], true); wantArr != nil && vkit.DiffJ(wantArr, got, false) == "" {
					// the only difference: a numeric name was used as a position inside an array
					sig = c.Plugin + ":array-element-removed-by-numeric-name"
				}
				o.Failf(P, sig, "%s list %q on event #%d %s\n got  %s\n want %s\n diff %s", which, fields, i, docs[i], out, want.Encode(), d)
				return got
			}
			if d := vkit.DiffJ(want, got, true); d != "" {
				o.Failf(P, c.Plugin+":survivor-key-order-changed", "%s list %q on event #%d %s\n got  %s\n want %s\n diff %s", which, fields, i, docs[i], out, want.Encode(), d)
			}
		}
		return got
	}
	got := check("fields", c.Fields)
	if got == nil {
		return o
	}

	// classes + non-triviality: one path hits, one misses, one crosses a non-object
	var hit, miss, cross bool
	for _, p := range paths {
		cl := classify(doc, p)
		o.Class("path-" + cl)
		switch {
		case cl == "hit":
			hit = true
		case cl == "miss":
			miss = true
		default:
			cross = true
		}
		if len(p) > 1 {
			o.Class("path-nested")
		}
		for _, seg := range p {
			if strings.Contains(seg, ".") {
				o.Class("path-with-dotted-name")
				break
			}
		}
	}
	if hasNestedPair(paths) {
		o.Class("list-has-path-and-descendant")
	}
	if hit && miss && cross {
		o.Class("hit+miss+cross")
		o.Nontrivial(P)
	}
	switch {
	case len(doc.Keys) == 0:
		o.Class("doc-empty")
	case len(got.Keys) == 0:
		o.Class(c.Plugin + ":empty-result")
	case vkit.DiffJ(doc, got, false) == "":
		o.Class(c.Plugin + ":event-unchanged")
	default:
		o.Class(c.Plugin + ":partial-result")
	}

	// metamorphic clause: order of the list and added descendants are irrelevant
	if len(c.Variant) > 0 {
		vpaths := parse(c.Variant)
		if !sameEffect(paths, vpaths) {
			o.Class("variant-not-equivalent-skipped") // cannot happen with gen(); replay files may differ
			return o
		}
		o.Class("variant-checked")
		vgot := check("variant", c.Variant)
		if vgot != nil && !o.Failed() {
			if d := vkit.DiffJ(got, vgot, false); d != "" {
				o.Failf(P, c.Plugin+":order-or-descendant-changes-result", "lists %q and %q give different events: %s", c.Fields, c.Variant, d)
			}
		}
	}
	return o
}

func hasNestedPair(paths [][]string) bool {
	for i, a := range paths {
		for j, b := range paths {
			if i != j && len(b) > len(a) && equalPrefix(b, a) {
				return true
			}
		}
	}
	return false
}

// minimal returns the paths that are not descendants (or duplicates) of another listed path.
func minimal(paths [][]string) []string {
	var out []string
	for i, a := range paths {
		covered := false
		for j, b := range paths {
			if i == j {
				continue
			}
			if len(b) < len(a) && equalPrefix(a, b) {
				covered = true
			}
		}
		if !covered {
			out = append(out, strings.Join(a, "\x00"))
		}
	}
	sort.Strings(out)
	var uniq []string
	for i, s := range out {
		if i == 0 || out[i-1] != s {
			uniq = append(uniq, s)
		}
	}
	return uniq
}

func sameEffect(a, b [][]string) bool { return equalStrings(minimal(a), minimal(b)) }

func equalStrings(a, b []string) bool {
	if len(a) != len(b) {
		return false
	}
	for i := range a {
		if a[i] != b[i] {
			return false
		}
	}
	return true
}

var prop = vkit.NewProp([]string{P}, "c18fields", gen, run)

func TestC18Fields(t *testing.T) { prop.Check(t) }
