package c00

import (
	"testing"

	"github.com/ozontech/file.d/zzverif/vkit"
	"pgregory.net/rapid"
)

type cas struct{ A, B int }

var prop = vkit.NewProp([]string{"C00"}, "c00smoke", func(t *rapid.T) cas {
	return cas{rapid.IntRange(0, 100).Draw(t, "a"), rapid.IntRange(0, 100).Draw(t, "b")}
}, func(c cas) *vkit.Outcome {
	o := vkit.NewOutcome()
	if c.A > 50 {
		o.Nontrivial("")
		o.Class("big")
	}
	if c.A+c.B != c.B+c.A {
		o.Failf("C00", "noncommutative", "%d %d", c.A, c.B)
	}
	return o
})

func TestMain(m *testing.M)      { vkit.Main(m) }
func TestReplay(t *testing.T)    { vkit.Replay(t) }
func TestC00Smoke(t *testing.T)  { prop.Check(t) }
