package c09

// C09 through the configuration path (fd/file.d.go builds the output and its dead queue from one config
// section): a pipeline is loaded from a generated config file whose output posts to a loopback endpoint
// that refuses the first requests (or all) and whose dead queue - of the SAME or of another plugin type -
// posts to a second endpoint. Events of given-up batches must arrive at the dead queue's own endpoint
// exactly once, every event is committed exactly once, nothing that the primary accepted goes to the
// dead queue.

import (
	"encoding/json"
	"fmt"
	"io"
	"net/http"
	"net/http/httptest"
	"os"
	"path/filepath"
	"regexp"
	"strings"
	"sync"
	"sync/atomic"
	"testing"
	"time"

	"github.com/ozontech/file.d/cfg"
	"github.com/ozontech/file.d/fd"
	"github.com/ozontech/file.d/pipeline"
	"github.com/ozontech/file.d/plugin/input/fake"
	_ "github.com/ozontech/file.d/plugin/action/split"
	_ "github.com/ozontech/file.d/plugin/output/elasticsearch"
	_ "github.com/ozontech/file.d/plugin/output/http"
	"github.com/ozontech/file.d/zzverif/fdkit"
	"github.com/ozontech/file.d/zzverif/vkit"
	"pgregory.net/rapid"
)

type FDCase struct {
	OutType   string `json:"out_type"` // http | elasticsearch
	DQType    string `json:"dq_type"`  // "" = no dead queue
	Events    int    `json:"events"`
	BatchSize int    `json:"batch_size"`
	Retry     int    `json:"retry"`
	FailFirst int    `json:"fail_first"` // primary answers 503 to that many requests, then accepts; -1 = always 503
	DQRetry   int    `json:"dq_retry"`
	// FailStatus: what the primary answers when it refuses (0 = 503). A redirect is not a delivery either
	// (the outputs' HTTP client does not follow redirects), nor is 429 (back-pressure) or 408: only 400 and 413
	// are documented as answers the elasticsearch output gives up on at once.
	FailStatus int `json:"fail_status,omitempty"`
	// Split: a split action turns every source event into two children (which the outputs deliver) and
	// a parent (which travels with them only to be committed). Generated only when the primary refuses
	// everything or nothing, or without a dead queue: a parent committed by one batcher while its children
	// sit in the other one is the known finding "dead-queue batcher commits independently".
	Split bool `json:"split,omitempty"`
}

func genFD(t *rapid.T) FDCase {
	types := []string{"http", "elasticsearch"}
	c := FDCase{
		OutType:    rapid.SampledFrom(types).Draw(t, "out_type"),
		Events:     rapid.IntRange(1, 10).Draw(t, "events"),
		BatchSize:  rapid.IntRange(1, 4).Draw(t, "batch_size"),
		Retry:      rapid.IntRange(0, 2).Draw(t, "retry"),
		DQRetry:    rapid.IntRange(0, 3).Draw(t, "dq_retry"),
		FailFirst:  rapid.SampledFrom([]int{-1, -1, -1, 0, 1, 2, 4}).Draw(t, "fail_first"),
		FailStatus: rapid.SampledFrom([]int{503, 503, 500, 502, 308, 301, 302, 429, 429, 408}).Draw(t, "fail_status"),
	}
	switch rapid.IntRange(0, 4).Draw(t, "dq") {
	case 0:
	case 1, 2, 3:
		c.DQType = c.OutType // the documented "reserve cluster" set-up
	default:
		c.DQType = rapid.SampledFrom(types).Draw(t, "dq_type")
	}
	if c.FailFirst <= 0 || c.DQType == "" {
		c.Split = rapid.IntRange(0, 3).Draw(t, "split") == 0
	}
	// retry < 0: the documented "retry forever" - only against a primary that recovers
	if c.FailFirst >= 0 && rapid.IntRange(0, 5).Draw(t, "retry_forever") == 0 {
		c.Retry = -rapid.IntRange(1, 3).Draw(t, "retry_neg")
	}
	return c
}

var reFDID = regexp.MustCompile(`"id":"(\d+)"`)

func fdEndpoint(got map[string]int, mu *sync.Mutex, hits *atomic.Int32, failFirst, failStatus int) *httptest.Server {
	return httptest.NewServer(http.HandlerFunc(func(w http.ResponseWriter, r *http.Request) {
		body, _ := io.ReadAll(r.Body)
		n := int(hits.Add(1))
		if failFirst < 0 || n <= failFirst {
			if failStatus >= 300 && failStatus < 400 {
				w.Header().Set("Location", "http://127.0.0.1:1/elsewhere")
			}
			w.WriteHeader(failStatus)
			return
		}
		mu.Lock()
		for _, m := range reFDID.FindAllStringSubmatch(string(body), -1) {
			got[m[1]]++
		}
		mu.Unlock()
		w.WriteHeader(http.StatusOK)
		_, _ = io.WriteString(w, `{"took":1,"errors":false,"items":[]}`)
	}))
}

func runFD(c FDCase) *vkit.Outcome {
	o := vkit.NewOutcome()
	okType := map[string]bool{"http": true, "elasticsearch": true}
	if !okType[c.OutType] || (c.DQType != "" && !okType[c.DQType]) || c.Events < 1 || c.Events > 64 || c.BatchSize < 1 || (c.Retry < 0 && c.FailFirst < 0) || c.DQRetry < 0 {
		o.Class("invalid-case")
		return o
	}
	var mu sync.Mutex
	primaryGot, reserveGot := map[string]int{}, map[string]int{}
	var primaryHits, reserveHits atomic.Int32
	if c.FailStatus == 0 {
		c.FailStatus = 503
	}
	primary := fdEndpoint(primaryGot, &mu, &primaryHits, c.FailFirst, c.FailStatus)
	defer primary.Close()
	reserve := fdEndpoint(reserveGot, &mu, &reserveHits, 0, 503)
	defer reserve.Close()

	section := func(typ, url string, retry int) map[string]any {
		return map[string]any{
			"type": typ, "endpoints": []string{url}, "workers_count": 1, "batch_size": c.BatchSize,
			"batch_flush_timeout": "5ms", "retry": retry, "retention": "1ms", "retention_exponentially_multiplier": 1,
		}
	}
	out := section(c.OutType, primary.URL, c.Retry)
	if c.DQType != "" {
		out["deadqueue"] = section(c.DQType, reserve.URL, c.DQRetry)
	}
	name := fdkit.UniqueName("c09fd")
	pconf := map[string]any{
		"settings": map[string]any{"capacity": 64},
		"input":    map[string]any{"type": "fake"},
		"output":   out,
	}
	if c.Split {
		if c.FailFirst > 0 && c.DQType != "" {
			o.Class("invalid-case")
			return o
		}
		pconf["actions"] = []any{map[string]any{"type": "split", "field": "items"}}
	}
	conf := map[string]any{"pipelines": map[string]any{name: pconf}}
	b, _ := json.Marshal(conf)
	dir, err := os.MkdirTemp("", "verif-c09fd")
	if err != nil {
		panic(err)
	}
	defer os.RemoveAll(dir)
	path := filepath.Join(dir, "config.yaml") // JSON is YAML
	if err := os.WriteFile(path, b, 0o600); err != nil {
		panic(err)
	}
	f := fd.New(cfg.NewConfigFromFile([]string{path}), "off")
	f.Start()
	if len(f.Pipelines) != 1 {
		o.Failf(P, "fd-config:pipeline-not-built", "config %s gave %d pipelines", b, len(f.Pipelines))
		return o
	}
	p := f.Pipelines[0]
	defer func() {
		stopped := make(chan struct{})
		go func() { p.Stop(); close(stopped) }()
		select {
		case <-stopped:
		case <-time.After(20 * time.Second):
		}
	}()
	commits := map[string]int{}
	in := p.GetInput().(*fake.Plugin)
	in.SetCommitFn(func(e *pipeline.Event) {
		id := strings.Clone(e.Root.Dig("id").AsString()) // AsString aliases the event's buffer, which is reused
		mu.Lock()
		commits[id]++
		mu.Unlock()
	})
	for i := 0; i < c.Events; i++ {
		doc := fmt.Sprintf(`{"id":"%d"}`, i)
		if c.Split {
			doc = fmt.Sprintf(`{"id":"%d","items":[{"id":"%d"},{"id":"%d"}]}`, i, 1000+2*i, 1001+2*i)
			if i%3 == 2 {
				// nothing to split (no object among the elements): the event itself travels on
				doc = fmt.Sprintf(`{"id":"%d","items":[1,"two",null]}`, i)
			}
		}
		in.In(0, "c09fd", pipeline.NewOffsets(int64(i+1), nil), []byte(doc))
	}
	total := func() int {
		mu.Lock()
		defer mu.Unlock()
		n := 0
		for _, v := range commits {
			n += v
		}
		return n + int(primaryHits.Load()) + int(reserveHits.Load())
	}
	allCommitted := func() bool { mu.Lock(); defer mu.Unlock(); return len(commits) == c.Events }
	last, lastChange := -1, time.Now()
	for !allCommitted() {
		if n := total(); n != last {
			last, lastChange = n, time.Now()
		}
		if time.Since(lastChange) > 10*time.Second {
			break
		}
		time.Sleep(3 * time.Millisecond)
	}
	time.Sleep(30 * time.Millisecond) // second deliveries / commits would follow shortly
	// C05: nothing is travelling any more, so every event is back in the pool
	inUse := p.VerifPoolInUse()
	for t0 := time.Now(); inUse != 0 && time.Since(t0) < 500*time.Millisecond; inUse = p.VerifPoolInUse() {
		time.Sleep(5 * time.Millisecond)
	}
	mu.Lock()
	defer mu.Unlock()
	what := fmt.Sprintf("output %s (retry %d, primary answers %d to %d request(s)), dead queue %q, batch size %d, %d events; primary endpoint hit %d times, dead-queue endpoint %d times", c.OutType, c.Retry, c.FailStatus, c.FailFirst, c.DQType, c.BatchSize, c.Events, primaryHits.Load(), reserveHits.Load())
	gaveUp := false
	for i := 0; i < c.Events; i++ {
		id := fmt.Sprint(i)
		// what the endpoints are to receive for this source event: the event, or its two children
		what := what
		parts := []string{id}
		if c.Split && i%3 != 2 {
			parts = []string{fmt.Sprint(1000 + 2*i), fmt.Sprint(1001 + 2*i)}
			what += "; split action"
			if primaryGot[id] > 0 || reserveGot[id] > 0 {
				o.Failf(P, "fd-config:parent-of-a-split-delivered", "%s: the parent event %s was delivered", what, id)
			}
		}
		both, twice, missing := false, false, false
		for _, part := range parts {
			both = both || (primaryGot[part] > 0 && reserveGot[part] > 0)
			twice = twice || primaryGot[part] > 1 || reserveGot[part] > 1
			missing = missing || (primaryGot[part] == 0 && reserveGot[part] == 0)
			if reserveGot[part] > 0 {
				gaveUp = true
			}
		}
		got := fmt.Sprintf("deliverable ids %v: primary accepted %v, dead-queue endpoint got %v", parts, countsOf(primaryGot, parts), countsOf(reserveGot, parts))
		switch {
		case both:
			o.Failf(P, "fd-config:event-accepted-by-primary-and-dead-queue", "%s: event %s was accepted by the primary endpoint and also delivered to the dead queue (%s)", what, id, got)
		case twice:
			o.Failf(P, "fd-config:event-delivered-twice", "%s: event %s: %s", what, id, got)
		case commits[id] == 0 && c.DQType != "" && missing:
			o.Failf(P, "fd-config:given-up-event-not-at-dead-queue-endpoint", "%s: event %s was never accepted by the primary, never arrived at the dead queue's own endpoint and was never committed (%s)", what, id, got)
		case commits[id] == 0:
			o.Failf(P, "fd-config:event-never-committed", "%s: event %s (%s) was never committed", what, id, got)
		case commits[id] > 1:
			o.Failf(P, "fd-config:event-committed-twice", "%s: event %s committed %d times", what, id, commits[id])
		case c.DQType != "" && missing:
			o.Failf(P, "fd-config:committed-without-delivery", "%s: event %s was committed but neither endpoint accepted it (%s)", what, id, got)
		}
	}
	if inUse != 0 {
		o.Failf("C05", "fd-config:events-in-use-when-idle", "%s: the pipeline is idle and %d of its pool events are still in use (%d of %d source events committed)\n%s", what, inUse, len(commits), c.Events, p.VerifPoolDump())
	}
	if c.Split || gaveUp {
		o.Nontrivial("C05")
	}
	if c.Split {
		o.Class("fd-config:split-action")
		if gaveUp {
			o.Class("fd-config:children-and-parents-through-the-dead-queue")
		}
	}
	if c.Retry < 0 {
		o.Class("fd-config:retry-forever")
		for i := 0; i < c.Events; i++ {
			ids := []string{fmt.Sprint(i)}
			if c.Split && i%3 != 2 {
				ids = []string{fmt.Sprint(1000 + 2*i), fmt.Sprint(1001 + 2*i)}
			}
			for _, id := range ids {
				if primaryGot[id] == 0 {
					o.Failf(P, "fd-config:unlimited-retry-gave-up", "%s: retry %d means no limit and the primary accepts everything after its first %d answers, yet event %s was never accepted by it (dead-queue endpoint got it %d times, its source event was committed %d times)", what, c.Retry, c.FailFirst, id, reserveGot[id], commits[fmt.Sprint(i)])
					break
				}
			}
		}
	}
	if c.FailFirst < 0 && int(primaryHits.Load()) < c.Retry+1 {
		o.Failf(P, "fd-config:gave-up-too-early", "%s", what)
	}
	if gaveUp {
		o.Nontrivial(P)
		o.Class("fd-config:dead-queue-endpoint-got-events")
		if c.DQType == c.OutType {
			o.Class("fd-config:dead-queue-of-the-output's-type")
		}
	}
	if c.DQType == "" {
		o.Class("fd-config:no-dead-queue")
	}
	return o
}

func countsOf(m map[string]int, ids []string) []int {
	out := make([]int, len(ids))
	for i, id := range ids {
		out[i] = m[id]
	}
	return out
}

var propFD = vkit.NewProp([]string{P, "C05"}, "c09fdconfig", genFD, runFD)

func TestC09FDConfig(t *testing.T) { propFD.CrashFile = true; propFD.Check(t) }
