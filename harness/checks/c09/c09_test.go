// Package c09 decides the retry/backoff clauses of C09 in virtual time by
// calling the exported RetriableBatcher.Out directly on a prepared batch.
// (Routing / dead-queue / commit clauses are decided by the pipe package.)
package c09

import (
	"errors"
	"testing"
	"time"

	"github.com/ozontech/file.d/pipeline"
	"github.com/ozontech/file.d/zzverif/fdkit"
	"github.com/ozontech/file.d/zzverif/vkit"
	"pgregory.net/rapid"
)

const P = "C09"

func TestMain(m *testing.M)   { fdkit.InstallLogger(); vkit.Main(m) }
func TestReplay(t *testing.T) { vkit.Replay(t) }

type BackoffCase struct {
	Retries     int  `json:"retries"`      // AttemptNum, negative = not limited by count
	RetentionMs int  `json:"retention_ms"` // MinRetention
	Multiplier  int  `json:"multiplier"`
	Fails       int  `json:"fails"` // failing attempts before the first success; -1 = always fail
	DeadQueue   bool `json:"dead_queue"`
	Events      int  `json:"events"`
	Parents     int  `json:"parents"` // how many of the events are parents of a split (invisible to ForEach, but committed / routed like the others)
	// UptimeMin: virtual minutes between the creation of the batcher and this (failing) batch; healthy
	// batches are sent in between. The retry budget of a batch must not depend on how long the plugin is up.
	UptimeMin int `json:"uptime_min"`
}

func genBackoff(t *rapid.T) BackoffCase {
	c := BackoffCase{
		Retries:     rapid.IntRange(-3, 6).Draw(t, "retries"),
		RetentionMs: rapid.SampledFrom([]int{1, 10, 50, 1000, 20000}).Draw(t, "retention"),
		Multiplier:  rapid.IntRange(1, 4).Draw(t, "multiplier"),
		DeadQueue:   rapid.Bool().Draw(t, "dq"),
		Events:      rapid.IntRange(1, 4).Draw(t, "events"),
	}
	c.Fails = rapid.IntRange(-1, 9).Draw(t, "fails")
	c.Parents = rapid.IntRange(0, c.Events-1).Draw(t, "parents")
	c.UptimeMin = rapid.SampledFrom([]int{0, 0, 1, 14, 16, 45}).Draw(t, "uptime_min")
	return c
}

type recCtl struct{ commits int }

func (r *recCtl) Commit(*pipeline.Event) { r.commits++ }
func (r *recCtl) Error(string)           {}

var errSend = errors.New("scripted send failure")

func runBackoff(c BackoffCase) *vkit.Outcome {
	o := vkit.NewOutcome()
	vkit.Bubble(func() {
		ctl := &recCtl{}
		var calls []time.Duration
		start := time.Now()
		errorCalls := 0
		var errorAt time.Duration
		var errorEvents int
		outFn := func(_ *pipeline.WorkerData, _ *pipeline.Batch) error {
			calls = append(calls, time.Since(start))
			if c.Fails < 0 || len(calls) <= c.Fails {
				return errSend
			}
			return nil
		}
		rb := pipeline.NewRetriableBatcher(&pipeline.BatcherOptions{
			PipelineName: "c09", OutputType: "verif", Controller: ctl, Workers: 1, BatchSizeCount: 16,
			FlushTimeout: time.Second, MetricCtl: fdkit.MetricCtl("c09"),
		}, outFn, pipeline.BackoffOpts{
			MinRetention:         time.Duration(c.RetentionMs) * time.Millisecond,
			Multiplier:           float64(c.Multiplier),
			AttemptNum:           c.Retries,
			IsDeadQueueAvailable: c.DeadQueue,
		}, func(err error, events []*pipeline.Event) {
			errorCalls++
			errorAt = time.Since(start)
			errorEvents = len(events)
			if len(calls) == 0 || calls[len(calls)-1] != errorAt {
				o.Failf(P, "error-callback-not-after-failed-send", "error callback at %v, last send at %v", errorAt, calls)
			}
		})
		var events []*pipeline.Event
		for i := 0; i < c.Events; i++ {
			e := &pipeline.Event{SeqID: uint64(i + 1), Size: 10}
			if i >= c.Events-c.Parents {
				e.SetChildParentKind()
			}
			events = append(events, e)
		}
		var data pipeline.WorkerData
		if c.UptimeMin > 0 {
			// the plugin has been up for a while and has sent healthy batches
			saved := calls
			origFails := c.Fails
			for m := 0; m < c.UptimeMin; m += 7 {
				time.Sleep(7 * time.Minute)
				c.Fails = 0
				hb := pipeline.NewPreparedBatch([]*pipeline.Event{{SeqID: 1000, Size: 1}})
				rb.Out(&data, hb)
			}
			c.Fails = origFails
			calls = saved[:0]
			errorCalls = 0
			start = time.Now()
		}
		batch := pipeline.NewPreparedBatch(events)
		rb.Out(&data, batch)
		total := time.Since(start)

		succeeded := c.Fails >= 0 && len(calls) == c.Fails+1
		if ctl.commits != 0 {
			o.Failf(P, "committed-inside-out", "Out itself committed %d events (commit belongs to the batcher after Out returned)", ctl.commits)
		}
		// (1) retried no fewer times than configured before giving up
		if errorCalls > 0 {
			if c.Retries >= 0 && len(calls) < c.Retries+1 {
				o.Failf(P, "gave-up-too-early", "given up after %d send calls, retries=%d requires at least %d", len(calls), c.Retries, c.Retries+1)
			}
			if c.Retries < 0 && total < 13*time.Minute { // the library stops when elapsed+next pause (<= 90 s) would pass 15 min
				// only the backoff library's elapsed-time cap (15 min) may end an unlimited retry
				o.Failf(P, "unlimited-retry-gave-up-early", "retries=%d (unlimited) but given up after %d calls and %v", c.Retries, len(calls), total)
			}
			if succeeded {
				o.Failf(P, "error-callback-after-success", "send #%d succeeded but the error callback fired", len(calls))
			}
			if errorCalls != 1 {
				o.Failf(P, "error-callback-count", "error callback fired %d times for one batch", errorCalls)
			}
			if errorEvents != c.Events {
				o.Failf(P, "error-callback-events", "error callback got %d events, batch has %d", errorEvents, c.Events)
			}
			// routing of the given-up batch: with a dead queue the batch must come back EMPTY (its events
			// now belong to the dead queue, the main batcher must not commit them); without one it keeps
			// its events so that the main batcher commits them after the error was reported.
			left := 0
			batch.ForEach(func(*pipeline.Event) { left++ })
			if c.DeadQueue && left != 0 {
				o.Failf(P, "given-up-batch-not-handed-over", "dead queue available, batch given up after %d calls / %v, but %d events are still in the batch: the main batcher would commit them as well", len(calls), total, left)
			}
			if !c.DeadQueue && left != c.Events-c.Parents {
				o.Failf(P, "given-up-batch-lost-events", "no dead queue, batch given up, but only %d of %d deliverable events are left for the main batcher to commit", left, c.Events-c.Parents)
			}
			o.Class("gave-up")
		} else {
			if !succeeded {
				o.Failf(P, "out-returned-without-success-or-error", "Out returned after %d failing calls without success and without the error callback (fails=%d)", len(calls), c.Fails)
			}
			// success stops retrying immediately
			if c.Fails >= 0 && len(calls) != c.Fails+1 {
				o.Failf(P, "retried-after-success", "%d send calls, the first success was call %d", len(calls), c.Fails+1)
			}
			o.Class("succeeded")
		}
		// (2) growing pauses: pause i within [0.5,1.5] * min(retention*mult^i, 60s)
		interval := float64(time.Duration(c.RetentionMs) * time.Millisecond)
		prevLow := 0.0
		for i := 1; i < len(calls); i++ {
			pause := float64(calls[i] - calls[i-1])
			low, high := 0.5*interval, 1.5*interval
			if pause < low*0.999 || pause > high*1.001 {
				o.Failf(P, "pause-out-of-range", "pause #%d is %v, expected within [%v, %v] (retention %dms, multiplier %d)", i, time.Duration(pause), time.Duration(low), time.Duration(high), c.RetentionMs, c.Multiplier)
				break
			}
			if low < prevLow {
				o.Failf(P, "pause-envelope-shrinks", "lower bound of pause #%d is below the previous one", i)
			}
			prevLow = low
			interval *= float64(c.Multiplier)
			if interval > float64(60*time.Second) {
				interval = float64(60 * time.Second)
			}
		}
		if len(calls) >= 3 {
			o.Nontrivial(P)
			o.Class("multi-retry")
		}
		if c.Retries < 0 {
			o.Class("unlimited-retries")
		}
	})
	return o
}

var propBackoff = vkit.NewProp([]string{P}, "c09backoff", genBackoff, runBackoff)

func TestC09Backoff(t *testing.T) { propBackoff.CrashFile = true; propBackoff.Check(t) }
