package c09

import (
	"context"
	"fmt"
	"sync"
	"sync/atomic"
	"testing"
	"time"

	"github.com/ozontech/file.d/pipeline"
	"github.com/ozontech/file.d/zzverif/fdkit"
	"github.com/ozontech/file.d/zzverif/vkit"
	"pgregory.net/rapid"
)

// ShutdownCase: a Router with a always-failing main output (RetriableBatcher, error callback wired to
// Router.Fail like plugin/output/elasticsearch) and a dead-queue output (plain Batcher) is stopped the
// way Pipeline.Stop does it (Router.Stop) while a main batch is being retried. Whatever the main output
// gives up before its Stop returns is handed to the dead queue, and the dead queue owns it from there.
type ShutdownCase struct {
	Events      int `json:"events"`
	MainBatch   int `json:"main_batch"`
	MainWorkers int `json:"main_workers"`
	Retries     int `json:"retries"`
	DQBatch     int `json:"dq_batch"`
	DQWorkers   int `json:"dq_workers"`
	StopAt      int `json:"stop_at"`  // Router.Stop starts when the StopAt-th failing send call (over all batches) happens
	StallUs     int `json:"stall_us"` // that send call then takes this long
}

func genShutdown(t *rapid.T) ShutdownCase {
	c := ShutdownCase{
		Events:      rapid.IntRange(1, 9).Draw(t, "events"),
		MainBatch:   rapid.IntRange(1, 3).Draw(t, "main_batch"),
		MainWorkers: rapid.IntRange(1, 3).Draw(t, "main_workers"),
		Retries:     rapid.IntRange(0, 3).Draw(t, "retries"),
		DQBatch:     rapid.IntRange(1, 3).Draw(t, "dq_batch"),
		DQWorkers:   rapid.IntRange(1, 2).Draw(t, "dq_workers"),
		StallUs:     rapid.SampledFrom([]int{0, 200, 2000}).Draw(t, "stall_us"),
	}
	c.StopAt = rapid.IntRange(1, (c.Retries+1)*2).Draw(t, "stop_at")
	return c
}

type shutCtl struct {
	mu      sync.Mutex
	commits map[uint64]int
	order   []string
}

func (s *shutCtl) Commit(e *pipeline.Event) {
	s.mu.Lock()
	s.commits[e.SeqID]++
	s.order = append(s.order, fmt.Sprintf("commit %d", e.SeqID))
	s.mu.Unlock()
}
func (s *shutCtl) Error(string) {}
func (s *shutCtl) note(f string, a ...any) {
	s.mu.Lock()
	s.order = append(s.order, fmt.Sprintf(f, a...))
	s.mu.Unlock()
}

type shutMain struct {
	c       *ShutdownCase
	ctl     *shutCtl
	batcher *pipeline.RetriableBatcher
	router  *pipeline.Router
	calls   atomic.Int32
	stopCh  chan struct{}
	gaveUp  atomic.Int32
}

func (m *shutMain) Start(_ pipeline.AnyConfig, params *pipeline.OutputPluginParams) {
	m.router = params.Router
	m.batcher = pipeline.NewRetriableBatcher(&pipeline.BatcherOptions{
		PipelineName: params.PipelineName, OutputType: "verif_main", Controller: params.Controller,
		Workers: m.c.MainWorkers, BatchSizeCount: m.c.MainBatch, FlushTimeout: time.Hour, MetricCtl: params.MetricCtl,
	}, func(_ *pipeline.WorkerData, b *pipeline.Batch) error {
		n := int(m.calls.Add(1))
		m.ctl.note("main send call %d", n)
		if n == m.c.StopAt {
			close(m.stopCh)
			if m.c.StallUs > 0 {
				time.Sleep(time.Duration(m.c.StallUs) * time.Microsecond)
			}
		}
		return errSend
	}, pipeline.BackoffOpts{
		MinRetention: 300 * time.Microsecond, Multiplier: 1, AttemptNum: m.c.Retries, IsDeadQueueAvailable: true,
	}, func(_ error, events []*pipeline.Event) {
		m.gaveUp.Add(1)
		for i := range events {
			m.router.Fail(events[i])
		}
	})
	m.batcher.Start(context.Background())
}
func (m *shutMain) Out(e *pipeline.Event) { m.batcher.Add(e) }
func (m *shutMain) Stop()                 { m.batcher.Stop() }

type shutDQ struct {
	c         *ShutdownCase
	ctl       *shutCtl
	batcher   *pipeline.Batcher
	mu        sync.Mutex
	handed    map[uint64]int
	delivered map[uint64]int
}

func (d *shutDQ) Start(_ pipeline.AnyConfig, params *pipeline.OutputPluginParams) {
	d.batcher = pipeline.NewBatcher(pipeline.BatcherOptions{
		PipelineName: params.PipelineName, OutputType: "verif_dq", Controller: params.Controller,
		Workers: d.c.DQWorkers, BatchSizeCount: d.c.DQBatch, FlushTimeout: time.Hour, MetricCtl: params.MetricCtl,
		OutFn: func(_ *pipeline.WorkerData, b *pipeline.Batch) {
			b.ForEach(func(e *pipeline.Event) {
				d.mu.Lock()
				d.delivered[e.SeqID]++
				d.mu.Unlock()
				d.ctl.note("dq delivers %d", e.SeqID)
			})
		},
	})
	d.batcher.Start(context.Background())
}
func (d *shutDQ) Out(e *pipeline.Event) {
	d.mu.Lock()
	d.handed[e.SeqID]++
	d.mu.Unlock()
	d.ctl.note("handed to dq %d", e.SeqID)
	d.batcher.Add(e)
}
func (d *shutDQ) Stop() { d.ctl.note("dq stop"); d.batcher.Stop(); d.ctl.note("dq stopped") }

func runShutdown(c ShutdownCase) *vkit.Outcome {
	o := vkit.NewOutcome()
	if c.Events < 1 || c.MainBatch < 1 || c.MainWorkers < 1 || c.Retries < 0 || c.DQBatch < 1 || c.DQWorkers < 1 || c.StopAt < 1 || c.Events > 64 {
		o.Class("invalid-case")
		return o
	}
	ctl := &shutCtl{commits: map[uint64]int{}}
	name := fdkit.UniqueName("c09shut")
	main := &shutMain{c: &c, ctl: ctl, stopCh: make(chan struct{})}
	dq := &shutDQ{c: &c, ctl: ctl, handed: map[uint64]int{}, delivered: map[uint64]int{}}
	router := pipeline.NewRouter()
	router.SetOutput(&pipeline.OutputPluginInfo{
		PluginStaticInfo:  &pipeline.PluginStaticInfo{Type: "verif_main"},
		PluginRuntimeInfo: &pipeline.PluginRuntimeInfo{Plugin: main, ID: "verif_main"},
	})
	router.SetDeadQueueOutput(&pipeline.OutputPluginInfo{
		PluginStaticInfo:  &pipeline.PluginStaticInfo{Type: "verif_dq"},
		PluginRuntimeInfo: &pipeline.PluginRuntimeInfo{Plugin: dq, ID: "verif_dq"},
	})
	router.Start(&pipeline.OutputPluginParams{
		PluginDefaultParams: pipeline.PluginDefaultParams{PipelineName: name, PipelineSettings: fdkit.DefaultSettings(), MetricCtl: fdkit.MetricCtl(name)},
		Controller:          ctl,
	})
	// the feeder plays the processors: Pipeline.Stop stops them before it stops the router
	fed := make(chan struct{})
	var feedStop atomic.Bool
	go func() {
		defer close(fed)
		for i := 0; i < c.Events && !feedStop.Load(); i++ {
			router.Out(&pipeline.Event{SeqID: uint64(i + 1), Size: 10})
		}
	}()
	stopped := make(chan struct{})
	go func() {
		select {
		case <-main.stopCh:
		case <-fed:
			// fewer send calls than stop_at: stop once everything fed was given up or is waiting in a partial batch
			time.Sleep(2 * time.Millisecond)
		}
		feedStop.Store(true)
		ctl.note("router stop")
		router.Stop()
		ctl.note("router stopped")
		close(stopped)
	}()
	select {
	case <-stopped:
	case <-time.After(60 * time.Second):
		o.Excluded(P)
		o.Class("router-stop-did-not-return-in-60s")
		return o
	}
	select {
	case <-fed:
	case <-time.After(10 * time.Second):
		// the feeder may be parked in Add of the stopped main batcher (no free batch); nothing to check about it
		o.Class("feeder-parked")
	}
	dq.mu.Lock()
	ctl.mu.Lock()
	defer dq.mu.Unlock()
	defer ctl.mu.Unlock()
	o.AppendContext(fmt.Sprintf("history: %v", ctl.order))
	handed, delivered := 0, 0
	for id, n := range dq.handed {
		handed++
		if n > 1 {
			o.Failf(P, "shutdown:handed-to-dead-queue-twice", "event %d was handed to the dead queue %d times", id, n)
		}
	}
	for id, n := range dq.delivered {
		delivered++
		if n > 1 {
			o.Failf(P, "shutdown:dead-queue-delivered-twice", "event %d was delivered by the dead queue %d times", id, n)
		}
		if dq.handed[id] == 0 {
			o.Failf(P, "shutdown:dead-queue-delivered-foreign-event", "event %d delivered by the dead queue was never handed to it", id)
		}
		if ctl.commits[id] != 1 {
			o.Failf(P, "shutdown:delivered-but-not-committed-once", "event %d was delivered by the dead queue, Stop returned, and it is committed %d times", id, ctl.commits[id])
		}
	}
	for id, n := range ctl.commits {
		if n > 1 {
			o.Failf(P, "shutdown:committed-twice", "event %d committed %d times", id, n)
		}
		if dq.delivered[id] == 0 {
			o.Failf(P, "shutdown:committed-without-delivery", "event %d committed although the main output never succeeded and the dead queue never delivered it", id)
		}
	}
	// Router.Stop returned: the main output's workers have finished (every batch they held is given up
	// and handed over), then the dead queue's workers have drained every batch that was complete.
	if full := handed / c.DQBatch * c.DQBatch; delivered < full {
		o.Failf(P, "shutdown:given-up-events-not-delivered-by-dead-queue", "%d events were handed to the dead queue (batch size %d) before Router.Stop returned, %d complete dead-queue batches worth %d events must have been delivered, delivered %d", handed, c.DQBatch, handed/c.DQBatch, full, delivered)
	}
	if handed > 0 {
		o.Nontrivial(P)
		o.Class("given-up-around-shutdown")
	}
	if delivered > 0 {
		o.Class("dead-queue-delivered")
	}
	if delivered < handed {
		o.Class("partial-dead-queue-batch-abandoned")
	}
	if int(main.calls.Load()) >= c.StopAt {
		o.Class("stopped-mid-retry")
	}
	return o
}

var propShutdown = vkit.NewProp([]string{P}, "c09shutdown", genShutdown, runShutdown)

func TestC09Shutdown(t *testing.T) { propShutdown.CrashFile = true; propShutdown.Check(t) }
