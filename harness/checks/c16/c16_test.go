// Package c16 decides C16 — the throttle action never passes more than the
// limit per key and time bucket, never rejects while under the limit, and keys
// never share a budget.
//
// Black-box in VIRTUAL TIME: the plugin comes from fd.DefaultPluginRegistry, its
// config goes through pipeline.GetConfig (defaults + cfg.Parse, as real configs
// do), Do(event) is called directly. Every execution runs inside a
// testing/synctest bubble, so the time.Now the limiters read is the virtual
// clock that the generated history advances with time.Sleep. Every execution
// uses a fresh pipeline name (the package keeps one limiter map per name) and
// Stop ends the maintenance goroutine before the bubble closes.
package c16

import (
	"encoding/json"
	"fmt"
	"runtime/debug"
	"sort"
	"strconv"
	"strings"
	"testing"
	"time"

	"github.com/ozontech/file.d/fd"
	"github.com/ozontech/file.d/pipeline"
	_ "github.com/ozontech/file.d/plugin/action/throttle"
	"github.com/ozontech/file.d/zzverif/fdkit"
	"github.com/ozontech/file.d/zzverif/vkit"
	insaneJSON "github.com/ozontech/insane-json"
	"pgregory.net/rapid"
)

const P = "C16"

func TestMain(m *testing.M)   { fdkit.InstallLogger(); vkit.Main(m) }
func TestReplay(t *testing.T) { vkit.Replay(t) }

// ------------------------------------------------------------------ case

// Ratio is one entry of limit_distribution.ratios; the ratio is Pct/100 + Milli/1000.
type Ratio struct {
	Pct    int      `json:"pct"`
	Milli  int      `json:"milli,omitempty"` // extra thousandths (ratios like 0.125)
	Values []string `json:"values"`
}

// Dist is a limit_distribution.
type Dist struct {
	Field  string  `json:"field"`
	Ratios []Ratio `json:"ratios"`
}

// Rule is one element of `rules`.
type Rule struct {
	Cond  map[string]string `json:"cond"`
	Limit int64             `json:"limit"`
	Kind  string            `json:"kind"` // count | size
	Dist  *Dist             `json:"dist,omitempty"`
}

// Step is a wall-clock advance (SleepMs > 0) or one event.
type Step struct {
	SleepMs int64 `json:"sleep_ms,omitempty"`
	// Restart (on a sleep step): after the sleep every plugin instance is stopped and new ones are started
	// under the same pipeline name (a pipeline stopped and started again inside one process); the
	// pipeline's limiters are shared by name, so the counts of the running buckets go on
	Restart bool `json:"restart,omitempty"`

	Fields map[string]string `json:"fields,omitempty"` // string fields of the event; a name with a dot is rendered nested
	// Time: "at" = the time field holds start+AtMs(+SubNs) rendered in the configured format;
	// "absent" = the event has no time field; "raw" = the field holds Raw verbatim
	// (unparsable, zero, or a year far outside any window).
	Time  string `json:"time,omitempty"`
	AtMs  int64  `json:"at_ms,omitempty"` // relative to the start of the history (bubble start)
	SubNs int64  `json:"sub_ns,omitempty"`
	TZMin int    `json:"tz_min,omitempty"` // rfc3339 rendering zone offset
	Raw   string `json:"raw,omitempty"`
	Pad   int    `json:"pad,omitempty"` // length of the "pad" field (varies the event size)
	// Repeat > 1: the same event arrives Repeat times in a row (a burst; every copy is judged)
	Repeat int `json:"repeat,omitempty"`
	Proc   int `json:"proc,omitempty"` // which plugin instance (processor) handles the event
}

// Case is a throttle configuration plus a history.
type Case struct {
	ThrottleField string  `json:"throttle_field"`
	TimeField     string  `json:"time_field"`  // "" = current time is taken
	TimeFormat    string  `json:"time_format"` // rfc3339nano | unixtimemilli | unixtimefloat (format unixtime, value written as seconds.fraction)
	DefaultLimit  int64   `json:"default_limit"`
	DefaultKind   string  `json:"default_kind"`
	DefaultDist   *Dist   `json:"default_dist,omitempty"`
	BucketsCount  int     `json:"buckets_count"`
	IntervalMs    int64   `json:"interval_ms"`
	Rules         []Rule  `json:"rules"`
	Procs         int     `json:"procs,omitempty"` // plugin instances sharing the pipeline name, as the processors of one pipeline do (0 = 1)
	Steps         []Step  `json:"steps"`
	MetaKey       *string `json:"meta_key,omitempty"` // second run without the events of this throttle key
	// FormatSpelling: how the time_field_format name is written in the config - format names are accepted in
	// any letter case and with surrounding blanks (0 as is, 1 upper case, 2 mixed case, 3 padded)
	FormatSpelling int `json:"format_spelling,omitempty"`
	// ExpirationS > 0: limiter_expiration in seconds ("unused limiters are removed"); 0 = practically never.
	// A limiter whose key keeps arriving with gaps shorter than the expiration must keep its counts; once a
	// key has been silent for about the expiration the oracle stops judging it (it may or may not be gone).
	ExpirationS int `json:"expiration_s,omitempty"`
}

// ------------------------------------------------------------------ generator

// The synctest clock starts at 2000-01-01T00:00:00Z; the generator uses it only
// to aim event times at bucket boundaries (the oracle reads the start inside the bubble).
const bubbleEpochMs = int64(946684800000)

var (
	keyAlphabet   = []string{"a", "b", "c", "a", "b", ""}
	condFields    = []string{"ns", "app"}
	condValues    = []string{"x", "y", "z"}
	levelAlphabet = []string{"error", "warn", "info", "debug", "trace", ""}
	listedLevels  = []string{"error", "warn", "info", "debug"}
	pctChoices    = []int{1, 10, 20, 25, 30, 33, 50, 50, 70, 100} // ratio 0 is rejected by config validation (`required`)
	rawTimes      = []string{"not-a-time", "", "9999-12-31T23:59:59Z", "0001-01-01T00:00:00Z", "1960-06-01T00:00:00Z", "2000-01-01 00:00:00", "-5", "12345678901234567890"}
	tzChoices     = []int{0, 0, 0, 180, -330, 60}
)

func genDist(t *rapid.T, label string) *Dist {
	d := &Dist{Field: rapid.SampledFrom([]string{"level", "level", "meta.level"}).Draw(t, label+"field")}
	levels := append([]string{}, listedLevels...)
	// deterministic shuffle by draws
	for i := len(levels) - 1; i > 0; i-- {
		j := rapid.IntRange(0, i).Draw(t, label+"shuf")
		levels[i], levels[j] = levels[j], levels[i]
	}
	n := rapid.IntRange(1, 3).Draw(t, label+"nratios")
	left := 100
	for i := 0; i < n && len(levels) > 0 && left > 0; i++ {
		pct := rapid.SampledFrom(pctChoices).Draw(t, label+"pct")
		if pct > left {
			pct = left
		}
		left -= pct
		milli := 0
		nv := 1
		if len(levels) > 1 && rapid.IntRange(0, 3).Draw(t, label+"two") == 0 {
			nv = 2
		}
		d.Ratios = append(d.Ratios, Ratio{Pct: pct, Milli: milli, Values: append([]string{}, levels[:nv]...)})
		levels = levels[nv:]
	}
	if len(d.Ratios) >= 2 && left >= 1 && rapid.IntRange(0, 2).Draw(t, label+"fine") == 0 {
		// ratios with three decimals (0.125 / 0.375): the share is ratio*limit all the same. Two ratios get
		// x and 10-x extra thousandths, so that what is left for the default distribution stays a whole
		// percent (the plugin rounds the default ratio to two decimals).
		x := rapid.SampledFrom([]int{5, 5, 5, 1, 3, 9}).Draw(t, label+"milli")
		d.Ratios[0].Milli, d.Ratios[1].Milli = x, 10-x
	}
	return d
}

func genLimit(t *rapid.T, label, kind string, dist bool) int64 {
	if kind == "size" {
		if rapid.IntRange(0, 9).Draw(t, label+"lim0") == 0 {
			return int64(rapid.IntRange(0, 1).Draw(t, label+"limtiny"))
		}
		return int64(rapid.IntRange(40, 900).Draw(t, label+"limsize"))
	}
	if dist {
		return rapid.SampledFrom([]int64{0, 1, 2, 3, 4, 5, 6, 10, 10, 12, 20}).Draw(t, label+"limdist")
	}
	return int64(rapid.IntRange(0, 5).Draw(t, label+"lim"))
}

func genKind(t *rapid.T, label string) string {
	if rapid.IntRange(0, 3).Draw(t, label) == 0 {
		return "size"
	}
	return "count"
}

func gen(t *rapid.T) Case {
	c := Case{}
	c.ThrottleField = rapid.SampledFrom([]string{"pod", "pod", "pod", "meta.pod", ""}).Draw(t, "throttle_field")
	c.TimeField = rapid.SampledFrom([]string{"time", "time", "time", "ts", ""}).Draw(t, "time_field")
	c.TimeFormat = rapid.SampledFrom([]string{"rfc3339nano", "rfc3339nano", "rfc3339nano", "unixtimemilli", "unixtimefloat"}).Draw(t, "time_format")
	c.BucketsCount = rapid.SampledFrom([]int{1, 2, 2, 3, 3, 4, 5, 8, 1, 2, 3, 4, 16, 60}).Draw(t, "buckets_count")
	c.IntervalMs = rapid.SampledFrom([]int64{100, 100, 1000, 1000, 1000, 1000, 1500, 1500, 7000, 7000, 60000, 60000, 3600000}).Draw(t, "interval_ms")
	if rapid.IntRange(0, 3).Draw(t, "format_spelling") == 0 {
		c.FormatSpelling = rapid.IntRange(1, 3).Draw(t, "format_spelling_how")
	}
	if c.BucketsCount > 8 && c.IntervalMs > 7000 {
		c.IntervalMs = 1000 // keeps the virtual duration (1 s maintenance ticks) of a window crossing small
	}
	I, N := c.IntervalMs, int64(c.BucketsCount)
	c.Procs = rapid.SampledFrom([]int{1, 1, 2, 3}).Draw(t, "procs")
	if rapid.IntRange(0, 3).Draw(t, "has_expiration") == 0 {
		c.ExpirationS = rapid.SampledFrom([]int{3, 5, 20, 120}).Draw(t, "expiration_s")
	}

	c.DefaultKind = genKind(t, "default_kind")
	hasDefDist := rapid.IntRange(0, 3).Draw(t, "default_has_dist") == 0
	c.DefaultLimit = genLimit(t, "default_", c.DefaultKind, hasDefDist)
	if hasDefDist {
		c.DefaultDist = genDist(t, "default_dist_")
	}
	fine := func(d *Dist) bool { return d != nil && len(d.Ratios) > 0 && d.Ratios[0].Milli > 0 }
	bursts := false
	if fine(c.DefaultDist) && c.DefaultKind == "count" {
		// three-decimal ratios only matter for limits whose shares are not whole numbers of hundredths
		c.DefaultLimit = rapid.SampledFrom([]int64{40, 100, 200}).Draw(t, "default_biglimit")
		bursts = true
	}
	nRules := rapid.SampledFrom([]int{0, 0, 1, 1, 2, 3}).Draw(t, "n_rules")
	manyRules := rapid.IntRange(0, 11).Draw(t, "many_rules") == 0
	if manyRules {
		// a long rule list: rule 0 (and rule 26) are ordinary, the rules in between never match; an event
		// that matches none gets the default limit, which is "rule" number len(rules)
		nRules = rapid.SampledFrom([]int{26, 26, 27, 30}).Draw(t, "n_many_rules")
	}
	for i := 0; i < nRules; i++ {
		r := Rule{Cond: map[string]string{}}
		if manyRules && i != 0 && i != 26 {
			r.Cond["ns"] = fmt.Sprintf("q%d", i)
			r.Kind = genKind(t, "rule_kind")
			r.Limit = genLimit(t, "rule_", r.Kind, false)
			c.Rules = append(c.Rules, r)
			continue
		}
		switch rapid.IntRange(0, 9).Draw(t, "cond_shape") {
		case 0: // no conditions: matches every event, shadows everything after it
		case 1, 2, 3: // two conditions (AND)
			for _, f := range condFields {
				r.Cond[f] = rapid.SampledFrom(condValues[:2]).Draw(t, "cond_val")
			}
		default:
			r.Cond[rapid.SampledFrom(condFields).Draw(t, "cond_field")] = rapid.SampledFrom(condValues[:2]).Draw(t, "cond_val")
		}
		r.Kind = genKind(t, "rule_kind")
		hasDist := rapid.IntRange(0, 4).Draw(t, "rule_has_dist") == 0
		r.Limit = genLimit(t, "rule_", r.Kind, hasDist)
		if hasDist {
			r.Dist = genDist(t, "rule_dist_")
			if fine(r.Dist) && r.Kind == "count" {
				r.Limit = rapid.SampledFrom([]int64{40, 100, 200}).Draw(t, "rule_biglimit")
				bursts = true
			}
		}
		c.Rules = append(c.Rules, r)
	}
	distFields := map[string]bool{}
	if c.DefaultDist != nil {
		distFields[c.DefaultDist.Field] = true
	}
	for _, r := range c.Rules {
		if r.Dist != nil {
			distFields[r.Dist.Field] = true
		}
	}

	// history
	nowRel := int64(0) // ms since the start
	// phase: do not always start on a bucket boundary
	if rapid.Bool().Draw(t, "phase") {
		d := int64(rapid.IntRange(1, int(min64(I, 100000))).Draw(t, "phase_ms"))
		c.Steps = append(c.Steps, Step{SleepMs: d})
		nowRel += d
	}
	const maxVirtualMs = int64(6_000_000) // bounds the number of 1 s maintenance ticks per execution
	nSteps := rapid.IntRange(4, 45).Draw(t, "n_steps")
	hot := rapid.SampledFrom(keyAlphabet[:3]).Draw(t, "hot_key")
	for i := 0; i < nSteps; i++ {
		if rapid.IntRange(0, 99).Draw(t, "is_sleep") < 22 {
			var d int64
			shapeMax := 7
			if c.ExpirationS > 0 {
				shapeMax = 10
			}
			switch rapid.IntRange(0, shapeMax).Draw(t, "sleep_shape") {
			case 8, 9, 10: // shorter than the limiter expiration: a key that keeps arriving stays "used"
				d = int64(rapid.IntRange(1, (c.ExpirationS-2)*1000-1).Draw(t, "sleep_under_expiration"))
			case 0, 1: // inside a bucket
				d = int64(rapid.IntRange(1, int(min64(I, 1<<30))).Draw(t, "sleep_small"))
			case 2: // exactly one interval
				d = I
			case 3: // to the next bucket boundary
				abs := bubbleEpochMs + nowRel
				d = I - abs%I
			case 4: // a few buckets
				d = int64(rapid.IntRange(1, 3).Draw(t, "sleep_few"))*I + int64(rapid.IntRange(0, int(min64(I, 1<<30))-1).Draw(t, "sleep_few_ms"))
			case 5: // around the whole window
				d = (N+int64(rapid.IntRange(-1, 1).Draw(t, "sleep_win_k")))*I + int64(rapid.IntRange(-1, 1).Draw(t, "sleep_win_ms"))
			default: // jump over many buckets
				d = int64(rapid.IntRange(int(N), int(3*N+5)).Draw(t, "sleep_jump")) * I
			}
			if d <= 0 {
				d = 1
			}
			if nowRel+d > maxVirtualMs {
				d = int64(rapid.IntRange(1, int(min64(I, 1000))).Draw(t, "sleep_capped"))
			}
			c.Steps = append(c.Steps, Step{SleepMs: d, Restart: rapid.IntRange(0, 11).Draw(t, "restart") == 0})
			nowRel += d
			continue
		}
		s := Step{Fields: map[string]string{}}
		if c.ThrottleField != "" {
			switch k := rapid.IntRange(0, 9).Draw(t, "key_shape"); {
			case k < 5:
				s.Fields[c.ThrottleField] = hot
			case k < 9:
				s.Fields[c.ThrottleField] = rapid.SampledFrom(keyAlphabet).Draw(t, "key")
			default: // field missing
			}
		}
		for _, f := range condFields {
			if rapid.IntRange(0, 5).Draw(t, "cond_present") > 0 {
				s.Fields[f] = rapid.SampledFrom(condValues).Draw(t, "ev_cond_val")
			}
		}
		for _, f := range sortedKeys(distFields) {
			if rapid.IntRange(0, 7).Draw(t, "level_present") > 0 {
				s.Fields[f] = rapid.SampledFrom(levelAlphabet).Draw(t, "level")
			}
		}
		s.Pad = rapid.SampledFrom([]int{0, 0, 0, 1, 10, 50, 120, 300}).Draw(t, "pad")
		if c.Procs > 1 {
			s.Proc = rapid.IntRange(0, c.Procs-1).Draw(t, "proc")
		}
		abs := bubbleEpochMs + nowRel
		curStart := abs - abs%I
		s.Time = "at"
		switch m := rapid.IntRange(0, 19).Draw(t, "time_shape"); {
		case m < 5: // now
			s.AtMs = nowRel
		case m < 8: // somewhere in the retained window
			s.AtMs = nowRel - int64(rapid.IntRange(0, int(N*I)).Draw(t, "past_ms"))
		case m < 11: // on / just before the start of one of the buckets around the window
			k := int64(rapid.IntRange(0, int(N)+1).Draw(t, "boundary_k"))
			s.AtMs = curStart - k*I - bubbleEpochMs
			if rapid.Bool().Draw(t, "boundary_before") {
				s.AtMs--
				s.SubNs = 999999
			}
		case m < 12: // just older than the window
			s.AtMs = nowRel - N*I - int64(rapid.IntRange(0, int(2*I)).Draw(t, "old_ms"))
		case m < 14: // near future
			s.AtMs = nowRel + int64(rapid.IntRange(1, int(2*I)).Draw(t, "future_ms"))
		case m < 15: // end of the current bucket / start of the next
			s.AtMs = curStart + I - bubbleEpochMs - int64(rapid.IntRange(0, 1).Draw(t, "edge"))
		case m < 16: // far past (1971 .. 1999)
			s.AtMs = -int64(rapid.IntRange(1, 10000).Draw(t, "far_past_days")) * 86400000
		case m < 17: // far future (.. 2200)
			s.AtMs = int64(rapid.IntRange(1, 70000).Draw(t, "far_future_days")) * 86400000
		case m < 18:
			s.Time = "absent"
		default:
			s.Time = "raw"
			s.Raw = rapid.SampledFrom(rawTimes).Draw(t, "raw_time")
		}
		if s.Time == "at" {
			s.TZMin = rapid.SampledFrom(tzChoices).Draw(t, "tz")
			if s.SubNs == 0 && rapid.IntRange(0, 3).Draw(t, "sub") == 0 {
				s.SubNs = int64(rapid.IntRange(0, 999999).Draw(t, "sub_ns"))
			}
		}
		if bursts && rapid.IntRange(0, 2).Draw(t, "burst") == 0 {
			s.Repeat = rapid.IntRange(10, 80).Draw(t, "repeat")
		}
		c.Steps = append(c.Steps, s)
	}
	// make sure most histories end beyond the first window
	if rapid.IntRange(0, 2).Draw(t, "final_jump") > 0 && nowRel+(N+1)*I <= maxVirtualMs {
		c.Steps = append(c.Steps, Step{SleepMs: N * I})
		nowRel += N * I
		tail := rapid.IntRange(1, 6).Draw(t, "tail")
		for i := 0; i < tail; i++ {
			s := Step{Fields: map[string]string{}, Time: "at", AtMs: nowRel - int64(rapid.IntRange(0, int(N*I)).Draw(t, "tail_past"))}
			if c.ThrottleField != "" {
				s.Fields[c.ThrottleField] = hot
			}
			for _, f := range condFields {
				s.Fields[f] = rapid.SampledFrom(condValues).Draw(t, "tail_cond")
			}
			if c.Procs > 1 {
				s.Proc = rapid.IntRange(0, c.Procs-1).Draw(t, "tail_proc")
			}
			c.Steps = append(c.Steps, s)
		}
	}
	if c.ThrottleField != "" && rapid.Bool().Draw(t, "meta") {
		k := rapid.SampledFrom(keyAlphabet).Draw(t, "meta_key")
		c.MetaKey = &k
	}
	return c
}

func min64(a, b int64) int64 {
	if a < b {
		return a
	}
	return b
}

func sortedKeys[V any](m map[string]V) []string {
	ks := make([]string, 0, len(m))
	for k := range m {
		ks = append(ks, k)
	}
	sort.Strings(ks)
	return ks
}

// ------------------------------------------------------------------ rendering

func distJSON(d *Dist) map[string]any {
	rs := []any{}
	for _, r := range d.Ratios {
		rs = append(rs, map[string]any{"ratio": float64(r.milli()) / 1000, "values": r.Values})
	}
	return map[string]any{"field": d.Field, "ratios": rs}
}

func spellFormat(name string, how int) string {
	switch how {
	case 1:
		return strings.ToUpper(name)
	case 2:
		return strings.Replace(strings.Replace(name, "unixtime", "UnixTime", 1), "milli", "Milli", 1)
	case 3:
		return " " + name + " "
	}
	return name
}

func configJSON(c Case) []byte {
	m := map[string]any{
		"throttle_field":     c.ThrottleField,
		"time_field":         c.TimeField,
		"time_field_format":  spellFormat(map[bool]string{true: "unixtime", false: c.TimeFormat}[c.TimeFormat == "unixtimefloat"], c.FormatSpelling),
		"default_limit":      c.DefaultLimit,
		"limit_kind":         c.DefaultKind,
		"limiter_backend":    "memory",
		"buckets_count":      c.BucketsCount,
		"bucket_interval":    fmt.Sprintf("%dms", c.IntervalMs),
		"limiter_expiration": "1000000h", // eviction of unused limiters is documented and not part of the property
	}
	if c.ExpirationS > 0 {
		m["limiter_expiration"] = fmt.Sprintf("%ds", c.ExpirationS)
	}
	if c.DefaultDist != nil {
		m["limit_distribution"] = distJSON(c.DefaultDist)
	}
	rules := []any{}
	for _, r := range c.Rules {
		rm := map[string]any{"limit": r.Limit, "limit_kind": r.Kind, "conditions": r.Cond}
		if r.Dist != nil {
			rm["limit_distribution"] = distJSON(r.Dist)
		}
		rules = append(rules, rm)
	}
	if len(rules) > 0 {
		m["rules"] = rules
	}
	b, _ := json.Marshal(m)
	return b
}

// eventTimeNs returns the absolute event time of an "at" step as the plugin will parse it.
func eventTimeNs(c Case, s Step, startMs int64) int64 {
	ns := (startMs + s.AtMs) * 1_000_000
	if c.TimeFormat != "unixtimemilli" {
		ns += s.SubNs
	}
	return ns
}

func timeFieldValue(c Case, s Step, startMs int64) string {
	if s.Time == "raw" {
		return s.Raw
	}
	if c.TimeFormat == "unixtimemilli" {
		return strconv.FormatInt(startMs+s.AtMs, 10)
	}
	if c.TimeFormat == "unixtimefloat" {
		// "when timestamp is presented as a float number its whole part is always considered as seconds and
		// the fractional part is fractions of a second" (xtime): exact decimal, up to nine digits
		ns := eventTimeNs(c, s, startMs)
		if ns < 0 {
			return strconv.FormatInt(ns/1_000_000_000, 10)
		}
		frac := strings.TrimRight(fmt.Sprintf("%09d", ns%1_000_000_000), "0")
		if frac == "" {
			frac = "0"
		}
		return strconv.FormatInt(ns/1_000_000_000, 10) + "." + frac
	}
	tm := time.Unix(0, eventTimeNs(c, s, startMs)).In(time.FixedZone("", s.TZMin*60))
	return tm.Format(time.RFC3339Nano)
}

// eventJSON renders the event: time field, then the string fields (names with
// a dot nested one level), then the pad.
func eventJSON(c Case, s Step, startMs int64) string {
	type kv struct{ k, v string }
	var flat []kv
	nested := map[string][]kv{}
	timeName := c.TimeField
	if timeName == "" {
		timeName = "time" // still present in events, must be ignored
	}
	if s.Time != "absent" {
		flat = append(flat, kv{timeName, timeFieldValue(c, s, startMs)})
	}
	for _, k := range sortedKeys(s.Fields) {
		if i := strings.IndexByte(k, '.'); i > 0 {
			nested[k[:i]] = append(nested[k[:i]], kv{k[i+1:], s.Fields[k]})
		} else {
			flat = append(flat, kv{k, s.Fields[k]})
		}
	}
	var sb strings.Builder
	sb.WriteByte('{')
	first := true
	put := func(k string, raw string) {
		if !first {
			sb.WriteByte(',')
		}
		first = false
		kb, _ := json.Marshal(k)
		sb.Write(kb)
		sb.WriteByte(':')
		sb.WriteString(raw)
	}
	for _, e := range flat {
		vb, _ := json.Marshal(e.v)
		put(e.k, string(vb))
	}
	for _, obj := range sortedKeys(nested) {
		var ob strings.Builder
		ob.WriteByte('{')
		for i, e := range nested[obj] {
			if i > 0 {
				ob.WriteByte(',')
			}
			kb, _ := json.Marshal(e.k)
			vb, _ := json.Marshal(e.v)
			ob.Write(kb)
			ob.WriteByte(':')
			ob.Write(vb)
		}
		ob.WriteByte('}')
		put(obj, ob.String())
	}
	if s.Pad > 0 {
		put("pad", `"`+strings.Repeat("p", s.Pad)+`"`)
	}
	sb.WriteByte('}')
	return sb.String()
}

// ------------------------------------------------------------------ execution against the real plugin

type execResult struct {
	startMs   int64   // virtual wall clock at the start of the history (unix ms)
	decisions []int8  // per step: 1 pass, 0 discard, -1 clock advance
	sizes     []int   // per step: event size in bytes
	nowMs     []int64 // per step: virtual wall clock when the step ran
	rejected  string  // config rejected by GetConfig / Start (message)
	panicVal  any
	panicStk  string
	clockSkew bool
}

// execute runs the history against a fresh plugin instance inside a synctest bubble.
func execute(c Case, steps []Step) *execResult {
	res := &execResult{}
	// vkit.Bubble = testing/synctest bubble hanging off the running test (Prop.Check / Replay register it)
	vkit.Bubble(func() {
		var plugins []pipeline.ActionPlugin
		defer func() {
			if r := recover(); r != nil {
				res.panicVal, res.panicStk = r, string(debug.Stack())
			}
			for _, pl := range plugins {
				// ends the maintenance goroutine; without it the bubble never becomes empty
				func() {
					defer func() { _ = recover() }()
					pl.Stop()
				}()
			}
		}()
		res.startMs = time.Now().UnixMilli()

		info, err := fd.DefaultPluginRegistry.GetActionByType("throttle")
		if err != nil {
			panic(err)
		}
		// one plugin instance per processor, all with the same pipeline name, metric controller and
		// settings — what Pipeline.Start does for every processor
		name := fdkit.UniqueName("c16")
		ctl := fdkit.MetricCtl(name)
		settings := fdkit.DefaultSettings()
		procs := c.Procs
		if procs < 1 {
			procs = 1
		}
		startAll := func() bool {
			for pi := 0; pi < procs; pi++ {
				config, err := pipeline.GetConfig(info, configJSON(c), nil)
				if err != nil {
					res.rejected = "GetConfig: " + err.Error()
					return false
				}
				anyPlugin, _ := info.Factory()
				plugin := anyPlugin.(pipeline.ActionPlugin)
				params := &pipeline.ActionPluginParams{
					PluginDefaultParams: pipeline.PluginDefaultParams{PipelineName: name, PipelineSettings: settings, MetricCtl: ctl},
					Logger:              fdkit.NewLogger().Sugar(),
					Index:               0,
				}
				// registered before Start: a Fatal on a rule's distribution comes after the maintenance
				// goroutine was spawned, so Stop must run even then (Stop of a never-started instance is recovered)
				plugins = append(plugins, plugin)
				if rec, _ := fdkit.CatchPanic(func() { plugin.Start(config, params) }); rec != nil {
					if fp, ok := rec.(fdkit.FatalPanic); ok {
						res.rejected = "Start: " + fp.Msg
						return false
					}
					panic(rec)
				}
			}
			return true
		}
		if !startAll() {
			return
		}

		elapsed := int64(0)
		for _, s := range steps {
			now := time.Now().UnixMilli()
			if now != res.startMs+elapsed {
				res.clockSkew = true
			}
			res.nowMs = append(res.nowMs, now)
			if s.SleepMs > 0 {
				time.Sleep(time.Duration(s.SleepMs) * time.Millisecond)
				elapsed += s.SleepMs
				res.decisions = append(res.decisions, -1)
				res.sizes = append(res.sizes, 0)
				if s.Restart {
					for _, pl := range plugins {
						pl.Stop()
					}
					plugins = plugins[:0]
					if !startAll() {
						panic("c16 harness: the configuration was accepted at the first start and refused at the restart: " + res.rejected)
					}
				}
				continue
			}
			text := eventJSON(c, s, res.startMs)
			root, err := fdkit.NewRoot(text)
			if err != nil {
				panic(fmt.Sprintf("c16 harness: event does not decode: %v: %s", err, text))
			}
			ev := &pipeline.Event{Root: root, Size: len(text)}
			r := plugins[s.Proc%procs].Do(ev)
			insaneJSON.Release(root)
			switch r {
			case pipeline.ActionPass:
				res.decisions = append(res.decisions, 1)
			case pipeline.ActionDiscard:
				res.decisions = append(res.decisions, 0)
			default:
				panic(fmt.Sprintf("c16: unexpected action result %v", r))
			}
			res.sizes = append(res.sizes, len(text))
		}
	})
	return res
}

// ------------------------------------------------------------------ reference model (naive bucket map)

// share bounds of one distribution group for a limit: the README promises
// ratio*limit; how a fractional product is rounded is not documented, so the
// oracle accepts anything in [floor, ceil].
type shareBounds struct{ lo, hi int64 }

// share takes the ratio in thousandths.
func share(milli int, limit int64) shareBounds {
	num := int64(milli) * limit
	return shareBounds{lo: num / 1000, hi: (num + 999) / 1000}
}

func (r Ratio) milli() int { return r.Pct*10 + r.Milli }

type limSpec struct {
	limit int64
	kind  string
	dist  *Dist
}

func (c Case) specs() []limSpec {
	var out []limSpec
	for _, r := range c.Rules {
		out = append(out, limSpec{r.Limit, r.Kind, r.Dist})
	}
	return append(out, limSpec{c.DefaultLimit, c.DefaultKind, c.DefaultDist})
}

// firstMatchingRule: README "conditions – the map of event field name => event
// field value. The conditions are checked using AND operator"; property: the
// limit is selected by the FIRST matching rule, else the default.
func (c Case) firstMatchingRule(s Step) int {
	for i, r := range c.Rules {
		ok := true
		for f, want := range r.Cond {
			got, has := s.Fields[f]
			if !has || got != want {
				ok = false
				break
			}
		}
		if ok {
			return i
		}
	}
	return len(c.Rules)
}

type limKey struct {
	rule int
	key  string
}

type bucketKey struct {
	lim limKey
	id  int64
}

// counters of one (limiter key, bucket id); index 0 = events whose value is not
// listed in the distribution (or every event when there is no distribution),
// index i+1 = i-th ratio group.
type counters struct {
	seen   []int64 // amounts of all events seen
	passed []int64 // amounts of the events the plugin let through
}

func floorDiv(a, b int64) int64 {
	q := a / b
	if a%b != 0 && (a < 0) != (b < 0) {
		q--
	}
	return q
}

type evalInfo struct {
	unjudged        map[int]bool // steps whose limiter may or may not have been evicted (limiter_expiration): not determined
	keptAlive       bool         // a limiter was in use (gaps below the expiration) for longer than limiter_expiration
	possiblyExpired bool         // a key was silent for about limiter_expiration: not judged from there on
	exceeded        bool         // some event arrived when its bucket was already full
	oldSlot         bool         // an event was booked into a non-newest bucket of the window
	remapped        bool         // an out-of-window time was booked into the newest bucket
	// observation, not asserted: with a distribution the bucket's passes exceeded the plain limit because every
	// share is rounded on its own (e.g. limit 1, ratios 0.5/0.5 -> shares 1+1); the property only bounds the
	// total by the sum of the shares and the README does not say how shares are rounded
	overLimitByRounding bool
}

// judge replays the decisions against the naive model and reports the first violated clause.
func judge(o *vkit.Outcome, c Case, steps []Step, res *execResult, info *evalInfo) {
	specs := c.specs()
	I := c.IntervalMs * 1_000_000
	N := int64(c.BucketsCount)
	state := map[bucketKey]*counters{}
	lastUse, firstUse, possiblyGone := map[limKey]int64{}, map[limKey]int64{}, map[limKey]bool{}
	for i, s := range steps {
		if s.SleepMs > 0 {
			continue
		}
		passed := res.decisions[i] == 1
		nowNs := res.nowMs[i] * 1_000_000
		cur := floorDiv(nowNs, I)
		// README buckets_count: the last buckets_count intervals are covered -> window [cur-N+1, cur];
		// property: events timed outside the retained window count against the newest bucket.
		id := cur
		shape := "newest"
		if c.TimeField != "" && s.Time == "at" {
			tid := floorDiv(eventTimeNs(c, s, res.startMs), I)
			switch {
			case tid > cur:
				shape = "future->newest"
				info.remapped = true
			case tid < cur-N+1:
				shape = "past->newest"
				info.remapped = true
			case tid < cur:
				id = tid
				shape = "older-bucket-of-window"
				info.oldSlot = true
			}
		}
		ri := c.firstMatchingRule(s)
		sp := specs[ri]
		key := ""
		if c.ThrottleField != "" {
			key = s.Fields[c.ThrottleField] // missing field and "" are the same "no key" budget
		}
		bk := bucketKey{limKey{ri, key}, id}
		if c.ExpirationS > 0 {
			// limiter_expiration: "time interval after which unused limiters are removed". The maintenance
			// runs every second and stamps a use with the time of the last run, so a limiter is certainly
			// kept while its key arrives with gaps below expiration-1s (2 s margin here).
			lk := bk.lim
			prev, used := lastUse[lk]
			lastUse[lk] = res.nowMs[i]
			if !used {
				firstUse[lk] = res.nowMs[i]
			} else if res.nowMs[i]-prev >= int64(c.ExpirationS-2)*1000 {
				possiblyGone[lk] = true
				info.possiblyExpired = true
			}
			if possiblyGone[lk] {
				if info.unjudged == nil {
					info.unjudged = map[int]bool{}
				}
				info.unjudged[i] = true
				continue
			}
			if res.nowMs[i]-firstUse[lk] > int64(c.ExpirationS+1)*1000 {
				info.keptAlive = true
			}
		}
		amount := int64(1)
		if sp.kind == "size" {
			amount = int64(res.sizes[i])
		}
		nGroups := 1
		if sp.dist != nil {
			nGroups = 1 + len(sp.dist.Ratios)
		}
		st := state[bk]
		if st == nil {
			st = &counters{seen: make([]int64, nGroups), passed: make([]int64, nGroups)}
			state[bk] = st
		}
		where := func() string {
			return fmt.Sprintf("step %d (rule #%d of %d%s, key %q, kind %s, limit %d, bucket %d = cur%+d, time shape %s, now=start+%dms, event %s)",
				i, ri, len(c.Rules), map[bool]string{true: " = default", false: ""}[ri == len(c.Rules)], key, sp.kind, sp.limit, id, id-cur, shape,
				res.nowMs[i]-res.startMs, eventJSON(c, s, res.startMs))
		}
		sigKind := sp.kind

		if sp.dist == nil {
			seenAfter := st.seen[0] + amount
			passedAfter := st.passed[0] + amount
			if st.seen[0] >= sp.limit {
				info.exceeded = true
			}
			if passed && passedAfter > sp.limit {
				// (i) per key and bucket, passes (count or total size) never exceed the limit
				o.Failf(P, "passed-over-limit:"+sigKind, "%s PASSED although the events already passed in this key's bucket amount to %d: total %d > limit %d", where(), st.passed[0], passedAfter, sp.limit)
				return
			}
			if !passed && seenAfter <= sp.limit {
				// (ii) weaker reading (DESIGN §7): "under its limit" = the bucket's counter of SEEN events
				// (passed and rejected) including this one does not exceed the limit
				o.Failf(P, "rejected-under-limit:"+sigKind, "%s REJECTED although everything this key's bucket has seen, this event included, amounts to only %d <= limit %d (passed so far %d)", where(), seenAfter, sp.limit, st.passed[0])
				return
			}
			st.seen[0] += amount
			if passed {
				st.passed[0] += amount
			}
			continue
		}

		// ---- with a limit distribution
		d := sp.dist
		val := s.Fields[d.Field] // missing field = "" = not listed
		g := 0
		for gi, r := range d.Ratios {
			for _, v := range r.Values {
				if v == val {
					g = gi + 1
				}
			}
		}
		sumPct := 0 // in thousandths
		var sumLo, sumHi int64
		for _, r := range d.Ratios {
			sumPct += r.milli()
			b := share(r.milli(), sp.limit)
			sumLo += b.lo
			sumHi += b.hi
		}
		defShare := share(1000-sumPct, sp.limit)
		sumLo += defShare.lo
		sumHi += defShare.hi
		var seenListed, passedTotal int64
		for gi := range st.seen {
			passedTotal += st.passed[gi]
			if gi > 0 {
				seenListed += st.seen[gi]
			}
		}
		if passed && passedTotal+amount > sumHi {
			// (iii) the total stays within the sum of the shares
			o.Failf(P, "dist-total-over-sum-of-shares:"+sigKind, "%s PASSED: total passed in the bucket becomes %d > sum of shares %d (distribution %+v)", where(), passedTotal+amount, sumHi, *d)
			return
		}
		if passed && passedTotal+amount > sp.limit {
			info.overLimitByRounding = true
		}
		if g > 0 {
			b := share(d.Ratios[g-1].milli(), sp.limit)
			if st.seen[g] >= b.lo {
				info.exceeded = true
			}
			if passed && st.passed[g]+amount > b.hi {
				// (iii) each listed value stays within its share (README: "NO MORE than")
				o.Failf(P, "dist-listed-over-share:"+sigKind, "%s PASSED: value %q (ratio %d/1000) has passed %d, becomes %d > its share %d", where(), val, d.Ratios[g-1].milli(), st.passed[g], st.passed[g]+amount, b.hi)
				return
			}
			// README note 3: the default distribution may steal from a listed one after exhausting its
			// own share; what the unlisted events of this bucket can have taken away is bounded by their amount
			// (count kind: beyond the default share).
			stolenMax := st.seen[0]
			if sp.kind != "size" {
				stolenMax = max64(0, st.seen[0]-defShare.lo)
			}
			if !passed && st.seen[g]+amount+stolenMax <= b.lo {
				o.Failf(P, "dist-listed-rejected-under-share:"+sigKind, "%s REJECTED: value %q (ratio %d/1000, share >= %d) has seen only %d incl. this event, and unlisted events can have stolen at most %d", where(), val, d.Ratios[g-1].milli(), b.lo, st.seen[g]+amount, stolenMax)
				return
			}
		} else {
			if st.seen[0] >= defShare.lo {
				info.exceeded = true
			}
			if passed && sumPct == 1000 {
				// README note 2: "If sum of ratios less than 1, then adding default distribution with ratio 1-sum,
				// otherwise default distribution isn't used. All events for which the value in the field doesn't fall
				// into any of the distributions: fall into default distribution, if it exists; throttled, otherwise"
				o.Failf(P, "dist-unlisted-passed-without-default-distribution", "%s PASSED: value %q is not listed, the ratios sum to 1 so there is no default distribution and README says such events are throttled (distribution %+v)", where(), val, *d)
				return
			}
			if !passed && st.seen[0]+amount <= defShare.lo {
				// README: "there will be AT LEAST <default share> other events"
				o.Failf(P, "dist-default-rejected-under-share:"+sigKind, "%s REJECTED: unlisted value %q, default share >= %d, unlisted events seen incl. this one %d", where(), val, defShare.lo, st.seen[0]+amount)
				return
			}
			if !passed && sp.kind != "size" && sumPct < 1000 && seenListed == 0 && st.seen[0]+amount <= sumLo {
				// README: "(can be up to <limit> if there are no events with <listed values>)" — only a default
				// distribution that exists can steal (note 3); asserted for the count kind only (with sizes an event may fit no single share although the sum has room)
				o.Failf(P, "dist-default-rejected-with-free-shares:"+sigKind, "%s REJECTED: unlisted value %q, no listed value seen in this bucket, unlisted seen incl. this one %d <= sum of shares %d", where(), val, st.seen[0]+amount, sumLo)
				return
			}
		}
		st.seen[g] += amount
		if passed {
			st.passed[g] += amount
		}
	}
}

func max64(a, b int64) int64 {
	if a > b {
		return a
	}
	return b
}

// ------------------------------------------------------------------ run

func validCase(c Case) bool {
	if c.BucketsCount < 1 || c.BucketsCount > 64 || c.Procs < 0 || c.Procs > 8 || c.IntervalMs < 1 || len(c.Steps) > 2000 {
		return false
	}
	var total int64
	for _, s := range c.Steps {
		if s.SleepMs < 0 || s.Pad < 0 || s.Pad > 100000 {
			return false
		}
		total += s.SleepMs
	}
	return total <= 400_000_000 // ~111 h of 1 s maintenance ticks at most
}

func run(c Case) *vkit.Outcome {
	o := vkit.NewOutcome()
	if !validCase(c) {
		o.Class("invalid-case-skipped")
		return o
	}
	c.Steps = expandBursts(c.Steps)
	res := execute(c, c.Steps)
	if res.panicVal != nil {
		o.Failf(P, vkit.PanicSig(res.panicVal, res.panicStk), "panic: %v\n%s", res.panicVal, res.panicStk)
		return o
	}
	if res.rejected != "" {
		o.Class("config-rejected")
		vkit.Note(P, "config rejected: "+res.rejected)
		return o
	}
	if res.clockSkew {
		o.Failf(P, "harness:virtual-clock-skew", "virtual clock did not advance exactly by the sleeps of the history")
		return o
	}
	info := &evalInfo{}
	judge(o, c, c.Steps, res, info)
	if o.Failed() {
		o.AppendContext("config: " + string(configJSON(c)))
	}

	// (iv) independence, metamorphic: deleting all events of one throttle key leaves
	// every other event's decision unchanged.
	if c.MetaKey != nil && c.ThrottleField != "" && !o.Failed() {
		var kept []Step
		var idx []int
		dropped := 0
		for i, s := range c.Steps {
			if s.SleepMs == 0 && s.Fields[c.ThrottleField] == *c.MetaKey {
				dropped++
				continue
			}
			kept = append(kept, s)
			idx = append(idx, i)
		}
		nKeptEvents := 0
		for _, s := range kept {
			if s.SleepMs == 0 {
				nKeptEvents++
			}
		}
		if dropped > 0 && nKeptEvents > 0 {
			o.Class("independence-second-run")
			res2 := execute(c, kept)
			switch {
			case res2.panicVal != nil:
				o.Failf(P, vkit.PanicSig(res2.panicVal, res2.panicStk), "panic in the run without key %q: %v\n%s", *c.MetaKey, res2.panicVal, res2.panicStk)
			case res2.rejected != "" || res2.clockSkew:
				o.Failf(P, "harness:second-run-differs", "second run: rejected=%q skew=%v", res2.rejected, res2.clockSkew)
			default:
				for j, i := range idx {
					if info.unjudged[i] {
						continue // whether this key's limiter was evicted in between is a matter of timing (see ExpirationS)
					}
					if res2.decisions[j] != res.decisions[i] {
						o.Failf(P, "independence:decision-changed-when-other-key-removed", "step %d (key %q, event %s) was %s with the events of key %q present and %s without them\nconfig: %s",
							i, c.Steps[i].Fields[c.ThrottleField], eventJSON(c, c.Steps[i], res.startMs), verdict(res.decisions[i]), *c.MetaKey, verdict(res2.decisions[j]), configJSON(c))
						break
					}
				}
			}
		}
	}

	// ---- classes and non-triviality
	I := c.IntervalMs
	crossed := int64(0)
	if n := len(res.nowMs); n > 0 {
		last := res.nowMs[n-1] + c.Steps[n-1].SleepMs
		crossed = floorDiv(last, I) - floorDiv(res.startMs, I)
	}
	nEvents, nPass := 0, 0
	usedDist, usedSize, usedRule := false, false, false
	timeAbsent, timeRaw := false, false
	specs := c.specs()
	for i, s := range c.Steps {
		if s.SleepMs > 0 {
			continue
		}
		nEvents++
		if res.decisions[i] == 1 {
			nPass++
		}
		ri := c.firstMatchingRule(s)
		if ri < len(c.Rules) {
			usedRule = true
		}
		if specs[ri].dist != nil {
			usedDist = true
		}
		if specs[ri].kind == "size" {
			usedSize = true
		}
		switch s.Time {
		case "absent":
			timeAbsent = true
		case "raw":
			timeRaw = true
		}
	}
	if timeAbsent {
		o.Class("event-time-absent")
	}
	if timeRaw {
		o.Class("event-time-unparsable-or-extreme")
	}
	vkit.ClassN(P, "events", nEvents)
	vkit.ClassN(P, "events-passed", nPass)
	vkit.ClassN(P, "events-discarded", nEvents-nPass)
	if info.exceeded {
		o.Class("limit-exceeded")
	}
	if info.keptAlive {
		o.Class("limiter-in-use-longer-than-expiration")
	}
	if info.possiblyExpired {
		o.Class("key-silent-for-expiration:not-judged-afterwards")
	}
	if crossed >= int64(c.BucketsCount) {
		o.Class("window-crossed")
	}
	if info.oldSlot {
		o.Class("event-in-older-bucket")
	}
	if info.remapped {
		o.Class("out-of-window-time-remapped")
	}
	if info.overLimitByRounding {
		o.Class("observed:distribution-passes-exceed-plain-limit-by-share-rounding")
	}
	if usedDist {
		o.Class("distribution-used")
	}
	if usedSize {
		o.Class("size-kind-used")
	}
	if usedRule {
		o.Class("rule-matched")
	}
	if c.TimeField == "" {
		o.Class("no-time-field")
	}
	if c.Procs > 1 {
		o.Class("several-plugin-instances")
	}
	for _, st := range c.Steps {
		if st.Restart {
			o.Class("instances-restarted-under-the-same-pipeline-name")
			break
		}
	}
	// non-trivial: some key exceeded its limit in some bucket AND the clock crossed >= buckets_count intervals
	if info.exceeded && crossed >= int64(c.BucketsCount) {
		o.Nontrivial(P)
	}
	return o
}

// expandBursts replaces a step with Repeat > 1 by that many single events.
func expandBursts(steps []Step) []Step {
	var out []Step
	for _, s := range steps {
		n := 1
		if s.SleepMs == 0 && s.Repeat > 1 {
			n = s.Repeat
			if n > 500 {
				n = 500
			}
		}
		s.Repeat = 0
		for i := 0; i < n; i++ {
			out = append(out, s)
		}
	}
	return out
}

func verdict(d int8) string {
	if d == 1 {
		return "PASSED"
	}
	return "DISCARDED"
}

var prop = vkit.NewProp([]string{P}, "c16throttle", gen, run)

func TestC16Throttle(t *testing.T) { prop.CrashFile = true; prop.Check(t) }
