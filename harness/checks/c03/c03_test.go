// Package c03 decides C03 — the file input loses no line across kill and
// restart — black-box: the real file plugin (exported Factory / Config /
// Start / Stop / Commit / PassEvent) inside a real pipeline, a generated
// history of appends / partial writes / rotations / truncations, a generated
// crash point, and a second fresh plugin instance started from the snapshot of
// the offsets file.
package c03

import (
	"context"
	"encoding/json"
	"fmt"
	"os"
	"path/filepath"
	"sort"
	"strings"
	"sync"
	"syscall"
	"testing"
	"time"

	"github.com/ozontech/file.d/pipeline"
	"github.com/ozontech/file.d/plugin/input/file"
	"github.com/ozontech/file.d/zzverif/fdkit"
	"github.com/ozontech/file.d/zzverif/vkit"
	"pgregory.net/rapid"
)

const P = "C03"

func TestMain(m *testing.M)   { fdkit.InstallLogger(); vkit.Main(m) }
func TestReplay(t *testing.T) { vkit.Replay(t) }

// ------------------------------------------------------------------ case

type Line struct {
	ID     int    `json:"id"`
	Stream string `json:"stream"`
}

type Step struct {
	Op      string `json:"op"` // append | rotate | truncate | pause
	File    int    `json:"file"`
	Lines   []Line `json:"lines,omitempty"`
	SplitAt int    `json:"split_at,omitempty"` // append: write the bytes in two writes, cut after SplitAt bytes (0 = one write)
	PauseMs int    `json:"pause_ms,omitempty"` // pause after the step (and between the two writes)
}

type Case struct {
	Files       int    `json:"files"`
	Sync        bool   `json:"sync"` // persistence_mode sync
	WatchWrites bool   `json:"watch_writes"`
	Workers     int    `json:"workers"`
	BatchCount  int    `json:"batch_count"`
	FlushMs     int    `json:"flush_ms"`
	ReadBuf     int    `json:"read_buf"`
	StallUs     []int  `json:"stall_us"` // per stream index: processor stall for events of that stream
	Steps1      []Step `json:"steps1"`   // while run 1 is up
	CrashAcks   int    `json:"crash_acks"`
	CrashDelay  int    `json:"crash_delay_us"`
	StepsDown   []Step `json:"steps_down"` // while down
	Steps2      []Step `json:"steps2"`     // while run 2 is up
	// Symlinks: the watched directory holds symbolic links (one per file, one more for every rotated
	// file) to files that live elsewhere, the way kubelet lays out pod logs
	Symlinks bool `json:"symlinks,omitempty"`
	// Excluded: the watched directory also holds a file that paths.exclude names (an archive next to the
	// logs); it sorts in front of the log files
	Excluded bool `json:"excluded,omitempty"`
	// Antispam: the pipeline's antispam is switched on with a threshold no source reaches (it enables the
	// "already committed" filter at the pipeline's entrance)
	Antispam bool `json:"antispam,omitempty"`
}

var streamNames = []string{"a", "b", "c"}

type genState struct {
	nextID   int
	nstreams int
	noField  bool // lines of the first stream carry no stream field
}

func genSteps(t *rapid.T, label string, g *genState, files int, maxSteps int, allowTruncate bool, down bool) []Step {
	n := rapid.IntRange(0, maxSteps).Draw(t, label+"/n")
	var steps []Step
	for i := 0; i < n; i++ {
		st := Step{File: rapid.IntRange(0, files-1).Draw(t, label+"/file")}
		k := rapid.IntRange(0, 11).Draw(t, label+"/op")
		switch {
		case k < 8:
			st.Op = "append"
			nl := rapid.IntRange(1, 5).Draw(t, label+"/nlines")
			size := 0
			for j := 0; j < nl; j++ {
				ln := Line{ID: g.nextID, Stream: streamNames[rapid.IntRange(0, g.nstreams-1).Draw(t, label+"/stream")]}
				if g.noField && ln.Stream == streamNames[0] {
					ln.Stream = noStreamField
				}
				g.nextID++
				st.Lines = append(st.Lines, ln)
				size += len(renderLine(ln))
			}
			if !down && rapid.IntRange(0, 3).Draw(t, label+"/split") == 0 {
				st.SplitAt = rapid.IntRange(1, size-1).Draw(t, label+"/splitat")
			}
		case k < 10:
			st.Op = "rotate"
		case k < 11 && allowTruncate:
			st.Op = "truncate"
		default:
			st.Op = "pause"
		}
		if !down {
			st.PauseMs = rapid.SampledFrom([]int{0, 0, 1, 5, 30, 80}).Draw(t, label+"/pause")
		}
		steps = append(steps, st)
	}
	return steps
}

func gen(t *rapid.T) Case {
	c := Case{
		Files:       rapid.IntRange(1, 3).Draw(t, "files"),
		Sync:        rapid.IntRange(0, 3).Draw(t, "sync") == 0,
		WatchWrites: rapid.Bool().Draw(t, "watch_writes"),
		Workers:     rapid.IntRange(1, 3).Draw(t, "workers"),
		BatchCount:  rapid.IntRange(1, 4).Draw(t, "batch_count"),
		FlushMs:     rapid.SampledFrom([]int{1, 5, 20}).Draw(t, "flush"),
		ReadBuf:     rapid.SampledFrom([]int{16, 64, 4096, 131072}).Draw(t, "read_buf"),
	}
	c.Symlinks = rapid.IntRange(0, 3).Draw(t, "symlinks") == 0
	c.Excluded = rapid.IntRange(0, 3).Draw(t, "excluded") == 0
	c.Antispam = rapid.IntRange(0, 2).Draw(t, "antispam") == 0
	g := &genState{nextID: 1, nstreams: rapid.IntRange(1, 3).Draw(t, "nstreams")}
	g.noField = rapid.IntRange(0, 2).Draw(t, "no_stream_field") == 0
	for i := 0; i < g.nstreams; i++ {
		c.StallUs = append(c.StallUs, rapid.SampledFrom([]int{0, 0, 200, 2000, 20000}).Draw(t, "stall"))
	}
	truncates := rapid.IntRange(0, 5).Draw(t, "allow_truncate") == 0
	// truncation only after the restart (the at-least-once promise across a kill excludes truncation)
	// and only in the detectable shape: write notifications on, a pause after the truncation
	c.Steps1 = genSteps(t, "s1", g, c.Files, 8, false, false)
	c.CrashAcks = rapid.IntRange(0, 12).Draw(t, "crash_acks")
	c.CrashDelay = rapid.SampledFrom([]int{0, 100, 1000, 6000, 30000}).Draw(t, "crash_delay")
	c.StepsDown = genSteps(t, "down", g, c.Files, 4, false, true)
	c.Steps2 = genSteps(t, "s2", g, c.Files, 5, truncates, false)
	for i := range c.Steps2 {
		if c.Steps2[i].Op == "truncate" {
			c.Steps2[i].PauseMs = 150
			c.WatchWrites = true
		}
	}
	return c
}

// noStreamField is the stream of lines that carry no stream field: the pipeline's default stream name.
const noStreamField = "not_set"

func renderLine(l Line) string {
	if l.Stream == noStreamField {
		return fmt.Sprintf(`{"id":%d}`+"\n", l.ID)
	}
	return fmt.Sprintf(`{"id":%d,"stream":%q}`+"\n", l.ID, l.Stream)
}

// ------------------------------------------------------------------ world (files on disk)

type world struct {
	dir      string
	logs     string
	real     string // != "": the files live here, logs holds symbolic links to them
	rotSeq   int
	mu       sync.Mutex
	written  map[int]int    // line id -> file index it was written to
	gen      map[int]int    // file index -> truncation generation
	lineGen  map[int]int    // line id -> truncation generation of its file at write time
	lineIno  map[int]uint64 // line id -> inode of the file it was written to
	lineStr  map[int]string // line id -> stream
	hadTrunc bool
}

func inodeOf(path string) uint64 {
	st, err := os.Stat(path)
	if err != nil {
		return 0
	}
	if sys, ok := st.Sys().(*syscall.Stat_t); ok {
		return sys.Ino
	}
	return 0
}

// parseOffsetsSnapshot reads "inode -> the stream names of each of its entries" out of an offsets file
// (independent, line based). One file has several entries when it is reachable under several names
// (a rotated file behind a symbolic link of its own: the link is part of the source id).
func parseOffsetsSnapshot(content string) map[uint64][]map[string]bool {
	res := map[uint64][]map[string]bool{}
	var cur map[string]bool
	inStreams := false
	for _, line := range strings.Split(content, "\n") {
		switch {
		case strings.HasPrefix(line, "- file:"):
			cur, inStreams = nil, false
		case strings.HasPrefix(line, "  inode: "):
			var ino uint64
			fmt.Sscanf(strings.TrimPrefix(line, "  inode: "), "%d", &ino)
			cur = map[string]bool{}
			res[ino] = append(res[ino], cur)
		case strings.HasPrefix(line, "  streams:"):
			inStreams = true
		case inStreams && strings.HasPrefix(line, "    ") && cur != nil:
			if i := strings.LastIndex(line, ": "); i > 4 {
				cur[line[4:i]] = true
			}
		}
	}
	return res
}

func (w *world) path(i int) string {
	if w.real != "" {
		return filepath.Join(w.real, fmt.Sprintf("f%d.log", i))
	}
	return filepath.Join(w.logs, fmt.Sprintf("f%d.log", i))
}

// link makes sure the watched directory has a symbolic link to a file that lives elsewhere.
func (w *world) link(target string) {
	if w.real == "" {
		return
	}
	l := filepath.Join(w.logs, filepath.Base(target))
	if _, err := os.Lstat(l); err != nil {
		_ = os.Symlink(target, l)
	}
}

func (w *world) apply(st Step, live bool) {
	switch st.Op {
	case "append":
		var sb strings.Builder
		for _, l := range st.Lines {
			sb.WriteString(renderLine(l))
		}
		data := sb.String()
		f, err := os.OpenFile(w.path(st.File), os.O_CREATE|os.O_WRONLY|os.O_APPEND, 0o644)
		if err != nil {
			panic(err)
		}
		if st.SplitAt > 0 && st.SplitAt < len(data) {
			_, _ = f.WriteString(data[:st.SplitAt])
			if live {
				time.Sleep(time.Duration(max(1, st.PauseMs)) * time.Millisecond)
			}
			_, _ = f.WriteString(data[st.SplitAt:])
		} else {
			_, _ = f.WriteString(data)
		}
		_ = f.Close()
		w.link(w.path(st.File))
		w.mu.Lock()
		ino := inodeOf(w.path(st.File))
		for _, l := range st.Lines {
			w.written[l.ID] = st.File
			w.lineGen[l.ID] = w.gen[st.File]
			w.lineIno[l.ID] = ino
			w.lineStr[l.ID] = l.Stream
		}
		w.mu.Unlock()
	case "rotate":
		if _, err := os.Stat(w.path(st.File)); err == nil {
			w.rotSeq++
			_ = os.Rename(w.path(st.File), fmt.Sprintf("%s.%d", w.path(st.File), w.rotSeq))
			w.link(fmt.Sprintf("%s.%d", w.path(st.File), w.rotSeq))
		}
	case "truncate":
		if _, err := os.Stat(w.path(st.File)); err == nil {
			_ = os.Truncate(w.path(st.File), 0)
			w.mu.Lock()
			w.gen[st.File]++
			w.hadTrunc = true
			w.mu.Unlock()
		}
	}
	if live && st.PauseMs > 0 {
		time.Sleep(time.Duration(st.PauseMs) * time.Millisecond)
	}
}

// ------------------------------------------------------------------ one run of file.d

type inputWrap struct {
	real    *file.Plugin
	commits *int64
	mu      *sync.Mutex
}

func (w *inputWrap) Start(c pipeline.AnyConfig, p *pipeline.InputPluginParams) { w.real.Start(c, p) }
func (w *inputWrap) Stop()                                                     { w.real.Stop() }
func (w *inputWrap) PassEvent(e *pipeline.Event) bool                          { return w.real.PassEvent(e) }
func (w *inputWrap) Commit(e *pipeline.Event) {
	w.real.Commit(e)
	w.mu.Lock()
	*w.commits++
	w.mu.Unlock()
}

type stallAction struct{ c *Case }

func (a *stallAction) Start(pipeline.AnyConfig, *pipeline.ActionPluginParams) {}
func (a *stallAction) Stop()                                                  {}
func (a *stallAction) Do(e *pipeline.Event) pipeline.ActionResult {
	if n := e.Root.Dig("stream"); n != nil {
		s := n.AsString()
		for i, name := range streamNames {
			if name == s && i < len(a.c.StallUs) && a.c.StallUs[i] > 0 {
				time.Sleep(time.Duration(a.c.StallUs[i]) * time.Microsecond)
			}
		}
	}
	return pipeline.ActionPass
}

type run struct {
	holdFrom  int // >0: sends carrying an id >= holdFrom block until holdCh is closed
	holdCh    chan struct{}
	p         *pipeline.Pipeline
	mu        sync.Mutex
	delivered map[int]int // id -> times
	acks      int
	commits   int64
	ackCh     chan struct{}
	batcher   *pipeline.RetriableBatcher
	cancel    context.CancelFunc
	ctl       pipeline.OutputPluginController
}

func (r *run) Start(_ pipeline.AnyConfig, params *pipeline.OutputPluginParams) {
	r.ctl = params.Controller
}
func (r *run) Stop() {
	r.batcher.Stop()
	r.cancel()
}
func (r *run) Out(e *pipeline.Event) { r.batcher.Add(e) }

func (r *run) send(_ *pipeline.WorkerData, b *pipeline.Batch) error {
	if r.holdFrom > 0 {
		held := false
		b.ForEach(func(e *pipeline.Event) {
			if n := e.Root.Dig("id"); n != nil && n.AsInt() >= r.holdFrom {
				held = true
			}
		})
		if held {
			<-r.holdCh
		}
	}
	r.mu.Lock()
	b.ForEach(func(e *pipeline.Event) {
		if n := e.Root.Dig("id"); n != nil {
			r.delivered[n.AsInt()]++
			r.acks++
		}
	})
	r.mu.Unlock()
	select {
	case r.ackCh <- struct{}{}:
	default:
	}
	return nil
}

func startRun(c *Case, w *world, offsetsFile string) (*run, error) {
	return startRunHold(c, w, offsetsFile, 0)
}

func startRunHold(c *Case, w *world, offsetsFile string, holdFrom int) (*run, error) {
	r := &run{delivered: map[int]int{}, ackCh: make(chan struct{}, 1), holdFrom: holdFrom, holdCh: make(chan struct{})}
	settings := fdkit.DefaultSettings()
	settings.Capacity = 32
	settings.MaintenanceInterval = time.Hour
	settings.Antispam.MaintenanceInterval = time.Hour
	settings.EventTimeout = time.Second
	if c.Antispam {
		settings.Antispam.Threshold = 1000000
	}
	name := fdkit.UniqueName("c03")
	p := fdkit.NewPipeline(name, settings)
	r.p = p

	mode := "async"
	if c.Sync {
		mode = "sync"
	}
	cm := map[string]any{
		"watching_dir":              w.logs,
		"filename_pattern":          "*",
		"offsets_file":              offsetsFile,
		"persistence_mode":          mode,
		"async_interval":            "5ms",
		"maintenance_interval":      "25ms",
		"report_interval":           "1h",
		"offsets_op":                "continue",
		"workers_count":             "2",
		"read_buffer_size":          c.ReadBuf,
		"should_watch_file_changes": c.WatchWrites,
	}
	if c.Excluded {
		cm["paths"] = map[string]any{"exclude": []string{filepath.Join(w.logs, "**", "*.gz"), filepath.Join(w.logs, "*.gz")}}
	}
	cfgJSON, _ := json.Marshal(cm)
	info := &pipeline.PluginStaticInfo{Type: "file", Factory: file.Factory}
	conf, err := pipeline.GetConfig(info, cfgJSON, map[string]int{"gomaxprocs": 2, "capacity": 32})
	if err != nil {
		return nil, fmt.Errorf("file plugin config rejected: %w", err)
	}
	plug, _ := file.Factory()
	in := &inputWrap{real: plug.(*file.Plugin), commits: &r.commits, mu: &r.mu}
	p.SetInput(&pipeline.InputPluginInfo{
		PluginStaticInfo:  &pipeline.PluginStaticInfo{Type: "file", Config: conf},
		PluginRuntimeInfo: &pipeline.PluginRuntimeInfo{Plugin: in, ID: "file"},
	})
	p.AddAction(&pipeline.ActionPluginStaticInfo{
		PluginStaticInfo: &pipeline.PluginStaticInfo{Type: "stall", Factory: func() (pipeline.AnyPlugin, pipeline.AnyConfig) { return &stallAction{c: c}, nil }},
		MatchMode:        pipeline.MatchModeAnd,
	})
	opts := &pipeline.BatcherOptions{
		PipelineName: name, OutputType: "c03", Workers: c.Workers, BatchSizeCount: c.BatchCount,
		FlushTimeout: time.Duration(c.FlushMs) * time.Millisecond, MetricCtl: fdkit.MetricCtl(name),
	}
	p.SetOutput(&pipeline.OutputPluginInfo{
		PluginStaticInfo:  &pipeline.PluginStaticInfo{Type: "c03out"},
		PluginRuntimeInfo: &pipeline.PluginRuntimeInfo{Plugin: r, ID: "c03out"},
	})
	// the controller is only known in Start: build the batcher with a forwarding controller
	opts.Controller = &fwdCtl{r: r}
	r.batcher = pipeline.NewRetriableBatcher(opts, r.send, pipeline.BackoffOpts{AttemptNum: 0, MinRetention: time.Millisecond, Multiplier: 1}, func(error, []*pipeline.Event) {})
	ctx, cancel := context.WithCancel(context.Background())
	r.cancel = cancel
	r.batcher.Start(ctx)
	p.Start()
	return r, nil
}

type fwdCtl struct{ r *run }

func (f *fwdCtl) Commit(e *pipeline.Event) { f.r.ctl.Commit(e) }
func (f *fwdCtl) Error(s string)           { f.r.ctl.Error(s) }

func (r *run) stop() {
	r.p.Stop()
	r.p.VerifWakeProcessors()
}

func copyFile(src, dst string) bool {
	b, err := os.ReadFile(src)
	if err != nil {
		return false
	}
	return os.WriteFile(dst, b, 0o644) == nil
}

// ------------------------------------------------------------------ the property

func tmpBase() string {
	if st, err := os.Stat("/dev/shm"); err == nil && st.IsDir() {
		return "/dev/shm"
	}
	return os.TempDir()
}

func runCase(c Case) *vkit.Outcome {
	o := vkit.NewOutcome()
	dir, err := os.MkdirTemp(tmpBase(), "verif-c03-")
	if err != nil {
		panic(err)
	}
	defer os.RemoveAll(dir)
	w := &world{dir: dir, logs: filepath.Join(dir, "logs"), written: map[int]int{}, gen: map[int]int{}, lineGen: map[int]int{}, lineIno: map[int]uint64{}, lineStr: map[int]string{}}
	_ = os.MkdirAll(w.logs, 0o755)
	if c.Symlinks {
		w.real = filepath.Join(dir, "real-files-behind-the-links")
		_ = os.MkdirAll(w.real, 0o755)
	}
	if c.Excluded {
		_ = os.WriteFile(filepath.Join(w.logs, "a-rotated-archive.0.gz"), []byte("not a log\n"), 0o644)
	}

	fdkit.TakeLoggedPanics()
	fdkit.SetPanicCapture(true)
	defer fdkit.SetPanicCapture(false)

	off1 := filepath.Join(dir, "offsets1.yaml")
	off2 := filepath.Join(dir, "offsets2.yaml")
	r1, err := startRun(&c, w, off1)
	if err != nil {
		o.Failf(P, "config-rejected", "%v", err)
		return o
	}
	// history of run 1 in the background; crash trigger = number of acknowledged events
	stepsDone := make(chan struct{})
	go func() {
		defer close(stepsDone)
		for _, st := range c.Steps1 {
			w.apply(st, true)
		}
	}()
	crashDeadline := time.After(3 * time.Second)
	stepsFinished := false
waitCrash:
	for {
		r1.mu.Lock()
		acks := r1.acks
		r1.mu.Unlock()
		if acks >= c.CrashAcks && (c.CrashAcks > 0 || stepsFinished) {
			break
		}
		select {
		case <-r1.ackCh:
		case <-stepsDone:
			stepsFinished = true
			stepsDone = nil
			if c.CrashAcks == 0 {
				break waitCrash
			}
			// give the pipeline a moment to reach the requested ack count, then crash anyway
			crashDeadline = time.After(150 * time.Millisecond)
		case <-crashDeadline:
			break waitCrash
		case <-time.After(2 * time.Millisecond):
		}
	}
	if c.CrashDelay > 0 {
		time.Sleep(time.Duration(c.CrashDelay) * time.Microsecond)
	}
	// ---- crash: first the offsets file (what a kill leaves on disk), then the delivered set.
	// Everything the copied file reflects was acknowledged before the copy, hence is in the set.
	haveOffsets := copyFile(off1, off2)
	snapshotBytes, _ := os.ReadFile(off2)
	snapshot := string(snapshotBytes)
	r1.mu.Lock()
	delivered1 := map[int]int{}
	for k, v := range r1.delivered {
		delivered1[k] = v
	}
	acksAtCrash := r1.acks
	commitsAtCrash := r1.commits
	r1.mu.Unlock()
	// the remaining steps of run 1 are still applied to the files (the writer does not stop because the reader died)
	if stepsDone != nil {
		<-stepsDone
	}
	if pp := fdkit.TakeLoggedPanics(); len(pp) > 0 {
		// file.d ended itself during run 1 (a goroutine that logged a panic is gone, possibly holding
		// locks: Stop could hang). One more kill as far as C03 is concerned: the case is not judged.
		first := pp[0]
		if i := strings.IndexByte(first, '\n'); i > 0 {
			first = first[:i]
		}
		o.Class("filed-ended-itself")
		vkit.Note(P, "file.d ended itself during run 1 (not judged): "+first)
		return o
	}
	r1.stop()

	for _, st := range c.StepsDown {
		w.apply(st, false)
	}

	// ---- run 2: a fresh plugin + pipeline started from the snapshot of the offsets file
	r2, err := startRun(&c, w, off2)
	if err != nil {
		o.Failf(P, "config-rejected", "%v", err)
		return o
	}
	for _, st := range c.Steps2 {
		w.apply(st, true)
	}
	// expected: every complete line; lines written to a file before its last truncation are exempt
	w.mu.Lock()
	// Truncation: the README promises detection only as "more probable" with write notifications
	// ("there is a little chance of data loss"), so for a file that was truncated only "file.d keeps
	// running" is asserted (no panic; every other file still fully delivered) — the weaker reading.
	expected := map[int]bool{}
	for id, f := range w.written {
		if w.gen[f] == 0 {
			expected[id] = true
		}
	}
	hadTrunc := w.hadTrunc
	total := len(w.written)
	w.mu.Unlock()
	missing := func() []int {
		r2.mu.Lock()
		defer r2.mu.Unlock()
		var m []int
		for id := range expected {
			if delivered1[id] == 0 && r2.delivered[id] == 0 {
				m = append(m, id)
			}
		}
		sort.Ints(m)
		return m
	}
	// wait while progress is being made: give up only after 10 s without any new delivery (60 s at most);
	// a plain wall-clock deadline would turn machine load into false alarms
	lastProgress := time.Now()
	hardStop := time.Now().Add(60 * time.Second)
	lastCount := -1
	var miss []int
	var panics []string
	laterSnapshot := "" // offsets file a third start began from
	for {
		miss = missing()
		if len(miss) == 0 {
			break
		}
		if len(miss) != lastCount {
			lastCount = len(miss)
			lastProgress = time.Now()
		}
		if time.Since(lastProgress) > 10*time.Second || time.Now().After(hardStop) {
			break
		}
		if pp := fdkit.TakeLoggedPanics(); len(pp) > 0 {
			panics = append(panics, pp...)
			break
		}
		time.Sleep(5 * time.Millisecond)
	}
	panics = append(panics, fdkit.TakeLoggedPanics()...)
	if len(panics) > 0 {
		// file.d ended itself (logger.Fatal / logger.Panic in one of its goroutines). For C03 that is one
		// more kill: the promise is about the NEXT start, which this case does not run, so the case is
		// not judged (counted as a class; the message is kept as a note). An "offset corruption" panic
		// is a commit-order violation and is reported under C02 by the pipe checks.
		first := panics[0]
		if i := strings.IndexByte(first, '\n'); i > 0 {
			first = first[:i]
		}
		o.Class("filed-ended-itself")
		vkit.Note(P, "file.d ended itself during a case (not judged): "+first)
		miss = nil
		if strings.Contains(first, "offset corruption") && !hadTrunc {
			// One more kill, and the promise is about the next start: run it, from the offsets file as the
			// dead file.d left it. A start that ends itself over the same offsets file again can never get
			// past it (a crash loop); otherwise whatever is still missing must come now.
			off3 := filepath.Join(dir, "offsets3.yaml")
			have3 := copyFile(off2, off3)
			snap3, _ := os.ReadFile(off3)
			if r3, err3 := startRun(&c, w, off3); err3 == nil {
				o.Class("third-start-after-filed-ended-itself")
				missing3 := func() []int {
					r2.mu.Lock()
					r3.mu.Lock()
					defer r2.mu.Unlock()
					defer r3.mu.Unlock()
					var m []int
					for id := range expected {
						if delivered1[id] == 0 && r2.delivered[id] == 0 && r3.delivered[id] == 0 {
							m = append(m, id)
						}
					}
					sort.Ints(m)
					return m
				}
				began, lastProgress, lastCount := time.Now(), time.Now(), -1
				again := ""
				for {
					miss = missing3()
					if len(miss) != lastCount {
						lastCount, lastProgress = len(miss), time.Now()
					}
					if pp := fdkit.TakeLoggedPanics(); len(pp) > 0 {
						again = pp[0]
						break
					}
					if (len(miss) == 0 && time.Since(began) > 700*time.Millisecond) || time.Since(lastProgress) > 10*time.Second || time.Since(began) > 60*time.Second {
						break
					}
					time.Sleep(5 * time.Millisecond)
				}
				if i := strings.IndexByte(again, '\n'); i > 0 {
					again = again[:i]
				}
				switch {
				case strings.Contains(again, "offset corruption"):
					miss = nil
					o.Failf(P, "restart-loop:offset-corruption", "after the restart file.d ended itself (%s); started once more from the offsets file it left, it ended itself again (%s); offsets file at the kill (present=%v):\n%s\noffsets file at the third start (present=%v):\n%s", first, again, haveOffsets, snapshot, have3, snap3)
				case again != "":
					miss = nil
					vkit.Note(P, "file.d ended itself during the third start (not judged): "+again)
				default:
					r3.stop()
					panics = nil // judged below like any other case: r1, r2 and r3 together must have delivered every line
					laterSnapshot = string(snap3)
				}
			}
		}
	} else {
		r2.stop()
	}
	if len(miss) > 0 && len(panics) == 0 {
		sig := "line-lost"
		if hadTrunc {
			sig = "line-lost-after-truncation"
		}
		// describe the lost lines; recognise the known shape: the line's stream has no entry in the
		// snapshot of its file while other streams of that file have one (restart seeks to the minimum
		// SAVED offset, which lies behind the line)
		snaps := []map[uint64][]map[string]bool{parseOffsetsSnapshot(snapshot)}
		if laterSnapshot != "" {
			snaps = append(snaps, parseOffsetsSnapshot(laterSnapshot)) // a line may be lost by either restart
		}
		var desc []string
		allKnownShape := true
		w.mu.Lock()
		for _, id := range miss {
			// the restart seeks an entry to the minimum offset SAVED in it; a line is lost that way when some
			// entry of its file has saved streams but not the line's stream
			knownShape, saved := false, false
			for _, snap := range snaps {
				for _, streams := range snap[w.lineIno[id]] {
					if len(streams) > 0 && !streams[w.lineStr[id]] {
						knownShape = true
					}
					saved = saved || streams[w.lineStr[id]]
				}
			}
			if !knownShape {
				allKnownShape = false
			}
			desc = append(desc, fmt.Sprintf("id %d (file f%d inode %d stream %q, stream saved in snapshot: %v)", id, w.written[id], w.lineIno[id], w.lineStr[id], saved))
		}
		w.mu.Unlock()
		if allKnownShape {
			sig = "line-lost:stream-without-saved-offset"
		}
		o.Failf(P, sig, "%d of %d complete lines were delivered neither before the kill nor after the restart: %s; offsets file at the kill (present=%v):\n%s%s", len(miss), total, strings.Join(desc, ", "), haveOffsets, snapshot, map[bool]string{false: "", true: "\noffsets file at the third start:\n" + laterSnapshot}[laterSnapshot != ""])
	}
	// classes / non-triviality
	nstreams := map[string]bool{}
	rot := false
	for _, steps := range [][]Step{c.Steps1, c.StepsDown, c.Steps2} {
		for _, st := range steps {
			for _, l := range st.Lines {
				nstreams[l.Stream] = true
			}
			if st.Op == "rotate" {
				rot = true
			}
		}
	}
	if haveOffsets {
		o.Class("offsets-file-existed-at-crash")
	}
	if acksAtCrash > 0 && acksAtCrash < total {
		o.Class("crash-mid-stream")
	}
	if commitsAtCrash > 0 {
		o.Class("commits-before-crash")
	}
	if hadTrunc {
		o.Class("truncation")
	}
	if rot {
		o.Class("rotation")
	}
	if c.Excluded {
		o.Class("excluded-file-in-the-watched-directory")
	}
	if c.Antispam {
		o.Class("antispam-switched-on")
	}
	if nstreams[noStreamField] {
		o.Class("lines-without-stream-field")
	}
	if c.Symlinks {
		o.Class("files-behind-symbolic-links")
		if rot {
			o.Class("rotation-behind-symbolic-links")
		}
	}
	if len(c.StepsDown) > 0 {
		o.Class("down-time-steps")
	}
	if len(nstreams) >= 2 {
		o.Class("multi-stream")
	}
	if acksAtCrash > 0 && haveOffsets && (len(nstreams) >= 2 || rot || len(c.StepsDown) > 0) {
		o.Nontrivial(P)
	}
	o.History = map[string]any{"acks_at_crash": acksAtCrash, "commits_at_crash": commitsAtCrash, "have_offsets": haveOffsets, "missing": miss}
	return o
}

var prop = vkit.NewProp([]string{P}, "c03crash", gen, runCase)

func TestC03CrashRestart(t *testing.T) { prop.CrashFile = true; prop.Check(t) }

// ------------------------------------------------------------------ truncation while events are un-acknowledged

// TruncCase: one run, write notifications on. Phase A lines are read; the acknowledgement of the
// last Held of them is withheld; the file is truncated; the acknowledgements are released; phase B
// lines are appended. "After a truncation file.d keeps running, starts the file over and delivers
// everything written after the truncation."
type TruncCase struct {
	// PrevRun: lines written, delivered and acknowledged in an EARLIER run that was stopped before this
	// one (so this run starts from a persisted offsets file); their ids are 1001..
	PrevRun    []Line `json:"prev_run,omitempty"`
	PhaseA     []Line `json:"phase_a"`
	Held       int    `json:"held"`       // acknowledgements of the last Held phase-A lines are withheld across the truncation
	ReleaseMs  int    `json:"release_ms"` // pause between truncation and release of the acknowledgements
	GapMs      int    `json:"gap_ms"`     // pause between release and phase B
	PhaseB     []Line `json:"phase_b"`
	Workers    int    `json:"workers"`
	BatchCount int    `json:"batch_count"`
	ReadBuf    int    `json:"read_buf"`
}

func genTrunc(t *rapid.T) TruncCase {
	c := TruncCase{
		Workers:    rapid.IntRange(1, 3).Draw(t, "workers"),
		BatchCount: rapid.IntRange(1, 3).Draw(t, "batch_count"),
		ReadBuf:    rapid.SampledFrom([]int{64, 4096, 131072}).Draw(t, "read_buf"),
		ReleaseMs:  rapid.SampledFrom([]int{150, 250}).Draw(t, "release_ms"),
		GapMs:      rapid.SampledFrom([]int{0, 5, 60}).Draw(t, "gap_ms"),
	}
	ns := rapid.IntRange(1, 3).Draw(t, "nstreams")
	id := 1
	na := rapid.IntRange(1, 8).Draw(t, "na")
	for i := 0; i < na; i++ {
		c.PhaseA = append(c.PhaseA, Line{ID: id, Stream: streamNames[rapid.IntRange(0, ns-1).Draw(t, "sa")]})
		id++
	}
	c.Held = rapid.IntRange(0, min(3, na)).Draw(t, "held")
	if rapid.IntRange(0, 2).Draw(t, "prev_run") == 0 {
		for i, n := 0, rapid.IntRange(1, 8).Draw(t, "nprev"); i < n; i++ {
			c.PrevRun = append(c.PrevRun, Line{ID: 1001 + i, Stream: streamNames[rapid.IntRange(0, ns-1).Draw(t, "sp")]})
		}
	}
	nb := rapid.IntRange(1, 8).Draw(t, "nb")
	for i := 0; i < nb; i++ {
		c.PhaseB = append(c.PhaseB, Line{ID: id, Stream: streamNames[rapid.IntRange(0, ns-1).Draw(t, "sb")]})
		id++
	}
	return c
}

func runTrunc(c TruncCase) *vkit.Outcome {
	o := vkit.NewOutcome()
	dir, err := os.MkdirTemp(tmpBase(), "verif-c03t-")
	if err != nil {
		panic(err)
	}
	defer os.RemoveAll(dir)
	w := &world{dir: dir, logs: filepath.Join(dir, "logs"), written: map[int]int{}, gen: map[int]int{}, lineGen: map[int]int{}, lineIno: map[int]uint64{}, lineStr: map[int]string{}}
	_ = os.MkdirAll(w.logs, 0o755)
	fdkit.TakeLoggedPanics()
	fdkit.SetPanicCapture(true)
	defer fdkit.SetPanicCapture(false)
	cc := &Case{Files: 1, WatchWrites: true, Workers: c.Workers, BatchCount: c.BatchCount, FlushMs: 1, ReadBuf: c.ReadBuf}
	holdFrom := 0
	if c.Held > 0 {
		holdFrom = c.PhaseA[len(c.PhaseA)-c.Held].ID
	}
	if len(c.PrevRun) > 0 {
		// an earlier run reads and acknowledges the first lines and is stopped (offsets persisted)
		// (the plugin refuses to use one offsets file twice in a process: the restart takes a copy)
		r0, err := startRun(cc, w, filepath.Join(dir, "offsets-prev.yaml"))
		if err != nil {
			o.Failf(P, "config-rejected", "%v", err)
			return o
		}
		w.apply(Step{Op: "append", File: 0, Lines: c.PrevRun}, true)
		lastProgress, lastN := time.Now(), -1
		for {
			r0.mu.Lock()
			n := 0
			for _, l := range c.PrevRun {
				if r0.delivered[l.ID] > 0 {
					n++
				}
			}
			r0.mu.Unlock()
			if n == len(c.PrevRun) || time.Since(lastProgress) > 10*time.Second {
				break
			}
			if n != lastN {
				lastN, lastProgress = n, time.Now()
			}
			time.Sleep(3 * time.Millisecond)
		}
		time.Sleep(30 * time.Millisecond) // acknowledgements reach the input, the async saver runs
		if len(fdkit.TakeLoggedPanics()) > 0 {
			o.Class("previous-run-ended-itself")
			return o
		}
		r0.stop()
		if !copyFile(filepath.Join(dir, "offsets-prev.yaml"), filepath.Join(dir, "offsets.yaml")) {
			o.Class("previous-run-left-no-offsets-file")
			return o
		}
		o.Class("started-from-persisted-offsets")
	}
	r, err := startRunHold(cc, w, filepath.Join(dir, "offsets.yaml"), holdFrom)
	if err != nil {
		o.Failf(P, "config-rejected", "%v", err)
		return o
	}
	waitFor := func(ids []int, what string) bool {
		lastProgress, lastMissing := time.Now(), -1
		for {
			r.mu.Lock()
			missing := 0
			for _, id := range ids {
				if r.delivered[id] == 0 {
					missing++
				}
			}
			r.mu.Unlock()
			if missing == 0 {
				return true
			}
			if missing != lastMissing {
				lastMissing, lastProgress = missing, time.Now()
			}
			if time.Since(lastProgress) > 10*time.Second {
				return false
			}
			time.Sleep(3 * time.Millisecond)
		}
	}
	w.apply(Step{Op: "append", File: 0, Lines: c.PhaseA}, true)
	var early []int
	for _, l := range c.PhaseA {
		if holdFrom == 0 || l.ID < holdFrom {
			early = append(early, l.ID)
		}
	}
	// every phase-A line whose acknowledgement is not withheld must arrive (batches are cut so that a
	// withheld line may hold back earlier lines of its batch: wait only while progress is possible)
	if holdFrom == 0 {
		if !waitFor(early, "phase A") {
			o.Class("phase-a-not-delivered")
		}
	} else {
		time.Sleep(120 * time.Millisecond) // phase A is read (notification + maintenance 25 ms), acknowledgements withheld
	}
	w.apply(Step{Op: "truncate", File: 0}, true)
	time.Sleep(time.Duration(c.ReleaseMs) * time.Millisecond)
	close(r.holdCh)
	if c.GapMs > 0 {
		time.Sleep(time.Duration(c.GapMs) * time.Millisecond)
	}
	w.apply(Step{Op: "append", File: 0, Lines: c.PhaseB}, true)
	var late []int
	for _, l := range c.PhaseB {
		late = append(late, l.ID)
	}
	ok := waitFor(late, "phase B")
	// known-finding class: the ignore-after-truncation boundary (ignoreEventsLE) is a job-wide number
	// compared with PER-STREAM sequence ids, so it is only right for single-stream files
	streamSet := map[string]bool{}
	for _, l := range append(append([]Line{}, c.PhaseA...), c.PhaseB...) {
		streamSet[l.Stream] = true
	}
	multi := ""
	if len(streamSet) >= 2 && c.Held > 0 {
		multi = ":multi-stream"
	}
	panics := fdkit.TakeLoggedPanics()
	if len(panics) > 0 {
		first := panics[0]
		if i := strings.IndexByte(first, '\n'); i > 0 {
			first = first[:i]
		}
		o.Failf(P, "ended-itself-after-truncation"+multi, "file.d ended itself after a truncation (the promise is that it keeps running): %s", first)
		return o
	}
	r.stop()
	if !ok {
		r.mu.Lock()
		var miss []int
		for _, id := range late {
			if r.delivered[id] == 0 {
				miss = append(miss, id)
			}
		}
		r.mu.Unlock()
		sig := "post-truncation-line-lost"
		if c.Held > 0 {
			sig += ":acks-pending-at-truncation"
		}
		sig += multi
		o.Failf(P, sig, "lines %v written after the truncation were never delivered (phase A %d lines, %d acknowledgements withheld across the truncation, release after %d ms, gap %d ms)", miss, len(c.PhaseA), c.Held, c.ReleaseMs, c.GapMs)
	}
	if c.Held > 0 {
		o.Class("acks-pending-at-truncation")
		o.Nontrivial(P)
	} else {
		o.Class("quiescent-truncation")
	}
	return o
}

var propTrunc = vkit.NewProp([]string{P}, "c03trunc", genTrunc, runTrunc)

func TestC03Truncation(t *testing.T) { propTrunc.CrashFile = true; propTrunc.Check(t) }
