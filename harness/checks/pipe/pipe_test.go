// Package pipe runs generated plans through the pipeline simulator. One
// execution feeds the oracles of C01, C02, C04, C05, C09 (and the admission
// clause of C20 that pipesim can see); evidence is kept per property.
package pipe

import (
	"fmt"
	"os"
	"runtime/pprof"
	"testing"
	"time"

	"github.com/ozontech/file.d/zzverif/fdkit"
	"github.com/ozontech/file.d/zzverif/pipesim"
	"github.com/ozontech/file.d/zzverif/vkit"
	"pgregory.net/rapid"
)

func TestMain(m *testing.M)   { fdkit.InstallLogger(); vkit.Main(m) }
func TestReplay(t *testing.T) { vkit.Replay(t) }

var allProps = []string{"C01", "C02", "C04", "C05", "C09"}

func genReal(t *rapid.T) pipesim.Plan {
	return pipesim.GenPlan(t, pipesim.GenOpts{
		AllowSync: true, AllowBatched: true, AllowFailures: true, AllowDQ: true, AllowSplit: true,
		AllowHold: true, AllowRefuse: true, AllowWaitFor: true, AllowNoMatch: true, MaxRecords: 30, MaxSources: 3,
		TimeoutFlush: rapid.IntRange(0, 9).Draw(t, "timeout_flush") == 0,
	})
}

func genVirtual(t *rapid.T) pipesim.Plan {
	if rapid.IntRange(0, 3).Draw(t, "retry_storm") == 0 {
		return pipesim.GenPlan(t, pipesim.GenOpts{
			Virtual: true, AllowBatched: true, AllowFailures: true, AllowDQ: true, AllowHold: true, AllowRefuse: true,
			RetryStorm: true, MaxRecords: 16, MaxSources: 2,
		})
	}
	if rapid.IntRange(0, 7).Draw(t, "many_holders") == 0 {
		return pipesim.GenPlan(t, pipesim.GenOpts{
			Virtual: true, AllowSync: true, AllowBatched: true, AllowHold: true, AllowRefuse: true, AllowNoMatch: true,
			ManyHolders: true, MaxRecords: 18, MaxSources: 3, MaxCapacity: 16, MinCapacity: 16,
		})
	}
	return pipesim.GenPlan(t, pipesim.GenOpts{
		Virtual: true, AllowSync: true, AllowBatched: true, AllowFailures: false, AllowDQ: false, AllowSplit: true,
		AllowHold: true, AllowRefuse: true, AllowWaitFor: false, AllowNoMatch: true, MaxRecords: 40, MaxSources: 3, MaxCapacity: 8,
		TimeoutFlush: rapid.Bool().Draw(t, "timeout_flush"),
	})
}

func judge(plan *pipesim.Plan, res *pipesim.Result) *vkit.Outcome {
	o := vkit.NewOutcome()
	for _, f := range res.Failures {
		o.Failf(f.Prop, f.Sig, "%s", f.Msg)
	}
	if o.Failed() {
		h := res.History
		if len(h) > 600 {
			h = h[len(h)-600:]
		}
		o.History = map[string]any{"history_tail": h, "dump": res.StreamerDump}
	}
	batched := !plan.Output.Sync
	// classes
	if res.Inversions > 0 {
		o.Class("inverted-completion")
	}
	if res.DropBehind > 0 {
		o.Class("drop-behind-in-flight")
	}
	if res.RetriesSeen > 0 {
		o.Class("retry")
	}
	if res.GiveUps > 0 {
		o.Class("give-up")
	}
	if res.DQDelivered > 0 {
		o.Class("dead-queue-delivery")
	}
	if res.SpamRefused > 0 {
		o.Class("refused-by-antispam")
	}
	if res.Timeouts > 0 {
		o.Class("stream-timeout")
	}
	if res.HeldFlushed > 0 {
		o.Class("held-flushed")
	}
	if res.Splits > 0 {
		o.Class("split")
	}
	if res.PoolSaturated {
		o.Class("pool-saturated")
	}
	if res.ConcurrentStreams {
		o.Class("multi-stream-source")
	}
	if res.ConstraintsDropped > 0 {
		o.Class("constraint-dropped")
	}
	if plan.Output.Sync {
		o.Class("sync-output")
	}
	if plan.Pool == "low_memory" {
		o.Class("pool-low-memory")
	}
	if !res.Quiesced {
		o.Class("not-quiesced")
	}
	o.Class(fmt.Sprintf("max-in-flight>=2:%v", res.MaxInFlight >= 2))
	// non-triviality per property (DESIGN.md §3)
	if batched && res.MaxInFlight >= 2 && (res.Inversions > 0 || res.DropBehind > 0 || res.RetriesSeen > 0 || res.DQDelivered > 0) {
		o.Nontrivial("C01")
	}
	if res.Committed >= 3 && (res.ConcurrentStreams || (batched && plan.Output.Workers >= 2) || plan.DeadQueue != nil) {
		o.Nontrivial("C02")
	}
	if res.Timeouts > 0 || res.PoolSaturated || res.HeldFlushed > 0 {
		o.Nontrivial("C04")
	}
	if res.PoolSaturated && res.Quiesced && (res.Splits > 0 || res.Accepted < totalRecords(plan)) {
		o.Nontrivial("C05")
	}
	if res.GiveUps > 0 || res.RetriesSeen > 0 {
		o.Nontrivial("C09")
	}
	return o
}

func totalRecords(p *pipesim.Plan) int {
	n := 0
	for _, s := range p.Sources {
		n += len(s.Records)
	}
	return n
}

func runReal(plan pipesim.Plan) *vkit.Outcome {
	res := pipesim.Run(&plan)
	return judge(&plan, res)
}

func runVirtual(plan pipesim.Plan) *vkit.Outcome {
	var res *pipesim.Result
	var bubblePanic any
	func() {
		defer func() { bubblePanic = recover() }()
		vkit.Bubble(func() {
			res = pipesim.Run(&plan)
			// let maintenance goroutines (hour-long virtual sleeps) observe the stop flag
			time.Sleep(3 * time.Hour)
			if os.Getenv("VERIF_DEBUG") != "" {
				_ = pprof.Lookup("goroutine").WriteTo(os.Stderr, 1)
			}
		})
	}()
	if res == nil {
		panic(bubblePanic)
	}
	o := judge(&plan, res)
	if bubblePanic != nil && !o.Failed() {
		// The run itself was judged fine (every event finalized) but goroutines of the pipeline stayed blocked
		// after Stop. Not a clause of C04: the property is about events and readers while the pipeline works,
		// file.d does not join its goroutines in Stop (the harness has to wake the processors itself), and a
		// processor started by growProcs while Stop is under way can stay behind. Counted, not judged.
		o.Class("goroutines-left-blocked-after-stop")
		vkit.Note("C04", fmt.Sprintf("virtual run: pipeline goroutines stayed blocked after Stop (not judged): %v", bubblePanic))
	}
	return o
}

// genMultiHold: plans in which two actions of the chain may hold / collapse at overlapping times
// (known-finding class, kept in its own unit so that the main search stays clean).
func genMultiHold(t *rapid.T) pipesim.Plan {
	return pipesim.GenPlan(t, pipesim.GenOpts{
		AllowSync: true, AllowBatched: true, AllowHold: true, AllowRefuse: false, MultiHold: true,
		MaxRecords: 24, MaxSources: 2, TimeoutFlush: rapid.Bool().Draw(t, "timeout_flush"),
	})
}

var propMultiHold = vkit.NewProp(allProps, "pipemultihold", genMultiHold, runReal)

func TestPipeMultiHold(t *testing.T) { propMultiHold.CrashFile = true; propMultiHold.Check(t) }

var propReal = vkit.NewProp(allProps, "pipereal", genReal, runReal)
var propVirtual = vkit.NewProp(allProps, "pipevirtual", genVirtual, runVirtual)

func TestPipeReal(t *testing.T)    { propReal.CrashFile = true; propReal.Check(t) }
func TestPipeVirtual(t *testing.T) { propVirtual.CrashFile = true; propVirtual.Check(t) }
