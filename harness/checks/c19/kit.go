// Package c19 holds the generator, the scripted loopback HTTP server and the
// sink-independent oracle helpers shared by the white-box C19 checks that live
// inside the output plugin packages (harness/inpkg/plugin/output/*/zz_verif_c19_test.go).
//
// It imports only exported file.d API (pipeline) and never an output plugin,
// so every output package can import it without a cycle.
package c19

import (
	"bytes"
	"compress/gzip"
	"encoding/json"
	"fmt"
	"io"
	"net/http"
	"net/http/httptest"
	"os"
	"runtime"
	"runtime/debug"
	"strings"
	"sync"
	"syscall"
	"time"
	"unicode/utf8"

	"github.com/ozontech/file.d/pipeline"
	"github.com/ozontech/file.d/zzverif/vkit"
	insaneJSON "github.com/ozontech/insane-json"
	"pgregory.net/rapid"
)

// P is the property id.
const P = "C19"

// IDKey is the event field that carries the unique event id.
const IDKey = "vid"

// ---------------------------------------------------------------- case model

// Ev is one event of a batch: its JSON text and whether it is the parent of a
// split (child-parent kind: must not be delivered).
type Ev struct {
	ID     string `json:"id"`
	Doc    string `json:"doc,omitempty"` // JSON text when it is valid UTF-8
	Raw    []byte `json:"raw,omitempty"` // JSON text otherwise (base64 in the case file)
	Parent bool   `json:"parent,omitempty"`
}

// Text returns the JSON text of the event.
func (e Ev) Text() string {
	if e.Raw != nil {
		return string(e.Raw)
	}
	return e.Doc
}

// SetText stores the JSON text loss-free.
func (e *Ev) SetText(s string) {
	if utf8.ValidString(s) {
		e.Doc, e.Raw = s, nil
	} else {
		e.Doc, e.Raw = "", []byte(s)
	}
}

// Tree parses the event text with encoding/json (the reference model).
func (e Ev) Tree() *vkit.JNode {
	n, err := vkit.ParseJSON([]byte(e.Text()))
	if err != nil {
		panic(fmt.Sprintf("c19 generator produced an event encoding/json rejects: %v: %q", err, e.Text()))
	}
	return n
}

// Plan says how the scripted endpoint answers the successive requests of one batch.
// Request i (0-based, counted over all attempts of the batch) gets Script[i] if
// that entry exists and is non-zero; else 413 if Limit > 0 and the (decoded)
// body is longer than Limit bytes; else the sink's success status.
type Plan struct {
	Script []int `json:"script,omitempty"`
	Limit  int   `json:"limit,omitempty"`
}

// Batch is one batch handed to out() plus the endpoint behaviour while it is sent.
type Batch struct {
	Events []Ev `json:"events"`
	Plan   Plan `json:"plan"`
}

// Deliverable returns the events out() must deliver (non-parents), in batch order.
func (b Batch) Deliverable() []Ev {
	var r []Ev
	for _, e := range b.Events {
		if !e.Parent {
			r = append(r, e)
		}
	}
	return r
}

// IDs lists the ids of evs.
func IDs(evs []Ev) []string {
	r := make([]string, len(evs))
	for i, e := range evs {
		r[i] = e.ID
	}
	return r
}

// ---------------------------------------------------------------- generators

var hostilePieces = []string{`"`, `\`, "\n", "\r\n", "\x00", "\t", `"}}`, `","x":"`, "\n{\"delete\":{}}\n", `\"`, `\\`, `\n`, `\u0000`, "%", "/", " ", "é", "😀", " ", "\x7f", "\x1f", "<", "&", "'"}
var invalidPieces = []string{"\xff", "\xc3", "\xe2\x82", "\xed\xa0\x80", "\x80"}
var plainPieces = []string{"a", "svc", "idx", "prod", "k8s-pod", "0", "42", "A", "x.y", "err"}

// Hostile reports whether s needs escaping inside a JSON string or is not valid UTF-8.
func Hostile(s string) bool {
	if !utf8.ValidString(s) {
		return true
	}
	for i := 0; i < len(s); i++ {
		if c := s[i]; c < 0x20 || c == '"' || c == '\\' || c == 0x7f {
			return true
		}
	}
	return false
}

// GenRouteString draws a string for a routing field: plain names, strings with
// quotes / backslashes / newlines / NUL, invalid UTF-8, long strings, empty.
func GenRouteString(t *rapid.T, label string, invalidUTF8 bool) string {
	k := rapid.IntRange(0, 11).Draw(t, label+"/rk")
	switch {
	case k == 0:
		return ""
	case k <= 4:
		return rapid.SampledFrom(plainPieces).Draw(t, label+"/plain")
	case k == 5: // long
		n := rapid.SampledFrom([]int{300, 1500, 5000}).Draw(t, label+"/longn")
		unit := rapid.SampledFrom([]string{"x", "ab\"", "é", "\\", "\n"}).Draw(t, label+"/longu")
		return strings.Repeat(unit, n/len(unit))
	default:
		n := rapid.IntRange(1, 4).Draw(t, label+"/n")
		var sb strings.Builder
		for i := 0; i < n; i++ {
			c := rapid.IntRange(0, 9).Draw(t, label+"/c")
			switch {
			case c < 3:
				sb.WriteString(rapid.SampledFrom(plainPieces).Draw(t, label+"/p"))
			case c < 9 || !invalidUTF8:
				sb.WriteString(rapid.SampledFrom(hostilePieces).Draw(t, label+"/h"))
			default:
				sb.WriteString(rapid.SampledFrom(invalidPieces).Draw(t, label+"/i"))
			}
		}
		return sb.String()
	}
}

// GenRouteValue draws a JSON value for a routing field: mostly strings (see
// GenRouteString), sometimes a number, bool, null, object or array; nil = field absent.
func GenRouteValue(t *rapid.T, label string, invalidUTF8 bool) *vkit.JNode {
	switch rapid.IntRange(0, 15).Draw(t, label+"/vk") {
	case 0:
		return nil
	case 1:
		return vkit.JNum(rapid.SampledFrom([]string{"0", "7", "-1", "1.5", "1e3", "123456789012345678901234567890"}).Draw(t, label+"/num"))
	case 2:
		return vkit.JBool(rapid.Bool().Draw(t, label+"/b"))
	case 3:
		return vkit.JNull()
	case 4:
		if rapid.Bool().Draw(t, label+"/oa") {
			return vkit.JObj().Set("k", vkit.JStr("v\"w"))
		}
		return vkit.JArr(vkit.JStr("x"), vkit.JNum("1"))
	default:
		return vkit.JStr(GenRouteString(t, label, invalidUTF8))
	}
}

// EventOpts configures GenBatches.
type EventOpts struct {
	Keys        []string // key pool of the random part of an event (nil = default)
	InvalidUTF8 bool
	// Decorate adds the sink's routing / envelope fields to the event object
	// (called after the random part and the id were set).
	Decorate func(t *rapid.T, label string, obj *vkit.JNode, id string)
	MaxBatch int  // largest batch size drawn (default 40)
	NoParent bool // never mark events as split parents
}

var defaultKeys = []string{"a", "b", "c", "message", "msg", "ts", "stream", "k8s_pod", "log", "user.name", "x y", "ключ", "", "A", "n"}

var sizePool = []int{1, 1, 2, 2, 3, 5, 8, 12, 25, 40}

// GenBatches draws 1..4 successive batches (mostly 2..4) of very different
// sizes; every event carries a unique id under IDKey; split parents are
// interleaved but every batch keeps at least one deliverable event (the batcher
// never hands a batch without iterable events to an output).
func GenBatches(t *rapid.T, o EventOpts, genPlan func(t *rapid.T, label string, b Batch) Plan) []Batch {
	nb := rapid.SampledFrom([]int{1, 2, 2, 3, 3, 4}).Draw(t, "nbatches")
	maxB := o.MaxBatch
	if maxB <= 0 {
		maxB = 40
	}
	keys := o.Keys
	if keys == nil {
		keys = defaultKeys
	}
	to := &vkit.TreeOpts{MaxDepth: 2, MaxWidth: 3, Keys: keys, Text: &vkit.TextOpts{InvalidUTF8: o.InvalidUTF8}}
	var out []Batch
	for bi := 0; bi < nb; bi++ {
		n := rapid.SampledFrom(sizePool).Draw(t, fmt.Sprintf("b%d/size", bi))
		if n > maxB {
			n = maxB
		}
		var b Batch
		deliverable := 0
		for ei := 0; ei < n; ei++ {
			label := fmt.Sprintf("b%d/e%d", bi, ei)
			id := fmt.Sprintf("b%de%d", bi, ei)
			obj := vkit.GenObject(t, label, to, 0)
			obj.Del(IDKey)
			// id position varies: first or last key
			if rapid.Bool().Draw(t, label+"/idfirst") {
				obj.Keys = append([]string{IDKey}, obj.Keys...)
				obj.Vals = append([]*vkit.JNode{vkit.JStr(id)}, obj.Vals...)
			} else {
				obj.Set(IDKey, vkit.JStr(id))
			}
			if o.Decorate != nil {
				o.Decorate(t, label, obj, id)
			}
			ev := Ev{ID: id}
			ev.SetText(obj.Encode())
			if !o.NoParent && rapid.IntRange(0, 7).Draw(t, label+"/parent") == 0 {
				ev.Parent = true
			} else {
				deliverable++
			}
			b.Events = append(b.Events, ev)
		}
		if deliverable == 0 {
			b.Events[len(b.Events)-1].Parent = false
		}
		if genPlan != nil {
			b.Plan = genPlan(t, fmt.Sprintf("b%d/plan", bi), b)
		}
		out = append(out, b)
	}
	return out
}

// GenPlan draws an endpoint behaviour. retryStatus are the retryable failure
// statuses of the sink; with413 enables the split clause shapes.
func GenPlan(retryStatus []int, with413 bool) func(t *rapid.T, label string, b Batch) Plan {
	return func(t *rapid.T, label string, b Batch) Plan {
		mode := rapid.IntRange(0, 9).Draw(t, label+"/mode")
		switch {
		case mode < 4:
			return Plan{}
		case mode < 6: // failures first, then success
			n := rapid.IntRange(1, 2).Draw(t, label+"/nfail")
			var p Plan
			for i := 0; i < n; i++ {
				p.Script = append(p.Script, rapid.SampledFrom(retryStatus).Draw(t, label+"/st"))
			}
			return p
		case mode < 8 && with413: // size limit as a real server applies it
			// every single event fits (a sink adds at most a header about as long as the
			// event plus framing), a whole batch often does not
			maxLen := 0
			for _, e := range b.Deliverable() {
				if l := len(e.Text()); l > maxLen {
					maxLen = l
				}
			}
			return Plan{Limit: 2*maxLen + 80 + rapid.SampledFrom([]int{0, 0, 60, 300, 2000}).Draw(t, label+"/slack")}
		case with413: // arbitrary 413 pattern, occasionally with a retryable failure inside
			n := rapid.IntRange(1, 7).Draw(t, label+"/n413")
			var p Plan
			for i := 0; i < n; i++ {
				k := rapid.IntRange(0, 9).Draw(t, label+"/k")
				switch {
				case k < 6:
					p.Script = append(p.Script, 413)
				case k < 9:
					p.Script = append(p.Script, 0)
				default:
					p.Script = append(p.Script, rapid.SampledFrom(retryStatus).Draw(t, label+"/st"))
				}
			}
			return p
		default:
			return Plan{}
		}
	}
}

// Has413 reports whether the plan can answer 413.
func (p Plan) Has413() bool {
	if p.Limit > 0 {
		return true
	}
	for _, s := range p.Script {
		if s == 413 {
			return true
		}
	}
	return false
}

// MaxAttempts bounds the out() calls needed until the plan lets a batch through.
func (p Plan) MaxAttempts() int { return len(p.Script) + 2 }

// ---------------------------------------------------------------- events

// Built is a batch materialised as file.d events.
type Built struct {
	Batch  *pipeline.Batch
	Events []*pipeline.Event
}

// Build creates real events (insane-json roots) for b. Release must be called.
func Build(b Batch) *Built {
	bt := &Built{}
	for _, e := range b.Events {
		root := insaneJSON.Spawn()
		if err := root.DecodeString(e.Text()); err != nil {
			panic(fmt.Sprintf("c19: insane-json rejected generated event %q: %v", e.Text(), err))
		}
		ev := &pipeline.Event{Root: root, Size: len(e.Text())}
		if e.Parent {
			ev.SetChildParentKind()
		}
		bt.Events = append(bt.Events, ev)
	}
	bt.Batch = pipeline.NewPreparedBatch(bt.Events)
	return bt
}

// Release returns the roots to the pool.
func (b *Built) Release() {
	for _, e := range b.Events {
		insaneJSON.Release(e.Root)
	}
}

// ---------------------------------------------------------------- scripted endpoint

// Req is one request the endpoint received.
type Req struct {
	Body     []byte // decoded (gunzipped) body
	Status   int    // what the endpoint answered
	Gzip     bool
	BadGzip  bool
	CT       string
	Path     string
	AuthHdr  string
	OrgIDHdr string
}

// Server is a loopback HTTP endpoint that records request bodies and answers
// from the plan of the batch being sent.
type Server struct {
	*httptest.Server
	mu     sync.Mutex
	reqs   []Req
	plan   Plan
	n      int
	ok     int
	okBody string
}

// NewServer starts the endpoint; ok / okBody are the success answer of the sink.
func NewServer(ok int, okBody string) *Server {
	s := &Server{ok: ok, okBody: okBody}
	s.Server = httptest.NewServer(http.HandlerFunc(s.handle))
	return s
}

func (s *Server) handle(w http.ResponseWriter, r *http.Request) {
	raw, _ := io.ReadAll(r.Body)
	rq := Req{Body: raw, CT: r.Header.Get("Content-Type"), Path: r.URL.RequestURI(), AuthHdr: r.Header.Get("Authorization"), OrgIDHdr: r.Header.Get("X-Scope-OrgID")}
	if r.Header.Get("Content-Encoding") == "gzip" {
		rq.Gzip = true
		zr, err := gzip.NewReader(bytes.NewReader(raw))
		if err != nil {
			rq.BadGzip = true
		} else {
			dec, err := io.ReadAll(zr)
			if err != nil {
				rq.BadGzip = true
			}
			rq.Body = dec
		}
	}
	s.mu.Lock()
	i := s.n
	s.n++
	st := 0
	if i < len(s.plan.Script) {
		st = s.plan.Script[i]
	}
	if st == 0 && s.plan.Limit > 0 && len(rq.Body) > s.plan.Limit {
		st = 413
	}
	if st == 0 {
		st = s.ok
	}
	rq.Status = st
	s.reqs = append(s.reqs, rq)
	s.mu.Unlock()
	if st == s.ok {
		w.WriteHeader(st)
		if st != http.StatusNoContent {
			_, _ = io.WriteString(w, s.okBody)
		}
		return
	}
	w.WriteHeader(st)
	_, _ = io.WriteString(w, `{"error":"scripted"}`)
}

// Begin installs the plan of the next batch and forgets earlier requests.
func (s *Server) Begin(p Plan) {
	s.mu.Lock()
	s.plan = p
	s.n = 0
	s.reqs = nil
	s.mu.Unlock()
}

// Mark returns the number of requests seen since Begin.
func (s *Server) Mark() int {
	s.mu.Lock()
	defer s.mu.Unlock()
	return len(s.reqs)
}

// Since returns the requests received after mark.
func (s *Server) Since(mark int) []Req {
	s.mu.Lock()
	defer s.mu.Unlock()
	return append([]Req(nil), s.reqs[mark:]...)
}

// Attempt is one out() call and the requests it made.
type Attempt struct {
	Err  error
	Reqs []Req
}

// Drive calls out (one production attempt = one call of the plugin's out with
// the same worker data and batch, exactly what pipeline.RetriableBatcher does)
// until it returns nil or the plan's attempt bound is hit.
func (s *Server) Drive(p Plan, out func() error) []Attempt {
	s.Begin(p)
	var atts []Attempt
	for i := 0; i < p.MaxAttempts(); i++ {
		m := s.Mark()
		err := out()
		atts = append(atts, Attempt{Err: err, Reqs: s.Since(m)})
		if err == nil {
			break
		}
	}
	return atts
}

// ---------------------------------------------------------------- oracle helpers

// SeqProblem compares the id sequence a payload carries with the deliverable
// ids of the batch. It returns "" or a stable clause name plus a description.
// parents / earlier are the ids that must NOT appear (split parents of this
// batch; events of earlier batches on the same worker data).
func SeqProblem(got, want []string, parents, earlier map[string]bool) (clause, msg string) {
	wantSet := map[string]int{}
	for i, id := range want {
		wantSet[id] = i
	}
	seen := map[string]int{}
	for _, id := range got {
		if _, ok := wantSet[id]; !ok {
			switch {
			case parents[id]:
				return "split-parent-delivered", fmt.Sprintf("payload carries split parent %q; got ids %q want %q", id, clipIDs(got), clipIDs(want))
			case earlier[id]:
				return "stale-event-of-earlier-batch", fmt.Sprintf("payload carries %q, an event of an earlier batch on the same worker data; got ids %q want %q", id, clipIDs(got), clipIDs(want))
			default:
				return "unknown-document", fmt.Sprintf("payload carries a document with id %q that is no event of the batch; got ids %q want %q", id, clipIDs(got), clipIDs(want))
			}
		}
		seen[id]++
	}
	for _, id := range want {
		if seen[id] > 1 {
			return "event-duplicated", fmt.Sprintf("event %q delivered %d times; got ids %q want %q", id, seen[id], clipIDs(got), clipIDs(want))
		}
	}
	for _, id := range want {
		if seen[id] == 0 {
			return "event-missing", fmt.Sprintf("event %q not delivered; got ids %q want %q", id, clipIDs(got), clipIDs(want))
		}
	}
	for i := range want {
		if got[i] != want[i] {
			return "event-order", fmt.Sprintf("events out of batch order at position %d: got ids %q want %q", i, clipIDs(got), clipIDs(want))
		}
	}
	return "", ""
}

func clipIDs(ids []string) []string {
	if len(ids) > 24 {
		return append(append([]string{}, ids[:24]...), "…")
	}
	return ids
}

// IDOf returns the id a delivered document carries under key ("" if none).
func IDOf(doc *vkit.JNode, key string) string {
	v := doc.Get(key)
	if v == nil || v.Kind != 's' {
		return ""
	}
	return v.Str
}

// Clip shortens s for messages.
func Clip(s string) string {
	if len(s) > 300 {
		return s[:300] + "…"
	}
	return s
}

// ParentSet returns the ids of the split parents of b.
func ParentSet(b Batch) map[string]bool {
	m := map[string]bool{}
	for _, e := range b.Events {
		if e.Parent {
			m[e.ID] = true
		}
	}
	return m
}

// AddAll adds the ids of all events of b to m.
func AddAll(m map[string]bool, b Batch) {
	for _, e := range b.Events {
		m[e.ID] = true
	}
}

// SplitLines splits an NDJSON body into lines with an independent scan. ok is
// false when the body is non-empty and does not end in '\n'.
func SplitLines(body []byte) (lines [][]byte, ok bool) {
	if len(body) == 0 {
		return nil, true
	}
	ok = body[len(body)-1] == '\n'
	rest := body
	for len(rest) > 0 {
		i := bytes.IndexByte(rest, '\n')
		if i < 0 {
			lines = append(lines, rest)
			break
		}
		lines = append(lines, rest[:i])
		rest = rest[i+1:]
	}
	return lines, ok
}

// Accepted returns the requests of att that the endpoint accepted (status ok).
func Accepted(att Attempt, ok int) []Req {
	var r []Req
	for _, q := range att.Reqs {
		if q.Status == ok {
			r = append(r, q)
		}
	}
	return r
}

// GaveUp reports whether the attempt ended on a status the sink documents as
// non-retryable (400 or a 413 it could not split further): out() returned nil
// although the last request was rejected.
func GaveUp(att Attempt, ok int) bool {
	if att.Err != nil || len(att.Reqs) == 0 {
		return false
	}
	return att.Reqs[len(att.Reqs)-1].Status != ok
}

// SplitJSONStream splits a body that is a concatenation of JSON values
// (optionally separated by whitespace) with encoding/json's stream decoder.
func SplitJSONStream(body []byte) ([][]byte, error) {
	dec := json.NewDecoder(bytes.NewReader(body))
	var out [][]byte
	for {
		var raw json.RawMessage
		err := dec.Decode(&raw)
		if err == io.EOF {
			return out, nil
		}
		if err != nil {
			return out, fmt.Errorf("value #%d at offset %d: %w", len(out), dec.InputOffset(), err)
		}
		out = append(out, []byte(raw))
	}
}

// NormUTF8 replaces every invalid UTF-8 byte of s by U+FFFD, one per byte —
// what encoding/json does while parsing, so raw strings taken from the plugin
// compare equal to strings of the model tree.
func NormUTF8(s string) string {
	if utf8.ValidString(s) {
		return s
	}
	var sb strings.Builder
	for i := 0; i < len(s); {
		r, n := utf8.DecodeRuneInString(s[i:])
		if r == utf8.RuneError && n == 1 {
			sb.WriteRune(utf8.RuneError)
		} else {
			sb.WriteString(s[i : i+n])
		}
		i += n
	}
	return sb.String()
}

// Sub runs fn on a fresh outcome and copies its first failure into o. When
// retrySig is not empty the failure is re-labelled with it: used for attempts
// after a failed one whose first attempt passed the same clauses (the payload of
// a retry must carry the same, unchanged events).
func Sub(o *vkit.Outcome, retrySig string, fn func(*vkit.Outcome)) {
	sub := vkit.NewOutcome()
	fn(sub)
	err := sub.FirstErr()
	if err == nil {
		return
	}
	se := err.(*vkit.SigError)
	sig := se.Sig
	msg := se.Err.Error()
	if retrySig != "" {
		msg = "a retry after a failed attempt does not carry the batch as the first attempt did (" + sig + "): " + msg
		sig = retrySig
	}
	o.Failf(P, sig, "%s", msg)
}

// AsString is the reference model of how the plugins read a scalar routing
// value as text: strings as they are, numbers as their literal, true/false/null
// as words; containers and absent fields give "".
func AsString(v *vkit.JNode) string {
	if v == nil {
		return ""
	}
	switch v.Kind {
	case 's', 'n':
		return v.Str
	case 't':
		return "true"
	case 'f':
		return "false"
	case 'z':
		return "null"
	}
	return ""
}

// ---------------------------------------------------------------- runaway guard

// CapMemory puts a hard address-space limit on the test process (backstop: a
// payload builder that never terminates appends until the machine is out of
// memory; with the cap the process dies early and the driver keeps its input).
func CapMemory() {
	const limit = 8 << 30
	var rl syscall.Rlimit
	if err := syscall.Getrlimit(syscall.RLIMIT_AS, &rl); err == nil {
		if rl.Cur > limit { // RLIM_INFINITY is the largest value
			rl.Cur = limit
			_ = syscall.Setrlimit(syscall.RLIMIT_AS, &rl)
		}
	}
}

type nopFailer struct{}

func (nopFailer) Fatalf(string, ...any) {}
func (nopFailer) Helper()               {}

// Guard runs fn (a call into the plugin) on its own goroutine and watches it:
// if it has not returned after 30 s (liveness bound) or the heap grew by more
// than 1 GiB meanwhile, the call will never terminate. A goroutine cannot be
// stopped, so the failure is recorded with signature sig (replay file + stats
// are flushed) and the process exits.
//
// A panic of fn is returned (value and stack) instead of being re-raised.
func Guard(test, sig string, cas any, fn func()) (rec any, stack string) {
	var before runtime.MemStats
	runtime.ReadMemStats(&before)
	type res struct {
		rec   any
		stack string
	}
	done := make(chan res, 1)
	go func() {
		defer func() {
			if r := recover(); r != nil {
				done <- res{r, string(debug.Stack())}
				return
			}
			done <- res{}
		}()
		fn()
	}()
	tick := time.NewTicker(25 * time.Millisecond)
	defer tick.Stop()
	start := time.Now()
	for {
		select {
		case r := <-done:
			return r.rec, r.stack
		case <-tick.C:
			var ms runtime.MemStats
			runtime.ReadMemStats(&ms)
			grown := int64(ms.HeapAlloc) - int64(before.HeapAlloc)
			if grown > 1<<30 || time.Since(start) > 30*time.Second {
				msg := fmt.Sprintf("the plugin call did not return: %.1fs elapsed, heap grew by %d MiB and keeps growing (endless loop while building the payload)", time.Since(start).Seconds(), grown>>20)
				fmt.Printf("VERIF-FAIL property=%s sig=%s: %s\n", P, sig, msg)
				vkit.Fail(nopFailer{}, P, test, sig, cas, nil, "%s", msg)
				vkit.WriteStats()
				os.Exit(1)
			}
		}
	}
}
