package c14

// match_fields: the decision function (processor.isMatch) is unexported, so it
// is observed black-box: a real one-processor pipeline (harness input, N scripted
// probe actions each with its own selector, harness output that commits
// synchronously). A probe records (action index, event offset) whenever its Do
// is called; "Do called" == "selector matched".
//
// Two construction routes, drawn per case:
//   - programmatic: pipeline.ActionPluginStaticInfo{MatchConditions, MatchMode, MatchInvert}
//   - config: the JSON an actions section would hold -> fd.SetupActions (covers
//     extractConditions / extractMatchMode / extractMatchInvert: /re/ syntax,
//     string vs list values, `\.` in field names, match_invert).

import (
	"encoding/json"
	"fmt"
	"regexp"
	"strings"
	"sync"
	"sync/atomic"
	"testing"
	"time"

	simplejson "github.com/bitly/go-simplejson"
	"github.com/ozontech/file.d/fd"
	"github.com/ozontech/file.d/pipeline"
	"github.com/ozontech/file.d/zzverif/fdkit"
	"github.com/ozontech/file.d/zzverif/vkit"
	"pgregory.net/rapid"
)

// MatchCase: several selectors (one probe action each) and events.
type MatchCase struct {
	Sels      []Sel    `json:"sels"`
	Events    []string `json:"events"`
	ViaConfig bool     `json:"via_config"`
	// StringForm[i][j]: in the config route write a single value of condition j of
	// selector i as a plain string instead of a one-element list.
	StringForm [][]bool `json:"string_form,omitempty"`
	// HoldTail: the chain ends with an action without selector that holds (1) or collapses into a held
	// event (2) some events, like join does (per event, 0 = pass). While it waits for the next event of the
	// stream it is "busy" - which must not change what the selectors of the OTHER actions decide.
	HoldTail []int `json:"hold_tail,omitempty"`
	// Parallel > 0: the pipeline keeps its processors, that many sources feed the event list Copies times
	// each at the same time, so several processors evaluate the same selectors concurrently (the
	// selector's configuration is one object shared by all processors)
	Parallel int `json:"parallel,omitempty"`
	Copies   int `json:"copies,omitempty"`
}

func (c *MatchCase) copies() int {
	if c.Parallel > 0 && c.Copies > 0 {
		return c.Parallel * c.Copies
	}
	return 1
}

func genMatch(t *rapid.T) MatchCase {
	evs := genEvents(t, 5)
	paths := collectPaths(evs)
	c := MatchCase{ViaConfig: rapid.IntRange(0, 2).Draw(t, "viaconfig") == 0}
	n := rapid.IntRange(1, 4).Draw(t, "nsel")
	for i := 0; i < n; i++ {
		s := genSel(t, fmt.Sprintf("sel%d", i), paths)
		if rapid.IntRange(0, 4).Draw(t, fmt.Sprintf("sel%d/doif", i)) == 0 {
			// the selector is a do_if rule: covers the DoIfChecker branch of the processor
			s = Sel{Mode: "and", DoIf: genRule(t, fmt.Sprintf("sel%d/rule", i), paths, 0, rapid.IntRange(0, 2).Draw(t, fmt.Sprintf("sel%d/rd", i)), false).Encode()}
		}
		c.Sels = append(c.Sels, s)
		sf := make([]bool, len(s.Conds))
		for j := range sf {
			sf[j] = rapid.Bool().Draw(t, fmt.Sprintf("sel%d/sf%d", i, j))
		}
		c.StringForm = append(c.StringForm, sf)
	}
	for _, e := range evs {
		c.Events = append(c.Events, e.Encode())
	}
	if rapid.IntRange(0, 5).Draw(t, "parallel") == 0 {
		c.Parallel = rapid.IntRange(2, 8).Draw(t, "nsources")
		c.Copies = rapid.SampledFrom([]int{5, 40, 40, 300}).Draw(t, "copies")
		// one selector lists every value some field takes in these events behind a value none of them has,
		// so different events are matched by different, non-first entries of one list
		pi := pickPath(t, "parallel/path", paths, false)
		vals, seen := []string{"value-of-no-event"}, map[string]bool{}
		for _, n := range pi.nodes {
			if n.Kind == 's' && !seen[n.Str] && !strings.HasPrefix(n.Str, "/") {
				seen[n.Str] = true
				vals = append(vals, n.Str)
			}
		}
		if len(vals) >= 3 {
			c.Sels = append(c.Sels, Sel{Mode: "and", Conds: []Cond{{Path: pi.path, Values: vals}}})
			c.StringForm = append(c.StringForm, []bool{false})
		}
		return c
	}
	if rapid.IntRange(0, 2).Draw(t, "hold_tail") == 0 {
		for i := range c.Events {
			h := rapid.SampledFrom([]int{0, 1, 1, 2, 2}).Draw(t, "hold")
			if i == len(c.Events)-1 {
				h = 0 // the last event flushes whatever is held: no run is left to a time-out
			}
			c.HoldTail = append(c.HoldTail, h)
		}
	}
	return c
}

// ---------------------------------------------------------------- harness plugins

type recorder struct {
	holds, collapsed int
	mu               sync.Mutex
	called           map[[2]int64]int
	commits          int
	want             int
	done             chan struct{}
}

func (r *recorder) mark(action int, offset int64) {
	r.mu.Lock()
	r.called[[2]int64{int64(action), offset}]++
	r.mu.Unlock()
}

func (r *recorder) commit() {
	r.mu.Lock()
	r.commits++
	if r.commits == r.want {
		close(r.done)
	}
	r.mu.Unlock()
}

// curRec is the recorder of the case being executed (cases run one at a time).
var curRec atomic.Pointer[recorder]

type probeConfig struct{}

type probeAction struct {
	rec *recorder
	idx int
}

func (a *probeAction) Start(_ pipeline.AnyConfig, p *pipeline.ActionPluginParams) {
	a.rec = curRec.Load()
	a.idx = p.Index
}
func (a *probeAction) Stop() {}
func (a *probeAction) Do(e *pipeline.Event) pipeline.ActionResult {
	a.rec.mark(a.idx, e.Offset)
	return pipeline.ActionPass
}

func probeFactory() (pipeline.AnyPlugin, pipeline.AnyConfig) { return &probeAction{}, &probeConfig{} }

// holdAction plays a join-like action at the end of the chain (see MatchCase.HoldTail).
type holdAction struct {
	rec  *recorder
	plan []int
	ctl  pipeline.ActionPluginController
	held *pipeline.Event
}

func (a *holdAction) Start(_ pipeline.AnyConfig, p *pipeline.ActionPluginParams) {
	a.ctl = p.Controller
}
func (a *holdAction) Stop() {}
func (a *holdAction) flush() {
	if h := a.held; h != nil {
		a.held = nil
		a.ctl.Propagate(h)
	}
}
func (a *holdAction) Do(e *pipeline.Event) pipeline.ActionResult {
	if e.IsTimeoutKind() {
		a.flush()
		return pipeline.ActionDiscard
	}
	op := 0
	if i := int(e.Offset) - 1; i >= 0 && i < len(a.plan) {
		op = a.plan[i]
	}
	switch {
	case op == 2 && a.held != nil:
		a.rec.commit() // a collapsed event is finalized without a commit notification: keep the count right
		a.rec.mu.Lock()
		a.rec.collapsed++
		a.rec.mu.Unlock()
		return pipeline.ActionCollapse
	case op == 1:
		a.flush()
		a.held = e
		a.rec.mu.Lock()
		a.rec.holds++
		a.rec.mu.Unlock()
		return pipeline.ActionHold
	}
	a.flush()
	return pipeline.ActionPass
}

const probeType = "verif_c14_probe"

var registerOnce sync.Once

func registerProbe() {
	registerOnce.Do(func() {
		fd.DefaultPluginRegistry.RegisterAction(&pipeline.PluginStaticInfo{Type: probeType, Factory: probeFactory})
	})
}

type probeInput struct{ rec *recorder }

func (i *probeInput) Start(pipeline.AnyConfig, *pipeline.InputPluginParams) {}
func (i *probeInput) Stop()                                                 {}
func (i *probeInput) Commit(*pipeline.Event)                                { i.rec.commit() }
func (i *probeInput) PassEvent(*pipeline.Event) bool                        { return true }

type probeOutput struct {
	ctl pipeline.OutputPluginController
}

func (o *probeOutput) Start(_ pipeline.AnyConfig, p *pipeline.OutputPluginParams) {
	o.ctl = p.Controller
}
func (o *probeOutput) Stop()                 {}
func (o *probeOutput) Out(e *pipeline.Event) { o.ctl.Commit(e) }

// ---------------------------------------------------------------- construction

var modeByName = map[string]pipeline.MatchMode{
	"and": pipeline.MatchModeAnd, "or": pipeline.MatchModeOr, "and_prefix": pipeline.MatchModeAndPrefix, "or_prefix": pipeline.MatchModeOrPrefix,
}

func addProgrammatic(p *pipeline.Pipeline, s Sel) error {
	if s.DoIf != "" {
		ch, err := newChecker(s.DoIf)
		if err != nil {
			return err
		}
		p.AddAction(&pipeline.ActionPluginStaticInfo{
			PluginStaticInfo: &pipeline.PluginStaticInfo{Type: probeType, Factory: probeFactory, Config: &probeConfig{}},
			DoIfChecker:      ch,
		})
		return nil
	}
	var conds pipeline.MatchConditions
	for _, c := range s.Conds {
		mc := pipeline.MatchCondition{Field: c.Path}
		if c.IsRegex {
			re, err := regexp.Compile(c.Regex)
			if err != nil {
				return err
			}
			mc.Regexp = re
		} else {
			mc.Values = append([]string{}, c.Values...)
		}
		conds = append(conds, mc)
	}
	p.AddAction(&pipeline.ActionPluginStaticInfo{
		PluginStaticInfo: &pipeline.PluginStaticInfo{Type: probeType, Factory: probeFactory, Config: &probeConfig{}},
		MatchConditions:  conds,
		MatchMode:        modeByName[s.Mode],
		MatchInvert:      s.Invert,
	})
	return nil
}

// configRepresentable: can the selector be written as a match_fields map with
// the same meaning under the documented syntax? (a lone string value starting
// with "/" would be read as a regexp; such values are written as a list.)
func actionsJSON(c MatchCase) ([]byte, error) {
	var actions []map[string]any
	for i, s := range c.Sels {
		a := map[string]any{"type": probeType}
		if s.DoIf != "" {
			if !json.Valid([]byte(s.DoIf)) {
				return nil, fmt.Errorf("do_if is not JSON")
			}
			a["do_if"] = json.RawMessage(s.DoIf)
			actions = append(actions, a)
			continue
		}
		mf := map[string]any{}
		for j, cond := range s.Conds {
			key := fieldSelector(cond.Path)
			if _, dup := mf[key]; dup {
				return nil, fmt.Errorf("duplicate field %q", key)
			}
			switch {
			case cond.IsRegex:
				if _, err := regexp.Compile(cond.Regex); err != nil {
					return nil, err
				}
				mf[key] = "/" + cond.Regex + "/"
			case len(cond.Values) == 1 && i < len(c.StringForm) && j < len(c.StringForm[i]) && c.StringForm[i][j] && !strings.HasPrefix(cond.Values[0], "/"):
				mf[key] = cond.Values[0]
			default:
				vals := make([]any, len(cond.Values))
				for k, v := range cond.Values {
					vals[k] = v
				}
				mf[key] = vals
			}
		}
		if len(mf) > 0 || i%2 == 0 {
			a["match_fields"] = mf
		}
		a["match_mode"] = s.Mode
		if s.Invert {
			a["match_invert"] = true
		}
		actions = append(actions, a)
	}
	return json.Marshal(actions)
}

// observe runs the events through a pipeline carrying one probe action per
// selector and returns how often each (action, event offset) saw Do.
// status: "" ok, "bad-case", "rejected-config:<err>", "not-admitted", "timeout".
func observe(c MatchCase) (called map[[2]int64]int, status string) {
	registerProbe()
	rec := &recorder{called: map[[2]int64]int{}, want: len(c.Events) * c.copies(), done: make(chan struct{})}
	curRec.Store(rec)

	st := fdkit.DefaultSettings()
	st.Capacity = 16
	st.AvgEventSize = 256
	st.MaintenanceInterval = time.Second
	st.Antispam.MaintenanceInterval = time.Second
	p := fdkit.NewPipeline(fdkit.UniqueName("c14"), st)
	if c.Parallel == 0 {
		p.DisableParallelism()
	}
	p.SetInput(&pipeline.InputPluginInfo{
		PluginStaticInfo:  &pipeline.PluginStaticInfo{Type: "verif_c14_in"},
		PluginRuntimeInfo: &pipeline.PluginRuntimeInfo{Plugin: &probeInput{rec: rec}},
	})
	p.SetOutput(&pipeline.OutputPluginInfo{
		PluginStaticInfo:  &pipeline.PluginStaticInfo{Type: "verif_c14_out"},
		PluginRuntimeInfo: &pipeline.PluginRuntimeInfo{Plugin: &probeOutput{}},
	})
	if c.ViaConfig {
		raw, err := actionsJSON(c)
		if err != nil {
			return nil, "bad-case"
		}
		sj, err := simplejson.NewJson(raw)
		if err != nil {
			return nil, "bad-case"
		}
		if err := fd.SetupActions(p, fd.DefaultPluginRegistry, sj, nil); err != nil {
			return nil, fmt.Sprintf("rejected-config:fd.SetupActions rejected %s: %v", raw, err)
		}
	} else {
		for _, s := range c.Sels {
			if err := addProgrammatic(p, s); err != nil {
				return nil, "bad-case"
			}
		}
	}
	if len(c.HoldTail) > 0 {
		plan := append([]int{}, c.HoldTail...)
		p.AddAction(&pipeline.ActionPluginStaticInfo{
			PluginStaticInfo: &pipeline.PluginStaticInfo{
				Type: "verif_c14_hold",
				Factory: func() (pipeline.AnyPlugin, pipeline.AnyConfig) {
					return &holdAction{rec: rec, plan: plan}, &probeConfig{}
				},
				Config: &probeConfig{},
			},
			MatchMode: pipeline.MatchModeAnd,
		})
	}
	p.Start()
	admitted := true
	if c.Parallel == 0 {
		for i, e := range c.Events {
			if p.In(pipeline.SourceID(1), "c14", pipeline.NewOffsets(int64(i+1), nil), []byte(e), false, nil) == pipeline.EventSeqIDError {
				admitted = false
				rec.commit() // keep the count right
			}
		}
	} else {
		// copy r of event i carries the offset r*len(events)+i+1; source k feeds the copies k*Copies..(k+1)*Copies-1
		var wg sync.WaitGroup
		var refused atomic.Bool
		for k := 0; k < c.Parallel; k++ {
			wg.Add(1)
			go func(k int) {
				defer wg.Done()
				for r := k * c.Copies; r < (k+1)*c.Copies; r++ {
					for i, e := range c.Events {
						off := int64(r*len(c.Events) + i + 1)
						if p.In(pipeline.SourceID(k+1), "c14", pipeline.NewOffsets(off, nil), []byte(e), false, nil) == pipeline.EventSeqIDError {
							refused.Store(true)
							rec.commit()
						}
					}
				}
			}(k)
		}
		wg.Wait()
		admitted = !refused.Load()
	}
	timedOut := false
	select {
	case <-rec.done:
	case <-time.After(60 * time.Second):
		timedOut = true
	}
	p.Stop()
	if !admitted {
		return nil, "not-admitted"
	}
	if timedOut {
		return nil, "timeout"
	}
	rec.mu.Lock()
	defer rec.mu.Unlock()
	return rec.called, ""
}

// blameCond re-observes every condition of the failing selector on its own
// (same mode family, no inversion) and names the first one whose stand-alone
// decision differs from the documented meaning.
func blameCond(c MatchCase, s Sel, evs []*vkit.JNode) (sig, detail string) {
	sub := MatchCase{Events: c.Events, ViaConfig: c.ViaConfig}
	for range s.Conds {
		sub.StringForm = append(sub.StringForm, []bool{false})
	}
	for _, cd := range s.Conds {
		sub.Sels = append(sub.Sels, Sel{Mode: s.Mode, Conds: []Cond{cd}})
	}
	if len(sub.Sels) > 0 {
		if called, status := observe(sub); status == "" {
			for ci, cd := range s.Conds {
				for ei, ev := range evs {
					want := evalCond(cd, strings.HasSuffix(s.Mode, "_prefix"), ev)
					if want == tU {
						continue
					}
					if got := called[[2]int64{int64(ci), int64(ei + 1)}] == 1; got != (want == tT) {
						kind := "values"
						if cd.IsRegex {
							kind = "regexp"
						}
						return "match-condition-mismatch:" + s.Mode + ":" + kind,
							fmt.Sprintf("condition %s alone in mode %s decides %v for event %s, documented meaning gives %v", mustJSON(cd), s.Mode, got, c.Events[ei], want)
					}
				}
			}
		}
	}
	sig = "match-combination-mismatch:" + s.Mode
	if s.Invert {
		sig += ":invert"
	}
	return sig, "every condition alone agrees with the model; the combination does not"
}

func runMatch(c MatchCase) *vkit.Outcome {
	o := vkit.NewOutcome()
	var evs []*vkit.JNode
	for _, e := range c.Events {
		n, err := vkit.ParseJSON([]byte(e))
		if err != nil || n.Kind != 'o' {
			o.Class("bad-case")
			return o
		}
		evs = append(evs, n)
	}
	if len(c.Sels) == 0 || len(evs) == 0 || c.Parallel < 0 || c.Parallel > 16 || c.Copies < 0 || c.Copies > 100 || (c.Parallel > 0 && len(c.HoldTail) > 0) {
		o.Class("bad-case")
		return o
	}
	rules := make([]*vkit.JNode, len(c.Sels))
	for i, s := range c.Sels {
		if _, ok := modeByName[s.Mode]; !ok {
			o.Class("bad-case")
			return o
		}
		if s.DoIf != "" {
			r, err := vkit.ParseJSON([]byte(s.DoIf))
			if err != nil || r.Kind != 'o' {
				o.Class("bad-case")
				return o
			}
			rules[i] = r
		}
	}
	called, status := observe(c)
	switch {
	case status == "bad-case":
		o.Class("bad-case")
		return o
	case strings.HasPrefix(status, "rejected-config:"):
		o.Failf(P, "match-valid-config-rejected", "%s", strings.TrimPrefix(status, "rejected-config:"))
		return o
	case status == "not-admitted":
		o.Class("event-rejected-by-pipeline")
		return o
	case status == "timeout":
		o.Failf(P, "match-pipeline-did-not-finish", "not all %d events reached the output within 60 s", len(evs))
		return o
	}
	if c.ViaConfig {
		o.Class("match-route=config")
	} else {
		o.Class("match-route=programmatic")
	}
	if len(c.HoldTail) > 0 {
		o.Class("match-join-like-action-behind-the-selectors")
	}
	if c.Parallel > 0 {
		o.Class("match-several-processors-at-once")
	}

	nT, nF, nU := 0, 0, 0
	anyNontrivial := false
	for ai, s := range c.Sels {
		selT, selF := 0, 0
		for ri := 0; ri < len(evs)*c.copies(); ri++ {
			ei := ri % len(evs)
			ev := evs[ei]
			calls := called[[2]int64{int64(ai), int64(ri + 1)}]
			if calls > 1 {
				o.Failf(P, "match-action-called-twice", "action %d called %d times for event %s", ai, calls, c.Events[ei])
				return o
			}
			var want tv
			if s.DoIf != "" {
				want = evalRule(rules[ai], ev)
			} else {
				want = evalSel(s, ev)
			}
			switch want {
			case tU:
				nU++
				continue
			case tT:
				nT++
				selT++
			default:
				nF++
				selF++
			}
			if (calls == 1) != (want == tT) {
				if s.DoIf != "" {
					sig, detail := blame(rules[ai], ev, c.Events[ei])
					o.Failf(P, sig, "do_if decision observed through the pipeline differs from the documented meaning: rule %s (route config=%v) event %s: Do called = %v, naive evaluator = %v; %s",
						s.DoIf, c.ViaConfig, c.Events[ei], calls == 1, want, detail)
					return o
				}
				sig, detail := blameCond(c, s, evs)
				o.Failf(P, sig, "match_fields decision differs from the documented meaning: selector %s (route config=%v) event %s: Do called = %v, naive evaluator = %v; %s",
					mustJSON(s), c.ViaConfig, c.Events[ei], calls == 1, want, detail)
				return o
			}
		}
		if s.DoIf != "" {
			o.Class("match-selector=do_if")
			var st ruleStats
			statRule(rules[ai], 1, &st)
			if len(st.ops) >= 2 && selT > 0 && selF > 0 {
				anyNontrivial = true
			}
			continue
		}
		kinds := map[string]bool{}
		for _, cd := range s.Conds {
			if cd.IsRegex {
				kinds["regexp"] = true
			} else {
				kinds["values"] = true
			}
		}
		if s.Invert {
			kinds["invert"] = true
		}
		if len(s.Conds) >= 2 {
			kinds[s.Mode] = true
		}
		o.Class("match-mode=" + s.Mode)
		if s.Invert {
			o.Class("match-invert")
		}
		if kinds["regexp"] {
			o.Class("match-has-regexp")
		}
		o.Class(fmt.Sprintf("match-conds=%d", len(s.Conds)))
		if len(kinds) >= 2 && selT > 0 && selF > 0 {
			anyNontrivial = true
		}
	}
	vkit.ClassN(P, "match-decision-true", nT)
	vkit.ClassN(P, "match-decision-false", nF)
	vkit.ClassN(P, "match-decision-undetermined-by-docs", nU)
	// non-trivial: a selector combining >= 2 kinds of test (values, regexp, a
	// combining mode over >= 2 conditions, inversion) whose determined decision
	// differs between two events of the case
	if anyNontrivial {
		o.Nontrivial(P)
		o.Class("match-nontrivial")
	}
	return o
}

func mustJSON(v any) string {
	b, _ := json.Marshal(v)
	return string(b)
}

var propMatch = vkit.NewProp([]string{P}, "c14match", genMatch, runMatch)

func TestC14MatchFields(t *testing.T) { propMatch.CrashFile = true; propMatch.Check(t) }
