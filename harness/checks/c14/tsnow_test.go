package c14

// ts_cmp with value "now": the rule compares an event's time with the CURRENT time (+ value_shift), which
// the node refreshes every update_interval. In virtual time (testing/synctest): build the rule, let k
// update intervals pass, then ask about events whose times lie safely before / after now + shift. The
// cached "now" is never older than one interval and the node adds one interval on top, so an event
// before now+shift is certainly "lt", one later than now+shift+interval certainly is not - however long
// ago the rule was built.

import (
	"fmt"
	"strings"
	"testing"
	"time"

	"github.com/ozontech/file.d/pipeline/doif"
	"github.com/ozontech/file.d/zzverif/fdkit"
	"github.com/ozontech/file.d/zzverif/vkit"
	"pgregory.net/rapid"
)

type TsNowCase struct {
	CmpOp      string `json:"cmp_op"` // lt | le | gt | ge
	IntervalMs int    `json:"interval_ms"`
	ShiftMs    int64  `json:"shift_ms"`
	WaitsX10   []int  `json:"waits_x10"`  // pauses before each probe round, in tenths of an interval
	DeltasX10  []int  `json:"deltas_x10"` // event time = now + shift + delta (tenths of an interval); never in [0, 10]
	Not        bool   `json:"not"`
}

func genTsNow(t *rapid.T) TsNowCase {
	c := TsNowCase{
		CmpOp:      rapid.SampledFrom([]string{"lt", "le", "gt", "ge"}).Draw(t, "cmp_op"),
		IntervalMs: rapid.SampledFrom([]int{100, 1000, 30000}).Draw(t, "interval_ms"),
		ShiftMs:    rapid.SampledFrom([]int64{0, 0, -3600000, 90000, -1}).Draw(t, "shift_ms"),
		Not:        rapid.IntRange(0, 3).Draw(t, "not") == 0,
	}
	for i, n := 0, rapid.IntRange(1, 4).Draw(t, "rounds"); i < n; i++ {
		c.WaitsX10 = append(c.WaitsX10, rapid.SampledFrom([]int{0, 3, 15, 35, 102, 250}).Draw(t, "wait"))
	}
	for i, n := 0, rapid.IntRange(1, 4).Draw(t, "events"); i < n; i++ {
		c.DeltasX10 = append(c.DeltasX10, rapid.SampledFrom([]int{-1, -1, -5, -15, -40, -1000, 11, 15, 30, 1000}).Draw(t, "delta"))
	}
	return c
}

func runTsNow(c TsNowCase) *vkit.Outcome {
	o := vkit.NewOutcome()
	okOp := map[string]bool{"lt": true, "le": true, "gt": true, "ge": true}
	if !okOp[c.CmpOp] || c.IntervalMs < 10 || c.IntervalMs > 3600000 || len(c.WaitsX10) == 0 || len(c.WaitsX10) > 8 || len(c.DeltasX10) == 0 || len(c.DeltasX10) > 8 {
		o.Class("invalid-case")
		return o
	}
	for _, d := range c.DeltasX10 {
		if d >= 0 && d <= 10 {
			o.Class("invalid-case") // inside the refresh uncertainty (both ends: a probe may run at the very instant of a refresh)
			return o
		}
	}
	rule := fmt.Sprintf(`{"op":"ts_cmp","field":"ts","format":"rfc3339nano","cmp_op":%q,"value":"now","value_shift":"%dms","update_interval":"%dms"}`, c.CmpOp, c.ShiftMs, c.IntervalMs)
	if c.Not {
		rule = `{"op":"not","operands":[` + rule + `]}`
	}
	var failure string
	func() {
		defer func() {
			// the node's refresh goroutine has no stop: the bubble cannot end cleanly (not a clause of C14)
			if r := recover(); r != nil && !strings.Contains(fmt.Sprint(r), "deadlock") {
				panic(r)
			}
		}()
		vkit.Bubble(func() {
			ch, err := newChecker(rule)
			if err != nil {
				failure = "rejected:" + err.Error()
				return
			}
			interval := time.Duration(c.IntervalMs) * time.Millisecond
			built := time.Now()
			for ri, w := range c.WaitsX10 {
				time.Sleep(interval * time.Duration(w) / 10)
				for _, d := range c.DeltasX10 {
					now := time.Now()
					evTime := now.Add(time.Duration(c.ShiftMs)*time.Millisecond + interval*time.Duration(d)/10)
					root, rerr := fdkit.NewRoot(fmt.Sprintf(`{"ts":%q}`, evTime.UTC().Format(time.RFC3339Nano)))
					if rerr != nil {
						panic(rerr)
					}
					got := ch.Check(doif.NewEventData(root))
					before := d < 0 // event time < now + shift
					want := before
					if c.CmpOp == "gt" || c.CmpOp == "ge" {
						want = !before
					}
					if c.Not {
						want = !want
					}
					if got != want && failure == "" {
						failure = fmt.Sprintf("rule %s built %v ago (round %d): event time = now%+dms%+.1f intervals -> %v, want %v (the current time is refreshed every %v)", rule, now.Sub(built), ri, c.ShiftMs, float64(d)/10, got, want, interval)
					}
				}
			}
		})
	}()
	switch {
	case strings.HasPrefix(failure, "rejected:"):
		o.Failf(P, "ts-now:valid-rule-rejected", "%s: %s", rule, failure)
	case failure != "":
		o.Failf(P, "ts-now:decision-ignores-the-current-time", "%s", failure)
	}
	total := 0
	for _, w := range c.WaitsX10 {
		total += w
	}
	if total >= 20 {
		o.Nontrivial(P)
		o.Class("ts-now:asked-two-or-more-intervals-after-the-rule-was-built")
	}
	return o
}

var propTsNow = vkit.NewProp([]string{P}, "c14tsnow", genTsNow, runTsNow)

func TestC14TsNow(t *testing.T) { propTsNow.CrashFile = true; propTsNow.Check(t) }
