package c14

// Naive reference evaluators for do_if rule trees and match_fields selectors.
//
// Written from /repo/pipeline/doif/README.md, the match-mode doc comments in
// /repo/pipeline/plugin.go and the text of property C14 only; they work on the
// independently parsed (encoding/json) rule and event, know nothing about length
// buckets, truncation or short-circuits, and lower-case WHOLE values.
//
// Three-valued logic: where the documentation does not settle a leaf (choices
// listed next to each clause) the leaf is Unknown and Kleene and/or/not decide
// whether the whole decision is still determined. Only determined decisions are
// asserted.

import (
	"regexp"
	"strconv"
	"strings"
	"time"

	"github.com/ozontech/file.d/zzverif/vkit"
)

type tv int8

const (
	tF tv = iota
	tT
	tU
)

func (v tv) String() string { return [...]string{"false", "true", "unknown"}[v] }

func b2tv(b bool) tv {
	if b {
		return tT
	}
	return tF
}

func tvNot(a tv) tv {
	switch a {
	case tT:
		return tF
	case tF:
		return tT
	}
	return tU
}

// agree returns the common value of all readings or Unknown.
func agree(readings ...bool) tv {
	for _, r := range readings[1:] {
		if r != readings[0] {
			return tU
		}
	}
	return b2tv(readings[0])
}

// ---------------------------------------------------------------- event access

// dig follows object keys. ok=false: the path crosses an array (indexing into
// arrays is not described by the README -> Unknown).
func dig(ev *vkit.JNode, path []string) (n *vkit.JNode, ok bool) {
	cur := ev
	for _, seg := range path {
		if cur == nil {
			return nil, true
		}
		switch cur.Kind {
		case 'o':
			cur = cur.Get(seg)
		case 'a':
			return nil, false
		default:
			return nil, true
		}
	}
	return cur, true
}

func kindName(n *vkit.JNode) string {
	if n == nil {
		return "absent"
	}
	switch n.Kind {
	case 'o':
		return "object"
	case 'a':
		return "array"
	case 's':
		return "string"
	case 'n':
		return "number"
	case 't', 'f':
		return "bool"
	}
	return "null"
}

// scalarText is the "byte representation" of a scalar: the decoded string, the
// number literal, true/false.
func scalarText(n *vkit.JNode) string {
	switch n.Kind {
	case 's', 'n':
		return n.Str
	case 't':
		return "true"
	case 'f':
		return "false"
	}
	return ""
}

// splitPath is the model's reading of the README's field syntax: segments are
// separated by dots, a dot inside a name is written `\.`. The generator never
// produces empty segments, trailing backslashes or doubled dots.
func splitPath(field string) []string {
	if field == "" {
		return nil
	}
	var out []string
	var cur strings.Builder
	for i := 0; i < len(field); i++ {
		switch {
		case field[i] == '\\' && i+1 < len(field) && field[i+1] == '.':
			cur.WriteByte('.')
			i++
		case field[i] == '.':
			out = append(out, cur.String())
			cur.Reset()
		default:
			cur.WriteByte(field[i])
		}
	}
	return append(out, cur.String())
}

// ---------------------------------------------------------------- do_if model

// ruleVals returns the `values` of a leaf: nil entry = null. Accepts the list,
// single-string and null forms the constructor accepts.
func ruleVals(r *vkit.JNode) []*string {
	v := r.Get("values")
	if v == nil {
		return nil
	}
	one := func(x *vkit.JNode) *string {
		if x.Kind == 's' {
			s := x.Str
			return &s
		}
		return nil
	}
	switch v.Kind {
	case 'a':
		var out []*string
		for _, x := range v.Vals {
			out = append(out, one(x))
		}
		return out
	default:
		return []*string{one(v)}
	}
}

func cmpInt(op string, l, r int64) bool {
	switch op {
	case "lt":
		return l < r
	case "le":
		return l <= r
	case "gt":
		return l > r
	case "ge":
		return l >= r
	case "eq":
		return l == r
	}
	return l != r // ne
}

var tsAliases = map[string]string{
	"rfc3339nano": time.RFC3339Nano, "rfc3339": time.RFC3339, "rfc1123": time.RFC1123, "rfc1123z": time.RFC1123Z,
	"rfc822": time.RFC822, "ansic": time.ANSIC, "stamp": time.Stamp, "nginx_errorlog": "2006/01/02 15:04:05",
}

// plain decimal integers well inside int64 ("-0" is left undetermined)
var reInt = regexp.MustCompile(`^(0|-?[1-9][0-9]{0,17})$`)

// nowLo/nowHi bracket every wall-clock "now" this harness can ever run at; the
// generator keeps event timestamps of now-mode rules outside the bracket, so the
// oracle never reads a clock.
var (
	nowLo = time.Date(2025, 1, 1, 0, 0, 0, 0, time.UTC)
	nowHi = time.Date(2100, 1, 1, 0, 0, 0, 0, time.UTC)
)

// evalRule evaluates a do_if rule (parsed JSON) on an event (parsed JSON).
func evalRule(r, ev *vkit.JNode) tv {
	op := r.Get("op").Str
	switch op {
	case "and":
		res := tT
		for _, o := range r.Get("operands").Vals {
			switch evalRule(o, ev) {
			case tF:
				return tF
			case tU:
				res = tU
			}
		}
		return res
	case "or":
		res := tF
		for _, o := range r.Get("operands").Vals {
			switch evalRule(o, ev) {
			case tT:
				return tT
			case tU:
				res = tU
			}
		}
		return res
	case "not":
		return tvNot(evalRule(r.Get("operands").Vals[0], ev))
	}

	field := ""
	if f := r.Get("field"); f != nil {
		field = f.Str
	}
	node, ok := dig(ev, splitPath(field))
	if !ok {
		return tU
	}

	switch op {
	case "equal", "contains", "contains_any", "prefix", "suffix", "regex":
		cs := true
		if c := r.Get("case_sensitive"); c != nil {
			cs = c.Kind == 't'
		}
		return evalFieldOp(op, node, ruleVals(r), cs)

	case "check_type":
		// README: object|obj, array|arr, number|num, string|str, null, nil (absent).
		for _, v := range ruleVals(r) {
			if v == nil {
				return tU
			}
			k := kindName(node)
			switch *v {
			case "object", "obj":
				if k == "object" {
					return tT
				}
			case "array", "arr":
				if k == "array" {
					return tT
				}
			case "number", "num":
				if k == "number" {
					return tT
				}
			case "string", "str":
				if k == "string" {
					return tT
				}
			case "null":
				if k == "null" {
					return tT
				}
			case "nil":
				if k == "absent" {
					return tT
				}
			}
		}
		return tF

	case "byte_len_cmp", "array_len_cmp", "int_val_cmp":
		cop := r.Get("cmp_op").Str
		val, err := strconv.ParseInt(r.Get("value").Str, 10, 64)
		if err != nil {
			return tU
		}
		switch op {
		case "array_len_cmp":
			// README: "'items' is not an array" / "not found" -> not matched.
			if node == nil || node.Kind != 'a' {
				return tF
			}
			return b2tv(cmpInt(cop, int64(len(node.Vals)), val))
		case "byte_len_cmp":
			// README: "compares field length in bytes"; examples: "" -> 0, 123 -> 3.
			if node == nil {
				return tF // weaker reading not needed: every leaf of the README treats a missing field as not matched
			}
			switch node.Kind {
			case 'z':
				// not documented whether null has length 0 (as for field ops) or 4 ("null")
				return agree(cmpInt(cop, 0, val), cmpInt(cop, 4, val))
			case 'o', 'a':
				// length of the compact encoding; the code documents an approximation
				// when names/strings need escaping -> Unknown for those
				if needsEscaping(node) {
					return tU
				}
				return b2tv(cmpInt(cop, int64(len(node.Encode())), val))
			}
			return b2tv(cmpInt(cop, int64(len(scalarText(node))), val))
		default: // int_val_cmp: only named in the README ("compares ... with certain value")
			if node == nil {
				return tF
			}
			switch node.Kind {
			case 'n', 's':
				// determined only for plain decimal integers well inside int64; floats,
				// exponents, signs, spaces, leading zeros: not documented
				if !reInt.MatchString(node.Str) {
					if node.Kind == 's' && !looksNumeric(node.Str) {
						return tF // a string with no digits at all has no int value
					}
					return tU
				}
				iv, _ := strconv.ParseInt(node.Str, 10, 64)
				return b2tv(cmpInt(cop, iv, val))
			}
			return tF // null, bool, object, array have no int value
		}

	case "ts_cmp":
		// README: not found / not a string / not parsable -> not matched; otherwise
		// compare field time with value (+ value_shift) (+ update_interval for now).
		if node == nil || node.Kind != 's' {
			return tF
		}
		format := "rfc3339nano"
		if f := r.Get("format"); f != nil {
			format = f.Str
		}
		var ft time.Time
		if format == "unixtime" {
			if !reInt.MatchString(node.Str) {
				if !looksNumeric(node.Str) {
					return tF
				}
				return tU // fractional / signed forms are not described in the do_if README
			}
			sec, _ := strconv.ParseInt(node.Str, 10, 64)
			if sec < -6e9 || sec > 9e9 {
				return tU
			}
			ft = time.Unix(sec, 0)
		} else {
			layout, isAlias := tsAliases[strings.ToLower(strings.TrimSpace(format))]
			if !isAlias {
				layout = format
			}
			var err error
			ft, err = time.Parse(layout, node.Str) // README: "Field will be parsed with time.Parse"
			if err != nil {
				return tF
			}
		}
		if ft.Year() < 1700 || ft.Year() > 2250 {
			return tU // outside the int64-nanosecond range
		}
		shift := time.Duration(0)
		if s := r.Get("value_shift"); s != nil {
			d, err := time.ParseDuration(s.Str)
			if err != nil {
				return tU
			}
			shift = d
		}
		cop := r.Get("cmp_op").Str
		value := r.Get("value").Str
		if value == "now" || value == "file_d_start" {
			// rhs lies in [nowLo, nowHi] + shift (+ update_interval); the decision is
			// determined iff it is the same at both ends of the bracket.
			upd := 10 * time.Second
			if u := r.Get("update_interval"); u != nil {
				d, err := time.ParseDuration(u.Str)
				if err != nil {
					return tU
				}
				upd = d
			}
			lo := nowLo.Add(shift).Add(-time.Hour)
			hi := nowHi.Add(shift).Add(upd).Add(time.Hour)
			if ft.Before(lo) {
				return b2tv(cmpInt(cop, 0, 1))
			}
			if ft.After(hi) {
				return b2tv(cmpInt(cop, 1, 0))
			}
			return tU
		}
		vt, err := time.Parse(time.RFC3339Nano, value)
		if err != nil {
			return tU
		}
		vt = vt.Add(shift)
		switch {
		case ft.Before(vt):
			return b2tv(cmpInt(cop, 0, 1))
		case ft.After(vt):
			return b2tv(cmpInt(cop, 1, 0))
		}
		return b2tv(cmpInt(cop, 0, 0))
	}
	return tU
}

func looksNumeric(s string) bool {
	return strings.ContainsAny(s, "0123456789")
}

// needsEscaping: a container holds a name or string whose JSON form differs
// from quotes + raw bytes.
func needsEscaping(n *vkit.JNode) bool {
	bad := false
	n.Walk(nil, func(_ []string, x *vkit.JNode) {
		if x.Kind == 's' && needsEsc(x.Str) {
			bad = true
		}
		for _, k := range x.Keys {
			if needsEsc(k) {
				bad = true
			}
		}
	})
	return bad
}

func needsEsc(s string) bool {
	for i := 0; i < len(s); i++ {
		if s[i] < 0x20 || s[i] == '"' || s[i] == '\\' || s[i] == 0x7f {
			return true
		}
	}
	return false
}

// evalFieldOp: README "Field op node": checks the byte representation of the
// value; "Array and object values are considered as not matched";
// case_sensitive=false: "every field value will be converted to lower letters".
//
// Not settled by the README, hence evaluated under both readings and Unknown
// when they differ:
//   - a null / missing field under contains, prefix, suffix, regex: "empty
//     value" or "never matches" (equal: the repo's tests fix null/missing ==
//     null value only; null vs "" both ways is left Unknown);
//   - a null entry in `values` of contains/prefix/suffix/regex: "empty string"
//     or "ignored";
//   - case_sensitive=false on regex: honoured ((?i)) or ignored.
func evalFieldOp(op string, node *vkit.JNode, vals []*string, cs bool) tv {
	if node != nil && (node.Kind == 'o' || node.Kind == 'a') {
		return tF
	}
	isNil := node == nil || node.Kind == 'z'
	data := ""
	if !isNil {
		data = scalarText(node)
	}
	norm := func(s string) string {
		if cs {
			return s
		}
		return strings.ToLower(s)
	}
	hasNilVal := false
	for _, v := range vals {
		if v == nil {
			hasNilVal = true
		}
	}

	if op == "equal" {
		if isNil {
			if hasNilVal {
				return tT
			}
			for _, v := range vals {
				if v != nil && *v == "" {
					return tU // null/missing field vs "" value
				}
			}
			return tF
		}
		for _, v := range vals {
			if v != nil && norm(*v) == norm(data) {
				return tT
			}
		}
		if data == "" && hasNilVal {
			return tU // "" field vs null value
		}
		return tF
	}

	one := func(nilDataAsEmpty, nilValAsEmpty, reFold bool) bool {
		if isNil && !nilDataAsEmpty {
			return false
		}
		d := norm(data)
		for _, v := range vals {
			s := ""
			if v == nil {
				if !nilValAsEmpty {
					continue
				}
			} else {
				s = *v
			}
			switch op {
			case "contains":
				if strings.Contains(d, norm(s)) {
					return true
				}
			case "prefix":
				if strings.HasPrefix(d, norm(s)) {
					return true
				}
			case "suffix":
				if strings.HasSuffix(d, norm(s)) {
					return true
				}
			case "contains_any":
				// "contains any of the value characters"
				for _, r := range norm(s) {
					if strings.ContainsRune(d, r) {
						return true
					}
				}
			case "regex":
				expr := s
				if reFold {
					expr = "(?i)" + expr
				}
				re, err := regexp.Compile(expr)
				if err != nil {
					continue
				}
				if re.MatchString(data) {
					return true
				}
			}
		}
		return false
	}
	var readings []bool
	for _, nd := range []bool{false, true} {
		if nd && !isNil {
			continue
		}
		for _, nv := range []bool{false, true} {
			if nv && !hasNilVal {
				continue
			}
			for _, rf := range []bool{false, true} {
				if rf && (op != "regex" || cs) {
					continue
				}
				readings = append(readings, one(nd, nv, rf))
			}
		}
	}
	return agree(readings...)
}

// ---------------------------------------------------------------- match_fields model

// Cond is one match_fields entry: exact/prefix values or a regular expression.
type Cond struct {
	Path    []string `json:"path"`
	Values  []string `json:"values,omitempty"`
	IsRegex bool     `json:"is_regex,omitempty"`
	Regex   string   `json:"regex,omitempty"`
}

// Sel is the selector of one action.
type Sel struct {
	Mode   string `json:"mode"` // and | or | and_prefix | or_prefix
	Invert bool   `json:"invert,omitempty"`
	Conds  []Cond `json:"conds"`
	// DoIf, when set, is a do_if rule (JSON text) used instead of match_fields.
	DoIf string `json:"do_if,omitempty"`
}

// evalCond: doc comments of the match modes: values = "exact match" (and/or) or
// "prefix match" (*_prefix), /.../ = "regexp match". A condition on a missing
// field does not hold. Every documented example uses string fields; what a
// number / bool / null / object / array field compares as is not documented ->
// Unknown.
func evalCond(c Cond, prefix bool, ev *vkit.JNode) tv {
	node, ok := dig(ev, c.Path)
	if !ok {
		return tU
	}
	if node == nil {
		return tF
	}
	if node.Kind != 's' {
		return tU
	}
	if c.IsRegex {
		re, err := regexp.Compile(c.Regex)
		if err != nil {
			return tU
		}
		return b2tv(re.MatchString(node.Str))
	}
	for _, v := range c.Values {
		if prefix && strings.HasPrefix(node.Str, v) || !prefix && node.Str == v {
			return tT
		}
	}
	return tF
}

// evalSel: and = every condition holds, or = at least one holds, *_prefix = the
// same with prefix tests, match_invert flips the result.
func evalSel(s Sel, ev *vkit.JNode) tv {
	prefix := strings.HasSuffix(s.Mode, "_prefix")
	var res tv
	if strings.HasPrefix(s.Mode, "or") {
		res = tF
		for _, c := range s.Conds {
			switch evalCond(c, prefix, ev) {
			case tT:
				res = tT
			case tU:
				if res == tF {
					res = tU
				}
			}
		}
	} else {
		res = tT
		for _, c := range s.Conds {
			switch evalCond(c, prefix, ev) {
			case tF:
				res = tF
			case tU:
				if res == tT {
					res = tU
				}
			}
		}
	}
	if s.Invert {
		res = tvNot(res)
	}
	return res
}
