package c14

import (
	"fmt"
	"regexp"
	"strconv"
	"strings"
	"unicode"

	"github.com/ozontech/file.d/zzverif/vkit"
	"pgregory.net/rapid"
)

// ---------------------------------------------------------------- text

var keyPool = []string{"a", "b", "c", "pod", "level", "msg", "ts", "k8s_pod", "user.name", "x y", "ключ", "A", "items", "log", "n"}

// words: small alphabet so that rule values and event values collide often;
// includes the case-mapping oddities: U+212A KELVIN (3 bytes, lower = k),
// U+0130 İ (2 bytes, lower = i), ẞ U+1E9E (3 bytes, lower = ß 2 bytes),
// Ⱥ U+023A (2 bytes, lower = ⱥ U+2C65 3 bytes), ſ, ǅ.
var words = []string{"pod", "test", "my", "err", "Error", "ERROR", "info", "api", "payment", "1", "2", "42", "-", "_", " ", "a", "b", "B",
	"K", "k", "\u212a", "İ", "i", "I", "ı", "ß", "ẞ", "S", "s", "ſ", "é", "É", "Ⱥ", "ⱥ", "日本", "я", "Я", "😀", "ǅ"}
var escWords = []string{`"`, `\`, "\n", "\t", "\x00", "\x01", "/"}

func genWord(t *rapid.T, label string) string {
	n := rapid.IntRange(0, 4).Draw(t, label+"/n")
	var sb strings.Builder
	for i := 0; i < n; i++ {
		if rapid.IntRange(0, 11).Draw(t, label+"/esc") == 0 {
			sb.WriteString(rapid.SampledFrom(escWords).Draw(t, label+"/e"))
		} else {
			sb.WriteString(rapid.SampledFrom(words).Draw(t, label+"/w"))
		}
	}
	return sb.String()
}

var specialCase = map[rune][]rune{
	'k': {'K', '\u212a'}, 'K': {'k', '\u212a'}, '\u212a': {'k', 'K'},
	'i': {'I', 'İ'}, 'I': {'i', 'ı'}, 'İ': {'i'}, 'ı': {'I'},
	's': {'S', 'ſ'}, 'S': {'s', 'ſ'}, 'ſ': {'s', 'S'},
	'ß': {'ẞ'}, 'ẞ': {'ß'}, 'ⱥ': {'Ⱥ'}, 'Ⱥ': {'ⱥ'},
}

// caseVariant re-cases some runes (upper, lower, or a special counterpart of a
// different byte length).
func caseVariant(t *rapid.T, label, s string) string {
	var sb strings.Builder
	for _, r := range s {
		switch rapid.IntRange(0, 3).Draw(t, label+"/cv") {
		case 0:
			sb.WriteRune(unicode.ToUpper(r))
		case 1:
			sb.WriteRune(unicode.ToLower(r))
		case 2:
			if alts, ok := specialCase[r]; ok {
				sb.WriteRune(rapid.SampledFrom(alts).Draw(t, label+"/alt"))
			} else {
				sb.WriteRune(r)
			}
		default:
			sb.WriteRune(r)
		}
	}
	return sb.String()
}

// derive makes a rule value out of a string seen in an event.
func derive(t *rapid.T, label, s string) string {
	rs := []rune(s)
	cut := func() string {
		if len(rs) == 0 {
			return ""
		}
		a := rapid.IntRange(0, len(rs)).Draw(t, label+"/a")
		b := rapid.IntRange(a, len(rs)).Draw(t, label+"/b")
		switch rapid.IntRange(0, 2).Draw(t, label+"/cutk") {
		case 0:
			return string(rs[:b])
		case 1:
			return string(rs[a:])
		}
		return string(rs[a:b])
	}
	switch rapid.IntRange(0, 11).Draw(t, label+"/dk") {
	case 0, 1, 2:
		return s
	case 3, 4:
		return cut()
	case 5, 6:
		return caseVariant(t, label, s)
	case 7, 8:
		return caseVariant(t, label, cut())
	case 9:
		return s + genWord(t, label+"/x")
	case 10:
		return genWord(t, label+"/g")
	}
	return ""
}

func isASCII(s string) bool {
	for i := 0; i < len(s); i++ {
		if s[i] >= 0x80 {
			return false
		}
	}
	return true
}

// ---------------------------------------------------------------- events

var numberPool = []string{"0", "1", "-1", "5", "12", "123", "12345", "-7", "42", "100", "1.5", "1e3", "9223372036854775807", "1262304000",
	// far ends of the range the model decides (18 digits): against a rule value near the int64 maximum the
	// difference of the operands does not fit into an int64
	"-999999999999999999", "-900000000000000001", "999999999999999999"}

var tsPool = []string{
	"2010-01-01T00:00:00Z", "2009-12-31T23:59:59.999999999Z", "2010-01-01T00:00:00.000000001Z", "2010-01-01T03:00:00+03:00",
	"2000-01-01T00:00:00Z", "2011-01-01T00:00:00Z", "2150-06-01T00:00:00Z", "2010-01-01T01:00:00Z", "2009-12-31T23:00:00Z",
	"1700-01-01T00:00:00Z", // more than 2^63 ns before the latest rule value
	"2010-01-01 00:00:00", "2010/01/01 00:00:00", "1262304000", "1262304001", "1262303999", "qwe", "2010-13-01T00:00:00Z", "",
}

// tsValues are legal `value`s of ts_cmp (RFC3339Nano).
var tsValues = []string{"2010-01-01T00:00:00Z", "2010-01-01T00:00:00.000000001Z", "2010-01-01T03:00:00+03:00", "2005-05-05T05:05:05.5Z", "2100-01-01T00:00:00Z"}

func genScalar(t *rapid.T, label string) *vkit.JNode {
	switch rapid.IntRange(0, 11).Draw(t, label+"/sk") {
	case 0:
		return vkit.JNull()
	case 1:
		return vkit.JBool(rapid.Bool().Draw(t, label+"/b"))
	case 2, 3:
		return vkit.JNum(rapid.SampledFrom(numberPool).Draw(t, label+"/num"))
	case 4:
		return vkit.JStr(rapid.SampledFrom(tsPool).Draw(t, label+"/ts"))
	case 5:
		return vkit.JStr(rapid.SampledFrom(numberPool).Draw(t, label+"/nums"))
	}
	return vkit.JStr(genWord(t, label+"/w"))
}

func treeOpts(t *rapid.T) *vkit.TreeOpts {
	return &vkit.TreeOpts{MaxDepth: rapid.IntRange(1, 3).Draw(t, "evdepth"), MaxWidth: rapid.IntRange(1, 5).Draw(t, "evwidth"), Keys: keyPool, Scalars: genScalar}
}

type member struct {
	obj *vkit.JNode
	idx int
}

func members(n *vkit.JNode, out *[]member) {
	switch n.Kind {
	case 'o':
		for i, v := range n.Vals {
			*out = append(*out, member{n, i})
			members(v, out)
		}
	case 'a':
		for _, v := range n.Vals {
			members(v, out)
		}
	}
}

// mutateEvent derives a sibling event: same shape, one or two members changed.
func mutateEvent(t *rapid.T, label string, base *vkit.JNode, o *vkit.TreeOpts) *vkit.JNode {
	ev := base.Clone()
	nm := rapid.IntRange(1, 2).Draw(t, label+"/nm")
	for i := 0; i < nm; i++ {
		var ms []member
		members(ev, &ms)
		if len(ms) == 0 {
			ev.Set(rapid.SampledFrom(keyPool).Draw(t, label+"/newk"), genScalar(t, label+"/newv"))
			continue
		}
		m := ms[rapid.IntRange(0, len(ms)-1).Draw(t, label+"/mi")]
		old := m.obj.Vals[m.idx]
		switch rapid.IntRange(0, 6).Draw(t, label+"/mk") {
		case 0, 1, 2:
			if old.Kind == 's' {
				m.obj.Vals[m.idx] = vkit.JStr(derive(t, label+"/d", old.Str))
			} else {
				m.obj.Vals[m.idx] = genScalar(t, label+"/s")
			}
		case 3:
			m.obj.Vals[m.idx] = genScalar(t, label+"/s2")
		case 4:
			m.obj.Vals[m.idx] = vkit.GenTree(t, label+"/t", o, o.MaxDepth-1)
		case 5:
			m.obj.Del(m.obj.Keys[m.idx])
		case 6:
			if old.Kind == 'a' {
				if len(old.Vals) > 0 && rapid.Bool().Draw(t, label+"/shrink") {
					old.Vals = old.Vals[:len(old.Vals)-1]
				} else {
					old.Vals = append(old.Vals, genScalar(t, label+"/ae"))
				}
			} else {
				m.obj.Vals[m.idx] = vkit.JArr()
			}
		}
	}
	return ev
}

func genEvents(t *rapid.T, maxN int) []*vkit.JNode {
	o := treeOpts(t)
	n := min(maxN, rapid.SampledFrom([]int{3, 2, 4, 5, 1}).Draw(t, "nev"))
	evs := []*vkit.JNode{vkit.GenObject(t, "ev0", o, 0)}
	for i := 1; i < n; i++ {
		if rapid.IntRange(0, 4).Draw(t, fmt.Sprintf("ev%d/fresh", i)) == 0 {
			evs = append(evs, vkit.GenObject(t, fmt.Sprintf("ev%d", i), o, 0))
		} else {
			base := evs[rapid.IntRange(0, len(evs)-1).Draw(t, fmt.Sprintf("ev%d/base", i))]
			evs = append(evs, mutateEvent(t, fmt.Sprintf("ev%d", i), base, o))
		}
	}
	return evs
}

// pathInfo: an object path occurring in the events with the nodes found there.
type pathInfo struct {
	path  []string
	nodes []*vkit.JNode
}

func collectPaths(evs []*vkit.JNode) []*pathInfo {
	idx := map[string]*pathInfo{}
	var order []*pathInfo
	var rec func(n *vkit.JNode, p []string)
	rec = func(n *vkit.JNode, p []string) {
		if len(p) > 0 {
			k := strings.Join(p, "\x00")
			pi := idx[k]
			if pi == nil {
				pi = &pathInfo{path: append([]string{}, p...)}
				idx[k] = pi
				order = append(order, pi)
			}
			pi.nodes = append(pi.nodes, n)
		}
		if n.Kind == 'o' {
			for i, k := range n.Keys {
				rec(n.Vals[i], append(append([]string{}, p...), k))
			}
		}
	}
	for _, e := range evs {
		rec(e, nil)
	}
	return order
}

func pickPath(t *rapid.T, label string, paths []*pathInfo, allowRoot bool) *pathInfo {
	k := rapid.IntRange(0, 19).Draw(t, label+"/pk")
	switch {
	case k == 0 && allowRoot:
		return &pathInfo{}
	case k <= 15 && len(paths) > 0:
		return paths[rapid.IntRange(0, len(paths)-1).Draw(t, label+"/pi")]
	case k <= 17 && len(paths) > 0:
		base := paths[rapid.IntRange(0, len(paths)-1).Draw(t, label+"/pb")]
		return &pathInfo{path: append(append([]string{}, base.path...), rapid.SampledFrom(keyPool).Draw(t, label+"/pext"))}
	}
	return &pathInfo{path: []string{rapid.SampledFrom(keyPool).Draw(t, label+"/pnew")}}
}

// fieldSelector writes a path the way the README prescribes (dots inside names are `\.`).
func fieldSelector(path []string) string {
	parts := make([]string, len(path))
	for i, p := range path {
		parts[i] = strings.ReplaceAll(p, ".", `\.`)
	}
	return strings.Join(parts, ".")
}

func textsAt(pi *pathInfo) []string {
	var out []string
	for _, n := range pi.nodes {
		switch n.Kind {
		case 's', 'n', 't', 'f':
			out = append(out, scalarText(n))
		}
	}
	return out
}

func sourceText(t *rapid.T, label string, pi *pathInfo) string {
	if txt := textsAt(pi); len(txt) > 0 && rapid.IntRange(0, 9).Draw(t, label+"/src") < 8 {
		return rapid.SampledFrom(txt).Draw(t, label+"/st")
	}
	return genWord(t, label+"/sw")
}

// ---------------------------------------------------------------- do_if rules

var regexPool = []string{`pod-\d`, `my-test.*`, `.`, `.*`, ``, `^$`, `[0-9]+`, `(?i)err`, `^\x00$`, `[A-Z]`, `\pL+`, `^.$`, `^..$`, `k`, `^[a-z]+$`}

var cmpOps = []string{"lt", "le", "gt", "ge", "eq", "ne"}

var typeNames = []string{"object", "obj", "array", "arr", "number", "num", "string", "str", "null", "nil"}

func jint(n int) *vkit.JNode { return vkit.JNum(strconv.Itoa(n)) }

func genRegex(t *rapid.T, label string, pi *pathInfo) string {
	if rapid.IntRange(0, 9).Draw(t, label+"/rk") < 4 {
		return rapid.SampledFrom(regexPool).Draw(t, label+"/pool")
	}
	re := regexp.QuoteMeta(derive(t, label+"/rd", sourceText(t, label, pi)))
	if rapid.Bool().Draw(t, label+"/anchL") {
		re = "^" + re
	}
	if rapid.Bool().Draw(t, label+"/anchR") {
		re += "$"
	}
	return re
}

func genLeaf(t *rapid.T, label string, paths []*pathInfo, allowNow bool) *vkit.JNode {
	type w struct {
		op string
		w  int
	}
	weights := []w{{"equal", 6}, {"contains", 4}, {"contains_any", 2}, {"prefix", 5}, {"suffix", 5}, {"regex", 4},
		{"byte_len_cmp", 4}, {"array_len_cmp", 2}, {"int_val_cmp", 2}, {"ts_cmp", 3}, {"check_type", 3}}
	total := 0
	for _, x := range weights {
		total += x.w
	}
	r := rapid.IntRange(0, total-1).Draw(t, label+"/op")
	op := ""
	for _, x := range weights {
		if r < x.w {
			op = x.op
			break
		}
		r -= x.w
	}
	rule := vkit.JObj().Set("op", vkit.JStr(op))
	switch op {
	case "equal", "contains", "contains_any", "prefix", "suffix", "regex":
		pi := pickPath(t, label, paths, true)
		rule.Set("field", vkit.JStr(fieldSelector(pi.path)))
		switch rapid.IntRange(0, 9).Draw(t, label+"/cs") {
		case 0, 1, 2:
		case 3, 4:
			rule.Set("case_sensitive", vkit.JBool(true))
		default:
			rule.Set("case_sensitive", vkit.JBool(false))
		}
		if op == "contains_any" {
			v := derive(t, label+"/v", sourceText(t, label, pi))
			if v == "" {
				v = rapid.SampledFrom([]string{"!$#", "k", "Ké", "-_", "B"}).Draw(t, label+"/cav")
			}
			if rapid.Bool().Draw(t, label+"/calist") {
				rule.Set("values", vkit.JArr(vkit.JStr(v)))
			} else {
				rule.Set("values", vkit.JStr(v))
			}
			return rule
		}
		n := rapid.IntRange(1, 4).Draw(t, label+"/nv")
		vals := vkit.JArr()
		for i := 0; i < n; i++ {
			l := fmt.Sprintf("%s/v%d", label, i)
			k := rapid.IntRange(0, 19).Draw(t, l+"/k")
			switch {
			case k == 0:
				vals.Vals = append(vals.Vals, vkit.JNull())
			case k <= 2 && i > 0:
				vals.Vals = append(vals.Vals, vals.Vals[rapid.IntRange(0, i-1).Draw(t, l+"/dup")].Clone())
			case op == "regex":
				vals.Vals = append(vals.Vals, vkit.JStr(genRegex(t, l, pi)))
			default:
				vals.Vals = append(vals.Vals, vkit.JStr(derive(t, l, sourceText(t, l, pi))))
			}
		}
		if n == 1 && rapid.IntRange(0, 5).Draw(t, label+"/form") == 0 {
			rule.Set("values", vals.Vals[0]) // single string / null form
		} else {
			rule.Set("values", vals)
		}
	case "check_type":
		pi := pickPath(t, label, paths, true)
		rule.Set("field", vkit.JStr(fieldSelector(pi.path)))
		n := rapid.IntRange(1, 3).Draw(t, label+"/nt")
		vals := vkit.JArr()
		for i := 0; i < n; i++ {
			vals.Vals = append(vals.Vals, vkit.JStr(rapid.SampledFrom(typeNames).Draw(t, fmt.Sprintf("%s/t%d", label, i))))
		}
		rule.Set("values", vals)
	case "byte_len_cmp", "array_len_cmp", "int_val_cmp":
		pi := pickPath(t, label, paths, false)
		rule.Set("field", vkit.JStr(fieldSelector(pi.path)))
		rule.Set("cmp_op", vkit.JStr(rapid.SampledFrom(cmpOps).Draw(t, label+"/cmp")))
		v := rapid.IntRange(0, 12).Draw(t, label+"/val")
		if len(pi.nodes) > 0 && rapid.IntRange(0, 9).Draw(t, label+"/near") < 7 {
			n := pi.nodes[rapid.IntRange(0, len(pi.nodes)-1).Draw(t, label+"/nn")]
			base := -1
			switch op {
			case "byte_len_cmp":
				if n.Kind == 'o' || n.Kind == 'a' {
					base = len(n.Encode())
				} else if n.Kind != 'z' {
					base = len(scalarText(n))
				}
			case "array_len_cmp":
				if n.Kind == 'a' {
					base = len(n.Vals)
				}
			case "int_val_cmp":
				if iv, err := strconv.Atoi(n.Str); err == nil && (n.Kind == 'n' || n.Kind == 's') && iv >= 0 && iv < 1<<40 {
					base = iv
				}
			}
			if base >= 0 {
				v = base + rapid.IntRange(-1, 1).Draw(t, label+"/off")
				if v < 0 {
					v = 0
				}
			}
		}
		if op == "int_val_cmp" && rapid.IntRange(0, 7).Draw(t, label+"/huge") == 0 {
			v = rapid.SampledFrom([]int{9223372036854775807, 9223372036854775806, 8500000000000000000, 999999999999999999}).Draw(t, label+"/hugev")
		}
		rule.Set("value", jint(v))
	case "ts_cmp":
		pi := pickPath(t, label, paths, false)
		rule.Set("field", vkit.JStr(fieldSelector(pi.path)))
		rule.Set("cmp_op", vkit.JStr(rapid.SampledFrom(cmpOps).Draw(t, label+"/cmp")))
		if allowNow && rapid.IntRange(0, 11).Draw(t, label+"/now") == 0 {
			rule.Set("value", vkit.JStr(rapid.SampledFrom([]string{"now", "file_d_start"}).Draw(t, label+"/nowv")))
			if rapid.Bool().Draw(t, label+"/upd") {
				rule.Set("update_interval", vkit.JStr(rapid.SampledFrom([]string{"1h", "30s"}).Draw(t, label+"/updv")))
			}
		} else {
			rule.Set("value", vkit.JStr(rapid.SampledFrom(tsValues).Draw(t, label+"/tsv")))
		}
		switch rapid.IntRange(0, 7).Draw(t, label+"/fmt") {
		case 0:
			rule.Set("format", vkit.JStr("rfc3339nano"))
		case 1:
			rule.Set("format", vkit.JStr("rfc3339"))
		case 2:
			rule.Set("format", vkit.JStr("2006-01-02T15:04:05.999999999Z07:00"))
		case 3:
			rule.Set("format", vkit.JStr("2006-01-02 15:04:05"))
		case 4:
			rule.Set("format", vkit.JStr("unixtime"))
		case 5:
			rule.Set("format", vkit.JStr("nginx_errorlog"))
		}
		if rapid.IntRange(0, 3).Draw(t, label+"/shift") == 0 {
			rule.Set("value_shift", vkit.JStr(rapid.SampledFrom([]string{"-1h", "1h", "1ns", "-1ns", "3h", "24h"}).Draw(t, label+"/shiftv")))
		}
	}
	return rule
}

func genRule(t *rapid.T, label string, paths []*pathInfo, depth, maxDepth int, allowNow bool) *vkit.JNode {
	if depth >= maxDepth || depth > 0 && rapid.IntRange(0, 9).Draw(t, label+"/leaf") >= 8 {
		return genLeaf(t, label, paths, allowNow)
	}
	op := rapid.SampledFrom([]string{"and", "and", "or", "or", "not"}).Draw(t, label+"/lop")
	n := 1
	if op != "not" {
		n = rapid.IntRange(1, 3).Draw(t, label+"/nops")
	}
	ops := vkit.JArr()
	for i := 0; i < n; i++ {
		ops.Vals = append(ops.Vals, genRule(t, fmt.Sprintf("%s.%d", label, i), paths, depth+1, maxDepth, allowNow))
	}
	return vkit.JObj().Set("op", vkit.JStr(op)).Set("operands", ops)
}

func shuffle(t *rapid.T, label string, xs []*vkit.JNode) []*vkit.JNode {
	out := append([]*vkit.JNode{}, xs...)
	for i := len(out) - 1; i > 0; i-- {
		j := rapid.IntRange(0, i).Draw(t, label+"/sh")
		out[i], out[j] = out[j], out[i]
	}
	return out
}

// variant returns a rule that must decide exactly like r: values permuted and
// duplicated, and/or operands permuted and duplicated, double negations added.
func variant(t *rapid.T, label string, r *vkit.JNode) *vkit.JNode {
	out := r.Clone()
	op := out.Get("op").Str
	switch op {
	case "and", "or", "not":
		ops := out.Get("operands")
		for i, o := range ops.Vals {
			ops.Vals[i] = variant(t, fmt.Sprintf("%s.%d", label, i), o)
		}
		if op != "not" {
			ops.Vals = shuffle(t, label, ops.Vals)
			if rapid.IntRange(0, 3).Draw(t, label+"/dupop") == 0 {
				ops.Vals = append(ops.Vals, ops.Vals[rapid.IntRange(0, len(ops.Vals)-1).Draw(t, label+"/dupi")].Clone())
			}
		}
	case "equal", "contains", "prefix", "suffix", "regex", "check_type":
		if v := out.Get("values"); v != nil && v.Kind == 'a' && len(v.Vals) > 0 {
			v.Vals = shuffle(t, label, v.Vals)
			if rapid.IntRange(0, 2).Draw(t, label+"/dupv") == 0 {
				d := v.Vals[rapid.IntRange(0, len(v.Vals)-1).Draw(t, label+"/dupvi")].Clone()
				at := rapid.IntRange(0, len(v.Vals)).Draw(t, label+"/dupat")
				v.Vals = append(v.Vals[:at:at], append([]*vkit.JNode{d}, v.Vals[at:]...)...)
			}
		}
	}
	if rapid.IntRange(0, 5).Draw(t, label+"/nn") == 0 {
		inner := vkit.JObj().Set("op", vkit.JStr("not")).Set("operands", vkit.JArr(out))
		out = vkit.JObj().Set("op", vkit.JStr("not")).Set("operands", vkit.JArr(inner))
	}
	return out
}

// ruleStats walks a rule: distinct ops, depth, flags.
type ruleStats struct {
	ops      map[string]bool
	depth    int
	ci       bool
	nonASCII bool
	nilVal   bool
	nowMode  bool
}

func statRule(r *vkit.JNode, d int, st *ruleStats) {
	if st.ops == nil {
		st.ops = map[string]bool{}
	}
	if d > st.depth {
		st.depth = d
	}
	op := r.Get("op").Str
	st.ops[op] = true
	if c := r.Get("case_sensitive"); c != nil && c.Kind == 'f' {
		st.ci = true
	}
	if v := r.Get("value"); v != nil && (v.Str == "now" || v.Str == "file_d_start") {
		st.nowMode = true
	}
	for _, v := range ruleVals(r) {
		if v == nil {
			st.nilVal = true
		} else if !isASCII(*v) {
			st.nonASCII = true
		}
	}
	if ops := r.Get("operands"); ops != nil {
		for _, o := range ops.Vals {
			statRule(o, d+1, st)
		}
	}
}

func leaves(r *vkit.JNode, out *[]*vkit.JNode) {
	if ops := r.Get("operands"); ops != nil {
		for _, o := range ops.Vals {
			leaves(o, out)
		}
		return
	}
	*out = append(*out, r)
}

// ---------------------------------------------------------------- match_fields selectors

var modes = []string{"and", "or", "and_prefix", "or_prefix"}

func genSel(t *rapid.T, label string, paths []*pathInfo) Sel {
	s := Sel{Mode: rapid.SampledFrom(modes).Draw(t, label+"/mode"), Invert: rapid.IntRange(0, 3).Draw(t, label+"/inv") == 0}
	n := rapid.IntRange(0, 3).Draw(t, label+"/nc")
	seen := map[string]bool{}
	for i := 0; i < n; i++ {
		l := fmt.Sprintf("%s/c%d", label, i)
		pi := pickPath(t, l, paths, false)
		key := fieldSelector(pi.path)
		if seen[key] { // match_fields is a map: one condition per field
			continue
		}
		seen[key] = true
		c := Cond{Path: pi.path}
		if rapid.IntRange(0, 9).Draw(t, l+"/re") < 3 {
			c.IsRegex = true
			c.Regex = genRegex(t, l, pi)
		} else {
			nv := rapid.IntRange(0, 3).Draw(t, l+"/nv")
			c.Values = []string{}
			for j := 0; j < nv; j++ {
				lv := fmt.Sprintf("%s/v%d", l, j)
				if j > 0 && rapid.IntRange(0, 7).Draw(t, lv+"/dup") == 0 {
					c.Values = append(c.Values, c.Values[0])
					continue
				}
				c.Values = append(c.Values, derive(t, lv, sourceText(t, lv, pi)))
			}
		}
		s.Conds = append(s.Conds, c)
	}
	return s
}
