// Package c14 decides C14 — action selection follows the documented boolean
// semantics — black-box: do_if rule trees go through doif.NewFromMap (the
// constructor fd uses) and Checker.Check(doif.NewEventData(root)); match_fields
// selectors go through a real one-processor pipeline whose scripted actions
// record whether Do was called. The oracle is the naive evaluator in
// model_test.go.
package c14

import (
	"fmt"
	"sort"
	"strings"
	"testing"

	simplejson "github.com/bitly/go-simplejson"
	"github.com/ozontech/file.d/pipeline/doif"
	"github.com/ozontech/file.d/zzverif/fdkit"
	"github.com/ozontech/file.d/zzverif/vkit"
	insaneJSON "github.com/ozontech/insane-json"
	"pgregory.net/rapid"
)

const P = "C14"

func TestMain(m *testing.M)   { fdkit.InstallLogger(); vkit.Main(m) }
func TestReplay(t *testing.T) { vkit.Replay(t) }

// DoIfCase: one rule, a variant that must decide identically, events.
type DoIfCase struct {
	Rule    string   `json:"rule"`    // do_if section as JSON text
	Variant string   `json:"variant"` // permuted / duplicated / double-negated form of Rule
	Pre     []string `json:"pre,omitempty"`
	Events  []string `json:"events"`
}

func genDoIf(t *rapid.T) DoIfCase {
	evs := genEvents(t, 5)
	paths := collectPaths(evs)
	maxDepth := rapid.SampledFrom([]int{2, 1, 3, 0}).Draw(t, "ruledepth") // 0 = a single leaf; tree depth <= 4 levels
	rule := genRule(t, "r", paths, 0, maxDepth, true)
	c := DoIfCase{Rule: rule.Encode(), Variant: variant(t, "var", rule).Encode()}
	for _, e := range evs {
		c.Events = append(c.Events, e.Encode())
	}
	if rapid.IntRange(0, 2).Draw(t, "withpre") == 0 {
		o := treeOpts(t)
		n := rapid.IntRange(1, 3).Draw(t, "npre")
		for i := 0; i < n; i++ {
			c.Pre = append(c.Pre, vkit.GenObject(t, fmt.Sprintf("pre%d", i), o, 0).Encode())
		}
	}
	return c
}

// newChecker builds the checker the way fd.extractDoIfChecker does:
// simplejson (UseNumber) -> MustMap -> doif.NewFromMap.
func newChecker(ruleJSON string) (*doif.Checker, error) {
	sj, err := simplejson.NewJson([]byte(ruleJSON))
	if err != nil {
		return nil, fmt.Errorf("rule is not JSON: %w", err)
	}
	m := sj.MustMap()
	if m == nil {
		return nil, fmt.Errorf("rule is not a JSON object")
	}
	return doif.NewFromMap(m)
}

func leafSig(leaf, ev *vkit.JNode) string {
	op := leaf.Get("op").Str
	parts := []string{op}
	if c := leaf.Get("case_sensitive"); c != nil && c.Kind == 'f' {
		parts = append(parts, "ci")
	}
	field := ""
	if f := leaf.Get("field"); f != nil {
		field = f.Str
	}
	n, _ := dig(ev, splitPath(field))
	parts = append(parts, kindName(n))
	if n != nil && n.Kind == 's' && !isASCII(n.Str) {
		parts = append(parts, "multibyte")
	}
	return strings.Join(parts, ":")
}

// blame finds the first leaf whose stand-alone decision differs from the model.
func blame(rule, ev *vkit.JNode, evText string) (sig, detail string) {
	var ls []*vkit.JNode
	leaves(rule, &ls)
	for _, l := range ls {
		want := evalRule(l, ev)
		if want == tU {
			continue
		}
		ch, err := newChecker(l.Encode())
		if err != nil {
			continue
		}
		root, err := fdkit.NewRoot(evText)
		if err != nil {
			continue
		}
		got := ch.Check(doif.NewEventData(root))
		insaneJSON.Release(root)
		if got != (want == tT) {
			return "doif-leaf-mismatch:" + leafSig(l, ev), fmt.Sprintf("leaf %s alone decides %v, documented meaning gives %v", l.Encode(), got, want)
		}
	}
	return "doif-tree-mismatch", "every leaf alone agrees with the model; the combination does not"
}

func runDoIf(c DoIfCase) *vkit.Outcome {
	o := vkit.NewOutcome()
	rule, err := vkit.ParseJSON([]byte(c.Rule))
	if err != nil || rule.Kind != 'o' {
		o.Class("bad-case")
		return o
	}
	var evs []*vkit.JNode
	for _, e := range c.Events {
		n, err := vkit.ParseJSON([]byte(e))
		if err != nil {
			o.Class("bad-case")
			return o
		}
		evs = append(evs, n)
	}

	var st ruleStats
	statRule(rule, 1, &st)

	ch, err := newChecker(c.Rule)
	if err != nil {
		o.Failf(P, "doif-valid-rule-rejected", "rule %s rejected by doif.NewFromMap: %v", c.Rule, err)
		return o
	}
	var chVar *doif.Checker
	if c.Variant != "" {
		chVar, err = newChecker(c.Variant)
		if err != nil {
			o.Failf(P, "doif-valid-rule-rejected", "variant rule %s rejected by doif.NewFromMap: %v", c.Variant, err)
			return o
		}
	}

	// byte_len_cmp on a container holding names/strings that need escaping is an
	// approximation documented in the code (the count depends on whether an earlier
	// operand already unescaped the string in place): such (rule, event) pairs are
	// excluded from the order/variant comparison, the model treats the leaf as Unknown.
	var ls []*vkit.JNode
	leaves(rule, &ls)
	approx := make([]bool, len(evs))
	for i, ev := range evs {
		for _, l := range ls {
			if l.Get("op").Str != "byte_len_cmp" {
				continue
			}
			if n, ok := dig(ev, splitPath(l.Get("field").Str)); ok && n != nil && (n.Kind == 'o' || n.Kind == 'a') && needsEscaping(n) {
				approx[i] = true
			}
		}
		if approx[i] {
			o.Excluded(P)
		}
	}

	// one root re-used for all events, as the pipeline's event pool does
	root := insaneJSON.Spawn()
	defer insaneJSON.Release(root)
	for _, pre := range c.Pre {
		if root.DecodeString(pre) == nil {
			_ = ch.Check(doif.NewEventData(root))
		}
	}
	got := make([]bool, len(evs))
	for i, e := range c.Events {
		if err := root.DecodeString(e); err != nil {
			o.Class("event-rejected-by-insane-json")
			return o
		}
		before := root.EncodeToString()
		got[i] = ch.Check(doif.NewEventData(root))
		if after := root.EncodeToString(); after != before {
			// a selector only looks at the event
			o.Failf(P, "doif-check-changed-the-event", "rule %s: the event was %s before Check and is %s after it", c.Rule, before, after)
			return o
		}
		if again := ch.Check(doif.NewEventData(root)); again != got[i] && !approx[i] {
			o.Failf(P, "doif-decision-not-repeatable", "rule %s event %s: first Check = %v, second Check on the same event = %v", c.Rule, e, got[i], again)
			return o
		}
	}

	nT, nF, nU := 0, 0, 0
	for i, ev := range evs {
		want := evalRule(rule, ev)
		switch want {
		case tU:
			nU++
			continue
		case tT:
			nT++
		default:
			nF++
		}
		if got[i] != (want == tT) {
			sig, detail := blame(rule, ev, c.Events[i])
			o.Failf(P, sig, "do_if decision differs from the documented meaning: rule %s event %s: Check = %v, naive evaluator = %v; %s", c.Rule, c.Events[i], got[i], want, detail)
			return o
		}
	}

	// metamorphic: the variant, on fresh roots, in reverse order, decides the same
	if chVar != nil {
		for i := len(c.Events) - 1; i >= 0; i-- {
			if approx[i] {
				continue
			}
			r2, err := fdkit.NewRoot(c.Events[i])
			if err != nil {
				continue
			}
			g2 := chVar.Check(doif.NewEventData(r2))
			insaneJSON.Release(r2)
			if g2 != got[i] {
				o.Failf(P, "doif-equivalent-rule-decides-differently", "event %s: rule %s -> %v, equivalent rule %s (values/operands permuted or duplicated, double negation) -> %v", c.Events[i], c.Rule, got[i], c.Variant, g2)
				return o
			}
		}
	}

	// ---- generator statistics
	var ops []string
	nLeafKinds := 0
	for op := range st.ops {
		ops = append(ops, op)
		o.Class("op=" + op)
		if op != "and" && op != "or" && op != "not" {
			nLeafKinds++
		}
	}
	sort.Strings(ops)
	o.Class(fmt.Sprintf("doif-depth=%d", st.depth))
	o.Class(fmt.Sprintf("doif-leaf-kinds=%d", min(nLeafKinds, 4)))
	if st.ci {
		o.Class("doif-case-insensitive")
	}
	if st.nonASCII {
		o.Class("doif-multibyte-values")
	}
	if st.nilVal {
		o.Class("doif-null-value")
	}
	if st.nowMode {
		o.Class("doif-ts-now-or-start")
	}
	if len(c.Pre) > 0 {
		o.Class("doif-unrelated-events-first")
	}
	vkit.ClassN(P, "doif-decision-true", nT)
	vkit.ClassN(P, "doif-decision-false", nF)
	vkit.ClassN(P, "doif-decision-undetermined-by-docs", nU)
	// non-trivial: >= 2 operator kinds and the (determined) decision differs between two events
	if len(st.ops) >= 2 && nT > 0 && nF > 0 {
		o.Nontrivial(P)
		o.Class("doif-nontrivial")
	}
	return o
}

var propDoIf = vkit.NewProp([]string{P}, "c14doif", genDoIf, runDoIf)

func TestC14DoIf(t *testing.T) {
	vkit.Note(P, "sensitivity (scratch worktree with the four proposed fixes applied, quick tier, seed 1, 7-55 s each): 25 of 26 deliberate breakages caught — equal drops last value; or returns first operand; and stops at first true; not does not invert; prefix as contains; suffix cut one byte short (panic); min-length shortcut <=; rule values not lower-cased; lower-casing after truncation (prefix); contains_any uses first byte only; byte_len_cmp +1; array_len_cmp -1; le as lt; int_val_cmp operands swapped; ts_cmp ignores value_shift; ts_cmp unparsable time as epoch; check_type nil true for null; match_invert ignored; regexp ignored in or mode; and_prefix as exact; or mode stops at first condition; missing field passes in and mode; /re/ in config taken as literal; processor ignores a false do_if")
	vkit.Note(P, "not caught by design: 'equal: null value also matches the empty string' — null vs \"\" under equal is not settled by the README and is left Unknown")
	vkit.Note(P, "excluded by construction (counted as excluded): byte_len_cmp on a container holding names/strings that need JSON escaping — the code documents the count as approximate and it depends on whether an earlier operand already unescaped the string in place (decision depends on operand order for such events)")
	propDoIf.Check(t)
}
