package c11

// wire_test.go: the same property through a real TCP connection: net/http serves
// the plugin (it is an http.Handler), the client writes the request body in the
// planned pieces (chunked transfer-encoding or Content-Length), several
// connections at once. What the handler's reads look like is then up to
// net/http and the kernel; the oracle is the one of the direct route, with the
// moment "the client has read the answer" standing in for "status was written".

import (
	"bufio"
	"errors"
	"fmt"
	"io"
	"net"
	"net/http"
	"net/http/httptest"
	"sync"
	"testing"
	"time"

	"github.com/ozontech/file.d/zzverif/vkit"
	"pgregory.net/rapid"
)

func genWire(t *rapid.T) Case {
	c := Case{Mode: "wire"}
	nreq := rapid.SampledFrom([]int{1, 1, 2, 3, 4, 6}).Draw(t, "nreq")
	c.ES = chance(t, "es", 2)
	c.Meta = chance(t, "meta", 2)
	c.AvgEventSize = rapid.SampledFrom([]int{1, 16, 256, 4096}).Draw(t, "avgEventSize")
	allowLong := chance(t, "allowLong", 2)
	for r := 0; r < nreq; r++ {
		q := genReq(t, r, &c, allowLong)
		q.ContentLength = chance(t, "contentLength", 2)
		q.ZeroEvery, q.StallEvery = 0, 0
		c.Reqs = append(c.Reqs, q)
	}
	return c
}

// pieces splits the wire bytes as the scripted reader would deliver them.
func pieces(rr *reqRun) [][]byte {
	var out [][]byte
	sr := &scriptReader{q: rr.q, data: rr.wire}
	buf := make([]byte, 1<<20)
	for {
		n, err := sr.Read(buf)
		if n > 0 {
			out = append(out, append([]byte{}, buf[:n]...))
		}
		if err != nil {
			return out
		}
	}
}

// conns registers the client connections of a case so that the liveness guard can unblock them.
type conns struct {
	mu     sync.Mutex
	list   []net.Conn
	killed bool
}

func (cs *conns) add(c net.Conn) {
	cs.mu.Lock()
	cs.list = append(cs.list, c)
	if cs.killed {
		_ = c.SetDeadline(time.Unix(1, 0))
	}
	cs.mu.Unlock()
}

func (cs *conns) kill() {
	cs.mu.Lock()
	cs.killed = true
	for _, c := range cs.list {
		_ = c.SetDeadline(time.Unix(1, 0))
	}
	cs.mu.Unlock()
}

func wireClient(addr string, rr *reqRun, rec *recorder, cs *conns) error {
	conn, err := net.Dial("tcp", addr)
	if err != nil {
		return err
	}
	defer conn.Close()
	cs.add(conn)
	q := rr.q
	ctype := q.ContentType
	if ctype == "" {
		ctype = "application/json"
	}
	hdr := fmt.Sprintf("POST %s HTTP/1.1\r\nHost: c11.test\r\nConnection: close\r\nContent-Type: %s\r\n", q.Path, ctype)
	if q.gzipHeader() {
		hdr += "Content-Encoding: gzip\r\n"
	}
	if q.ContentLength {
		hdr += fmt.Sprintf("Content-Length: %d\r\n\r\n", len(rr.wire))
	} else {
		hdr += "Transfer-Encoding: chunked\r\n\r\n"
	}
	if _, err := conn.Write([]byte(hdr)); err != nil {
		return err
	}
	// A write error means the server answered early (e.g. 400 on a bad gzip header) and
	// closed the connection: stop sending and try to read that answer.
	var werr error
	for _, p := range pieces(rr) {
		if !q.ContentLength {
			p = append(append([]byte(fmt.Sprintf("%x\r\n", len(p))), p...), "\r\n"...)
		}
		if _, werr = conn.Write(p); werr != nil {
			break
		}
		rr.reader.bounds = append(rr.reader.bounds, 0) // count of pieces only
	}
	if werr == nil {
		if q.ErrAt >= 0 {
			// the client goes away in the middle of the body: half-close, so the answer can still be read
			_ = conn.(*net.TCPConn).CloseWrite()
		} else if !q.ContentLength {
			_, _ = conn.Write([]byte("0\r\n\r\n"))
		}
	}
	resp, err := http.ReadResponse(bufio.NewReader(conn), nil)
	if err != nil {
		return err
	}
	_, err = io.Copy(io.Discard, resp.Body)
	_ = resp.Body.Close()
	if err != nil {
		return err
	}
	rr.w.status = resp.StatusCode
	rr.w.tStatus = rec.tick()
	rr.w.tReturn = rr.w.tStatus
	return nil
}

func runWire(c Case) *vkit.Outcome {
	o := vkit.NewOutcome()
	n := len(c.Reqs)
	if n == 0 {
		return o
	}
	rec := &recorder{nIn: make([]int64, n)}
	rec.cur.Store(-1)
	runs := prepare(&c, rec)
	plugin, stop := startPlugin(&c, rec)
	srv := httptest.NewServer(plugin)
	addr := srv.Listener.Addr().String()
	errs := make([]error, n)
	cs := &conns{}
	var wg sync.WaitGroup
	for i := range runs {
		i := i
		wg.Add(1)
		go func() {
			defer wg.Done()
			errs[i] = wireClient(addr, runs[i], rec, cs)
		}()
	}
	done := make(chan struct{})
	go func() { wg.Wait(); close(done) }()
	if !waitDone(done) {
		cs.kill() // expire the connections so the client goroutines end
		<-done
		for i, err := range errs {
			var ne net.Error
			if errors.As(err, &ne) && ne.Timeout() {
				o.Failf(P, "deadlock", "request %d got no answer within %v: %v", i, deadlockGuard, err)
			}
		}
		if o.Failed() {
			return o // a handler is stuck; closing the server would block
		}
	}
	srv.Close()
	stop()
	for i, err := range errs {
		if err != nil {
			runs[i].noAnswer = true
			runs[i].w.tReturn = rec.tick()
			o.Class("wire-no-answer")
			vkit.Note(P, "wire mode: some clients could not read an answer (connection reset after an early error reply); only the lines of such requests were judged")
		}
	}
	judge(&c, o, rec, runs)
	o.Class("mode=wire")
	o.Class(fmt.Sprintf("wire-connections=%d", n))
	for _, rr := range runs {
		if rr.q.ContentLength {
			o.Class("wire-content-length")
		} else {
			o.Class("wire-chunked")
		}
		if rr.q.gzipHeader() {
			o.Class("wire-gzip")
		}
		if len(rr.reader.bounds) >= 2 {
			o.Class("wire-body-in-several-writes")
			o.Nontrivial(P)
		}
	}
	if n >= 2 {
		o.Nontrivial(P)
	}
	if o.Failed() {
		o.History = history(rec, runs)
		o.AppendContext(context(&c, runs))
	}
	return o
}

var propWire = vkit.NewProp([]string{P}, "c11wire", genWire, runWire)

func TestC11Wire(t *testing.T) { propWire.CrashFile = true; propWire.Check(t) }
