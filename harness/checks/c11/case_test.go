// Package c11 decides C11 — HTTP input: the events are the body's lines, however
// the body is chunked — black-box through http.Factory(), Plugin.Start with
// `address: off` and the exported Plugin.ServeHTTP.
//
// case_test.go: the serialisable case, the deterministic body builder and the generator.
package c11

import (
	"bytes"
	"compress/gzip"
	"fmt"
	"sort"
	"strings"
	"sync"

	"pgregory.net/rapid"
)

const P = "C11"

// readBuf is the size of the plugin's pooled read buffer (http.go: readBufDefaultLen).
// Used only to aim the generator at the boundary; the oracle does not depend on it.
const readBuf = 16 * 1024

// LineSpec describes one line of a body; the bytes are built deterministically
// from (request index, line index, spec), so a case stays small on disk.
type LineSpec struct {
	Kind string `json:"k"`            // text | json | es | mb | short | empty | long
	Len  int    `json:"n,omitempty"`  // payload length (text/json/mb), total line length (long)
	CR   bool   `json:"cr,omitempty"` // line ends in "\r" (CRLF body)
}

// Req is one HTTP request of the case.
type Req struct {
	Lines   []LineSpec `json:"lines,omitempty"`
	Raw     []byte     `json:"raw,omitempty"` // if non-nil: the body verbatim (untagged; never in mode "free")
	UseRaw  bool       `json:"use_raw,omitempty"`
	FinalNL bool       `json:"final_nl"`
	Path    string     `json:"path"`

	Gzip       int    `json:"gzip,omitempty"`     // 0 = plain, n>0 = gzip stream made of n members
	GzLevel    int    `json:"gz_level,omitempty"` // compress/gzip level
	Corrupt    string `json:"corrupt,omitempty"`  // "" | truncate | flip | tail | plain-as-gzip
	CorruptPos int    `json:"corrupt_pos,omitempty"`

	// transport script: the wire bytes are delivered in reads of Cycle[i%len] bytes,
	// never crossing an offset listed in Cuts, never more than the caller's buffer.
	Cycle       []int `json:"cycle"`
	Cuts        []int `json:"cuts,omitempty"`
	EOFTogether bool  `json:"eof_together"`         // last data read returns (n, io.EOF)
	ZeroEvery   int   `json:"zero_every,omitempty"` // every k-th Read returns (0, nil) first
	ErrAt       int   `json:"err_at"`               // >=0: after this many wire bytes Read fails (client abort); -1 none

	ContentLength bool `json:"content_length,omitempty"` // wire mode: send Content-Length instead of chunked transfer-encoding
	// ContentType header of the request ("" = application/json); what clients send does not change what a
	// body is: curl -d sends application/x-www-form-urlencoded
	ContentType string `json:"content_type,omitempty"`

	StallEvery int `json:"stall_every,omitempty"` // controller.In yields to other requests on every k-th call
}

// Case is one generated scenario: a fresh plugin instance serving Reqs.
type Case struct {
	ES           bool   `json:"es"`   // emulate_mode: elasticsearch (all requests go to /_bulk)
	Mode         string `json:"mode"` // seq | lockstep | free | wire (real TCP connection to net/http serving the plugin)
	AvgEventSize int    `json:"avg_event_size"`
	Meta         bool   `json:"meta,omitempty"` // the input is configured with meta templates (remote_addr, params, request_uuid)
	Sched        []int  `json:"sched,omitempty"` // lockstep: who makes the next step
	Reqs         []Req  `json:"reqs"`
}

func tag(r, i int) string { return fmt.Sprintf("r%d.%d:", r, i) }

func filler(dst []byte, n, r, i int) []byte {
	for p := 0; p < n; p++ {
		dst = append(dst, byte('a'+(p+p/26+i*7+r*3)%26))
	}
	return dst
}

// buildLine renders line i of request r (without the separating newline).
func buildLine(r, i int, s LineSpec) []byte {
	var b []byte
	switch s.Kind {
	case "empty":
	case "short":
		b = append(b, byte('A'+(r+i)%26))
	case "text":
		b = append(b, tag(r, i)...)
		b = filler(b, s.Len, r, i)
	case "json":
		b = append(b, `{"rid":"`...)
		b = append(b, tag(r, i)...)
		b = append(b, `","m":"`...)
		b = filler(b, s.Len, r, i)
		b = append(b, `"}`...)
	case "es":
		b = append(b, `{"index":{"_index":"`...)
		b = append(b, tag(r, i)...)
		b = append(b, `","_type":"span"}}`...)
	case "mb":
		b = append(b, tag(r, i)...)
		runes := []string{"é", "😀", "ж", "€"}
		for p := 0; p < s.Len; p++ {
			b = append(b, runes[(p+i+r)%len(runes)]...)
		}
	case "long":
		b = append(b, tag(r, i)...)
		if s.Len > len(b) {
			b = filler(b, s.Len-len(b), r, i)
		}
	default:
		panic("c11: unknown line kind " + s.Kind)
	}
	if s.CR {
		b = append(b, '\r')
	}
	return b
}

// buildBody renders the uncompressed body of request r.
func buildBody(r int, q *Req) []byte {
	if q.UseRaw {
		return append([]byte{}, q.Raw...)
	}
	var b []byte
	for i, s := range q.Lines {
		if i > 0 {
			b = append(b, '\n')
		}
		b = append(b, buildLine(r, i, s)...)
	}
	if q.FinalNL && len(q.Lines) > 0 {
		b = append(b, '\n')
	}
	return b
}

// buildWire renders the bytes the transport delivers (compressed / corrupted as planned).
func buildWire(body []byte, q *Req) []byte {
	wire := body
	if q.Gzip > 0 {
		var buf bytes.Buffer
		n := q.Gzip
		for m := 0; m < n; m++ {
			lo, hi := len(body)*m/n, len(body)*(m+1)/n
			zw := gzWriter(q.GzLevel, &buf)
			_, _ = zw.Write(body[lo:hi])
			_ = zw.Close()
			gzWriters[q.GzLevel].Put(zw)
		}
		wire = buf.Bytes()
	}
	switch q.Corrupt {
	case "":
	case "plain-as-gzip":
		// the uncompressed body sent with Content-Encoding: gzip
	case "truncate":
		if len(wire) > 0 {
			wire = wire[:q.CorruptPos%len(wire)]
		}
	case "flip":
		if len(wire) > 0 {
			wire = append([]byte{}, wire...)
			wire[q.CorruptPos%len(wire)] ^= byte(1 + q.CorruptPos%255)
		}
	case "tail":
		wire = append(append([]byte{}, wire...), []byte("garbage-after-the-stream")[:1+q.CorruptPos%24]...)
	default:
		panic("c11: unknown corruption " + q.Corrupt)
	}
	return wire
}

// compress/flate writers are ~1 MiB each; reuse them (harness side only).
var gzWriters = map[int]*sync.Pool{}

func init() {
	for _, l := range gzLevels {
		gzWriters[l] = &sync.Pool{}
	}
}

func gzWriter(level int, w *bytes.Buffer) *gzip.Writer {
	pool := gzWriters[level]
	if pool == nil {
		panic(fmt.Sprintf("c11: gzip level %d not in the generator's table", level))
	}
	if zw, ok := pool.Get().(*gzip.Writer); ok {
		zw.Reset(w)
		return zw
	}
	zw, err := gzip.NewWriterLevel(w, level)
	if err != nil {
		panic(err)
	}
	return zw
}

func (q *Req) gzipHeader() bool { return q.Gzip > 0 || q.Corrupt == "plain-as-gzip" }

// ---------------------------------------------------------------- generator

var smallSizes = []int{1, 1, 1, 2, 3, 5, 7, 16}
var bigSizes = []int{100, 511, 4095, 4096, 4097, readBuf - 1, readBuf, readBuf + 1, 1 << 20}
var longLens = []int{readBuf - 1, readBuf, readBuf + 1, 2*readBuf - 1, 2 * readBuf, 2*readBuf + 1}
var gzLevels = []int{gzip.NoCompression, gzip.BestSpeed, gzip.DefaultCompression, gzip.HuffmanOnly}
var rawAlphabet = []byte{'a', 'b', '{', '}', '"', '\n', '\n', '\n', '\r', ' ', 0xc3, 0xa9, 0}

// chance is true with probability 2^-k. rapid's integer generators are biased
// towards small values, so percentages are built from fair coin flips instead.
func chance(t *rapid.T, label string, k int) bool {
	for i := 0; i < k; i++ {
		if !rapid.Bool().Draw(t, label) {
			return false
		}
	}
	return true
}

// bits returns a uniform value in [0, 2^k).
func bits(t *rapid.T, label string, k int) int {
	v := 0
	for i := 0; i < k; i++ {
		v <<= 1
		if rapid.Bool().Draw(t, label) {
			v |= 1
		}
	}
	return v
}

func genLines(t *rapid.T, allowLong, tagged bool) []LineSpec {
	n := rapid.IntRange(0, 8).Draw(t, "nlines")
	lines := make([]LineSpec, 0, n)
	longs := 0
	for i := 0; i < n; i++ {
		k := bits(t, "kind", 4)
		var s LineSpec
		switch {
		case k < 5:
			s = LineSpec{Kind: "text", Len: rapid.IntRange(0, 40).Draw(t, "len")}
		case k < 7:
			s = LineSpec{Kind: "json", Len: rapid.IntRange(0, 40).Draw(t, "len")}
		case k < 8:
			s = LineSpec{Kind: "es"}
		case k < 9:
			s = LineSpec{Kind: "mb", Len: rapid.IntRange(1, 12).Draw(t, "len")}
		case k < 12:
			s = LineSpec{Kind: "empty"}
		case k < 14:
			if tagged {
				s = LineSpec{Kind: "text", Len: 0}
			} else {
				s = LineSpec{Kind: "short"}
			}
		default:
			if allowLong && longs < 2 {
				longs++
				if rapid.Bool().Draw(t, "longAtBoundary") {
					s = LineSpec{Kind: "long", Len: rapid.SampledFrom(longLens).Draw(t, "longlen") - rapid.IntRange(0, 1).Draw(t, "crroom")}
				} else {
					s = LineSpec{Kind: "long", Len: rapid.IntRange(20*1024, 40*1024).Draw(t, "longlen")}
				}
			} else {
				s = LineSpec{Kind: "text", Len: rapid.IntRange(41, 300).Draw(t, "len")}
			}
		}
		if chance(t, "cr", 3) {
			s.CR = true
		}
		lines = append(lines, s)
	}
	return lines
}

func genReq(t *rapid.T, r int, c *Case, allowLong bool) Req {
	free := c.Mode == "free" || c.Mode == "wire" // calls are attributed by the tag in every line
	q := Req{ErrAt: -1}
	if !free && chance(t, "raw", 3) {
		q.UseRaw = true
		n := rapid.IntRange(0, 40).Draw(t, "rawlen")
		q.Raw = make([]byte, n)
		for i := range q.Raw {
			q.Raw[i] = rapid.SampledFrom(rawAlphabet).Draw(t, "rawbyte")
		}
	} else {
		q.Lines = genLines(t, allowLong, free)
		q.FinalNL = rapid.Bool().Draw(t, "finalnl")
	}
	if c.ES {
		q.Path = "/_bulk"
	} else {
		q.Path = rapid.SampledFrom([]string{"/", "/logger", "/_bulk", "/x/y?z=1"}).Draw(t, "path")
	}
	body := buildBody(r, &q)
	if chance(t, "ctype", 3) {
		q.ContentType = rapid.SampledFrom([]string{"application/x-www-form-urlencoded", "application/x-www-form-urlencoded", "text/plain", "multipart/form-data; boundary=xyz", "application/x-ndjson"}).Draw(t, "content_type")
	}

	if bits(t, "gz", 3) >= 5 {
		q.Gzip = 1
		if chance(t, "multi", 2) {
			q.Gzip = rapid.IntRange(2, 3).Draw(t, "members")
		}
		q.GzLevel = rapid.SampledFrom(gzLevels).Draw(t, "gzlevel")
		if chance(t, "corrupt", 3) {
			kinds := []string{"truncate", "truncate", "tail", "flip"}
			if free {
				kinds = kinds[:3] // a flipped byte can decode to garbage lines that cannot be attributed by content
			}
			q.Corrupt = rapid.SampledFrom(kinds).Draw(t, "ckind")
			if free && q.Corrupt == "truncate" && q.Gzip > 1 {
				q.Gzip = 1 // cut at a member boundary the stream is well-formed and ends in an untagged half line
			}
			q.CorruptPos = rapid.IntRange(0, 1<<16).Draw(t, "cpos")
		}
	} else if chance(t, "pag", 5) {
		q.Corrupt = "plain-as-gzip"
	}
	wire := buildWire(body, &q)

	// client abort strictly inside the wire bytes (a failure after the last byte is
	// indistinguishable from a complete body for a decoder that needs no more input)
	if len(wire) > 0 && chance(t, "abort", 4) {
		q.ErrAt = rapid.IntRange(0, len(wire)-1).Draw(t, "errat")
	}

	// partition of the wire bytes into reads
	long := len(wire) > 4096
	ncyc := rapid.IntRange(1, 4).Draw(t, "ncycle")
	for i := 0; i < ncyc; i++ {
		small := bits(t, "small", 3) < 5
		if long && (c.Mode != "seq" || !chance(t, "longsmall", 3)) {
			small = false // keep lockstep cases with 40 KiB bodies cheap; cut clusters below give the 1-byte reads
		}
		if small {
			q.Cycle = append(q.Cycle, rapid.SampledFrom(smallSizes).Draw(t, "csize"))
		} else {
			q.Cycle = append(q.Cycle, rapid.SampledFrom(bigSizes).Draw(t, "csize"))
		}
	}
	// cut clusters around newlines, buffer multiples and random offsets
	var anchors []int
	if q.Gzip == 0 {
		for i, b := range wire {
			if b == '\n' {
				anchors = append(anchors, i)
			}
		}
	}
	for m := readBuf; m < len(wire)+2; m += readBuf {
		anchors = append(anchors, m)
	}
	nclusters := rapid.IntRange(0, 4).Draw(t, "nclusters")
	cutset := map[int]bool{}
	for i := 0; i < nclusters && len(wire) > 0; i++ {
		var a int
		if len(anchors) > 0 && !chance(t, "unanchored", 2) {
			a = rapid.SampledFrom(anchors).Draw(t, "anchor")
		} else {
			a = rapid.IntRange(0, len(wire)).Draw(t, "anchor")
		}
		mask := rapid.IntRange(1, 31).Draw(t, "cutmask")
		for d := -2; d <= 2; d++ {
			if mask&(1<<(d+2)) != 0 && a+d > 0 && a+d < len(wire) {
				cutset[a+d] = true
			}
		}
	}
	for k := range cutset {
		q.Cuts = append(q.Cuts, k)
	}
	sort.Ints(q.Cuts)

	q.EOFTogether = rapid.Bool().Draw(t, "eoftogether")
	if chance(t, "zero", 2) {
		q.ZeroEvery = rapid.IntRange(1, 5).Draw(t, "zeroevery")
	}
	if c.Mode != "seq" && rapid.Bool().Draw(t, "stall") {
		q.StallEvery = rapid.IntRange(1, 3).Draw(t, "stallevery")
	}
	return q
}

func gen(t *rapid.T) Case {
	c := Case{}
	m := bits(t, "mode", 3)
	var nreq int
	switch {
	case m < 4:
		c.Mode = "seq"
		nreq = rapid.SampledFrom([]int{1, 1, 1, 2, 2, 3, 4}).Draw(t, "nreq")
	case m < 7:
		c.Mode = "lockstep"
		nreq = rapid.IntRange(2, 8).Draw(t, "nreq")
		c.Sched = rapid.SliceOfN(rapid.IntRange(0, 7), 1, 24).Draw(t, "sched")
	default:
		c.Mode = "free"
		nreq = rapid.IntRange(2, 8).Draw(t, "nreq")
	}
	c.ES = chance(t, "es", 2)
	c.Meta = chance(t, "meta", 2)
	c.AvgEventSize = rapid.SampledFrom([]int{1, 16, 256, 4096}).Draw(t, "avgEventSize")
	allowLong := chance(t, "allowLong", 2)
	for r := 0; r < nreq; r++ {
		c.Reqs = append(c.Reqs, genReq(t, r, &c, allowLong))
	}
	return c
}

// describe renders a compact, human-readable form of a request for failure messages.
func describe(r int, q *Req, body, wire []byte) string {
	var sb strings.Builder
	fmt.Fprintf(&sb, "req %d: POST %s body %d bytes", r, q.Path, len(body))
	if len(body) <= 120 {
		fmt.Fprintf(&sb, " %q", body)
	}
	if q.gzipHeader() {
		fmt.Fprintf(&sb, ", Content-Encoding: gzip (%d members, level %d, %d wire bytes, corrupt=%q@%d)", q.Gzip, q.GzLevel, len(wire), q.Corrupt, q.CorruptPos)
	}
	fmt.Fprintf(&sb, ", reads cycle=%v cuts=%v eofTogether=%v zeroEvery=%d errAt=%d stallEvery=%d", q.Cycle, q.Cuts, q.EOFTogether, q.ZeroEvery, q.ErrAt, q.StallEvery)
	return sb.String()
}
