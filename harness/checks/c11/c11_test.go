package c11

// c11_test.go: executor (scripted body reader, recording controller, recording
// ResponseWriter, deterministic lockstep scheduler) and the oracle.

import (
	"bytes"
	stdgzip "compress/gzip"
	"errors"
	"fmt"
	"io"
	"net/http"
	"net/url"
	"regexp"
	"runtime"
	"runtime/debug"
	"strconv"
	"strings"
	"sync"
	"sync/atomic"
	"testing"
	"time"

	"github.com/ozontech/file.d/cfg"
	"github.com/ozontech/file.d/decoder"
	"github.com/ozontech/file.d/pipeline"
	"github.com/ozontech/file.d/pipeline/metadata"
	httpin "github.com/ozontech/file.d/plugin/input/http"
	"github.com/ozontech/file.d/zzverif/fdkit"
	"github.com/ozontech/file.d/zzverif/vkit"
)

func TestMain(m *testing.M)   { fdkit.InstallLogger(); vkit.Main(m) }
func TestReplay(t *testing.T) { vkit.Replay(t) }

// Liveness guard only (HARNESS.md: >= 20 s); never a pass/fail criterion of the
// property itself. It is counted in one-second slices of the waiter's own
// running time, so a machine-wide stall (paused VM, overloaded host) burns one
// slice, not the whole guard.
const deadlockSlices = 40
const deadlockGuard = deadlockSlices * time.Second

// waitDone waits for done; false = no progress during deadlockSlices separate one-second waits.
func waitDone(done <-chan struct{}) bool {
	t := time.NewTimer(time.Second)
	defer t.Stop()
	for left := deadlockSlices; left > 0; left-- {
		select {
		case <-done:
			return true
		case <-t.C:
			t.Reset(time.Second)
		}
	}
	select {
	case <-done:
		return true
	default:
		return false
	}
}

var errAbort = errors.New("c11: scripted transport failure (client went away)")

// ---------------------------------------------------------------- recorder (the controller the plugin talks to)

type inCall struct {
	start, end int64 // global sequence numbers at entry / return of In
	sid        pipeline.SourceID
	name       string
	data       []byte // copied at call time
	cur        int    // request being served according to the scheduler (-1: unknown, mode free)
	changed    bool   // the caller's buffer changed while In was running
}

type recorder struct {
	seq   atomic.Int64
	mu    sync.Mutex
	calls []*inCall
	cur   atomic.Int64 // scheduler's current request (seq / lockstep)
	nIn   []int64      // per request: number of In calls so far (for the stall plan)
	stall func(req int, k int64)
}

func (r *recorder) tick() int64 { return r.seq.Add(1) }

func (r *recorder) In(sid pipeline.SourceID, name string, _ pipeline.Offsets, data []byte, _ bool, _ metadata.MetaData) uint64 {
	c := &inCall{start: r.tick(), sid: sid, name: name, data: append([]byte{}, data...), cur: int(r.cur.Load())}
	r.mu.Lock()
	r.calls = append(r.calls, c)
	r.mu.Unlock()
	if r.stall != nil {
		req := c.cur
		if req < 0 {
			req = tagOwner(c.data)
		}
		if req >= 0 && req < len(r.nIn) {
			k := atomic.AddInt64(&r.nIn[req], 1)
			r.stall(req, k)
		}
	}
	// Pipeline.In reads the bytes during the whole call: they must still be what was passed.
	c.changed = !bytes.Equal(c.data, data)
	c.end = r.tick()
	return uint64(c.start)
}
func (r *recorder) UseSpread()                        {}
func (r *recorder) DisableStreams()                   {}
func (r *recorder) SuggestDecoder(decoder.Type)       {}
func (r *recorder) IncReadOps()                       {}
func (r *recorder) IncMaxEventSizeExceeded(...string) {}

// ---------------------------------------------------------------- scripted transport

type scriptReader struct {
	q        *Req
	data     []byte
	pos      int
	ci       int
	nreads   int
	lastZero bool
	yield    func()
	bounds   []int // offsets at which a data read ended
	afterEOF int   // reads issued after EOF / error was reported
}

func (s *scriptReader) Read(p []byte) (int, error) {
	if s.yield != nil {
		s.yield()
	}
	s.nreads++
	if len(p) == 0 {
		return 0, nil
	}
	if s.q.ZeroEvery > 0 && s.nreads%s.q.ZeroEvery == 0 && !s.lastZero {
		s.lastZero = true
		return 0, nil // io.Reader allows (0, nil); never twice in a row
	}
	s.lastZero = false
	if s.q.ErrAt >= 0 && s.pos >= s.q.ErrAt {
		s.afterEOF++
		return 0, errAbort
	}
	if s.pos >= len(s.data) {
		s.afterEOF++
		return 0, io.EOF
	}
	n := s.q.Cycle[s.ci%len(s.q.Cycle)]
	s.ci++
	if n < 1 {
		n = 1
	}
	if n > len(p) {
		n = len(p)
	}
	if rem := len(s.data) - s.pos; n > rem {
		n = rem
	}
	if s.q.ErrAt >= 0 && s.pos+n > s.q.ErrAt {
		n = s.q.ErrAt - s.pos
	}
	for _, c := range s.q.Cuts { // sorted
		if c > s.pos {
			if s.pos+n > c {
				n = c - s.pos
			}
			break
		}
	}
	copy(p, s.data[s.pos:s.pos+n])
	s.pos += n
	s.bounds = append(s.bounds, s.pos)
	if s.pos == len(s.data) && s.q.EOFTogether && s.q.ErrAt < 0 {
		return n, io.EOF
	}
	return n, nil
}

func (s *scriptReader) Close() error { return nil }

// ---------------------------------------------------------------- recording ResponseWriter

type respWriter struct {
	rec      *recorder
	h        http.Header
	status   int   // first status written (explicitly or implied by Write); 0 = none
	tStatus  int64 // sequence number of that moment
	tReturn  int64 // sequence number when the handler returned
	panicked any
	stack    string
}

func (w *respWriter) Header() http.Header { return w.h }
func (w *respWriter) WriteHeader(code int) {
	if w.status == 0 {
		w.status, w.tStatus = code, w.rec.tick()
	}
}
func (w *respWriter) Write(b []byte) (int, error) {
	if w.status == 0 {
		w.status, w.tStatus = http.StatusOK, w.rec.tick()
	}
	return len(b), nil
}

// effective returns the status the client sees and the moment it was decided:
// a handler that returns without writing anything answers 200 at return.
func (w *respWriter) effective() (int, int64) {
	if w.status == 0 {
		return http.StatusOK, w.tReturn
	}
	return w.status, w.tStatus
}

// ---------------------------------------------------------------- plugin set-up

func startPlugin(c *Case, rec *recorder) (*httpin.Plugin, func()) {
	anyPlugin, anyConfig := httpin.Factory()
	config := anyConfig.(*httpin.Config)
	config.Address = "off"
	if c.ES {
		config.EmulateMode = "elasticsearch"
	}
	if c.Meta {
		config.Meta = cfg.MetaTemplates{"remote_addr": "{{ .remote_addr }}", "z": "{{ index .params \"z\" }}", "uuid": "{{ .request_uuid }}"}
	}
	if err := cfg.SetDefaultValues(config); err != nil {
		panic(err)
	}
	if err := cfg.Parse(config, map[string]int{"gomaxprocs": 1}); err != nil {
		panic(err)
	}
	settings := fdkit.DefaultSettings()
	settings.AvgEventSize = c.AvgEventSize
	name := fdkit.UniqueName("c11")
	plugin := anyPlugin.(*httpin.Plugin)
	plugin.Start(config, &pipeline.InputPluginParams{
		PluginDefaultParams: pipeline.PluginDefaultParams{
			PipelineName:     name,
			PipelineSettings: settings,
			MetricCtl:        fdkit.MetricCtl(name),
		},
		Controller: rec,
		Logger:     fdkit.NewLogger().Sugar(),
	})
	return plugin, plugin.Stop
}

func newRequest(q *Req, body io.ReadCloser) *http.Request {
	u, err := url.ParseRequestURI(q.Path)
	if err != nil {
		panic(err)
	}
	r := &http.Request{
		Method:        http.MethodPost,
		URL:           u,
		Proto:         "HTTP/1.1",
		ProtoMajor:    1,
		ProtoMinor:    1,
		Header:        http.Header{},
		Body:          body,
		Host:          "c11.test",
		RemoteAddr:    "192.0.2.1:1234",
		RequestURI:    q.Path,
		ContentLength: -1,
	}
	if q.ContentType != "" {
		r.Header.Set("Content-Type", q.ContentType)
	} else {
		r.Header.Set("Content-Type", "application/json")
	}
	if q.gzipHeader() {
		r.Header.Set("Content-Encoding", "gzip")
	}
	return r
}

// ---------------------------------------------------------------- run

type reqRun struct {
	q      *Req
	body   []byte
	wire   []byte
	reader *scriptReader
	w      *respWriter
	// reference
	valid    bool   // the wire bytes are a complete, well-formed body (decided without file.d)
	lenient  bool   // well-formedness is debatable (a flipped byte that compress/gzip tolerates, e.g. reserved header flag bits that RFC 1952 decoders must reject; a zero-byte gzip body): 200 or not are both accepted
	expected []byte // what the lines are taken from
	noAnswer bool   // wire mode only: no response could be read
	flipped  bool   // corrupted in a way that may decode to arbitrary bytes before the error shows
}

func serve(plugin *httpin.Plugin, rr *reqRun) {
	defer func() {
		if r := recover(); r != nil {
			rr.w.panicked, rr.w.stack = r, string(debug.Stack())
		}
		rr.w.tReturn = rr.w.rec.tick()
	}()
	plugin.ServeHTTP(rr.w, newRequest(rr.q, rr.reader))
}

func stdGunzip(wire []byte) ([]byte, error) {
	zr, err := stdgzip.NewReader(bytes.NewReader(wire))
	if err != nil {
		return nil, err
	}
	return io.ReadAll(zr)
}

// prepare renders bodies and wire bytes and decides, without file.d, what each request must yield.
func prepare(c *Case, rec *recorder) []*reqRun {
	runs := make([]*reqRun, len(c.Reqs))
	for i := range c.Reqs {
		q := &c.Reqs[i]
		if len(q.Cycle) == 0 {
			q.Cycle = []int{1 << 20}
		}
		rr := &reqRun{q: q}
		rr.body = buildBody(i, q)
		rr.wire = buildWire(rr.body, q)
		rr.reader = &scriptReader{q: q, data: rr.wire}
		rr.w = &respWriter{rec: rec, h: http.Header{}}
		rr.expected, rr.valid = rr.body, true
		if q.gzipHeader() {
			ref, err := stdGunzip(rr.wire)
			switch {
			case len(rr.wire) == 0:
				// zero bytes: "a series of members" (RFC 1952) may or may not include the empty
				// series; compress/gzip reports plain io.EOF. Both 200 (no lines) and an error are accepted.
				rr.expected, rr.lenient = nil, true
			case err != nil:
				rr.valid = false
				rr.flipped = q.Corrupt == "flip"
			case q.Corrupt == "" || bytes.Equal(ref, rr.body):
				if !bytes.Equal(ref, rr.body) {
					panic("c11 harness: compress/gzip round trip changed the body")
				}
			default:
				// a corruption that still decodes (to something else): the decoded bytes are the body
				rr.expected = ref
			}
			if err == nil && q.Corrupt == "flip" {
				rr.lenient = true
			}
		}
		if q.ErrAt >= 0 {
			rr.valid = false
		}
		runs[i] = rr
	}
	return runs
}

func run(c Case) *vkit.Outcome {
	o := vkit.NewOutcome()
	n := len(c.Reqs)
	if n == 0 {
		return o
	}
	rec := &recorder{nIn: make([]int64, n)}
	rec.cur.Store(-1)
	runs := prepare(&c, rec)

	plugin, stop := startPlugin(&c, rec)
	deadlocked := ""
	switch c.Mode {
	case "seq":
		for i, rr := range runs {
			rec.cur.Store(int64(i))
			serve(plugin, rr)
		}
		rec.cur.Store(-1)
	case "lockstep":
		deadlocked = runLockstep(&c, plugin, rec, runs)
	case "free":
		deadlocked = runFree(plugin, rec, runs)
	default:
		panic("c11: unknown mode " + c.Mode)
	}
	if deadlocked != "" {
		o.Failf(P, "deadlock", "%s", deadlocked)
		return o // goroutines of the case are stuck; nothing more to judge
	}
	stop()

	judge(&c, o, rec, runs)
	classify(&c, o, runs)
	if o.Failed() {
		o.History = history(rec, runs)
		o.AppendContext(context(&c, runs))
	}
	return o
}

func history(rec *recorder, runs []*reqRun) []string {
	var hist []string
	for _, cl := range rec.calls {
		hist = append(hist, fmt.Sprintf("t=%d..%d In(source=%d, cur=%d, %s)", cl.start, cl.end, cl.sid, cl.cur, clip(cl.data)))
	}
	for i, rr := range runs {
		st, ts := rr.w.effective()
		hist = append(hist, fmt.Sprintf("request %d: status %d at t=%d, handler returned at t=%d, reads ended at %v", i, st, ts, rr.w.tReturn, clipInts(rr.reader.bounds)))
	}
	return hist
}

func context(c *Case, runs []*reqRun) string {
	var sb strings.Builder
	fmt.Fprintf(&sb, "mode=%s es=%v avgEventSize=%d sched=%v", c.Mode, c.ES, c.AvgEventSize, c.Sched)
	for i, rr := range runs {
		sb.WriteString("\n" + describe(i, rr.q, rr.body, rr.wire))
	}
	return sb.String()
}

// runLockstep serialises the requests: exactly one request goroutine runs at a
// time, and it hands control back at every body Read (and at planned In calls);
// Sched decides who continues. Deterministic and replayable.
func runLockstep(c *Case, plugin *httpin.Plugin, rec *recorder, runs []*reqRun) string {
	n := len(runs)
	grant := make([]chan struct{}, n)
	ev := make(chan int, n)
	park := func(i int) { ev <- i; <-grant[i] }
	for i := range runs {
		i := i
		grant[i] = make(chan struct{})
		runs[i].reader.yield = func() { park(i) }
	}
	rec.stall = func(req int, k int64) {
		if se := runs[req].q.StallEvery; se > 0 && k%int64(se) == 0 {
			park(req)
		}
	}
	var wg sync.WaitGroup
	for i := range runs {
		i := i
		wg.Add(1)
		go func() {
			defer wg.Done()
			park(i)
			serve(plugin, runs[i])
			ev <- -(i + 1)
		}()
	}
	guard := time.NewTimer(time.Second)
	defer guard.Stop()
	wait := func() (int, bool) {
		select {
		case e := <-ev:
			return e, true
		default:
		}
		for left := deadlockSlices; left > 0; left-- {
			guard.Reset(time.Second)
			select {
			case e := <-ev:
				return e, true
			case <-guard.C:
			}
		}
		return 0, false
	}
	for parked := 0; parked < n; parked++ {
		if _, ok := wait(); !ok {
			return "requests did not reach their start point"
		}
	}
	active := make([]int, n)
	for i := range active {
		active[i] = i
	}
	sched := c.Sched
	if len(sched) == 0 {
		sched = []int{0}
	}
	for step := 0; len(active) > 0; step++ {
		k := sched[step%len(sched)] % len(active)
		if k < 0 {
			k = -k
		}
		pick := active[k]
		rec.cur.Store(int64(pick))
		grant[pick] <- struct{}{}
		e, ok := wait()
		if !ok {
			return fmt.Sprintf("request %d neither finished nor asked for more input within %v", pick, deadlockGuard)
		}
		if e < 0 {
			active = append(active[:k], active[k+1:]...)
		}
	}
	rec.cur.Store(-1)
	wg.Wait()
	return ""
}

// runFree starts all requests, lets every one reach its first body Read, then
// releases them together: real parallelism (racy interleavings, attribution by
// the tag embedded in every line).
func runFree(plugin *httpin.Plugin, rec *recorder, runs []*reqRun) string {
	n := len(runs)
	var arrived atomic.Int64
	release := make(chan struct{})
	arrive := func(once *sync.Once) {
		once.Do(func() {
			if arrived.Add(1) == int64(n) {
				close(release)
			}
		})
	}
	rec.stall = func(req int, k int64) {
		if se := runs[req].q.StallEvery; se > 0 && k%int64(se) == 0 {
			runtime.Gosched()
		}
	}
	done := make(chan struct{})
	var wg sync.WaitGroup
	for i := range runs {
		rr := runs[i]
		once := &sync.Once{}
		first := true
		rr.reader.yield = func() {
			if first {
				first = false
				arrive(once)
				<-release
			}
		}
		wg.Add(1)
		go func() {
			defer wg.Done()
			serve(plugin, rr)
			arrive(once) // a handler that never reads must not hold the others back
		}()
	}
	go func() { wg.Wait(); close(done) }()
	if waitDone(done) {
		return ""
	}
	return fmt.Sprintf("%d concurrent requests did not finish within %v", n, deadlockGuard)
}

// ---------------------------------------------------------------- oracle

var tagRe = regexp.MustCompile(`r([0-9]+)\.([0-9]+):`)

// tagOwner returns the request index of the first tag in data (-1 if none).
func tagOwner(data []byte) int {
	m := tagRe.FindSubmatch(data)
	if m == nil {
		return -1
	}
	v, err := strconv.Atoi(string(m[1]))
	if err != nil {
		return -1
	}
	return v
}

// blank: a piece that carries no event under either reading of CRLF; Pipeline.In
// drops empty records, so whether In is called for it is not constrained.
func blank(b []byte) bool { return len(b) == 0 || (len(b) == 1 && b[0] == '\r') }

// sameLine: the README says the body is "delimited by a new line" and nothing
// about CR, so for a CRLF body both "line\r" and "line" are accepted (weaker reading).
func sameLine(got, want []byte) bool {
	if bytes.Equal(got, want) {
		return true
	}
	return len(want) > 0 && want[len(want)-1] == '\r' && bytes.Equal(got, want[:len(want)-1])
}

func clip(b []byte) string {
	if len(b) <= 80 {
		return strconv.Quote(string(b))
	}
	return fmt.Sprintf("%q…%q (%d bytes)", b[:40], b[len(b)-24:], len(b))
}

func nonBlankPieces(body []byte) [][]byte {
	var want [][]byte
	for _, p := range bytes.Split(body, []byte{'\n'}) {
		if !blank(p) {
			want = append(want, p)
		}
	}
	return want
}

func clipInts(v []int) string {
	if len(v) <= 40 {
		return fmt.Sprint(v)
	}
	return fmt.Sprintf("%v…(%d reads)", v[:40], len(v))
}

func judge(c *Case, o *vkit.Outcome, rec *recorder, runs []*reqRun) {
	n := len(runs)
	// handler panics
	for i, rr := range runs {
		if rr.w.panicked != nil {
			o.Failf(P, vkit.PanicSig(rr.w.panicked, rr.w.stack), "request %d: ServeHTTP panicked: %v\n%s", i, rr.w.panicked, rr.w.stack)
		}
	}
	if o.Failed() {
		return
	}

	// attribute the calls: by the scheduler where exactly one request runs at a
	// time, by the tag embedded in every generated line under real parallelism.
	per := make([][]*inCall, n)
	for _, cl := range rec.calls {
		if cl.changed {
			o.Failf(P, "event-bytes-changed-during-In", "the buffer passed to In (source %d) changed before In returned: was %s", cl.sid, clip(cl.data))
		}
		if blank(cl.data) {
			continue
		}
		owner := cl.cur
		if c.Mode != "seq" && c.Mode != "lockstep" {
			owner = tagOwner(cl.data)
			if owner < 0 {
				// an untagged piece (a body cut inside a tag): attribute it if exactly one body has it
				for i, rr := range runs {
					for _, p := range bytes.Split(rr.expected, []byte{'\n'}) {
						if sameLine(cl.data, p) {
							if owner >= 0 && owner != i {
								owner = -2
							} else if owner == -1 {
								owner = i
							}
						}
					}
				}
			}
		}
		if owner < 0 || owner >= n {
			o.Failf(P, "event-not-a-body-line", "In was called with %s, which belongs to no request body", clip(cl.data))
			continue
		}
		per[owner] = append(per[owner], cl)
	}
	if o.Failed() {
		return
	}

	for i, rr := range runs {
		calls := per[i]
		status, tStatus := rr.w.effective()
		if rr.noAnswer {
			// wire mode: the client could not read an answer (I/O error); only the lines are judged
			compareLines(o, i, runs, calls, nonBlankPieces(rr.expected), false, true)
			continue
		}

		// expected non-blank lines: the newline-separated pieces, last one included iff non-empty
		var want [][]byte
		pieces := bytes.Split(rr.expected, []byte{'\n'})
		for _, p := range pieces {
			if !blank(p) {
				want = append(want, p)
			}
		}
		lastUnterminated := len(pieces) > 0 && !blank(pieces[len(pieces)-1])

		switch {
		case rr.lenient && status != http.StatusOK:
			compareLines(o, i, runs, calls, want, lastUnterminated, true)
		case rr.valid:
			if status != http.StatusOK {
				o.Failf(P, "complete-body-not-answered-200", "request %d: well-formed body answered %d", i, status)
			}
			compareLines(o, i, runs, calls, want, lastUnterminated, false)
			if status == http.StatusOK && len(calls) > 0 {
				last := calls[len(calls)-1]
				if tStatus < last.end {
					o.Failf(P, "200-before-last-line-handed-over", "request %d: status 200 was written at t=%d but In for %s returned at t=%d", i, tStatus, clip(last.data), last.end)
				}
			}
		case rr.flipped:
			// decoded bytes before the checksum error are arbitrary: only the status is constrained
			if status == http.StatusOK {
				o.Failf(P, "corrupt-gzip-answered-200", "request %d: a gzip stream that compress/gzip rejects was answered 200", i)
			}
		default:
			if status == http.StatusOK {
				if rr.q.ErrAt >= 0 {
					o.Failf(P, "aborted-body-answered-200", "request %d: the transport failed after %d of %d bytes but the answer was 200", i, rr.q.ErrAt, len(rr.wire))
				} else {
					o.Failf(P, "corrupt-gzip-answered-200", "request %d: a gzip stream that compress/gzip rejects (%s) was answered 200", i, rr.q.Corrupt)
				}
			}
			// what was handed over before the failure must still be lines of this body, in order
			compareLines(o, i, runs, calls, want, lastUnterminated, true)
		}
		for _, cl := range calls {
			if cl.end > rr.w.tReturn {
				o.Failf(P, "event-after-response", "request %d: In for %s returned at t=%d, after the handler returned (t=%d)", i, clip(cl.data), cl.end, rr.w.tReturn)
				break
			}
		}
		// one source id per request
		for _, cl := range calls {
			if cl.sid != calls[0].sid {
				o.Failf(P, "request-used-two-source-ids", "request %d: In was called with source ids %d and %d", i, calls[0].sid, cl.sid)
				break
			}
		}
	}
	// requests whose In calls overlap in time never share a source id
	for i := 0; i < n; i++ {
		for j := i + 1; j < n; j++ {
			a, b := per[i], per[j]
			if len(a) == 0 || len(b) == 0 || a[0].sid != b[0].sid {
				continue
			}
			if a[0].start < b[len(b)-1].end && b[0].start < a[len(a)-1].end {
				o.Failf(P, "overlapping-requests-share-source-id", "requests %d (In calls t=%d..%d) and %d (t=%d..%d) both used source id %d", i, a[0].start, a[len(a)-1].end, j, b[0].start, b[len(b)-1].end, a[0].sid)
			}
		}
	}
}

// compareLines compares the non-blank In calls of request i with its expected
// lines. prefixOnly (failed transport / corrupt stream): the calls must be a
// prefix of the expected lines; a last, partial line is tolerated.
func compareLines(o *vkit.Outcome, i int, runs []*reqRun, calls []*inCall, want [][]byte, lastUnterminated, prefixOnly bool) {
	for k := 0; k < len(calls) && k < len(want); k++ {
		got := calls[k].data
		if sameLine(got, want[k]) {
			continue
		}
		if prefixOnly && k == len(calls)-1 && bytes.HasPrefix(want[k], got) {
			return
		}
		sig, what := "event-differs-from-line", "differs from the line"
		switch {
		case foreignTag(got, i, len(runs)):
			sig, what = "event-mixes-bodies", "contains bytes of another request's body"
		case k+1 < len(want) && sameLine(got, want[k+1]):
			sig, what = "line-lost", fmt.Sprintf("is the next line: line %s was never handed over", clip(want[k]))
		case k > 0 && sameLine(got, want[k-1]):
			sig, what = "line-duplicated", "repeats the previous line"
		case len(got) > len(want[k]) && bytes.HasPrefix(got, want[k]):
			sig, what = "lines-merged", "continues past the end of the line"
		case len(got) < len(want[k]) && bytes.HasSuffix(want[k], got):
			sig, what = "line-head-lost", "is only the tail of the line (bytes carried over from an earlier read are missing)"
		case len(got) < len(want[k]) && bytes.HasPrefix(want[k], got):
			sig, what = "line-split", "is only the head of the line"
		case len(got) < len(want[k]) && bytes.Contains(want[k], got):
			sig, what = "line-split", "is only a fragment of the line"
		}
		o.Failf(P, sig, "request %d, event #%d: In got %s, which %s; expected line %s (of %d lines)", i, k, clip(got), what, clip(want[k]), len(want))
		return
	}
	if len(calls) > len(want) {
		got := calls[len(want)].data
		sig := "extra-event"
		if foreignTag(got, i, len(runs)) {
			sig = "event-mixes-bodies"
		}
		o.Failf(P, sig, "request %d: %d non-empty lines in the body but In was called %d times; first extra: %s", i, len(want), len(calls), clip(got))
		return
	}
	if len(calls) < len(want) && !prefixOnly {
		if len(calls) == len(want)-1 && lastUnterminated {
			o.Failf(P, "final-unterminated-line-lost", "request %d: the body ends in the unterminated line %s, which was never handed to In (%d of %d lines arrived)", i, clip(want[len(want)-1]), len(calls), len(want))
			return
		}
		o.Failf(P, "line-lost", "request %d: only %d of %d lines were handed to In; first missing: %s", i, len(calls), len(want), clip(want[len(calls)]))
	}
}

// foreignTag reports whether data carries a tag of a request other than i.
func foreignTag(data []byte, i, n int) bool {
	for _, m := range tagRe.FindAllSubmatch(data, -1) {
		v, err := strconv.Atoi(string(m[1]))
		if err == nil && v != i && v < n {
			return true
		}
	}
	return false
}

// ---------------------------------------------------------------- classes / non-triviality

func classify(c *Case, o *vkit.Outcome, runs []*reqRun) {
	o.Class("mode=" + c.Mode)
	o.Class(fmt.Sprintf("requests=%d", len(runs)))
	if c.ES {
		o.Class("es-bulk")
	}
	nontrivial := c.Mode != "seq" && len(runs) >= 2
	seenLong := false
	for _, rr := range runs {
		q := rr.q
		if q.gzipHeader() {
			o.Class("gzip")
			if q.Gzip > 1 {
				o.Class("gzip-multi-member")
			}
			if q.Corrupt != "" {
				if rr.valid {
					o.Class("corruption-harmless:" + q.Corrupt)
				} else {
					o.Class("corrupt:" + q.Corrupt)
				}
			}
			nontrivial = true
		} else {
			o.Class("plain")
		}
		if q.ErrAt >= 0 {
			o.Class("transport-abort")
		}
		if q.UseRaw {
			o.Class("raw-body")
		}
		if seenLong {
			o.Class("request-after-long-line-request")
		}
		pieces := bytes.Split(rr.body, []byte{'\n'})
		hasLong, hasEmpty, hasCR := false, false, false
		for k, p := range pieces {
			if len(p) > readBuf {
				hasLong = true
			}
			if len(p) == 0 && k < len(pieces)-1 {
				hasEmpty = true
			}
			if len(p) > 0 && p[len(p)-1] == '\r' {
				hasCR = true
			}
		}
		if hasLong {
			o.Class("line-longer-than-read-buffer")
			seenLong = true
			nontrivial = true
		}
		if hasEmpty {
			o.Class("empty-line")
		}
		if hasCR {
			o.Class("crlf")
		}
		if len(rr.body) == 0 {
			o.Class("empty-body")
		} else if rr.body[len(rr.body)-1] == '\n' {
			o.Class("final-newline")
		} else {
			o.Class("final-unterminated-line")
		}
		if q.ZeroEvery > 0 {
			o.Class("reader-returns-0-nil")
		}
		if q.EOFTogether {
			o.Class("eof-with-last-bytes")
		} else {
			o.Class("eof-separately")
		}
		if q.gzipHeader() {
			continue
		}
		// shape of the read boundaries relative to the lines (plain bodies)
		spans, beforeNL, afterNL := false, false, false
		for _, b := range rr.reader.bounds {
			if b <= 0 || b >= len(rr.wire) {
				continue
			}
			if rr.wire[b-1] != '\n' {
				spans = true
			} else {
				afterNL = true
			}
			if rr.wire[b] == '\n' {
				beforeNL = true
			}
		}
		if spans {
			o.Class("line-spans-reads")
			nontrivial = true
		}
		if beforeNL {
			o.Class("read-ends-right-before-newline")
		}
		if afterNL {
			o.Class("read-ends-right-after-newline")
		}
	}
	if nontrivial {
		o.Nontrivial(P)
	}
}

var prop = vkit.NewProp([]string{P}, "c11lines", gen, run)

func TestC11Lines(t *testing.T) { prop.CrashFile = true; prop.Check(t) }
