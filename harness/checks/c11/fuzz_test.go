package c11

// fuzz_test.go: coverage-guided native fuzz target (thorough tier). The fuzzer
// owns the body bytes and a plan that is decoded into encoding + read partition;
// the oracle is the same run()/judge() as the rapid property (the semantic
// check lives inside the target).

import (
	"compress/gzip"
	"encoding/binary"
	"sort"
	"testing"

	"github.com/ozontech/file.d/zzverif/vkit"
)

var fuzzSizes = []int{1, 1, 2, 3, 5, 7, 16, 100, 511, 4095, 4096, 4097, readBuf - 1, readBuf, readBuf + 1, 1 << 20}

// planReq decodes 8+2k plan bytes into the transport script of one request
// (plan[0]&3 encoding, plan[1]&3 gzip level, plan[2] EOF style, plan[3] zero reads,
// plan[4..7] read sizes, then little-endian uint16 cut offsets).
func planReq(body, plan []byte) Req {
	at := func(i int) int {
		if i < len(plan) {
			return int(plan[i])
		}
		return 0
	}
	q := Req{UseRaw: true, Raw: body, Path: "/", ErrAt: -1}
	switch at(0) % 4 {
	case 2:
		q.Gzip = 1
	case 3:
		q.Gzip = 2
	}
	q.GzLevel = []int{gzip.NoCompression, gzip.BestSpeed, gzip.DefaultCompression, gzip.HuffmanOnly}[at(1)%4]
	q.EOFTogether = at(2)&1 == 1
	q.ZeroEvery = at(3) % 4
	for i := 4; i < 8; i++ {
		q.Cycle = append(q.Cycle, fuzzSizes[at(i)%len(fuzzSizes)])
	}
	seen := map[int]bool{}
	for i := 8; i+1 < len(plan) && len(q.Cuts) < 16; i += 2 {
		c := int(binary.LittleEndian.Uint16(plan[i:]))
		if !seen[c] {
			seen[c] = true
			q.Cuts = append(q.Cuts, c)
		}
	}
	sort.Ints(q.Cuts)
	return q
}

func FuzzC11Chunking(f *testing.F) {
	f.Add([]byte("{\"a\":\"1\"}\n{\"a\":\"2\"}\n{\"a\":\"3\"}"), []byte{0, 0, 0, 0, 0, 0, 0, 0})
	f.Add([]byte("a\r\n\r\nb\n\nc"), []byte{2, 1, 1, 2, 3, 0, 7, 1, 4, 0, 5, 0})
	f.Fuzz(func(t *testing.T, body, plan []byte) {
		if len(body) > 1<<12 {
			return // long lines come from the filler below; big fuzz inputs only slow the fuzzer's minimiser down
		}
		// plan[0] bits 2..4: splice a run of 'x' into the body, so that lines longer than
		// the plugin's read buffer are reachable from small inputs
		if len(plan) > 1 {
			if n := []int{0, 0, 0, 0, readBuf - 1, readBuf, readBuf + 1, 2*readBuf + 232}[int(plan[0]>>2)%8]; n > 0 {
				at := int(plan[1]>>2) % (len(body) + 1)
				big := make([]byte, 0, len(body)+n)
				big = append(big, body[:at]...)
				for i := 0; i < n; i++ {
					big = append(big, 'x')
				}
				body = append(big, body[at:]...)
			}
		}
		c := Case{Mode: "seq", AvgEventSize: []int{1, 16, 256, 4096}[len(plan)%4]}
		// the same body twice with two different scripts, on one plugin (pooled buffers are reused)
		c.Reqs = append(c.Reqs, planReq(body, plan))
		half := plan
		if len(plan) > 8 {
			half = plan[len(plan)/2:]
		}
		c.Reqs = append(c.Reqs, planReq(body, half))
		o := prop.Run(c)
		if err := o.FirstErr(); err != nil {
			if se, ok := err.(*vkit.SigError); ok && vkit.IsKnown(P, se.Sig) {
				return
			}
			t.Fatalf("VERIF-FAIL property=%s %v", P, err)
		}
	})
}
