package c12

// Grammar-based fidelity: "a well-formed CRI / syslog / nginx / CSV (and postgres) line yields
// exactly its fields". Lines are built from a grammar together with the fields they must yield; a
// case is a SEQUENCE of lines (well-formed ones interleaved with rejected garbage) through ONE decoder
// instance, because decoders keep pooled / reused state between calls.

import (
	"fmt"
	"sort"
	"strings"
	"testing"

	"github.com/ozontech/file.d/decoder"
	"github.com/ozontech/file.d/zzverif/vkit"
	insaneJSON "github.com/ozontech/insane-json"
	"pgregory.net/rapid"
)

type GLine struct {
	Text   string            `json:"text"`
	Fields map[string]string `json:"fields,omitempty"` // nil = garbage line (any outcome but a crash is fine)
}

type GramCase struct {
	Decoder string         `json:"decoder"`
	Params  map[string]any `json:"params,omitempty"`
	Lines   []GLine        `json:"lines"`
}

var words = []string{"a", "ab", "x1", "err", "connection reset", "GET /x?y=1", "k=v", "日本", "é", "100%", "a:b", "[x]", "<y>", "p#q", "*z", "t-1", "_", "0"}

func genWord(t *rapid.T, label string, forbid string) string {
	for i := 0; i < 8; i++ {
		w := rapid.SampledFrom(words).Draw(t, label)
		if !strings.ContainsAny(w, forbid) {
			return w
		}
	}
	return "w"
}

func genText(t *rapid.T, label string, forbid string) string {
	n := rapid.IntRange(1, 4).Draw(t, label+"/n")
	parts := make([]string, n)
	for i := range parts {
		parts[i] = genWord(t, label+"/w", forbid)
	}
	return strings.Join(parts, " ")
}

func genGarbage(t *rapid.T, label string) GLine {
	return GLine{Text: rapid.SampledFrom([]string{"x", "\"a", "a\"b", "<34", "<999>x", "2022/08/17", "t stdout", "a b c ]", "\"a\"b,c", "<1>1 x", "[", "] ["}).Draw(t, label)}
}

func genGram(t *rapid.T) GramCase {
	c := GramCase{Decoder: rapid.SampledFrom([]string{"csv", "csv", "cri", "nginx_error", "syslog_rfc3164", "syslog_rfc5424", "postgres"}).Draw(t, "decoder")}
	n := rapid.IntRange(1, 5).Draw(t, "nlines")
	var mk func(i int) GLine
	switch c.Decoder {
	case "csv":
		delim := rapid.SampledFrom([]string{",", ";", "\t"}).Draw(t, "delim")
		prefix := rapid.SampledFrom([]string{"", "csv_", "c"}).Draw(t, "prefix")
		nf := rapid.IntRange(1, 5).Draw(t, "nfields")
		c.Params = map[string]any{"delimiter": delim, "prefix": prefix}
		var cols []string
		if rapid.Bool().Draw(t, "cols") {
			for i := 0; i < nf; i++ {
				cols = append(cols, fmt.Sprintf("col%c", 'a'+i))
			}
			cc := make([]any, len(cols))
			for i, x := range cols {
				cc[i] = x
			}
			c.Params["columns"] = cc
		}
		mk = func(i int) GLine {
			fields := map[string]string{}
			var parts []string
			for f := 0; f < nf; f++ {
				var raw, val string
				if rapid.IntRange(0, 2).Draw(t, "quoted") == 0 {
					// quoted field: may contain the delimiter, doubled quotes, spaces
					val = genText(t, "qv", "") + rapid.SampledFrom([]string{"", delim, "\"", " \"x\" ", " "}).Draw(t, "qextra")
					raw = `"` + strings.ReplaceAll(val, `"`, `""`) + `"`
				} else {
					val = genWord(t, "pv", delim+"\" \t")
					if nf > 1 && rapid.IntRange(0, 5).Draw(t, "empty") == 0 {
						val = "" // (a line that is nothing but one empty field is an empty record, not a CSV row)
					}
					raw = val
				}
				parts = append(parts, raw)
				name := prefix + fmt.Sprint(f)
				if cols != nil {
					name = cols[f]
				}
				fields[name] = val
			}
			return GLine{Text: strings.Join(parts, delim) + rapid.SampledFrom([]string{"\n", "\r\n", ""}).Draw(t, "eol"), Fields: fields}
		}
	case "cri":
		mk = func(i int) GLine {
			tm := rapid.SampledFrom([]string{"2016-10-06T00:17:09.669794202Z", "2024-05-22T09:51:04.025764351Z", "t"}).Draw(t, "time")
			st := rapid.SampledFrom([]string{"stdout", "stderr"}).Draw(t, "stream")
			tag := rapid.SampledFrom([]string{"F", "P"}).Draw(t, "tag")
			log := genText(t, "log", "")
			if rapid.IntRange(0, 6).Draw(t, "emptylog") == 0 {
				log = ""
			}
			// inputs that deliver records without their line break (http, kafka, socket) use this decoder too
			eol := rapid.SampledFrom([]string{"\n", "\n", ""}).Draw(t, "eol")
			want := log
			if tag == "F" {
				want = log + eol // a full line keeps its line break (cri_test.go: TestCRIFull)
			}
			return GLine{Text: tm + " " + st + " " + tag + " " + log + eol, Fields: map[string]string{"time": tm, "stream": st, "log": want}}
		}
	case "nginx_error":
		mk = func(i int) GLine {
			lvl := rapid.SampledFrom([]string{"error", "warn", "crit", "info"}).Draw(t, "level")
			pid := fmt.Sprint(rapid.IntRange(1, 99999).Draw(t, "pid"))
			tid := fmt.Sprint(rapid.IntRange(1, 99999).Draw(t, "tid"))
			msg := genText(t, "msg", "")
			f := map[string]string{"time": "2022/08/17 10:49:27", "level": lvl, "pid": pid, "tid": tid, "message": msg}
			text := "2022/08/17 10:49:27 [" + lvl + "] " + pid + "#" + tid + ": "
			if rapid.Bool().Draw(t, "cid") {
				cid := fmt.Sprint(rapid.IntRange(1, 999999).Draw(t, "cidv"))
				text += "*" + cid + " "
				f["cid"] = cid
			} else if strings.HasPrefix(msg, "*") {
				msg = "m " + msg
				f["message"] = msg
			}
			return GLine{Text: text + msg + rapid.SampledFrom([]string{"\n", ""}).Draw(t, "eol"), Fields: f}
		}
	case "syslog_rfc3164":
		mk = func(i int) GLine {
			pri := rapid.IntRange(0, 191).Draw(t, "pri")
			ts := rapid.SampledFrom([]string{"Oct 11 22:14:15", "Jan  1 00:00:00", "Dec 31 23:59:59"}).Draw(t, "ts")
			host := genWord(t, "host", " :[]")
			app := genWord(t, "app", " :[]")
			msg := genText(t, "msg", "")
			f := map[string]string{"priority": fmt.Sprint(pri), "facility": fmt.Sprint(pri / 8), "severity": fmt.Sprint(pri % 8), "timestamp": ts, "hostname": host, "app_name": app, "message": msg}
			text := fmt.Sprintf("<%d>%s %s %s", pri, ts, host, app)
			if rapid.Bool().Draw(t, "pid") {
				pid := fmt.Sprint(rapid.IntRange(1, 99999).Draw(t, "pidv"))
				text += "[" + pid + "]"
				f["process_id"] = pid
			}
			return GLine{Text: text + ": " + msg + rapid.SampledFrom([]string{"\n", ""}).Draw(t, "eol"), Fields: f}
		}
	case "syslog_rfc5424":
		mk = func(i int) GLine {
			pri := rapid.IntRange(0, 191).Draw(t, "pri")
			f := map[string]string{"priority": fmt.Sprint(pri), "facility": fmt.Sprint(pri / 8), "severity": fmt.Sprint(pri % 8), "proto_version": "1"}
			opt := func(name, label string, vals []string) string {
				if rapid.IntRange(0, 3).Draw(t, label+"/nil") == 0 {
					return "-"
				}
				v := rapid.SampledFrom(vals).Draw(t, label)
				f[name] = v
				return v
			}
			// RFC 5424: HOSTNAME, APP-NAME, PROCID and MSGID are NILVALUE ("-") or 1*PRINTUSASCII - any
			// printable characters but the space, so "-bash", "a-b", "[x]" or "--" are names, only a lone "-" is nil
			word := func(name, label string, vals []string) string {
				if rapid.IntRange(0, 2).Draw(t, label+"/free") > 0 {
					return opt(name, label, vals)
				}
				v := rapid.StringMatching(`[-a-c0-1._\[\]="@/]{1,5}`).Draw(t, label+"/word")
				if v == "-" {
					return "-"
				}
				f[name] = v
				return v
			}
			ts := opt("timestamp", "ts", []string{"2003-10-11T22:14:15.003Z", "2003-08-24T05:14:15.000003-07:00", "1985-04-12T23:20:50.52Z"})
			host := word("hostname", "host", []string{"mymachine.example.com", "h", "10.0.0.1"})
			app := word("app_name", "app", []string{"myproc", "su", "evntslog"})
			proc := word("process_id", "proc", []string{"10", "8710", "p1"})
			mid := word("message_id", "mid", []string{"ID47", "m"})
			sd := "-"
			if rapid.IntRange(0, 2).Draw(t, "has_sd") == 0 {
				// STRUCTURED-DATA: one or two elements; the decoder documents {"<sd-id>": {"<param>": "<value>"}}
				sd = ""
				ids := rapid.Permutation([]string{"exampleSDID@32473", "origin", "meta@1", "x"}).Draw(t, "sd_ids")
				for e, ne := 0, rapid.IntRange(1, 2).Draw(t, "sd_n"); e < ne; e++ {
					obj := vkit.JObj()
					el := "[" + ids[e]
					names := rapid.Permutation([]string{"iut", "eventSource", "eventID", "k"}).Draw(t, "sd_names")
					for p, np := 0, rapid.IntRange(1, 3).Draw(t, "sd_params"); p < np; p++ {
						val := genWord(t, "sd_val", "\"\\]")
						el += " " + names[p] + `="` + val + `"`
						obj.Set(names[p], vkit.JStr(val))
					}
					sd += el + "]"
					f[ids[e]] = canonJSON(obj.Encode())
				}
			}
			text := fmt.Sprintf("<%d>1 %s %s %s %s %s %s", pri, ts, host, app, proc, mid, sd)
			if rapid.Bool().Draw(t, "hasmsg") {
				msg := genText(t, "msg", "")
				f["message"] = msg
				text += " " + msg
			}
			return GLine{Text: text + rapid.SampledFrom([]string{"\n", ""}).Draw(t, "eol"), Fields: f}
		}
	default: // postgres
		mk = func(i int) GLine {
			pid := fmt.Sprint(rapid.IntRange(1, 99999).Draw(t, "pid"))
			num := fmt.Sprintf("%d-%d", rapid.IntRange(1, 99).Draw(t, "n1"), rapid.IntRange(1, 9).Draw(t, "n2"))
			client := genWord(t, "client", " ,=[]")
			db := genWord(t, "db", " ,=[]")
			user := genWord(t, "user", " ,=[]")
			msg := genText(t, "msg", "")
			text := fmt.Sprintf("2021-06-22 16:24:27 GMT [%s] => [%s] client=%s,db=%s,user=%s LOG:  %s", pid, num, client, db, user, msg)
			return GLine{Text: text, Fields: map[string]string{"time": "2021-06-22 16:24:27 GMT", "pid": pid, "pid_message_number": num, "client": client, "db": db, "user": user, "log": msg}}
		}
	}
	for i := 0; i < n; i++ {
		if rapid.IntRange(0, 3).Draw(t, "garbage") == 0 {
			c.Lines = append(c.Lines, genGarbage(t, "g"))
		} else {
			c.Lines = append(c.Lines, mk(i))
		}
	}
	return c
}

func runGram(c GramCase) *vkit.Outcome {
	o := vkit.NewOutcome()
	o.Class("grammar=" + c.Decoder)
	typ := decoder.TypeFromString(c.Decoder)
	var d decoder.Decoder
	if typ != decoder.CRI && typ != decoder.POSTGRES {
		var err error
		d, err = decoder.New(typ, decoder.Params(c.Params))
		if err != nil {
			o.Failf(P, "grammar-params-rejected:"+c.Decoder, "params %v rejected: %v", c.Params, err)
			return o
		}
	}
	valid, afterGarbage := 0, false
	sawGarbage := false
	for li, ln := range c.Lines {
		line := []byte(ln.Text) // a fresh copy per call: decoders may write inside the line
		root := insaneJSON.Spawn()
		_ = root.DecodeString("{}")
		var err error
		switch typ {
		case decoder.CRI:
			var row decoder.CRIRow
			row, err = decoder.DecodeCRI(line)
			if err == nil {
				root.AddFieldNoAlloc(root, "log").MutateToBytesCopy(root, row.Log)
				root.AddFieldNoAlloc(root, "time").MutateToBytesCopy(root, row.Time)
				root.AddFieldNoAlloc(root, "stream").MutateToBytesCopy(root, row.Stream)
			}
		case decoder.POSTGRES:
			err = decoder.DecodePostgresToJson(root, line)
		default:
			err = d.DecodeToJson(root, line)
		}
		// the line buffer is the caller's again as soon as the decoder returns (a reader refills it): what the
		// event carries must not depend on it any more
		for k := range line {
			line[k] = '#'
		}
		enc := ""
		if err == nil {
			enc = root.EncodeToString()
		}
		insaneJSON.Release(root)
		if ln.Fields == nil {
			sawGarbage = true
			continue
		}
		if err != nil {
			o.Failf(P, "well-formed-line-rejected:"+c.Decoder, "line #%d %q (params %v) is well-formed but was rejected: %v", li, ln.Text, c.Params, err)
			break
		}
		got, perr := vkit.ParseJSON([]byte(enc))
		if perr != nil || got.Kind != 'o' {
			o.Failf(P, "malformed-event:"+c.Decoder, "line #%d %q decoded to %q", li, ln.Text, enc)
			break
		}
		gotM := map[string]string{}
		for i, k := range got.Keys {
			if got.Vals[i].Kind == 's' {
				gotM[k] = got.Vals[i].Str
			} else {
				gotM[k] = canonJSON(got.Vals[i].Encode()) // (structured-data parameters come out of a map)
			}
		}
		if diff := diffFields(ln.Fields, gotM); diff != "" {
			sig := "fields-differ:" + c.Decoder
			if sawGarbage {
				sig += ":after-rejected-line"
			}
			o.Failf(P, sig, "line #%d %q (params %v, %d lines before it on the same decoder, a rejected one among them: %v): %s\n got %q", li, ln.Text, c.Params, li, sawGarbage, diff, enc)
			break
		}
		valid++
		if sawGarbage {
			afterGarbage = true
		}
		if (typ == decoder.SYSLOG_RFC3164 || typ == decoder.SYSLOG_RFC5424) && li == 0 {
			// metamorphic: syslog_facility_format decides how "facility" is written and nothing else,
			// syslog_severity_format decides how "severity" is written and nothing else; "number" is the
			// plain number (what the default gives)
			type fs struct{ fac, sev string }
			res := map[[2]string]fs{}
			ok := true
			for _, ff := range []string{"number", "string"} {
				for _, sf := range []string{"number", "string"} {
					d2, err2 := decoder.New(typ, decoder.Params(map[string]any{"syslog_facility_format": ff, "syslog_severity_format": sf}))
					if err2 != nil {
						ok = false
						continue
					}
					root2 := insaneJSON.Spawn()
					_ = root2.DecodeString("{}")
					if err2 = d2.DecodeToJson(root2, []byte(ln.Text)); err2 != nil {
						o.Failf(P, "well-formed-line-rejected:"+c.Decoder+":formats", "line %q is accepted with default formats but rejected with facility=%s severity=%s: %v", ln.Text, ff, sf, err2)
						ok = false
					} else {
						res[[2]string{ff, sf}] = fs{root2.Dig("facility").AsString(), root2.Dig("severity").AsString()}
					}
					insaneJSON.Release(root2)
				}
			}
			if ok && !o.Failed() {
				for _, x := range []string{"number", "string"} {
					if a, b := res[[2]string{x, "number"}].fac, res[[2]string{x, "string"}].fac; a != b {
						o.Failf(P, "syslog-format:facility-depends-on-severity-format:"+c.Decoder, "line %q, syslog_facility_format=%s: facility is %q with severity format number and %q with severity format string", ln.Text, x, a, b)
					}
					if a, b := res[[2]string{"number", x}].sev, res[[2]string{"string", x}].sev; a != b {
						o.Failf(P, "syslog-format:severity-depends-on-facility-format:"+c.Decoder, "line %q, syslog_severity_format=%s: severity is %q with facility format number and %q with facility format string", ln.Text, x, a, b)
					}
				}
				if nn := res[[2]string{"number", "number"}]; nn.fac != ln.Fields["facility"] || nn.sev != ln.Fields["severity"] {
					o.Failf(P, "syslog-format:number-format-differs-from-default:"+c.Decoder, "line %q: formats number/number give facility %q severity %q, the default gives %q / %q", ln.Text, nn.fac, nn.sev, ln.Fields["facility"], ln.Fields["severity"])
				}
				if ss := res[[2]string{"string", "string"}]; ss.fac == ln.Fields["facility"] && ss.sev == ln.Fields["severity"] {
					o.Failf(P, "syslog-format:string-format-has-no-effect:"+c.Decoder, "line %q: formats string/string still give the numbers %q / %q", ln.Text, ss.fac, ss.sev)
				}
				o.Class("syslog-formats-compared")
			}
			if o.Failed() {
				break
			}
		}
	}
	if valid >= 2 || afterGarbage {
		o.Nontrivial(P)
	}
	if afterGarbage {
		o.Class("well-formed-after-rejected-line")
	}
	return o
}

func diffFields(want, got map[string]string) string {
	var keys []string
	for k := range want {
		keys = append(keys, k)
	}
	for k := range got {
		if _, ok := want[k]; !ok {
			keys = append(keys, k)
		}
	}
	sort.Strings(keys)
	for _, k := range keys {
		w, okw := want[k]
		g, okg := got[k]
		switch {
		case !okg && w == "":
			// an empty optional field may be omitted
		case !okg:
			return fmt.Sprintf("field %q missing (want %q)", k, w)
		case !okw:
			return fmt.Sprintf("unexpected field %q = %q", k, g)
		case w != g:
			return fmt.Sprintf("field %q = %q, want %q", k, g, w)
		}
	}
	return ""
}

var propGram = vkit.NewProp([]string{P}, "c12grammar", genGram, runGram)

func TestC12GrammarFidelity(t *testing.T) { propGram.Check(t) }
