package c12

// One decoder instance serves every input goroutine of a pipeline (Pipeline.In is called concurrently),
// so what it makes of a line must not depend on which other lines are being decoded at the same time.
// Differential / metamorphic: each line is decoded alone first, then all lines are decoded over and over
// by one goroutine each through the SAME decoder; every result must equal the line's solo result.

import (
	"fmt"
	"sync"
	"testing"

	"github.com/ozontech/file.d/decoder"
	"github.com/ozontech/file.d/zzverif/vkit"
	insaneJSON "github.com/ozontech/insane-json"
	"pgregory.net/rapid"
)

type SharedCase struct {
	Docs   []CutCase      `json:"docs"`   // only Doc / NL / EscapeAll are used
	Limits map[string]int `json:"limits"` // json_max_fields_size of the shared decoder
	Reps   int            `json:"reps"`
}

func genShared(t *rapid.T) SharedCase {
	c := SharedCase{Limits: map[string]int{}, Reps: 150}
	n := rapid.IntRange(2, 4).Draw(t, "ndocs")
	for i := 0; i < n; i++ {
		d := genCut(t)
		for k, v := range d.Limits {
			if len(c.Limits) < 6 {
				c.Limits[k] = v
			}
		}
		d.Limits = nil
		c.Docs = append(c.Docs, d)
	}
	// the documents share their key alphabet: small limits on a few top-level names cut most of them
	for _, k := range rapid.SliceOfNDistinct(rapid.SampledFrom(cutKeys), 2, 4, rapid.ID[string]).Draw(t, "top_limits") {
		c.Limits[k] = rapid.IntRange(0, 3).Draw(t, "top_limit")
	}
	return c
}

func sharedDecode(d decoder.Decoder, line []byte) (string, error) {
	root := insaneJSON.Spawn()
	defer insaneJSON.Release(root)
	buf := append(make([]byte, 0, len(line)+8), line...) // the decoder may cut inside the line: a private copy per call
	if err := d.DecodeToJson(root, buf); err != nil {
		return "", err
	}
	return root.EncodeToString(), nil
}

func runShared(c SharedCase) *vkit.Outcome {
	o := vkit.NewOutcome()
	if len(c.Docs) < 2 || len(c.Docs) > 8 || c.Reps < 1 || c.Reps > 2000 {
		o.Class("invalid-case")
		return o
	}
	lm := map[string]any{}
	for k, v := range c.Limits {
		lm[k] = float64(v)
	}
	d, err := decoder.New(decoder.JSON, decoder.Params(map[string]any{"json_max_fields_size": lm}))
	if err != nil {
		o.Class("params-rejected")
		return o
	}
	lines := make([][]byte, len(c.Docs))
	solo := make([]string, len(c.Docs))
	soloErr := make([]error, len(c.Docs))
	for i, dc := range c.Docs {
		if _, perr := vkit.ParseJSON([]byte(dc.Doc)); perr != nil {
			o.Class("generator-produced-invalid-json")
			return o
		}
		lines[i] = renderDoc(FidCase{Doc: dc.Doc, NL: dc.NL, EscapeAll: dc.EscapeAll})
		solo[i], soloErr[i] = sharedDecode(d, lines[i])
	}
	var wg sync.WaitGroup
	var mu sync.Mutex
	var start sync.WaitGroup
	start.Add(1)
	for i := range lines {
		wg.Add(1)
		go func(i int) {
			defer wg.Done()
			defer func() {
				if r := recover(); r != nil {
					mu.Lock()
					o.Failf(P, "shared-decoder:panic", "decoding %q concurrently with the other lines panicked: %v", lines[i], r)
					mu.Unlock()
				}
			}()
			start.Wait()
			for rep := 0; rep < c.Reps; rep++ {
				got, err := sharedDecode(d, lines[i])
				if (err != nil) != (soloErr[i] != nil) || got != solo[i] {
					mu.Lock()
					o.Failf(P, "shared-decoder:result-depends-on-concurrent-calls", "line %q (limits %v): decoded alone -> %q (err %v), decoded while %d other goroutines use the same decoder (repetition %d) -> %q (err %v)", lines[i], c.Limits, solo[i], soloErr[i], len(lines)-1, rep, got, err)
					mu.Unlock()
					return
				}
			}
		}(i)
	}
	start.Done()
	wg.Wait()
	cut := 0
	for i, dc := range c.Docs {
		if soloErr[i] == nil && len(solo[i]) < len(dc.Doc) {
			cut++
		}
	}
	if cut >= 2 && len(c.Limits) >= 2 {
		o.Nontrivial(P)
		o.Class("shared-decoder:two-lines-cut-concurrently")
	}
	if o.Failed() {
		o.AppendContext(fmt.Sprintf("limits %v", c.Limits))
	}
	return o
}

var propShared = vkit.NewProp([]string{P}, "c12shareddecoder", genShared, runShared)

func TestC12SharedDecoder(t *testing.T) { propShared.Check(t) }
