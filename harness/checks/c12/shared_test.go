package c12

// One decoder instance serves every input goroutine of a pipeline (Pipeline.In is called concurrently),
// so what it makes of a line must not depend on which other lines are being decoded at the same time.
// Differential / metamorphic: each line is decoded alone first, then all lines are decoded over and over
// by one goroutine each through the SAME decoder; every result must equal the line's solo result.

import (
	"encoding/json"
	"fmt"
	"strings"
	"sync"
	"testing"

	"github.com/ozontech/file.d/decoder"
	"github.com/ozontech/file.d/zzverif/vkit"
	insaneJSON "github.com/ozontech/insane-json"
	"pgregory.net/rapid"
)

type SharedCase struct {
	Docs   []CutCase      `json:"docs"`   // only Doc / NL / EscapeAll are used
	Limits map[string]int `json:"limits"` // json_max_fields_size of the shared decoder
	Reps   int            `json:"reps"`
	// Decoder != "": any decoder type with its generated parameters and 2..4 generated lines (Lines) instead
	// of the json documents above
	Decoder string         `json:"decoder,omitempty"`
	Params  map[string]any `json:"params,omitempty"`
	Lines   [][]byte       `json:"lines,omitempty"`
}

var protoNames = []string{"my_string", "other_str", "zzzzzzzzz", "a_b_c_d_e"}

func genShared(t *rapid.T) SharedCase {
	if rapid.IntRange(0, 1).Draw(t, "any_decoder") == 0 {
		dec := rapid.SampledFrom([]string{"json", "nginx_error", "protobuf", "protobuf", "syslog_rfc3164", "syslog_rfc5424", "csv"}).Draw(t, "decoder")
		c := SharedCase{Reps: 150, Decoder: dec, Params: genParams(t, dec)}
		for i, n := 0, rapid.IntRange(2, 4).Draw(t, "nlines"); i < n; i++ {
			line := genLine(t, dec)
			if dec == "protobuf" && rapid.IntRange(0, 2).Draw(t, "valid_proto") > 0 {
				// the sample message with another 9-byte string and another number: still well-formed
				line = []byte(seeds["protobuf"][0])
				copy(line[4:13], rapid.SampledFrom(protoNames).Draw(t, "proto_name"))
				line[14] = byte(rapid.IntRange(1, 127).Draw(t, "proto_num"))
			}
			c.Lines = append(c.Lines, line)
		}
		return c
	}
	c := SharedCase{Limits: map[string]int{}, Reps: 150}
	n := rapid.IntRange(2, 4).Draw(t, "ndocs")
	for i := 0; i < n; i++ {
		d := genCut(t)
		for k, v := range d.Limits {
			if len(c.Limits) < 6 {
				c.Limits[k] = v
			}
		}
		d.Limits = nil
		c.Docs = append(c.Docs, d)
	}
	// the documents share their key alphabet: small limits on a few top-level names cut most of them
	for _, k := range rapid.SliceOfNDistinct(rapid.SampledFrom(cutKeys), 2, 4, rapid.ID[string]).Draw(t, "top_limits") {
		c.Limits[k] = rapid.IntRange(0, 3).Draw(t, "top_limit")
	}
	return c
}

func sharedDecode(d decoder.Decoder, line []byte, prefill bool) (string, error) {
	root := insaneJSON.Spawn()
	defer insaneJSON.Release(root)
	if prefill {
		_ = root.DecodeString("{}")
	}
	buf := append(make([]byte, 0, len(line)+8), line...) // the decoder may cut inside the line: a private copy per call
	if err := d.DecodeToJson(root, buf); err != nil {
		return "", err
	}
	return root.EncodeToString(), nil
}

// canonJSON: key order is not part of a decoder's result (nginx custom fields come out of a map).
func canonJSON(s string) string {
	var v any
	dec := json.NewDecoder(strings.NewReader(s))
	dec.UseNumber()
	if err := dec.Decode(&v); err != nil {
		return s
	}
	b, err := json.Marshal(v)
	if err != nil {
		return s
	}
	return string(b)
}

func runShared(c SharedCase) *vkit.Outcome {
	o := vkit.NewOutcome()
	if c.Reps < 1 || c.Reps > 2000 {
		o.Class("invalid-case")
		return o
	}
	var d decoder.Decoder
	var err error
	var lines [][]byte
	typ := decoder.JSON
	if c.Decoder != "" {
		typ = decoder.TypeFromString(c.Decoder)
		if typ == decoder.CRI || typ == decoder.POSTGRES || typ == decoder.NO || len(c.Lines) < 2 || len(c.Lines) > 8 {
			o.Class("invalid-case")
			return o
		}
		d, err = decoder.New(typ, decoder.Params(c.Params))
		lines = c.Lines
		o.Class("shared-decoder=" + c.Decoder)
	} else {
		if len(c.Docs) < 2 || len(c.Docs) > 8 {
			o.Class("invalid-case")
			return o
		}
		lm := map[string]any{}
		for k, v := range c.Limits {
			lm[k] = float64(v)
		}
		d, err = decoder.New(decoder.JSON, decoder.Params(map[string]any{"json_max_fields_size": lm}))
		for _, dc := range c.Docs {
			if _, perr := vkit.ParseJSON([]byte(dc.Doc)); perr != nil {
				o.Class("generator-produced-invalid-json")
				return o
			}
			lines = append(lines, renderDoc(FidCase{Doc: dc.Doc, NL: dc.NL, EscapeAll: dc.EscapeAll}))
		}
		o.Class("shared-decoder=json-with-limits")
	}
	if err != nil {
		o.Class("params-rejected")
		return o
	}
	prefill := typ != decoder.JSON && typ != decoder.PROTOBUF // what Pipeline.In does before DecodeToJson
	solo := make([]string, len(lines))
	soloErr := make([]error, len(lines))
	for i := range lines {
		solo[i], soloErr[i] = sharedDecode(d, lines[i], prefill)
	}
	var wg sync.WaitGroup
	var mu sync.Mutex
	var start sync.WaitGroup
	start.Add(1)
	for i := range lines {
		wg.Add(1)
		go func(i int) {
			defer wg.Done()
			defer func() {
				if r := recover(); r != nil {
					mu.Lock()
					o.Failf(P, "shared-decoder:panic", "decoding %q concurrently with the other lines panicked: %v", lines[i], r)
					mu.Unlock()
				}
			}()
			start.Wait()
			for rep := 0; rep < c.Reps; rep++ {
				got, err := sharedDecode(d, lines[i], prefill)
				if (err != nil) != (soloErr[i] != nil) || (got != solo[i] && canonJSON(got) != canonJSON(solo[i])) {
					mu.Lock()
					o.Failf(P, "shared-decoder:result-depends-on-concurrent-calls", "line %q (limits %v): decoded alone -> %q (err %v), decoded while %d other goroutines use the same decoder (repetition %d) -> %q (err %v)", lines[i], c.Limits, solo[i], soloErr[i], len(lines)-1, rep, got, err)
					mu.Unlock()
					return
				}
			}
		}(i)
	}
	start.Done()
	wg.Wait()
	cut := 0
	for i, dc := range c.Docs {
		if soloErr[i] == nil && len(solo[i]) < len(dc.Doc) {
			cut++
		}
	}
	if c.Decoder == "" && cut >= 2 && len(c.Limits) >= 2 {
		o.Nontrivial(P)
		o.Class("shared-decoder:two-lines-cut-concurrently")
	}
	if c.Decoder != "" {
		distinct := map[string]bool{}
		for i := range solo {
			if soloErr[i] == nil {
				distinct[solo[i]] = true
			}
		}
		if len(distinct) >= 2 {
			o.Nontrivial(P)
			o.Class("shared-decoder:two-different-lines-accepted")
		}
	}
	if o.Failed() {
		o.AppendContext(fmt.Sprintf("limits %v", c.Limits))
	}
	return o
}

var propShared = vkit.NewProp([]string{P}, "c12shareddecoder", genShared, runShared)

func TestC12SharedDecoder(t *testing.T) { propShared.Check(t) }
