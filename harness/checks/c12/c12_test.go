// Package c12 decides C12 — decoders are total and faithful — black-box through
// the exported decoder API (decoder.New, DecodeCRI, DecodePostgresToJson).
package c12

import (
	"bytes"
	"encoding/json"
	"fmt"
	"strings"
	"testing"
	"unicode/utf8"

	"github.com/ozontech/file.d/decoder"
	"github.com/ozontech/file.d/zzverif/fdkit"
	"github.com/ozontech/file.d/zzverif/vkit"
	insaneJSON "github.com/ozontech/insane-json"
	"pgregory.net/rapid"
)

const P = "C12"

func TestMain(m *testing.M)   { fdkit.InstallLogger(); vkit.Main(m) }
func TestReplay(t *testing.T) { vkit.Replay(t) }

const protoContent = `syntax = "proto3";

package test;
option go_package = "test.v1";

message Data {
  string stringData = 1 [json_name="string_data"];
  int32 intData = 2 [json_name="int_data"];
}

message MyMessage {
  message InternalData {
    repeated string myStrings = 1 [json_name="my_strings"];
    bool isValid = 2 [json_name="is_valid"];
  }

  Data data = 1;
  InternalData internalData = 2 [json_name="internal_data"];
  uint64 version = 3;
}
`

// ------------------------------------------------------------------ totality

// TotalCase is one (decoder, params, line) triple.
type TotalCase struct {
	Decoder string         `json:"decoder"`
	Params  map[string]any `json:"params,omitempty"`
	Line    []byte         `json:"line"` // base64 in JSON
}

var decoders = []string{"json", "cri", "postgres", "nginx_error", "protobuf", "syslog_rfc3164", "syslog_rfc5424", "csv"}

// seeds per format: well-formed lines from the repo's docs/tests, to be mutated.
var seeds = map[string][]string{
	"json": {`{"level":"error","message":"error occurred","ts":"2023-10-30T13:35:33.638720813Z","stream":"stderr"}`,
		`{"a":{"b":"c\"d\\e"},"m":"ab\"cdeX","n":[1,2,{"x":null}]}`, `{"m":"A😀é"}`, `[]`, `"x"`, `1`, `{}`},
	"cri": {"2016-10-06T00:17:09.669794202Z stdout P partial content 1", "2016-10-06T00:17:09.669794202Z stderr F full content 2",
		"2024-05-22T09:51:04.025764351Z s2024-05-22T10:15:04.129321194Z stderr F 2024/05/22 10:15:04 start",
		"2016-10-06T00:17:09.669794202Z stdout P ", "2016-10-06T00:17:09.669794202Z stdout P", "t stdout F ", "t stdout  x"},
	"postgres": {`2021-06-22 16:24:27 GMT [7291] => [3-1] client=test_client,db=test_db,user=test_user LOG:  listening on Unix socket "/var/run/postgresql/.s.PGSQL.5432"`,
		`2021-06-22 16:24:27 GMT [7291] => [3-1] client=[local],db=[unknown],user=[unknown] LOG: `, `a b c ]`, `a b c [1] [2] x=1,y=2,z=3 LOG:`},
	"nginx_error": {`2022/08/17 10:49:27 [error] 2725122#2725122: *792412315 lua udp socket read timed out, context: ngx.timer`,
		`2022/08/18 09:29:37 [error] 844935#844935: *44934601 upstream timed out (110: Operation timed out), while connecting to upstream, client: 10.125.172.251, server: , request: "POST /download HTTP/1.1", upstream: "http://10.117.246.15:84/download", host: "mpm-youtube-downloader-38.name.tldn:84"`,
		`2022/08/17 10:49:27 [error] 2725122#2725122: `, `2022/08/17 10:49:27 [e] 1#1:`, `a b [] #:`},
	"syslog_rfc3164": {`<34>Oct 11 22:14:15 mymachine.example.com myproc[10]: 'myproc' failed on /dev/pts/8`, `<34>Oct  5 22:14:15 mymachine myproc: msg`,
		`<191>Oct 11 22:14:15 h a[1]:`, `<0>Jan  1 00:00:00 h a:`},
	"syslog_rfc5424": {`<165>1 2003-10-11T22:14:15.003Z mymachine.example.com myproc 10 ID47 [exampleSDID@32473 iut="3" eventSource="Application" eventID="1011"] An application event log`,
		`<165>1 2003-10-11T22:14:15.003Z mymachine.example.com myproc 10 ID47 [exampleSDID@32473 iut="3"][examplePriority@32473 class="high"] ` + "\xef\xbb\xbf" + `msg`,
		`<165>1 2003-10-11T22:14:15.003Z - - - - -`, `<165>1 - - - - - - msg`, `<165>1 2003-10-11T22:14:15.003+01:00 h a p m [a b="\"\\\]"] m`},
	"csv":      {`1760551019001,127.0.0.1,example-service,some-additional-info`, `a,"b ""q"" c",d`, `"x","y"`, `a,,`, `"a`, `a"b`, `"a"b`, `"a",`, `"`, `""`, ","},
	"protobuf": {string([]byte{10, 13, 10, 9, 109, 121, 95, 115, 116, 114, 105, 110, 103, 16, 123, 18, 14, 10, 4, 115, 116, 114, 49, 10, 4, 115, 116, 114, 50, 16, 1, 24, 10}), "", "\x08"},
}

var hostileBytes = []string{" ", "  ", "]", "[", "=", ",", ":", "#", "*", "<", ">", "\"", "\\", "\n", "\r", "\r\n", "\x00", "\xff", "P", "F", "P ", "stdout", "stderr", "-", "1", "LOG:", "é", "\xef\xbb\xbf", "@", "."}

func genLine(t *rapid.T, dec string) []byte {
	mode := rapid.IntRange(0, 9).Draw(t, "mode")
	var b []byte
	switch {
	case mode < 6: // mutate a seed
		s := []byte(rapid.SampledFrom(seeds[dec]).Draw(t, "seed"))
		nm := rapid.IntRange(0, 3).Draw(t, "nmut")
		for i := 0; i < nm; i++ {
			switch rapid.IntRange(0, 4).Draw(t, "mut") {
			case 0: // truncate
				if len(s) > 0 {
					s = s[:rapid.IntRange(0, len(s)).Draw(t, "cut")]
				}
			case 1: // delete a range
				if len(s) > 1 {
					a := rapid.IntRange(0, len(s)-1).Draw(t, "da")
					l := rapid.IntRange(1, min(8, len(s)-a)).Draw(t, "dl")
					s = append(append([]byte{}, s[:a]...), s[a+l:]...)
				}
			case 2: // insert hostile piece
				a := rapid.IntRange(0, len(s)).Draw(t, "ia")
				h := rapid.SampledFrom(hostileBytes).Draw(t, "ih")
				s = append(append(append([]byte{}, s[:a]...), h...), s[a:]...)
			case 3: // replace a byte
				if len(s) > 0 {
					a := rapid.IntRange(0, len(s)-1).Draw(t, "ra")
					s = append([]byte{}, s...)
					s[a] = rapid.Byte().Draw(t, "rb")
				}
			case 4: // drop a prefix
				if len(s) > 0 {
					s = s[rapid.IntRange(0, len(s)).Draw(t, "pre"):]
				}
			}
		}
		b = s
	case mode < 8: // concatenation of hostile pieces
		n := rapid.IntRange(0, 12).Draw(t, "n")
		for i := 0; i < n; i++ {
			b = append(b, rapid.SampledFrom(hostileBytes).Draw(t, "h")...)
		}
	default: // arbitrary bytes
		b = rapid.SliceOfN(rapid.Byte(), 0, 40).Draw(t, "raw")
	}
	if rapid.Bool().Draw(t, "nl") {
		b = append(append([]byte{}, b...), '\n')
	}
	return b
}

func genParams(t *rapid.T, dec string) map[string]any {
	switch dec {
	case "json":
		if rapid.Bool().Draw(t, "withlimit") {
			m := map[string]any{}
			n := rapid.IntRange(1, 3).Draw(t, "nlim")
			for i := 0; i < n; i++ {
				m[rapid.SampledFrom([]string{"m", "level", "message", "a.b", "ts", "n", "stream"}).Draw(t, "path")] = float64(rapid.IntRange(0, 12).Draw(t, "lim"))
			}
			return map[string]any{"json_max_fields_size": m}
		}
	case "nginx_error":
		if rapid.Bool().Draw(t, "custom") {
			return map[string]any{"nginx_with_custom_fields": true}
		}
	case "syslog_rfc3164", "syslog_rfc5424":
		p := map[string]any{}
		if rapid.Bool().Draw(t, "ff") {
			p["syslog_facility_format"] = rapid.SampledFrom([]string{"number", "string"}).Draw(t, "ffv")
		}
		if rapid.Bool().Draw(t, "sf") {
			p["syslog_severity_format"] = rapid.SampledFrom([]string{"number", "string"}).Draw(t, "sfv")
		}
		return p
	case "csv":
		p := map[string]any{}
		if rapid.Bool().Draw(t, "cols") {
			n := rapid.IntRange(0, 4).Draw(t, "ncols")
			cols := []any{}
			for i := 0; i < n; i++ {
				cols = append(cols, rapid.SampledFrom([]string{"a", "b", "ts", "ip", "x\"y", ""}).Draw(t, "col"))
			}
			p["columns"] = cols
		}
		if rapid.Bool().Draw(t, "pfx") {
			p["prefix"] = rapid.SampledFrom([]string{"csv_", "", "\"", "é"}).Draw(t, "pfxv")
		}
		if rapid.Bool().Draw(t, "dl") {
			p["delimiter"] = rapid.SampledFrom([]string{",", ";", "\t", " ", "a"}).Draw(t, "dlv")
		}
		if rapid.Bool().Draw(t, "ilm") {
			p["invalid_line_mode"] = rapid.SampledFrom([]string{"continue", "default"}).Draw(t, "ilmv")
		}
		return p
	case "protobuf":
		return map[string]any{"proto_file": protoContent, "proto_message": "MyMessage"}
	}
	return nil
}

func genTotal(t *rapid.T) TotalCase {
	dec := rapid.SampledFrom(decoders).Draw(t, "decoder")
	return TotalCase{Decoder: dec, Params: genParams(t, dec), Line: genLine(t, dec)}
}

const canary = 0xA5

// decodeOnce runs the decoder on a line placed inside a larger buffer with
// canaries; returns the encoded event ("" on error), the decode error, and a
// description of a canary violation.
func decodeOnce(c TotalCase) (encoded string, derr error, canaryMsg string) {
	const pad = 24
	buf := make([]byte, pad+len(c.Line)+pad, pad+len(c.Line)+pad+32)
	for i := range buf {
		buf[i] = canary
	}
	full := buf[:cap(buf)]
	for i := len(buf); i < cap(buf); i++ {
		full[i] = canary
	}
	copy(buf[pad:], c.Line)
	line := buf[pad : pad+len(c.Line)] // cap reaches into the trailing canaries, as a slice of a read buffer does

	root := insaneJSON.Spawn()
	defer insaneJSON.Release(root)

	typ := decoder.TypeFromString(c.Decoder)
	switch typ {
	case decoder.CRI:
		row, err := decoder.DecodeCRI(line)
		if err != nil {
			derr = err
			break
		}
		// what Pipeline.In builds from the row
		_ = root.DecodeString("{}")
		root.AddFieldNoAlloc(root, "log").MutateToBytesCopy(root, row.Log)
		root.AddFieldNoAlloc(root, "time").MutateToBytesCopy(root, row.Time)
		root.AddFieldNoAlloc(root, "stream").MutateToBytesCopy(root, row.Stream)
	case decoder.POSTGRES:
		_ = root.DecodeString("{}")
		derr = decoder.DecodePostgresToJson(root, line)
	default:
		d, err := decoder.New(typ, decoder.Params(c.Params))
		if err != nil {
			return "", fmt.Errorf("params rejected: %w", err), ""
		}
		if typ != decoder.JSON && typ != decoder.PROTOBUF {
			_ = root.DecodeString("{}")
		}
		derr = d.DecodeToJson(root, line)
	}
	for i := 0; i < pad; i++ {
		if full[i] != canary {
			canaryMsg = fmt.Sprintf("byte %d before the line changed to %#x", i-pad, full[i])
			break
		}
	}
	if canaryMsg == "" {
		for i := pad + len(c.Line); i < len(full); i++ {
			if full[i] != canary {
				canaryMsg = fmt.Sprintf("byte +%d after the line changed to %#x", i-pad-len(c.Line), full[i])
				break
			}
		}
	}
	if derr == nil {
		// (the caller's line may be refilled before the event is encoded)
		for k := range line {
			line[k] = '#'
		}
		encoded = root.EncodeToString()
	}
	return encoded, derr, canaryMsg
}

func runTotal(c TotalCase) *vkit.Outcome {
	o := vkit.NewOutcome()
	o.Class("decoder=" + c.Decoder)
	encoded, derr, canaryMsg := decodeOnce(c)
	if canaryMsg != "" {
		o.Failf(P, "buffer-outside-line-altered:"+c.Decoder, "%s decoder: %s (line %q)", c.Decoder, canaryMsg, c.Line)
	}
	if derr != nil {
		o.Class("rejected")
		if strings.HasPrefix(derr.Error(), "params rejected") {
			o.Class("params-rejected")
		}
		return o
	}
	o.Class("accepted")
	if !json.Valid([]byte(encoded)) && c.Decoder == "json" && !json.Valid(c.Line) {
		// the record itself is not valid JSON; the lazy parser (insane-json, outside /repo)
		// let it through and the event re-emits the malformed part verbatim
		o.Failf(P, "invalid-json-accepted-and-reemitted:json", "json decoder accepted the invalid record %q and the event encodes to invalid JSON: %q", c.Line, encoded)
	} else if !json.Valid([]byte(encoded)) {
		o.Failf(P, "malformed-event:"+c.Decoder, "%s decoder accepted %q (params %v) but the event does not encode to valid JSON: %q", c.Decoder, c.Line, c.Params, encoded)
	}
	// non-trivial: input got past the first delimiter of its format (= it was accepted, or is a mutated seed)
	o.Nontrivial(P)
	return o
}

var propTotal = vkit.NewProp([]string{P}, "c12total", genTotal, runTotal)

func TestC12Totality(t *testing.T) { propTotal.Check(t) }

// ------------------------------------------------------------------ JSON fidelity

// FidCase is a JSON document in text form plus rendering choices.
type FidCase struct {
	Doc       string `json:"doc"`
	NL        bool   `json:"nl"`
	EscapeAll bool   `json:"escape_all"` // render non-ASCII as \uXXXX escapes
	Spaces    bool   `json:"spaces"`
}

func escapeNonASCII(s string) string {
	var sb strings.Builder
	inStr := false
	for i := 0; i < len(s); {
		c := s[i]
		if c == '"' && (i == 0 || s[i-1] != '\\' || backslashesEven(s, i)) {
			inStr = !inStr
		}
		if inStr && c >= 0x80 {
			r, n := utf8.DecodeRuneInString(s[i:])
			if r >= 0x10000 {
				r -= 0x10000
				fmt.Fprintf(&sb, `\u%04x\u%04x`, 0xd800+(r>>10), 0xdc00+(r&0x3ff))
			} else {
				fmt.Fprintf(&sb, `\u%04x`, r)
			}
			i += n
			continue
		}
		sb.WriteByte(c)
		i++
	}
	return sb.String()
}

func backslashesEven(s string, i int) bool {
	n := 0
	for j := i - 1; j >= 0 && s[j] == '\\'; j-- {
		n++
	}
	return n%2 == 0
}

func genFid(t *rapid.T) FidCase {
	o := &vkit.TreeOpts{MaxDepth: rapid.IntRange(1, 4).Draw(t, "depth"), MaxWidth: rapid.IntRange(1, 5).Draw(t, "width")}
	doc := vkit.GenObject(t, "doc", o, 0)
	return FidCase{Doc: doc.Encode(), NL: rapid.Bool().Draw(t, "nl"), EscapeAll: rapid.Bool().Draw(t, "esc"), Spaces: rapid.Bool().Draw(t, "sp")}
}

func renderDoc(c FidCase) []byte {
	text := c.Doc
	if c.EscapeAll {
		text = escapeNonASCII(text)
	}
	if c.Spaces {
		var buf bytes.Buffer
		if json.Indent(&buf, []byte(text), "", " \t") == nil {
			text = strings.ReplaceAll(buf.String(), "\n", " ") // a record is one line
		}
	}
	if c.NL {
		text += "\n"
	}
	return []byte(text)
}

func runFid(c FidCase) *vkit.Outcome {
	o := vkit.NewOutcome()
	want, err := vkit.ParseJSON([]byte(c.Doc))
	if err != nil {
		o.Class("generator-produced-invalid-json")
		return o
	}
	line := renderDoc(c)
	enc, derr, canaryMsg := decodeOnce(TotalCase{Decoder: "json", Line: line})
	if canaryMsg != "" {
		o.Failf(P, "buffer-outside-line-altered:json", "%s", canaryMsg)
	}
	if derr != nil {
		o.Failf(P, "json-valid-object-rejected", "valid JSON object %q rejected: %v", line, derr)
		return o
	}
	got, perr := vkit.ParseJSON([]byte(enc))
	if perr != nil {
		o.Failf(P, "malformed-event:json", "re-encoded event is not valid JSON: %q (%v) from %q", enc, perr, line)
		return o
	}
	if d := vkit.DiffJ(want, got, false); d != "" {
		o.Failf(P, "json-roundtrip-changed", "decode+encode changed the document: %s\n in: %q\nout: %q", d, line, enc)
	}
	nStr, nEsc := 0, 0
	want.Walk(nil, func(_ []string, n *vkit.JNode) {
		if n.Kind == 's' {
			nStr++
			if strings.ContainsAny(n.Str, "\"\\\n\t\x00") || !isASCII(n.Str) {
				nEsc++
			}
		}
	})
	if len(want.Keys) >= 2 && nEsc > 0 {
		o.Nontrivial(P)
		o.Class("fidelity-with-escapes")
	}
	return o
}

func isASCII(s string) bool {
	for i := 0; i < len(s); i++ {
		if s[i] >= 0x80 {
			return false
		}
	}
	return true
}

var propFid = vkit.NewProp([]string{P}, "c12jsonfid", genFid, runFid)

func TestC12JSONFidelity(t *testing.T) { propFid.Check(t) }

// ------------------------------------------------------------------ json_max_fields_size

// CutCase: a document, limits by path, rendering.
type CutCase struct {
	Doc       string         `json:"doc"`
	Limits    map[string]int `json:"limits"` // dotted path of plain names -> limit
	NL        bool           `json:"nl"`
	EscapeAll bool           `json:"escape_all"`
}

var cutKeys = []string{"a", "b", "level", "message", "m", "ts"}

func genCut(t *rapid.T) CutCase {
	o := &vkit.TreeOpts{MaxDepth: rapid.IntRange(1, 3).Draw(t, "depth"), MaxWidth: 4, Keys: cutKeys}
	doc := vkit.GenObject(t, "doc", o, 0)
	// make string leaves frequent and sometimes long
	var paths []string
	doc.Walk(nil, func(p []string, n *vkit.JNode) {
		if len(p) > 0 && !strings.HasPrefix(p[len(p)-1], "[") {
			ok := true
			for _, seg := range p {
				if strings.HasPrefix(seg, "[") {
					ok = false
				}
			}
			if ok {
				paths = append(paths, strings.Join(p, "."))
			}
		}
	})
	paths = append(paths, "nope", "a.nope")
	lim := map[string]int{}
	n := rapid.IntRange(1, 3).Draw(t, "nlim")
	for i := 0; i < n; i++ {
		lim[rapid.SampledFrom(paths).Draw(t, "path")] = rapid.IntRange(0, 10).Draw(t, "limit")
	}
	text := doc.Encode()
	// lone / unpaired surrogate escapes are valid JSON (decoded as U+FFFD) and sit right at the end of a value
	if rapid.IntRange(0, 3).Draw(t, "lone_surrogate") == 0 {
		var ends []int // positions of the closing quote of string VALUES
		inStr := false
		for i := 0; i < len(text); i++ {
			switch {
			case inStr && text[i] == '\\':
				i++
			case text[i] == '"':
				if inStr && i+1 < len(text) && text[i+1] != ':' {
					ends = append(ends, i)
				}
				inStr = !inStr
			}
		}
		if len(ends) > 0 {
			at := ends[rapid.IntRange(0, len(ends)-1).Draw(t, "surrogate_at")]
			esc := rapid.SampledFrom([]string{`\ud83d`, `\udc00`, `\ud83d\u0041`, `\ud83d\ude00`, `a\ud83d`}).Draw(t, "surrogate")
			text = text[:at] + esc + text[at:]
		}
	}
	return CutCase{Doc: text, Limits: lim, NL: rapid.Bool().Draw(t, "nl"), EscapeAll: rapid.Bool().Draw(t, "esc")}
}

func runCut(c CutCase) *vkit.Outcome {
	o := vkit.NewOutcome()
	want, err := vkit.ParseJSON([]byte(c.Doc))
	if err != nil {
		return o
	}
	params := map[string]any{}
	lm := map[string]any{}
	for k, v := range c.Limits {
		lm[k] = float64(v)
	}
	params["json_max_fields_size"] = lm
	line := renderDoc(FidCase{Doc: c.Doc, NL: c.NL, EscapeAll: c.EscapeAll})
	enc, derr, canaryMsg := decodeOnce(TotalCase{Decoder: "json", Params: params, Line: line})
	if canaryMsg != "" {
		o.Failf(P, "buffer-outside-line-altered:json", "%s", canaryMsg)
	}
	if derr != nil {
		o.Failf(P, "json-cut-broke-document", "valid JSON %q with limits %v rejected after cutting: %v", line, c.Limits, derr)
		return o
	}
	got, perr := vkit.ParseJSON([]byte(enc))
	if perr != nil {
		o.Failf(P, "json-cut-broke-document", "limits %v turned %q into invalid JSON %q (%v)", c.Limits, line, enc, perr)
		return o
	}
	// expected: identical except named string fields, which are prefixes within the limit
	cutApplied, cutEscaped := false, false
	exp := want.Clone()
	type named struct {
		orig  string
		limit int
	}
	namedLeaves := map[*vkit.JNode]named{}
	for path, limit := range c.Limits {
		n := exp.Dig(strings.Split(path, ".")...)
		if n != nil && n.Kind == 's' {
			if prev, dup := namedLeaves[n]; !dup || limit < prev.limit {
				namedLeaves[n] = named{n.Str, limit}
			}
		}
	}
	// walk both trees in parallel
	var cmp func(e, g *vkit.JNode, path string)
	cmp = func(e, g *vkit.JNode, path string) {
		if o.Failed() {
			return
		}
		if nm, ok := namedLeaves[e]; ok {
			if g == nil || g.Kind != 's' {
				o.Failf(P, "json-cut-changed-other", "%s: named string field became %v", path, g)
				return
			}
			gs := g.Str
			if !strings.HasPrefix(nm.orig, gs) {
				// allow a cut in the middle of a multi-byte rune (replacement char at the end)
				trimmed := strings.TrimRight(gs, "�")
				if !strings.HasPrefix(strings.ToValidUTF8(nm.orig, "�"), trimmed) {
					o.Failf(P, "json-cut-not-prefix", "%s: %q is not a prefix of the original %q (limit %d)", path, gs, nm.orig, nm.limit)
					return
				}
				gs = trimmed
			}
			if len(nm.orig) <= nm.limit && gs != nm.orig {
				o.Failf(P, "json-cut-within-limit", "%s: value %q within limit %d was changed to %q", path, nm.orig, nm.limit, gs)
				return
			}
			if len(gs) > nm.limit && utf8.RuneCountInString(gs) > nm.limit {
				o.Failf(P, "json-cut-over-limit", "%s: result %q is longer than limit %d (original %q)", path, gs, nm.limit, nm.orig)
				return
			}
			if gs != nm.orig {
				cutApplied = true
				if strings.ContainsAny(nm.orig, "\"\\\n\t\x00") || !isASCII(nm.orig) {
					cutEscaped = true
				}
			}
			return
		}
		if g == nil || e.Kind != g.Kind {
			o.Failf(P, "json-cut-changed-other", "%s: changed from %s to %v", path, e.Encode(), encodeOrNil(g))
			return
		}
		switch e.Kind {
		case 'o':
			if len(e.Keys) != len(g.Keys) {
				o.Failf(P, "json-cut-changed-other", "%s: keys %q became %q", path, e.Keys, g.Keys)
				return
			}
			for i, k := range e.Keys {
				if g.Keys[i] != k {
					o.Failf(P, "json-cut-changed-other", "%s: keys %q became %q", path, e.Keys, g.Keys)
					return
				}
				cmp(e.Vals[i], g.Vals[i], path+"."+k)
			}
		case 'a':
			if len(e.Vals) != len(g.Vals) {
				o.Failf(P, "json-cut-changed-other", "%s: array length changed", path)
				return
			}
			for i := range e.Vals {
				cmp(e.Vals[i], g.Vals[i], fmt.Sprintf("%s[%d]", path, i))
			}
		default:
			if d := vkit.DiffJ(e, g, true); d != "" {
				o.Failf(P, "json-cut-changed-other", "%s: not a named field but changed: %s", path, d)
			}
		}
	}
	cmp(exp, got, "$")
	if o.Failed() {
		o.AppendContext(fmt.Sprintf("doc %q limits %v line %q -> %q", c.Doc, c.Limits, line, enc))
	}
	if cutApplied {
		o.Class("cut-applied")
		o.Nontrivial(P)
	}
	if cutEscaped {
		o.Class("cut-applied-to-escaped-value")
	}
	return o
}

func encodeOrNil(n *vkit.JNode) string {
	if n == nil {
		return "<missing>"
	}
	return n.Encode()
}

var propCut = vkit.NewProp([]string{P}, "c12jsoncut", genCut, runCut)

func TestC12JSONCut(t *testing.T) { propCut.Check(t) }
