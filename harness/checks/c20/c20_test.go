// Package c20 decides C20 — admission control drops only what the settings
// say, and only that.
//
//	entrance_test.go  (a) entrance rules through the real Pipeline.In (virtual time):
//	                      empty / max_event_size / cut-off / mark field / decoder json|raw / PassEvent;
//	                  (c) the antispam clauses through the full pipeline (virtual time, maintenance
//	                      rounds at known instants)
//	antispam_test.go  (b) antispam.Antispammer driven directly: sequential histories with a
//	                      metamorphic "delete one source" re-run, and concurrent IsSpam batches
//
// This file: the reference models shared by (b) and (c) — match rules of the
// exceptions, do_if conditions of the rules, the one-directional counter model.
// They are written from pipeline/README.md, pipeline/antispam/README.md and
// cfg/matchrule/README.md only.
package c20

import (
	"fmt"
	"strings"
	"testing"

	"github.com/ozontech/file.d/cfg/matchrule"
	"github.com/ozontech/file.d/pipeline/antispam"
	"github.com/ozontech/file.d/pipeline/doif"
	"github.com/ozontech/file.d/zzverif/fdkit"
	"github.com/ozontech/file.d/zzverif/vkit"
	"pgregory.net/rapid"
)

const P = "C20"

func TestMain(m *testing.M)   { fdkit.InstallLogger(); vkit.Main(m) }
func TestReplay(t *testing.T) { vkit.Replay(t) }

// ------------------------------------------------------------------ exceptions (match rules)

// MRule is one match rule of an exception (cfg/matchrule/README.md "Rule").
type MRule struct {
	Mode   string   `json:"mode"` // prefix | suffix | contains
	Values []string `json:"values"`
	CI     bool     `json:"case_insensitive,omitempty"`
	Invert bool     `json:"invert,omitempty"`
}

// Exc is one antispam exception (pipeline/antispam/README.md "Exception parameters").
type Exc struct {
	Name            string  `json:"name,omitempty"`
	Cond            string  `json:"cond"` // and | or
	Rules           []MRule `json:"rules"`
	CheckSourceName bool    `json:"check_source_name,omitempty"`
}

// model: "all values and the checking contents are converted to lowercase", then
// prefix = first bytes, suffix = last bytes, contains = substring; a rule matches when
// at least one value matches; invert negates the rule.
func (r MRule) match(data string) bool {
	ok := false
	for _, v := range r.Values {
		d := data
		if r.CI {
			d, v = strings.ToLower(d), strings.ToLower(v)
		}
		switch r.Mode {
		case "prefix":
			ok = ok || strings.HasPrefix(d, v)
		case "suffix":
			ok = ok || strings.HasSuffix(d, v)
		default:
			ok = ok || strings.Contains(d, v)
		}
	}
	return ok != r.Invert
}

// "and": all rules match; "or": at least one rule matches.
func (e Exc) match(event, sourceName string) bool {
	data := event
	if e.CheckSourceName {
		data = sourceName
	}
	if e.Cond == "or" {
		for _, r := range e.Rules {
			if r.match(data) {
				return true
			}
		}
		return false
	}
	for _, r := range e.Rules {
		if !r.match(data) {
			return false
		}
	}
	return true
}

func anyExc(excs []Exc, event, sourceName string) bool {
	for _, e := range excs {
		if e.match(event, sourceName) {
			return true
		}
	}
	return false
}

// real builds the prepared antispam.Exceptions (what fd.extractPipelineParams does).
func realExceptions(excs []Exc) antispam.Exceptions {
	if len(excs) == 0 {
		return nil
	}
	out := make(antispam.Exceptions, 0, len(excs))
	for _, e := range excs {
		rs := matchrule.RuleSet{Name: e.Name, Cond: matchrule.CondAnd}
		if e.Cond == "or" {
			rs.Cond = matchrule.CondOr
		}
		for _, r := range e.Rules {
			mr := matchrule.Rule{Values: append([]string{}, r.Values...), CaseInsensitive: r.CI, Invert: r.Invert}
			switch r.Mode {
			case "prefix":
				mr.Mode = matchrule.ModePrefix
			case "suffix":
				mr.Mode = matchrule.ModeSuffix
			default:
				mr.Mode = matchrule.ModeContains
			}
			rs.Rules = append(rs.Rules, mr)
		}
		out = append(out, antispam.Exception{RuleSet: rs, CheckSourceName: e.CheckSourceName})
	}
	out.Prepare()
	return out
}

// fragments the generated events / source names are made of, so that rules hit and miss
var eventPool = []string{
	`{"level":"debug","msg":"x"}`,
	`{"level":"error","msg":"boom"}`,
	`{"level":"info","msg":"payment ok"}`,
	`{"LEVEL":"ERROR","msg":"Kelvin K"}`,
	`{"level":"warn","msg":"İD 1234"}`,
	`{"msg":"ok"}`,
	`panic: not json`,
	`{"level":"error","msg":"a long tail ` + "0123456789012345678901234567890123456789" + `"}`,
}
var namePool = []string{"app.log", "/var/log/pods/Payment_api.log", "svc-İ", "kube-system/coredns", "x"}
var fragPool = []string{`{"level":"debug"`, `{"level":"error"`, `error`, `ERROR`, `"}`, `ok"}`, `k`, "K", `İd`, `i̇d`, `payment`, `Payment`, `.log`, `app`, `kube-system/`, `x`, `msg`, `9"}`, ``, `zzz`}

func genExc(t *rapid.T, label string) Exc {
	e := Exc{Cond: rapid.SampledFrom([]string{"and", "or"}).Draw(t, label+"/cond")}
	if rapid.Bool().Draw(t, label+"/named") {
		e.Name = "exc_" + label
	}
	e.CheckSourceName = rapid.IntRange(0, 3).Draw(t, label+"/src") == 0
	n := rapid.IntRange(1, 3).Draw(t, label+"/nrules")
	for i := 0; i < n; i++ {
		r := MRule{Mode: rapid.SampledFrom([]string{"prefix", "suffix", "contains"}).Draw(t, label+"/mode")}
		nv := rapid.IntRange(1, 3).Draw(t, label+"/nvals")
		for j := 0; j < nv; j++ {
			r.Values = append(r.Values, rapid.SampledFrom(fragPool).Draw(t, label+"/val"))
		}
		r.CI = rapid.IntRange(0, 2).Draw(t, label+"/ci") == 0
		r.Invert = rapid.IntRange(0, 4).Draw(t, label+"/inv") == 0
		e.Rules = append(e.Rules, r)
	}
	return e
}

// ------------------------------------------------------------------ antispam rules (do_if)

// Cond is a do_if tree restricted to what the antispam README allows: field ops on
// source_name / event / meta.<name>, combined by and / or / not.
type Cond struct {
	Op       string   `json:"op"` // equal | prefix | suffix | contains | and | or | not
	Field    string   `json:"field,omitempty"`
	Values   []string `json:"values,omitempty"`
	Operands []Cond   `json:"operands,omitempty"`
}

// ARule is one antispam rule.
type ARule struct {
	Name      string `json:"name"`
	Threshold int    `json:"threshold"` // -1 no limit, 0 discard all, >0 threshold
	If        Cond   `json:"do_if"`
}

func (c Cond) toMap() map[string]any {
	m := map[string]any{"op": c.Op}
	switch c.Op {
	case "and", "or", "not":
		ops := []any{}
		for _, o := range c.Operands {
			ops = append(ops, o.toMap())
		}
		m["operands"] = ops
	default:
		m["field"] = c.Field
		vals := []any{}
		for _, v := range c.Values {
			vals = append(vals, v)
		}
		m["values"] = vals
	}
	return m
}

// eval: values are non-empty strings, so an absent meta field never matches.
func (c Cond) eval(event, sourceName string, meta map[string]string) bool {
	switch c.Op {
	case "and":
		for _, o := range c.Operands {
			if !o.eval(event, sourceName, meta) {
				return false
			}
		}
		return true
	case "or":
		for _, o := range c.Operands {
			if o.eval(event, sourceName, meta) {
				return true
			}
		}
		return false
	case "not":
		return !c.Operands[0].eval(event, sourceName, meta)
	}
	var data string
	switch {
	case c.Field == "event":
		data = event
	case c.Field == "source_name":
		data = sourceName
	default:
		v, ok := meta[strings.TrimPrefix(c.Field, "meta.")]
		if !ok {
			return false
		}
		data = v
	}
	for _, v := range c.Values {
		switch c.Op {
		case "equal":
			if data == v {
				return true
			}
		case "prefix":
			if strings.HasPrefix(data, v) {
				return true
			}
		case "suffix":
			if strings.HasSuffix(data, v) {
				return true
			}
		case "contains":
			if strings.Contains(data, v) {
				return true
			}
		}
	}
	return false
}

func realRules(rules []ARule) (antispam.Rules, error) {
	if len(rules) == 0 {
		return nil, nil
	}
	out := antispam.Rules{}
	for _, r := range rules {
		ch, err := doif.NewFromMap(r.If.toMap())
		if err != nil {
			return nil, fmt.Errorf("rule %s: %w", r.Name, err)
		}
		out = append(out, antispam.Rule{Name: r.Name, Threshold: r.Threshold, DoIfChecker: ch})
	}
	return out, nil
}

var ruleFrags = []string{`{"level":"debug"`, `{"level":"error"`, `error`, `ok"}`, `payment`, `.log`, `app`, `kube-system/`, `x`, `panic`, `"}`}
var metaVals = []string{"billing", "search", "x"}

func genLeaf(t *rapid.T, label string) Cond {
	c := Cond{Op: rapid.SampledFrom([]string{"prefix", "contains", "suffix", "equal"}).Draw(t, label+"/op")}
	c.Field = rapid.SampledFrom([]string{"event", "event", "source_name", "meta.svc"}).Draw(t, label+"/field")
	n := rapid.IntRange(1, 2).Draw(t, label+"/nv")
	for i := 0; i < n; i++ {
		switch {
		case c.Field == "meta.svc":
			c.Values = append(c.Values, rapid.SampledFrom(metaVals).Draw(t, label+"/mv"))
		case c.Op == "equal" && c.Field == "source_name":
			c.Values = append(c.Values, rapid.SampledFrom(namePool).Draw(t, label+"/nv"))
		case c.Op == "equal":
			c.Values = append(c.Values, rapid.SampledFrom(eventPool).Draw(t, label+"/ev"))
		default:
			c.Values = append(c.Values, rapid.SampledFrom(ruleFrags).Draw(t, label+"/fv"))
		}
	}
	return c
}

func genCond(t *rapid.T, label string) Cond {
	switch rapid.IntRange(0, 5).Draw(t, label+"/shape") {
	case 0:
		return Cond{Op: "not", Operands: []Cond{genLeaf(t, label+"/n")}}
	case 1:
		return Cond{Op: rapid.SampledFrom([]string{"and", "or"}).Draw(t, label+"/lop"),
			Operands: []Cond{genLeaf(t, label+"/l"), genLeaf(t, label+"/r")}}
	default:
		return genLeaf(t, label)
	}
}

// ------------------------------------------------------------------ the counter model
//
// What the documents guarantee (pipeline/README.md antispam_threshold / threshold, antispam/README.md):
//   - threshold -1 (and no rules): disabled; an event that matches an exception "is not accounted";
//     rule / common threshold -1 = no limit, 0 = discard all logs;
//   - "the counter for the source is incremented for each incoming log. When the counter is greater or
//     equal to the threshold value, the source is banned"; "bans sources which write `threshold` or more
//     logs in `maintenance_interval` time";
//   - "The source remains banned until its counter falls below the threshold … decremented by the
//     threshold once per maintenance interval", the ban counter is capped at unban_iterations*threshold.
//
// The model is used ONE-DIRECTIONALLY:
//   mayBeSpam(event)  = the source has had >= threshold(event) accounted events since the previous
//                       maintenance round (this one included), or may still hold a ban;
//   a ban "may be held" from the moment the count since the previous round reached the event's threshold
//   until the source has been silent for unban_iterations+1 consecutive maintenance rounds
//   (a banned source that keeps writing may stay banned for as long as it writes: not constrained);
//   mustBeSpam(event) = README's counter rule in the cases where it is unambiguous (see strict below).
type srcModel struct {
	n            int  // accounted events since the previous maintenance round
	banMay       bool // a ban may be in force
	silentRounds int  // consecutive maintenance rounds without an accounted or exempt event
	// strict (documented) part: number of consecutive accounted events in this round that all carried
	// the same threshold, counted from the round start / the last new-source reset
	strictN  int
	strictT  int
	strictOK bool
	everBan  bool // a justified spam decision was observed
	lifted   bool // ... and a later event of the source was accepted after a maintenance round
	roundsSinceSpam int
}

type spamModel struct {
	unban int
	src   map[string]*srcModel
}

func newSpamModel(unban int) *spamModel { return &spamModel{unban: unban, src: map[string]*srcModel{}} }

func (m *spamModel) get(id string) *srcModel {
	s := m.src[id]
	if s == nil {
		s = &srcModel{strictOK: true}
		m.src[id] = s
	}
	return s
}

// verdict of the model for one accounted event
type verdict struct {
	may, must bool
	n         int
	why       string
}

// event books one event that reaches the counter (not exempt, threshold > 0).
// counted=false: the documents do not say whether this event increments the counter (event times
// further apart than the interval), so it only weakens the strict part.
func (m *spamModel) event(id string, threshold int, isNew, counted bool) verdict {
	s := m.get(id)
	if s.silentRounds >= m.unban+1 {
		s.banMay = false
	}
	s.silentRounds = 0
	if isNew {
		// IsSpam resets the counter of a source reported as new and never refuses its first event; the
		// documents say nothing about it, so only the strict count is restarted and the weak bounds stay
		s.n++
		if s.n >= threshold {
			s.banMay = true
		}
		s.strictN, s.strictOK, s.strictT = 0, true, 0
		return verdict{may: s.n >= threshold || s.banMay, must: false, n: s.n, why: "new source"}
	}
	s.n++
	if s.n >= threshold {
		s.banMay = true
	}
	if !counted {
		s.strictOK = false
	}
	if s.strictN == 0 {
		s.strictT = threshold
	} else if s.strictT != threshold {
		s.strictOK = false // how differing per-rule thresholds share one counter is not documented
	}
	s.strictN++
	v := verdict{n: s.n}
	v.may = s.n >= threshold || s.banMay
	// strict: >= threshold accounted logs of one threshold in this round => banned (unban >= 1)
	v.must = s.strictOK && s.strictN >= threshold && m.unban >= 1
	return v
}

// touch books an exempt event (keeps the source "not silent" in the weak reading).
func (m *spamModel) touch(id string) {
	s := m.get(id)
	if s.silentRounds >= m.unban+1 {
		s.banMay = false
	}
	s.silentRounds = 0
}

func (m *spamModel) maintenance() {
	for _, s := range m.src {
		s.n = 0
		s.strictN, s.strictOK, s.strictT = 0, true, 0
		s.silentRounds++
		s.roundsSinceSpam++
	}
}

// bookEvent books one event in the model and judges the observed decision
// (1 = refused as spam, 0 = not spam, -1 = not observable).
func bookEvent(o *vkit.Outcome, m *spamModel, id, kind string, thr int, isNew, counted bool, decision int, hasRules bool, ctx func() string) {
	spam, pass := decision == 1, decision == 0
	switch kind {
	case "disabled":
		if spam {
			o.Failf(P, "disabled-antispam-dropped-event", "antispam is disabled (threshold -1), but the event was refused as spam: %s", ctx())
		}
	case "exempt":
		m.touch(id)
		if spam {
			sig := "exception-matched-but-dropped"
			if hasRules {
				sig = "exception-ignored-when-rules-configured"
			}
			o.Failf(P, sig, "the event matches an exception but was refused as spam: %s", ctx())
		}
	case "off":
		m.touch(id)
		if spam {
			o.Failf(P, "unlimited-threshold-dropped-event", "the applicable threshold is -1 (no limit) but the event was refused as spam: %s", ctx())
		}
	case "blocked":
		m.touch(id)
		if pass && !isNew {
			// documented: threshold 0 = discard all logs
			o.Failf(P, "threshold-0-did-not-discard", "the applicable threshold is 0 (discard all logs) but the event was not refused: %s", ctx())
		}
	default:
		s := m.get(id)
		wasBan := s.everBan
		v := m.event(id, thr, isNew, counted)
		switch {
		case spam && !v.may:
			o.Failf(P, "spam-without-threshold-events", "refused as spam, but the source has had only %d accounted events since the previous maintenance round (threshold %d) and cannot hold a ban (it never reached a threshold, or was silent for >= unban_iterations+1 rounds since): %s", v.n, thr, ctx())
		case pass && v.must:
			o.Failf(P, "threshold-reached-but-not-banned", "%d accounted events of threshold %d since the previous maintenance round, but the event was not refused: %s", s.strictN, thr, ctx())
		}
		if spam {
			s.everBan = true
			s.roundsSinceSpam = 0
		} else if pass && wasBan && s.roundsSinceSpam > 0 && !isNew {
			s.lifted = true
		}
	}
}

func (m *spamModel) anyLifted() bool {
	for _, s := range m.src {
		if s.lifted {
			return true
		}
	}
	return false
}
