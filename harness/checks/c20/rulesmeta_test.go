package c20

// Antispam rules over meta fields, null against the empty string: a do_if `equal` with `values: [null]`
// selects records that do NOT carry the field, `values: [""]` those that carry it empty (doif README:
// "null" matches an absent field or an explicit null). A rule with threshold -1 built on either protects
// exactly its records; the others fall under the common threshold.

import (
	"fmt"
	"testing"
	"time"

	"github.com/ozontech/file.d/pipeline/antispam"
	"github.com/ozontech/file.d/pipeline/doif"
	"github.com/ozontech/file.d/zzverif/fdkit"
	"github.com/ozontech/file.d/zzverif/vkit"
	"pgregory.net/rapid"
)

type RulesMetaCase struct {
	Threshold int      `json:"threshold"`
	Value     string   `json:"value"` // what the rule compares meta.svc with: "null" | "empty" | a word
	Negate    bool     `json:"negate"`
	Metas     []string `json:"metas"` // per source: "absent" | "empty" | a word
	Calls     int      `json:"calls"`
}

func genRulesMeta(t *rapid.T) RulesMetaCase {
	c := RulesMetaCase{
		Threshold: rapid.IntRange(1, 5).Draw(t, "threshold"),
		Value:     rapid.SampledFrom([]string{"null", "null", "empty", "billing"}).Draw(t, "value"),
		Negate:    rapid.IntRange(0, 3).Draw(t, "negate") == 0,
		Calls:     rapid.IntRange(6, 30).Draw(t, "calls"),
	}
	for i, n := 0, rapid.IntRange(2, 4).Draw(t, "sources"); i < n; i++ {
		c.Metas = append(c.Metas, rapid.SampledFrom([]string{"absent", "absent", "empty", "billing", "search"}).Draw(t, "meta"))
	}
	return c
}

func runRulesMeta(c RulesMetaCase) *vkit.Outcome {
	o := vkit.NewOutcome()
	if c.Threshold < 1 || c.Calls < 1 || c.Calls > 1000 || len(c.Metas) == 0 || len(c.Metas) > 8 {
		o.Class("invalid-case")
		return o
	}
	var val any = c.Value
	switch c.Value {
	case "null":
		val = nil
	case "empty":
		val = ""
	}
	rule := map[string]any{"op": "equal", "field": "meta.svc", "values": []any{val}}
	if c.Negate {
		rule = map[string]any{"op": "not", "operands": []any{rule}}
	}
	ch, err := doif.NewFromMap(rule)
	if err != nil {
		o.Failf(P, "rules-meta:valid-rule-rejected", "%v: %v", rule, err)
		return o
	}
	a := antispam.NewAntispammer(&antispam.Options{
		MaintenanceInterval: time.Hour, Threshold: c.Threshold, UnbanIterations: 4,
		Rules:             antispam.Rules{{Name: "unlimited", Threshold: -1, DoIfChecker: ch}},
		Logger:            fdkit.NewLogger(),
		MetricsController: fdkit.MetricCtl(fdkit.UniqueName("c20rm")),
	})
	protectedSeen, countedSeen := false, false
	for s, m := range c.Metas {
		var meta map[string]string
		match := false
		switch m {
		case "absent":
			meta = map[string]string{"other": "x"}
			match = c.Value == "null"
		case "empty":
			meta = map[string]string{"svc": ""}
			match = c.Value == "empty"
		default:
			meta = map[string]string{"svc": m}
			match = c.Value == m
		}
		if c.Negate {
			match = !match
		}
		refused := 0
		for k := 0; k < c.Calls; k++ {
			if a.IsSpam(fmt.Sprint(s), fmt.Sprintf("src-%d.log", s), false, []byte(`{"level":"info","msg":"x"}`), time.Time{}, meta) {
				refused++
			}
		}
		what := fmt.Sprintf("source %d with meta svc=%s sent %d events; rule {equal meta.svc [%s]} negate=%v with threshold -1, common threshold %d", s, m, c.Calls, c.Value, c.Negate, c.Threshold)
		if match {
			protectedSeen = true
			if refused > 0 {
				o.Failf(P, "rules-meta:event-of-unlimited-rule-refused", "%s: %d refused although the rule selects them", what, refused)
			}
		} else {
			countedSeen = true
			if want := c.Calls - (c.Threshold - 1); c.Calls >= c.Threshold && refused != want {
				o.Failf(P, "rules-meta:unselected-events-not-limited", "%s: the rule does not select them, so %d of them must be refused; %d were", what, want, refused)
			}
		}
	}
	if protectedSeen && countedSeen {
		o.Nontrivial(P)
	}
	o.Class("rules-meta:rule-value=" + c.Value)
	return o
}

var propRM = vkit.NewProp([]string{P}, "c20rulesmeta", genRulesMeta, runRulesMeta)

func TestC20RulesMeta(t *testing.T) { propRM.Check(t) }
