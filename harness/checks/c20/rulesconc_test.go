package c20

// Antispam rules evaluated concurrently: the rule checkers of an antispammer are shared by every input
// goroutine (IsSpam is called from all of them). A source whose events match a rule with threshold -1
// ("no limit") is never refused, whatever other sources send at the same time - the decision about one
// event must not see another event's bytes.

import (
	"fmt"
	"strings"
	"sync"
	"testing"
	"time"

	"github.com/ozontech/file.d/pipeline/antispam"
	"github.com/ozontech/file.d/pipeline/doif"
	"github.com/ozontech/file.d/zzverif/fdkit"
	"github.com/ozontech/file.d/zzverif/vkit"
	"pgregory.net/rapid"
)

type RulesConcCase struct {
	Threshold     int    `json:"threshold"`
	Op            string `json:"op"` // prefix | contains | suffix | equal
	CaseSensitive bool   `json:"case_sensitive"`
	Needle        string `json:"needle"`   // ASCII; the protected events carry it (in another letter case when the rule is case-insensitive)
	Protected     string `json:"protected"` // event of source 0: matches the rule
	Others        []string `json:"others"`  // events of sources 1..: do not match
	Calls         int    `json:"calls"`    // per source
	Goroutines    int    `json:"goroutines"` // per source
}

var rcWords = []string{"audit", "payment", "healthz", "panic", "GET /ready", "x-trace", "kernel"}

func genRulesConc(t *rapid.T) RulesConcCase {
	c := RulesConcCase{
		Threshold:     rapid.IntRange(1, 6).Draw(t, "threshold"),
		Op:            rapid.SampledFrom([]string{"prefix", "contains", "suffix", "equal"}).Draw(t, "op"),
		CaseSensitive: rapid.Bool().Draw(t, "case_sensitive"),
		Calls:         rapid.IntRange(20, 200).Draw(t, "calls"),
		Goroutines:    rapid.IntRange(1, 3).Draw(t, "goroutines"),
	}
	words := rapid.Permutation(rcWords).Draw(t, "words")
	c.Needle = words[0]
	shown := c.Needle
	if !c.CaseSensitive {
		shown = strings.ToUpper(c.Needle)
	}
	filler := rapid.SampledFrom([]string{" user=7", " ok", "", " 0123456789 0123456789"}).Draw(t, "filler")
	switch c.Op {
	case "prefix":
		c.Protected = shown + filler
	case "suffix":
		c.Protected = strings.TrimSpace(filler) + shown
	case "equal":
		c.Protected = shown
	default:
		c.Protected = "pre " + shown + filler
	}
	for i, n := 0, rapid.IntRange(1, 2).Draw(t, "others"); i < n; i++ {
		c.Others = append(c.Others, words[1+i]+rapid.SampledFrom([]string{" line", " LINE 42", "", " user=7"}).Draw(t, "ofill"))
	}
	return c
}

func runRulesConc(c RulesConcCase) *vkit.Outcome {
	o := vkit.NewOutcome()
	isASCII := func(s string) bool {
		for i := 0; i < len(s); i++ {
			if s[i] >= 0x80 {
				return false
			}
		}
		return true
	}
	matches := func(ev string) bool {
		a, b := ev, c.Needle
		if !c.CaseSensitive {
			a, b = strings.ToLower(a), strings.ToLower(b)
		}
		switch c.Op {
		case "prefix":
			return strings.HasPrefix(a, b)
		case "suffix":
			return strings.HasSuffix(a, b)
		case "equal":
			return a == b
		}
		return strings.Contains(a, b)
	}
	if c.Threshold < 1 || c.Calls < 1 || c.Calls > 5000 || c.Goroutines < 1 || c.Goroutines > 8 || len(c.Others) == 0 || len(c.Others) > 4 ||
		!isASCII(c.Needle+c.Protected+strings.Join(c.Others, "")) || !matches(c.Protected) {
		o.Class("invalid-case")
		return o
	}
	for _, ev := range c.Others {
		if matches(ev) {
			o.Class("invalid-case")
			return o
		}
	}
	ch, err := doif.NewFromMap(map[string]any{"op": c.Op, "field": "event", "values": []any{c.Needle}, "case_sensitive": c.CaseSensitive})
	if err != nil {
		o.Failf(P, "rules-concurrent:valid-rule-rejected", "%v", err)
		return o
	}
	a := antispam.NewAntispammer(&antispam.Options{
		MaintenanceInterval: time.Hour, Threshold: c.Threshold, UnbanIterations: 4,
		Rules:             antispam.Rules{{Name: "unlimited", Threshold: -1, DoIfChecker: ch}},
		Logger:            fdkit.NewLogger(),
		MetricsController: fdkit.MetricCtl(fdkit.UniqueName("c20rc")),
	})
	events := append([]string{c.Protected}, c.Others...)
	refused := make([]int, len(events))
	var mu sync.Mutex
	var wg sync.WaitGroup
	start := make(chan struct{})
	for s, ev := range events {
		for g := 0; g < c.Goroutines; g++ {
			wg.Add(1)
			go func(s int, ev string) {
				defer wg.Done()
				<-start
				n := 0
				data := []byte(ev)
				for k := 0; k < c.Calls; k++ {
					if a.IsSpam(fmt.Sprint(s), fmt.Sprintf("src-%d.log", s), false, data, time.Time{}, nil) {
						n++
					}
				}
				mu.Lock()
				refused[s] += n
				mu.Unlock()
			}(s, ev)
		}
	}
	close(start)
	wg.Wait()
	if refused[0] > 0 {
		o.Failf(P, "rules-concurrent:event-of-unlimited-rule-refused", "%d of %d events %q of source 0 were refused although they match the rule {%s event %q case_sensitive=%v, threshold -1 = no limit}; %d other source(s) were sending %q at the same time (threshold %d)",
			refused[0], c.Calls*c.Goroutines, c.Protected, c.Op, c.Needle, c.CaseSensitive, len(c.Others), c.Others, c.Threshold)
	}
	for s := 1; s < len(events); s++ {
		total := c.Calls * c.Goroutines
		if refused[s] > total-(c.Threshold-1) {
			o.Failf(P, "rules-concurrent:refused-before-threshold", "source %d sent %d events %q (not matching the rule), threshold %d: %d refused, at most %d may be", s, total, events[s], c.Threshold, refused[s], total-(c.Threshold-1))
		}
		if total >= c.Threshold && refused[s] == 0 {
			o.Failf(P, "rules-concurrent:threshold-reached-but-not-banned", "source %d sent %d events %q (not matching the rule) at once, threshold %d: none refused", s, total, events[s], c.Threshold)
		}
	}
	o.Nontrivial(P)
	if !c.CaseSensitive {
		o.Class("rules-concurrent:case-insensitive-rule")
	}
	o.Class("rules-concurrent")
	return o
}

var propRC = vkit.NewProp([]string{P}, "c20rulesconcurrent", genRulesConc, runRulesConc)

func TestC20RulesConcurrent(t *testing.T) { propRC.CrashFile = true; propRC.Check(t) }
