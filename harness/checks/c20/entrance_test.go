package c20

import (
	"bytes"
	"encoding/json"
	"fmt"
	"os"
	"runtime/debug"
	"strconv"
	"strings"
	"sync"
	"testing"
	"time"

	"github.com/ozontech/file.d/pipeline"
	"github.com/ozontech/file.d/zzverif/fdkit"
	"github.com/ozontech/file.d/zzverif/vkit"
	"pgregory.net/rapid"
)

// ------------------------------------------------------------------ a real pipeline with harness plugins

// feedItem is one call of Pipeline.In.
type feedItem struct {
	data      []byte
	src       int
	name      string
	isNew     bool
	meta      map[string]string
	passFalse bool          // the input's PassEvent answers false ("already committed")
	gap       time.Duration // virtual pause before the call
}

type delivered struct {
	encoded    string
	message    []byte // value of "message" (raw decoder)
	hasMessage bool
	nFields    int
	markTrue   bool
	markSet    bool
}

type feedResult struct {
	seq       uint64
	at        time.Duration // virtual time since Start when In was called
	out       []delivered
	commits   int
	canaryMsg string
	inPanic   any
	inStack   string
}

type rig struct {
	mu        sync.Mutex
	ctl       pipeline.InputPluginController
	passFalse map[int64]bool
	out       map[int64][]delivered
	commits   map[int64]int
	markField string
}

type rigInput struct{ r *rig }

func (i *rigInput) Start(_ pipeline.AnyConfig, params *pipeline.InputPluginParams) {
	i.r.ctl = params.Controller
}
func (i *rigInput) Stop() {}
func (i *rigInput) PassEvent(e *pipeline.Event) bool {
	i.r.mu.Lock()
	defer i.r.mu.Unlock()
	return !i.r.passFalse[e.Offset]
}
func (i *rigInput) Commit(e *pipeline.Event) {
	i.r.mu.Lock()
	i.r.commits[e.Offset]++
	i.r.mu.Unlock()
}

type rigOutput struct {
	r   *rig
	ctl pipeline.OutputPluginController
}

func (o *rigOutput) Start(_ pipeline.AnyConfig, params *pipeline.OutputPluginParams) {
	o.ctl = params.Controller
}
func (o *rigOutput) Stop() {}
func (o *rigOutput) Out(e *pipeline.Event) {
	d := delivered{encoded: e.Root.EncodeToString()}
	if e.Root.IsObject() {
		d.nFields = len(e.Root.AsFields())
		if n := e.Root.Dig("message"); n != nil && n.IsString() {
			d.hasMessage = true
			d.message = append([]byte{}, n.AsBytes()...)
		}
		if o.r.markField != "" {
			if n := e.Root.Dig(o.r.markField); n != nil {
				d.markSet = true
				d.markTrue = n.IsTrue()
			}
		}
	}
	o.r.mu.Lock()
	o.r.out[e.Offset] = append(o.r.out[e.Offset], d)
	o.r.mu.Unlock()
	o.ctl.Commit(e) // synchronous output (like devnull): commit inside Out
}

const canary = 0xA5
const pad = 16

// pipeRun feeds the items through a real pipeline inside a synctest bubble.
// Record i is offered with offset i+1. firstGap is slept right after Start.
func pipeRun(settings *pipeline.Settings, items []feedItem, firstGap time.Duration) (res []feedResult, bubbleErr any) {
	res = make([]feedResult, len(items))
	func() {
		defer func() { bubbleErr = recover() }()
		vkit.Bubble(func() {
			r := &rig{passFalse: map[int64]bool{}, out: map[int64][]delivered{}, commits: map[int64]int{}, markField: settings.CutOffEventByLimitField}
			for i, it := range items {
				if it.passFalse {
					r.passFalse[int64(i+1)] = true
				}
			}
			p := fdkit.NewPipeline(fdkit.UniqueName("c20"), settings)
			p.SetInput(&pipeline.InputPluginInfo{
				PluginStaticInfo:  &pipeline.PluginStaticInfo{Type: "c20_input"},
				PluginRuntimeInfo: &pipeline.PluginRuntimeInfo{Plugin: &rigInput{r: r}, ID: "c20_input"},
			})
			p.SetOutput(&pipeline.OutputPluginInfo{
				PluginStaticInfo:  &pipeline.PluginStaticInfo{Type: "c20_output"},
				PluginRuntimeInfo: &pipeline.PluginRuntimeInfo{Plugin: &rigOutput{r: r}, ID: "c20_output"},
			})
			start := time.Now()
			p.Start()
			if firstGap > 0 {
				time.Sleep(firstGap)
			}
			feed := func(i int, it feedItem) {
				defer func() {
					if rec := recover(); rec != nil {
						// a panic of file.d code inside In: kept, the bubble is torn down in an orderly way
						res[i].inPanic = rec
						res[i].inStack = string(debug.Stack())
					}
				}()
				if it.gap > 0 {
					time.Sleep(it.gap)
				}
				// the record sits inside a larger caller buffer; the slice's capacity reaches into the
				// bytes behind it, as a slice of a read buffer does
				buf := make([]byte, pad+len(it.data)+pad)
				for k := range buf {
					buf[k] = canary
				}
				copy(buf[pad:], it.data)
				rec := buf[pad : pad+len(it.data)]
				res[i].at = time.Since(start)
				off := int64(i + 1)
				res[i].seq = r.ctl.In(pipeline.SourceID(it.src), it.name, pipeline.NewOffsets(off, nil), rec, it.isNew, it.meta)
				// In has returned: the buffer is the caller's again (a reader refills it with the next bytes
				// of its file or connection at once). What the event carries must not depend on it any more.
				for k := range rec {
					rec[k] = '#'
				}
				// virtual time: one tick lets every runnable goroutine finish its work
				time.Sleep(time.Millisecond)
				if res[i].seq != 0 {
					for k := 0; k < 200; k++ {
						r.mu.Lock()
						done := r.commits[off] > 0
						r.mu.Unlock()
						if done {
							break
						}
						time.Sleep(10 * time.Millisecond)
					}
				}
				for k := 0; k < pad; k++ {
					if buf[k] != canary {
						res[i].canaryMsg = fmt.Sprintf("byte %d before the record changed to %#x", k-pad, buf[k])
					}
					if b := buf[pad+len(it.data)+k]; b != canary && res[i].canaryMsg == "" {
						res[i].canaryMsg = fmt.Sprintf("byte +%d after the record changed to %#x", k, b)
					}
				}
			}
			for i, it := range items {
				feed(i, it)
				if res[i].inPanic != nil {
					break
				}
			}
			time.Sleep(50 * time.Millisecond)
			r.mu.Lock()
			for i := range items {
				res[i].out = r.out[int64(i+1)]
				res[i].commits = r.commits[int64(i+1)]
			}
			r.mu.Unlock()
			p.Stop()
			p.VerifWakeProcessors()
			// let the maintenance goroutines observe the stop flag
			time.Sleep(3 * time.Hour)
		})
	}()
	return res, bubbleErr
}

// reportRun turns infrastructure trouble and panics inside In into failures; true = stop judging.
func reportRun(o *vkit.Outcome, res []feedResult, bubbleErr any, describe func(i int) string) bool {
	for i := range res {
		if res[i].inPanic != nil {
			o.Failf(P, vkit.PanicSig(res[i].inPanic, res[i].inStack), "Pipeline.In panicked: %v\n%s\n%s", res[i].inPanic, describe(i), res[i].inStack)
			return true
		}
	}
	if bubbleErr != nil {
		if pw, ok := bubbleErr.(*vkit.PanicWithStack); ok {
			panic(pw)
		}
		o.Failf(P, "harness:bubble-did-not-end", "%v", bubbleErr)
		return true
	}
	return false
}

func baseSettings() *pipeline.Settings {
	s := fdkit.DefaultSettings()
	s.Capacity = 8
	s.MaintenanceInterval = time.Hour
	s.Antispam.Threshold = -1
	s.Antispam.MaintenanceInterval = time.Hour
	return s
}

// ------------------------------------------------------------------ (a) entrance rules

// EntRecord is one input record.
type EntRecord struct {
	Kind      string `json:"kind"` // json | raw | undecodable | empty
	Body      []byte `json:"body"` // record without its trailing newline (base64 in JSON)
	NL        bool   `json:"nl"`
	PassFalse bool   `json:"pass_false,omitempty"`
	Src       int    `json:"src"`
}

// EntCase is one pipeline configuration and a few records.
type EntCase struct {
	Decoder    string      `json:"decoder"` // json | raw
	Max        int         `json:"max_event_size"`
	CutOff     bool        `json:"cut_off_event_by_limit"`
	CutField   string      `json:"cut_off_event_by_limit_field"`
	Pool       string      `json:"pool"`
	AntispamOn bool        `json:"antispam_on"` // a threshold far above the number of records
	Records    []EntRecord `json:"records"`
}

func (r *EntRecord) bytes() []byte {
	b := append([]byte{}, r.Body...)
	if r.NL {
		b = append(b, '\n')
	}
	return b
}

var entKeys = []string{"a", "b", "level", "message", "msg", "ts", "stream", "id", "user.name", "x y", "ключ", "_cropped", "cut"}

func genEntRecord(t *rapid.T, decoder string, label string) EntRecord {
	r := EntRecord{NL: rapid.Bool().Draw(t, label+"/nl"), Src: rapid.IntRange(1, 2).Draw(t, label+"/src")}
	r.PassFalse = rapid.IntRange(0, 9).Draw(t, label+"/passfalse") == 9
	k := rapid.IntRange(0, 11).Draw(t, label+"/kind")
	switch {
	case k == 11:
		r.Kind = "empty"
		return r
	case decoder == "raw":
		r.Kind = "raw"
		switch rapid.IntRange(0, 5).Draw(t, label+"/rawkind") {
		case 0:
			r.Body = []byte(rapid.SampledFrom([]string{"x", "ab", "\n", "a\nb", "line with spaces  ", "{\"a\":1}", "\r"}).Draw(t, label+"/lit"))
		case 1:
			r.Body = rapid.SliceOfN(rapid.Byte(), 1, 24).Draw(t, label+"/bytes")
		default:
			r.Body = []byte(vkit.GenText(t, label+"/text", &vkit.TextOpts{InvalidUTF8: true}))
		}
		if len(r.Body) == 0 {
			r.Kind = "empty"
		}
		return r
	case k >= 9:
		r.Kind = "undecodable"
		switch rapid.IntRange(0, 2).Draw(t, label+"/badkind") {
		case 0: // a document that ends inside the object (what a truncated write / cut leaves)
			doc := vkit.GenObject(t, label+"/doc", &vkit.TreeOpts{MaxDepth: 2, MaxWidth: 3, Keys: entKeys}, 0).Encode()
			r.Body = []byte(doc[:rapid.IntRange(1, len(doc)-1).Draw(t, label+"/trunc")])
		case 1:
			r.Body = []byte(rapid.SampledFrom([]string{"panic: runtime error", "x", "{", "}", "{\"a\"", "{\"a\":", "{\"a\":1,", "{\"a\":\"b", "not json at all {", "\n", " "}).Draw(t, label+"/lit"))
		default: // other malformed shapes (the lazy parser's leniency on these is C12's known finding)
			r.Body = []byte(rapid.SampledFrom([]string{"{\"a\":1}x", "{a:1}", "{\"a\":}", "{\"a\":1,}", "{\"a\" 1}", "{\"a\":tru}", "{\"a\":1}{\"b\":2}", "{\"a\":[1,}", "{\"a\":\"\\x\"}"}).Draw(t, label+"/lit2"))
		}
		return r
	default:
		r.Kind = "json"
		o := &vkit.TreeOpts{MaxDepth: rapid.IntRange(1, 3).Draw(t, label+"/depth"), MaxWidth: rapid.IntRange(1, 4).Draw(t, label+"/width"), Keys: entKeys}
		doc := vkit.GenObject(t, label+"/doc", o, 0).Encode()
		// trailing blanks: a cut inside them leaves a decodable record
		doc += strings.Repeat(" ", rapid.SampledFrom([]int{0, 0, 1, 3, 6}).Draw(t, label+"/blanks"))
		r.Body = []byte(doc)
		return r
	}
}

func genEntCase(t *rapid.T) EntCase {
	c := EntCase{}
	c.Decoder = rapid.SampledFrom([]string{"json", "json", "raw"}).Draw(t, "decoder")
	c.CutOff = rapid.Bool().Draw(t, "cut_off")
	c.CutField = rapid.SampledFrom([]string{"", "_cropped", "_cropped", "cut"}).Draw(t, "cut_field")
	c.Pool = rapid.SampledFrom([]string{"std", "low_memory"}).Draw(t, "pool")
	c.AntispamOn = rapid.IntRange(0, 3).Draw(t, "antispam_on") == 0
	n := rapid.IntRange(1, 5).Draw(t, "nrecords")
	for i := 0; i < n; i++ {
		c.Records = append(c.Records, genEntRecord(t, c.Decoder, fmt.Sprintf("r%d", i)))
	}
	// the limit is placed around the length of one of the records
	f := c.Records[rapid.IntRange(0, n-1).Draw(t, "focus")]
	b := len(f.Body)
	j := len(bytes.TrimRight(f.Body, " "))
	cands := []int{0, b - 1, b, b + 1, b + 2, j - 1, j, j + 1, rapid.IntRange(1, 8).Draw(t, "small"), b / 2, 10000}
	c.Max = cands[rapid.IntRange(0, len(cands)-1).Draw(t, "max")]
	if c.Max < 0 {
		c.Max = 0
	}
	return c
}

// final is one acceptable end of a record.
type final struct {
	refused bool
	reason  string      // empty | oversize | undecodable | passfalse
	tree    *vkit.JNode // json decoder: the delivered document
	msgs    [][]byte    // raw decoder: acceptable values of "message"
	cut     bool
	lenient bool // the refusal rests on "encoding/json rejects it" for a shape that is not a plain truncation
}

func isObjectJSON(b []byte) bool {
	t := bytes.TrimLeft(b, " \t\r\n")
	return len(t) > 0 && t[0] == '{' && json.Valid(b)
}

// truncatedOrText: undecodable beyond doubt — the text does not even contain a balanced top-level object
func plainlyUndecodable(b []byte) bool {
	depth, inStr, esc := 0, false, false
	closed := false
	for _, ch := range b {
		switch {
		case esc:
			esc = false
		case inStr && ch == '\\':
			esc = true
		case ch == '"':
			inStr = !inStr
		case inStr:
		case ch == '{' || ch == '[':
			depth++
		case ch == '}' || ch == ']':
			depth--
			if depth == 0 {
				closed = true
			}
		}
	}
	t := bytes.TrimLeft(b, " \t\r\n")
	if len(t) == 0 || t[0] != '{' {
		return true // no object at all
	}
	return !closed || inStr
}

// finals lists the acceptable ends of a record under the case's settings.
func finals(c *EntCase, r *EntRecord) (fs []final, boundary bool, cutApplied bool) {
	all := r.bytes()
	L := len(all)
	// a record "has a newline" when its last byte is one, however the generator composed it
	nl := L > 0 && all[L-1] == '\n'
	B := L
	if nl {
		B = L - 1
	}
	// "if the data is empty, it is discarded"
	if L == 0 || (L == 1 && all[0] == '\n') {
		return []final{{refused: true, reason: "empty"}}, false, false
	}
	decode := func(data []byte, cut bool) final {
		f := final{cut: cut}
		if c.Decoder == "raw" {
			// "writes raw log into event message field": whether a line break at the end of what is decoded
			// belongs to the log is not stated; both are accepted. Data that does not end in a line break
			// must arrive whole.
			f.msgs = [][]byte{data}
			if data[len(data)-1] == '\n' {
				f.msgs = append(f.msgs, data[:len(data)-1])
			}
		} else {
			payload := bytes.TrimRight(data, "\n")
			if !isObjectJSON(payload) {
				return final{refused: true, reason: "undecodable", cut: cut, lenient: !plainlyUndecodable(payload)}
			}
			tree, err := vkit.ParseJSON(payload)
			if err != nil {
				return final{refused: true, reason: "undecodable", cut: cut, lenient: true}
			}
			if cut && c.CutField != "" {
				tree.Set(c.CutField, vkit.JBool(true))
			}
			f.tree = tree
		}
		if r.PassFalse {
			return final{refused: true, reason: "passfalse", cut: cut}
		}
		return f
	}
	within := func() final { return decode(all, false) }
	over := func() final {
		if !c.CutOff {
			return final{refused: true, reason: "oversize"}
		}
		// "only the first max_event_size bytes of the logs are passed further" (+ its newline)
		data := append([]byte{}, all[:c.Max]...)
		if nl {
			data = append(data, '\n')
		}
		return decode(data, true)
	}
	if c.Max > 0 && (B == c.Max-1 || B == c.Max || B == c.Max+1) {
		boundary = true
	}
	switch {
	case c.Max == 0 || L <= c.Max:
		return []final{within()}, boundary, false
	case B > c.Max:
		return []final{over()}, boundary, c.CutOff
	default:
		// B == max and the record ends in a newline: "logs with size greater than max_event_size" does not
		// say whether the line break counts; the code counts it. Both readings are accepted for this length.
		return []final{over(), within()}, boundary, false
	}
}

func matchFinal(c *EntCase, f *final, fr *feedResult) (ok bool, sig, msg string) {
	accepted := fr.seq != 0
	if f.refused {
		if accepted {
			return false, "accepted-although-" + f.reason, fmt.Sprintf("In returned %d for a record the settings refuse (%s)", fr.seq, f.reason)
		}
		if len(fr.out) > 0 || fr.commits > 0 {
			return false, "refused-but-delivered", fmt.Sprintf("In returned 0 but the output got %d event(s), the input %d commit(s)", len(fr.out), fr.commits)
		}
		return true, "", ""
	}
	shape := c.Decoder
	if f.cut {
		shape += ":cut"
	}
	if !accepted {
		return false, "refused-without-reason:" + shape, "In returned 0 although the record is not empty, within the limit (or cut), decodable, not banned and passed by its input"
	}
	if len(fr.out) != 1 || fr.commits != 1 {
		return false, "accepted-not-delivered-once", fmt.Sprintf("In returned %d; the output got %d event(s), the input %d commit(s)", fr.seq, len(fr.out), fr.commits)
	}
	d := fr.out[0]
	wantMark := f.cut && c.CutField != ""
	if c.Decoder == "raw" {
		if !d.hasMessage {
			return false, "record-altered:" + shape, fmt.Sprintf("delivered event has no string field \"message\": %q", d.encoded)
		}
		okMsg := false
		for _, m := range f.msgs {
			if bytes.Equal(m, d.message) {
				okMsg = true
			}
		}
		if !okMsg {
			return false, "record-altered:" + shape, fmt.Sprintf("message is %q, want %q", d.message, f.msgs[0])
		}
		wantFields := 1
		if wantMark {
			wantFields = 2
		}
		if wantMark && !(d.markSet && d.markTrue) {
			return false, "cut-mark-missing", fmt.Sprintf("the record was cut but %q is not true in %q", c.CutField, d.encoded)
		}
		if !wantMark && d.markSet && c.CutField != "message" {
			return false, "mark-on-uncut-record", fmt.Sprintf("the record was not cut but carries %q: %q", c.CutField, d.encoded)
		}
		if d.nFields != wantFields {
			return false, "record-altered:" + shape, fmt.Sprintf("delivered event has %d fields, want %d: %q", d.nFields, wantFields, d.encoded)
		}
		return true, "", ""
	}
	got, err := vkit.ParseJSON([]byte(d.encoded))
	if err != nil {
		return false, "delivered-event-not-json", fmt.Sprintf("%q: %v", d.encoded, err)
	}
	if diff := vkit.DiffJ(f.tree, got, false); diff != "" {
		// is it only the mark?
		if c.CutField != "" {
			a, b := f.tree.Clone(), got.Clone()
			a.Del(c.CutField)
			b.Del(c.CutField)
			if vkit.DiffJ(a, b, false) == "" {
				if wantMark {
					return false, "cut-mark-missing", fmt.Sprintf("the record was cut but %q is not true: %s (delivered %q)", c.CutField, diff, d.encoded)
				}
				return false, "mark-on-uncut-record", fmt.Sprintf("the record was not cut but %q was touched: %s (delivered %q)", c.CutField, diff, d.encoded)
			}
		}
		return false, "record-altered:" + shape, fmt.Sprintf("%s (delivered %q)", diff, d.encoded)
	}
	return true, "", ""
}

func runEntCase(c EntCase) *vkit.Outcome {
	o := vkit.NewOutcome()
	s := baseSettings()
	s.Decoder = c.Decoder
	s.MaxEventSize = c.Max
	s.CutOffEventByLimit = c.CutOff
	s.CutOffEventByLimitField = c.CutField
	if c.Pool == "low_memory" {
		s.Pool = pipeline.PoolTypeLowMem
	}
	if c.AntispamOn {
		s.Antispam.Threshold = 1000000
	}
	items := make([]feedItem, len(c.Records))
	for i := range c.Records {
		r := &c.Records[i]
		items[i] = feedItem{data: r.bytes(), src: r.Src, name: "src" + strconv.Itoa(r.Src), passFalse: r.PassFalse}
	}
	res, bubbleErr := pipeRun(s, items, 0)
	if reportRun(o, res, bubbleErr, func(i int) string {
		return fmt.Sprintf("record #%d %q decoder %s max_event_size %d cut_off %v field %q", i, c.Records[i].bytes(), c.Decoder, c.Max, c.CutOff, c.CutField)
	}) {
		return o
	}
	nontrivial := false
	for i := range c.Records {
		r := &c.Records[i]
		fs, boundary, cutApplied := finals(&c, r)
		fr := &res[i]
		if fr.canaryMsg != "" {
			o.Failf(P, "caller-buffer-outside-record-altered", "record #%d %q (max_event_size %d cut_off %v): %s", i, r.bytes(), c.Max, c.CutOff, fr.canaryMsg)
			// the same clause of C12 ("never alters bytes of the caller's buffer outside the line"), reached through Pipeline.In
			o.Failf("C12", "pipeline-in:caller-buffer-outside-record-altered", "record #%d %q (decoder %s, max_event_size %d cut_off %v): %s", i, r.bytes(), c.Decoder, c.Max, c.CutOff, fr.canaryMsg)
			return o
		}
		var firstSig, firstMsg string
		matched := false
		var mf *final
		for k := range fs {
			ok, sig, msg := matchFinal(&c, &fs[k], fr)
			if ok {
				matched = true
				mf = &fs[k]
				break
			}
			if firstSig == "" {
				firstSig, firstMsg = sig, msg
			}
		}
		if !matched {
			if fs[0].refused && fs[0].reason == "undecodable" && fs[0].lenient && firstSig == "accepted-although-undecodable" {
				// encoding/json rejects the record but it is not a plain truncation / non-object: the lazy parser
				// (insane-json) lets such shapes through — C12's known finding invalid-json-accepted-and-reemitted:json
				o.Excluded(P)
				o.Class("lenient-parser-accepted-malformed-json(C12 known finding)"); if os.Getenv("C20_DEBUG") != "" { o.Class(fmt.Sprintf("lenient:%q max=%d", r.bytes(), c.Max)) }
				continue
			}
			if b := r.bytes(); len(b) > 0 && b[len(b)-1] != '\n' {
				firstSig += ":no-newline"
			}
			o.Failf(P, firstSig, "record #%d %q (kind %s, %d bytes + newline=%v) decoder %s max_event_size %d cut_off %v field %q pass_event=%v: %s",
				i, r.bytes(), r.Kind, len(r.Body), r.NL, c.Decoder, c.Max, c.CutOff, c.CutField, !r.PassFalse, firstMsg)
			return o
		}
		if len(fs) > 1 {
			o.Class("ambiguous-length(newline counted?)")
		}
		if mf.refused {
			o.Class("refused:" + mf.reason)
		} else if mf.cut {
			o.Class("delivered:cut")
		} else {
			o.Class("delivered:whole")
		}
		if boundary || (cutApplied && !mf.refused) {
			nontrivial = true
		}
		if boundary {
			o.Class("limit-within-1-of-length")
		}
	}
	if nontrivial {
		o.Nontrivial("")
	}
	o.Class("decoder=" + c.Decoder)
	return o
}

var propEnt = vkit.NewProp([]string{P, "C12"}, "c20entrance", genEntCase, runEntCase)

func TestC20Entrance(t *testing.T) { propEnt.CrashFile = true; propEnt.Check(t) }

// ------------------------------------------------------------------ (c) antispam through the pipeline

// PAStep is one record offered to the pipeline.
type PAStep struct {
	GapQ      int    `json:"gap_q"` // pause before the record in quarters of the maintenance interval
	Src       int    `json:"src"`
	New       bool   `json:"new,omitempty"`
	Payload   int    `json:"payload"` // index into eventPool; -1 = empty record
	Meta      string `json:"meta,omitempty"`
	PassFalse bool   `json:"pass_false,omitempty"`
	NL        bool   `json:"nl"`
}

// PACase: pipeline settings with antispam enabled and a timed arrival sequence.
type PACase struct {
	Threshold  int      `json:"threshold"`
	Exceptions []Exc    `json:"exceptions,omitempty"`
	Rules      []ARule  `json:"rules,omitempty"`
	MetaField  string   `json:"source_name_meta_field,omitempty"`
	Names      []string `json:"names"`
	Steps      []PAStep `json:"steps"`
}

const paInterval = time.Second
const paUnban = 4 // pipeline.antispamUnbanIterations ("where unbanIterations = 4", antispam/README.md)

func genPACase(t *rapid.T) PACase {
	c := PACase{Threshold: genThreshold(t, "threshold")}
	nsrc := rapid.IntRange(1, 3).Draw(t, "nsrc")
	for i := 0; i < nsrc; i++ {
		c.Names = append(c.Names, rapid.SampledFrom(namePool).Draw(t, "name"))
	}
	switch rapid.IntRange(0, 5).Draw(t, "lists") {
	case 0, 1:
		c.Exceptions = append(c.Exceptions, genExc(t, "e0"))
	case 2:
		n := rapid.IntRange(1, 2).Draw(t, "nrules")
		for i := 0; i < n; i++ {
			c.Rules = append(c.Rules, ARule{Name: fmt.Sprintf("r%d", i), Threshold: rapid.IntRange(-1, 4).Draw(t, "rthr"), If: genCond(t, fmt.Sprintf("r%d", i))})
		}
	}
	if rapid.IntRange(0, 3).Draw(t, "metafield") == 0 {
		c.MetaField = "svc"
	}
	n := rapid.IntRange(1, 40).Draw(t, "nsteps")
	mk := func(src, pl int, fixed bool, gap int) PAStep {
		st := PAStep{Src: src, Payload: pl, NL: rapid.Bool().Draw(t, "nl"), GapQ: gap}
		if !fixed {
			st.Payload = rapid.IntRange(-1, len(eventPool)-1).Draw(t, "payload_i")
			st.New = rapid.IntRange(0, 19).Draw(t, "new") == 19
			st.PassFalse = rapid.IntRange(0, 19).Draw(t, "passfalse") == 19
		}
		if c.MetaField != "" || len(c.Rules) > 0 {
			if rapid.IntRange(0, 3).Draw(t, "hasmeta") > 0 {
				st.Meta = rapid.SampledFrom(metaVals).Draw(t, "meta")
			}
		}
		return st
	}
	thrGuess := c.Threshold
	if thrGuess < 1 {
		thrGuess = 3
	}
	for len(c.Steps) < n {
		src := rapid.IntRange(0, nsrc-1).Draw(t, "src")
		pl := rapid.IntRange(0, len(eventPool)-1).Draw(t, "payload")
		if rapid.IntRange(0, 2).Draw(t, "episode") == 0 {
			// a burst that reaches the threshold, a pause of some maintenance rounds, the source speaks again
			burst := thrGuess + rapid.IntRange(-1, 3).Draw(t, "ep_extra")
			for i := 0; i < burst; i++ {
				c.Steps = append(c.Steps, mk(src, pl, true, 0))
			}
			after := rapid.IntRange(1, 3).Draw(t, "ep_after")
			for i := 0; i < after; i++ {
				gap := 0
				if i == 0 {
					gap = 4 * rapid.IntRange(1, paUnban+2).Draw(t, "ep_rounds")
				}
				c.Steps = append(c.Steps, mk(src, pl, true, gap))
			}
			continue
		}
		burst := rapid.IntRange(1, 8).Draw(t, "burst")
		same := rapid.Bool().Draw(t, "same_payload")
		gap := 0
		switch k := rapid.IntRange(0, 9).Draw(t, "gapkind"); {
		case k < 3:
			gap = rapid.IntRange(1, 8).Draw(t, "gap")
		case k == 3:
			gap = 4 * rapid.IntRange(1, paUnban+2).Draw(t, "gap_rounds")
		}
		for i := 0; i < burst; i++ {
			g := 0
			if i == 0 {
				g = gap
			}
			c.Steps = append(c.Steps, mk(src, pl, same, g))
		}
	}
	return c
}

func runPACase(c PACase) *vkit.Outcome {
	o := vkit.NewOutcome()
	rr, err := realRules(c.Rules)
	if err != nil {
		o.Class("rules-rejected")
		return o
	}
	s := baseSettings()
	s.Antispam.Threshold = c.Threshold
	s.Antispam.MaintenanceInterval = paInterval
	s.Antispam.Exceptions = realExceptions(c.Exceptions)
	s.Antispam.Rules = rr
	s.SourceNameMetaField = c.MetaField
	items := make([]feedItem, len(c.Steps))
	for i, st := range c.Steps {
		it := feedItem{src: st.Src + 1, name: c.Names[st.Src], isNew: st.New, passFalse: st.PassFalse, gap: time.Duration(st.GapQ) * paInterval / 4}
		if st.Payload >= 0 {
			it.data = []byte(eventPool[st.Payload])
		}
		if st.NL {
			it.data = append(it.data, '\n')
		}
		if st.Meta != "" {
			it.meta = map[string]string{"svc": st.Meta}
		}
		items[i] = it
	}
	// feeding instants are 100ms + k*250ms + (<= 1ms per record): never on a maintenance instant (k*1s)
	res, bubbleErr := pipeRun(s, items, 100*time.Millisecond)
	if reportRun(o, res, bubbleErr, func(i int) string { return fmt.Sprintf("step #%d %q", i, items[i].data) }) {
		return o
	}
	m := newSpamModel(paUnban)
	rounds := 0
	for i, st := range c.Steps {
		fr := &res[i]
		if fr.at%paInterval < 50*time.Millisecond || fr.at%paInterval > paInterval-50*time.Millisecond {
			o.Class("harness:record-too-close-to-maintenance-instant")
			return o
		}
		for r := int(fr.at / paInterval); rounds < r; rounds++ {
			m.maintenance()
		}
		if fr.canaryMsg != "" {
			o.Failf(P, "caller-buffer-outside-record-altered", "step #%d: %s", i, fr.canaryMsg)
			return o
		}
		accepted := fr.seq != 0
		if st.Payload < 0 {
			if accepted {
				o.Failf(P, "accepted-although-empty", "step #%d: In returned %d for an empty record", i, fr.seq)
				return o
			}
			continue
		}
		event := eventPool[st.Payload]
		data := event
		if st.NL {
			data += "\n"
		}
		// what the antispam is asked about (pipeline/README.md source_name_meta_field)
		id, name, isNew := strconv.Itoa(st.Src+1), c.Names[st.Src], st.New
		var meta map[string]string
		if st.Meta != "" {
			meta = map[string]string{"svc": st.Meta}
			if c.MetaField != "" {
				id, name, isNew = "meta:"+st.Meta, st.Meta, false
			}
		}
		decodable := isObjectJSON([]byte(event))
		deliverable := decodable && !st.PassFalse
		var kind string
		var thr int
		if c.Threshold == -1 {
			kind = "disabled" // "If set to -1 antispammer is disabled"
		} else {
			// the record is handed over as it arrived (with its newline)
			kind, thr = classify(c.Threshold, c.Exceptions, c.Rules, data, name, meta)
			if k2, t2 := classify(c.Threshold, c.Exceptions, c.Rules, event, name, meta); k2 != kind || t2 != thr {
				// "log as raw bytes contents": whether the trailing line break is part of the checked contents is
				// not stated and here it decides (suffix / equal conditions); the rest of the history cannot be judged
				o.Class("stopped:newline-decides-a-rule-or-exception")
				return o
			}
		}
		decision := -1
		if deliverable {
			decision = 0
			if !accepted {
				decision = 1
			}
		} else if accepted {
			reason := "undecodable"
			if decodable {
				reason = "passfalse"
			}
			o.Failf(P, "accepted-although-"+reason, "step #%d: In returned %d for %q (pass_event=%v)", i, fr.seq, data, !st.PassFalse)
			return o
		}
		ctx := func() string {
			return fmt.Sprintf("step #%d at +%v (maintenance rounds so far: %d) source %s (%q) record %q meta %v new=%v; threshold %d, %d exceptions, %d rules", i, fr.at, rounds, id, name, data, meta, isNew, c.Threshold, len(c.Exceptions), len(c.Rules))
		}
		bookEvent(o, m, id, kind, thr, isNew, true, decision, len(c.Rules) > 0, ctx)
		if o.Failed() {
			return o
		}
		if accepted {
			// delivered once, unaltered apart from the documented meta fields
			if len(fr.out) != 1 || fr.commits != 1 {
				o.Failf(P, "accepted-not-delivered-once", "step #%d: In returned %d; the output got %d event(s), the input %d commit(s)", i, fr.seq, len(fr.out), fr.commits)
				return o
			}
			want, _ := vkit.ParseJSON([]byte(event))
			for k, v := range meta {
				want.Set(k, vkit.JStr(v))
			}
			got, perr := vkit.ParseJSON([]byte(fr.out[0].encoded))
			if perr != nil {
				o.Failf(P, "delivered-event-not-json", "step #%d: %q", i, fr.out[0].encoded)
				return o
			}
			if d := vkit.DiffJ(want, got, false); d != "" {
				o.Failf(P, "record-altered:json", "step #%d: %s (delivered %q for %q meta %v)", i, d, fr.out[0].encoded, data, meta)
				return o
			}
		} else if len(fr.out) > 0 || fr.commits > 0 {
			o.Failf(P, "refused-but-delivered", "step #%d: In returned 0 but the output got %d event(s)", i, len(fr.out))
			return o
		}
	}
	if m.anyLifted() {
		o.Class("ban-then-lifted")
		o.Nontrivial(P)
	}
	o.Class("pipeline-antispam")
	return o
}

var propPA = vkit.NewProp([]string{P}, "c20pipeantispam", genPACase, runPACase)

func TestC20PipelineAntispam(t *testing.T) { propPA.CrashFile = true; propPA.Check(t) }
