package c20

import (
	"fmt"
	"strconv"
	"sync"
	"testing"
	"time"

	"github.com/ozontech/file.d/pipeline/antispam"
	"github.com/ozontech/file.d/zzverif/fdkit"
	"github.com/ozontech/file.d/zzverif/vkit"
	"pgregory.net/rapid"
)

// ------------------------------------------------------------------ (b) sequential histories

// ASOp is one step of a history.
type ASOp struct {
	Kind    string `json:"kind"` // "event" | "maint"
	Src     int    `json:"src,omitempty"`
	New     bool   `json:"new,omitempty"`
	Payload int    `json:"payload,omitempty"` // index into eventPool
	Meta    string `json:"meta,omitempty"`    // value of meta field "svc" ("" = absent)
	TimeMs  int64  `json:"time_ms,omitempty"` // event time offset (ignored when the case uses zero times)
}

// ASCase is one sequential history against one Antispammer.
type ASCase struct {
	Threshold  int     `json:"threshold"`
	Unban      int     `json:"unban_iterations"`
	IntervalMs int     `json:"interval_ms"`
	Exceptions []Exc   `json:"exceptions,omitempty"`
	Rules      []ARule `json:"rules,omitempty"`
	Times      string  `json:"times"` // "zero" (what non-CRI decoders pass) | "close" | "spread"
	Names      []string `json:"names"` // source names by source index
	Ops        []ASOp  `json:"ops"`
	DropSrc    int     `json:"drop_src"` // metamorphic re-run without this source's events (-1: none)
}

func genThreshold(t *rapid.T, label string) int {
	// common choices low, rare ones (-1 disabled, 0 discard all) at the top of the range
	k := rapid.IntRange(1, 9).Draw(t, label)
	switch k {
	case 8:
		return -1
	case 9:
		return 0
	}
	return k // 1..7
}

func genASCase(t *rapid.T) ASCase {
	c := ASCase{DropSrc: -1}
	c.Threshold = genThreshold(t, "threshold")
	c.Unban = rapid.IntRange(1, 5).Draw(t, "unban")
	c.IntervalMs = rapid.SampledFrom([]int{1000, 5000, 10}).Draw(t, "interval")
	nsrc := rapid.IntRange(1, 3).Draw(t, "nsrc")
	for i := 0; i < nsrc; i++ {
		c.Names = append(c.Names, rapid.SampledFrom(namePool).Draw(t, "name"))
	}
	switch rapid.IntRange(0, 5).Draw(t, "lists") {
	case 0, 1: // exceptions
		n := rapid.IntRange(1, 2).Draw(t, "nexc")
		for i := 0; i < n; i++ {
			c.Exceptions = append(c.Exceptions, genExc(t, fmt.Sprintf("e%d", i)))
		}
	case 2, 3: // rules
		n := rapid.IntRange(1, 3).Draw(t, "nrules")
		for i := 0; i < n; i++ {
			c.Rules = append(c.Rules, ARule{Name: fmt.Sprintf("r%d", i), Threshold: rapid.IntRange(-1, 5).Draw(t, "rthr"), If: genCond(t, fmt.Sprintf("r%d", i))})
		}
	case 4: // both lists configured (nothing rejects such a config)
		c.Exceptions = append(c.Exceptions, genExc(t, "e0"))
		c.Rules = append(c.Rules, ARule{Name: "r0", Threshold: rapid.IntRange(-1, 5).Draw(t, "rthr"), If: genCond(t, "r0")})
	}
	c.Times = rapid.SampledFrom([]string{"zero", "zero", "close", "spread"}).Draw(t, "times")
	nops := rapid.IntRange(1, 60).Draw(t, "nops")
	mkEvent := func(src, pl int, fixed bool) ASOp {
		op := ASOp{Kind: "event", Src: src, Payload: pl}
		if !fixed {
			op.Payload = rapid.IntRange(0, len(eventPool)-1).Draw(t, "payload_i")
			op.New = rapid.IntRange(0, 19).Draw(t, "new") == 19
		}
		if len(c.Rules) > 0 && rapid.IntRange(0, 2).Draw(t, "hasmeta") == 0 {
			op.Meta = rapid.SampledFrom(metaVals).Draw(t, "meta")
		}
		switch c.Times {
		case "close":
			op.TimeMs = int64(rapid.IntRange(0, c.IntervalMs-1).Draw(t, "t"))
		case "spread":
			op.TimeMs = int64(rapid.IntRange(0, 4*c.IntervalMs).Draw(t, "t"))
		}
		return op
	}
	thrGuess := c.Threshold
	if thrGuess < 1 {
		thrGuess = 3
	}
	for len(c.Ops) < nops {
		switch k := rapid.IntRange(0, 9).Draw(t, "opkind"); {
		case k < 2:
			n := rapid.IntRange(1, 3).Draw(t, "nmaint")
			for i := 0; i < n; i++ {
				c.Ops = append(c.Ops, ASOp{Kind: "maint"})
			}
		case k < 5:
			// episode: a burst that reaches the threshold, some maintenance rounds, the source speaks again
			src := rapid.IntRange(0, nsrc-1).Draw(t, "ep_src")
			pl := rapid.IntRange(0, len(eventPool)-1).Draw(t, "ep_payload")
			burst := thrGuess + rapid.IntRange(-1, 3).Draw(t, "ep_extra")
			for i := 0; i < burst; i++ {
				c.Ops = append(c.Ops, mkEvent(src, pl, true))
			}
			rounds := rapid.IntRange(1, c.Unban+2).Draw(t, "ep_rounds")
			for i := 0; i < rounds; i++ {
				c.Ops = append(c.Ops, ASOp{Kind: "maint"})
				if rapid.IntRange(0, 5).Draw(t, "ep_other") == 0 {
					c.Ops = append(c.Ops, mkEvent(rapid.IntRange(0, nsrc-1).Draw(t, "ep_osrc"), pl, false))
				}
			}
			after := rapid.IntRange(1, 3).Draw(t, "ep_after")
			for i := 0; i < after; i++ {
				c.Ops = append(c.Ops, mkEvent(src, pl, true))
			}
		default:
			src := rapid.IntRange(0, nsrc-1).Draw(t, "src")
			burst := rapid.IntRange(1, 9).Draw(t, "burst")
			samePayload := rapid.Bool().Draw(t, "same_payload")
			pl := rapid.IntRange(0, len(eventPool)-1).Draw(t, "payload")
			for i := 0; i < burst; i++ {
				c.Ops = append(c.Ops, mkEvent(src, pl, samePayload))
			}
		}
	}
	if nsrc > 1 && rapid.Bool().Draw(t, "metamorphic") {
		c.DropSrc = rapid.IntRange(0, nsrc-1).Draw(t, "drop_src")
	}
	return c
}

func newAntispammer(threshold, unban, intervalMs int, excs []Exc, rules []ARule) (*antispam.Antispammer, error) {
	rr, err := realRules(rules)
	if err != nil {
		return nil, err
	}
	return antispam.NewAntispammer(&antispam.Options{
		MaintenanceInterval: time.Duration(intervalMs) * time.Millisecond,
		Threshold:           threshold,
		UnbanIterations:     unban,
		Exceptions:          realExceptions(excs),
		Rules:               rr,
		Logger:              fdkit.NewLogger(),
		MetricsController:   fdkit.MetricCtl(fdkit.UniqueName("c20as")),
	}), nil
}

var baseTime = time.Date(2024, 5, 1, 12, 0, 0, 0, time.UTC)

// execSeq runs the history (skipping the events of source skip) and returns one decision per op
// (-1 for maintenance / skipped ops, 0 = accepted, 1 = spam).
func execSeq(c *ASCase, skip int) ([]int, error) {
	a, err := newAntispammer(c.Threshold, c.Unban, c.IntervalMs, c.Exceptions, c.Rules)
	if err != nil {
		return nil, err
	}
	res := make([]int, len(c.Ops))
	for i, op := range c.Ops {
		res[i] = -1
		if op.Kind == "maint" {
			a.Maintenance()
			continue
		}
		if op.Src == skip {
			continue
		}
		var tm time.Time
		if c.Times != "zero" {
			tm = baseTime.Add(time.Duration(op.TimeMs) * time.Millisecond)
		}
		var meta map[string]string
		if op.Meta != "" {
			meta = map[string]string{"svc": op.Meta}
		}
		if a.IsSpam(strconv.Itoa(op.Src), c.Names[op.Src], op.New, []byte(eventPool[op.Payload]), tm, meta) {
			res[i] = 1
		} else {
			res[i] = 0
		}
	}
	return res, nil
}

// classify tells what the documents say about one event before the counter is consulted:
// "exempt" (never spam), "blocked" (always spam), "off" (no limit), or a threshold > 0.
func classify(threshold int, excs []Exc, rules []ARule, event, name string, meta map[string]string) (kind string, thr int) {
	if threshold == -1 && len(rules) == 0 {
		return "disabled", 0
	}
	// "If the log matches at least one of the exceptions it is not accounted in antispammer"
	if anyExc(excs, event, name) {
		return "exempt", 0
	}
	thr = threshold
	for _, r := range rules {
		// "applies the first matching rule … If event does not match any rule it will be limited with common threshold"
		if r.If.eval(event, name, meta) {
			thr = r.Threshold
			break
		}
	}
	switch thr {
	case -1:
		return "off", 0
	case 0:
		return "blocked", 0
	}
	return "counted", thr
}

func runASCase(c ASCase) *vkit.Outcome {
	o := vkit.NewOutcome()
	got, err := execSeq(&c, -1)
	if err != nil {
		o.Class("rules-rejected:" + err.Error())
		return o
	}
	m := newSpamModel(c.Unban)
	prevTimes := map[int][]int64{}
	interval := int64(c.IntervalMs)
	nSpam, nEvents := 0, 0
	for i, op := range c.Ops {
		if op.Kind == "maint" {
			m.maintenance()
			continue
		}
		nEvents++
		id := strconv.Itoa(op.Src)
		event, name := eventPool[op.Payload], c.Names[op.Src]
		var meta map[string]string
		if op.Meta != "" {
			meta = map[string]string{"svc": op.Meta}
		}
		spam := got[i] == 1
		if spam {
			nSpam++
		}
		kind, thr := classify(c.Threshold, c.Exceptions, c.Rules, event, name, meta)
		ctx := func() string {
			return fmt.Sprintf("op #%d source %d (%q) event %q meta %v new=%v; threshold %d unban %d rules %d exceptions %d", i, op.Src, name, event, meta, op.New, c.Threshold, c.Unban, len(c.Rules), len(c.Exceptions))
		}
		counted := true
		if kind == "counted" {
			if c.Times == "spread" {
				for _, pt := range prevTimes[op.Src] {
					if op.TimeMs-pt >= interval {
						counted = false
					}
				}
			}
			prevTimes[op.Src] = append(prevTimes[op.Src], op.TimeMs)
		}
		decision := 0
		if spam {
			decision = 1
		}
		bookEvent(o, m, id, kind, thr, op.New, counted, decision, len(c.Rules) > 0, ctx)
		if o.Failed() {
			o.History = map[string]any{"decisions": got}
			return o
		}
	}
	// metamorphic: sources never influence each other
	if c.DropSrc >= 0 {
		got2, _ := execSeq(&c, c.DropSrc)
		for i, op := range c.Ops {
			if op.Kind != "event" || op.Src == c.DropSrc {
				continue
			}
			if got[i] != got2[i] {
				o.Failf(P, "sources-influence-each-other", "op #%d (source %d): decision %d with the events of source %d present, %d without them", i, op.Src, got[i], c.DropSrc, got2[i])
				o.History = map[string]any{"decisions": got, "decisions_without": got2}
				return o
			}
		}
		o.Class("metamorphic-drop-source")
	}
	lifted := false
	for _, s := range m.src {
		if s.lifted {
			lifted = true
		}
	}
	switch {
	case lifted:
		o.Class("ban-then-lifted")
		o.Nontrivial(P)
	case nSpam > 0:
		o.Class("ban-not-lifted")
	default:
		o.Class("no-ban")
	}
	if len(c.Rules) > 0 {
		o.Class("with-rules")
	}
	if len(c.Exceptions) > 0 {
		o.Class("with-exceptions")
	}
	o.Class("times=" + c.Times)
	return o
}

var propAS = vkit.NewProp([]string{P}, "c20antispam", genASCase, runASCase)

func TestC20Antispam(t *testing.T) { propAS.CrashFile = true; propAS.Check(t) }

// ------------------------------------------------------------------ (b) concurrent IsSpam calls

// ConcBatch is one set of IsSpam calls issued concurrently.
type ConcBatch struct {
	Calls       []int `json:"calls"`        // per source: number of calls in this batch
	Goroutines  int   `json:"goroutines"`
	WithMaint   bool  `json:"with_maint"`   // Maintenance() runs concurrently with the calls
	MaintAfter  int   `json:"maint_after"`  // sequential maintenance rounds after the batch
}

// ConcCase: common threshold only (plus optional exceptions), zero event times.
type ConcCase struct {
	Threshold  int         `json:"threshold"`
	Unban      int         `json:"unban_iterations"`
	Exceptions []Exc       `json:"exceptions,omitempty"`
	Payload    int         `json:"payload"`
	Names      []string    `json:"names"`
	Batches    []ConcBatch `json:"batches"`
}

func genConcCase(t *rapid.T) ConcCase {
	c := ConcCase{Threshold: rapid.IntRange(1, 12).Draw(t, "threshold"), Unban: rapid.IntRange(1, 4).Draw(t, "unban")}
	nsrc := rapid.IntRange(1, 3).Draw(t, "nsrc")
	for i := 0; i < nsrc; i++ {
		c.Names = append(c.Names, namePool[i])
	}
	c.Payload = rapid.IntRange(0, len(eventPool)-1).Draw(t, "payload")
	if rapid.IntRange(0, 3).Draw(t, "hasexc") == 0 {
		c.Exceptions = []Exc{genExc(t, "e0")}
	}
	nb := rapid.IntRange(1, 6).Draw(t, "nbatches")
	for b := 0; b < nb; b++ {
		cb := ConcBatch{Goroutines: rapid.IntRange(2, 8).Draw(t, "goroutines")}
		for s := 0; s < nsrc; s++ {
			cb.Calls = append(cb.Calls, rapid.IntRange(0, 2*c.Threshold+2).Draw(t, "calls"))
		}
		cb.WithMaint = rapid.IntRange(0, 3).Draw(t, "with_maint") == 0
		cb.MaintAfter = rapid.SampledFrom([]int{0, 1, 1, 2, c.Unban + 1}).Draw(t, "maint_after")
		c.Batches = append(c.Batches, cb)
	}
	return c
}

func runConcCase(c ConcCase) *vkit.Outcome {
	o := vkit.NewOutcome()
	a, err := newAntispammer(c.Threshold, c.Unban, 1000, c.Exceptions, nil)
	if err != nil {
		return o
	}
	event := eventPool[c.Payload]
	type st struct {
		upper        int  // upper bound of the accounted events a decision of this round may have seen
		banMay       bool
		silentRounds int
		exactN       int  // exact count while no maintenance ran concurrently in this round
		exactOK      bool
		spamSeen, lifted bool
	}
	states := make([]*st, len(c.Names))
	for i := range states {
		states[i] = &st{exactOK: true}
	}
	sawLift := false
	for bi, b := range c.Batches {
		// build the call list: round-robin over sources so that calls of one source spread over goroutines
		var calls []int
		for s, n := range b.Calls {
			for k := 0; k < n; k++ {
				calls = append(calls, s)
			}
		}
		results := make([]bool, len(calls))
		var wg sync.WaitGroup
		start := make(chan struct{})
		for g := 0; g < b.Goroutines; g++ {
			wg.Add(1)
			go func(g int) {
				defer wg.Done()
				<-start
				for i := g; i < len(calls); i += b.Goroutines {
					s := calls[i]
					results[i] = a.IsSpam(strconv.Itoa(s), c.Names[s], false, []byte(event), time.Time{}, nil)
				}
			}(g)
		}
		if b.WithMaint {
			wg.Add(1)
			go func() {
				defer wg.Done()
				<-start
				a.Maintenance()
			}()
		}
		close(start)
		wg.Wait()
		for s, n := range b.Calls {
			if n == 0 {
				continue
			}
			spams := 0
			for i, cs := range calls {
				if cs == s && results[i] {
					spams++
				}
			}
			name := c.Names[s]
			if anyExc(c.Exceptions, event, name) {
				if spams > 0 {
					o.Failf(P, "exception-matched-but-dropped", "batch %d source %d: %d of %d concurrent calls returned spam although the event matches an exception", bi, s, spams, n)
				}
				continue
			}
			x := states[s]
			if x.silentRounds >= c.Unban+1 {
				x.banMay = false
			}
			x.silentRounds = 0
			before := x.upper
			x.upper += n
			// one-directional: a call may see spam only if >= threshold accounted events exist in this
			// round (at most upper-threshold+1 calls of this batch can be the threshold-th or later), or a ban may be held
			if !x.banMay {
				allowed := x.upper - c.Threshold + 1
				if allowed < 0 {
					allowed = 0
				}
				if allowed > n {
					allowed = n
				}
				if spams > allowed {
					o.Failf(P, "concurrent:spam-without-threshold-events", "batch %d source %d: %d of %d concurrent calls returned spam; with %d accounted events before the batch and threshold %d at most %d may (with_maint=%v)", bi, s, spams, n, before, c.Threshold, allowed, b.WithMaint)
				}
			}
			if x.upper >= c.Threshold {
				x.banMay = true
			}
			// documented counter, exact while maintenance is not concurrent: every call that is the
			// threshold-th or later accounted event of the round is refused
			if b.WithMaint {
				x.exactOK = false
			}
			if x.exactOK {
				must := x.exactN + n - c.Threshold + 1
				if must > n {
					must = n
				}
				if spams < must {
					o.Failf(P, "concurrent:threshold-reached-but-not-banned", "batch %d source %d: only %d of %d concurrent calls returned spam; %d accounted events before the batch, threshold %d => at least %d", bi, s, spams, n, x.exactN, c.Threshold, must)
				}
			}
			x.exactN += n
			if spams > 0 {
				x.spamSeen = true
			} else if x.spamSeen && spams == 0 {
				x.lifted = true
				sawLift = true
			}
		}
		if o.Failed() {
			return o
		}
		if b.WithMaint {
			for s, x := range states {
				if b.Calls[s] == 0 {
					// nothing of this source ran concurrently: an ordinary round for it
					x.upper, x.exactN, x.exactOK = 0, 0, true
					x.silentRounds++
				}
				// otherwise the round may have run before or after any call: the counter is at most what was
				// accounted in this round so far (upper stays); the exact count is unknown until the next round
			}
		}
		for k := 0; k < b.MaintAfter; k++ {
			a.Maintenance()
			for _, x := range states {
				x.upper, x.exactN, x.exactOK = 0, 0, true
				x.silentRounds++
			}
		}
	}
	if sawLift {
		o.Class("ban-then-lifted")
		o.Nontrivial(P)
	}
	o.Class("concurrent")
	return o
}

var propConc = vkit.NewProp([]string{P}, "c20antispamconc", genConcCase, runConcCase)

func TestC20AntispamConcurrent(t *testing.T) { propConc.CrashFile = true; propConc.Check(t) }
