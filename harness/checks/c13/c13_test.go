// Package c13 decides C13 — no event content can crash or corrupt an action
// plugin — black-box: every action plugin (27 + k8s-multiline) is taken from
// fd.DefaultPluginRegistry, configured through pipeline.GetConfig exactly as
// fd.setupAction does, started with ActionPluginParams whose logger turns Fatal /
// Panic into recoverable panics, and driven directly through Do() with events
// decoded from generated JSON text the way Pipeline.In decodes them.
//
// Oracle per Do (property statement):
//   - Do returns one of the five defined ActionResults;
//   - no panic, no logger.Fatal, no logger.Panic;
//   - when the event goes on (Pass / Break) its encoding parses with
//     encoding/json; events handed to Controller.Propagate / Controller.Spawn are
//     judged the same way;
//   - a time-out event is only sent to an action that returned Hold / Collapse
//     for the previous event of the stream (processor.processEvent contract).
//
// A configuration is "accepted" when GetConfig returns nil and Start neither
// Fatals nor panics; anything else is counted as rejected (never a violation).
package c13

import (
	"bytes"
	"encoding/json"
	"fmt"
	"io"
	"os"
	"regexp"
	"strconv"
	"strings"
	"sync"
	"testing"
	"time"
	"unicode/utf8"

	"github.com/ozontech/file.d/cfg"
	"github.com/ozontech/file.d/fd"
	"github.com/ozontech/file.d/metric"
	"github.com/ozontech/file.d/pipeline"
	_ "github.com/ozontech/file.d/plugin/action/add_file_name"
	_ "github.com/ozontech/file.d/plugin/action/add_host"
	_ "github.com/ozontech/file.d/plugin/action/cardinality"
	_ "github.com/ozontech/file.d/plugin/action/convert_date"
	_ "github.com/ozontech/file.d/plugin/action/convert_log_level"
	_ "github.com/ozontech/file.d/plugin/action/convert_utf8_bytes"
	_ "github.com/ozontech/file.d/plugin/action/debug"
	_ "github.com/ozontech/file.d/plugin/action/decode"
	_ "github.com/ozontech/file.d/plugin/action/discard"
	_ "github.com/ozontech/file.d/plugin/action/flatten"
	_ "github.com/ozontech/file.d/plugin/action/hash"
	_ "github.com/ozontech/file.d/plugin/action/join"
	_ "github.com/ozontech/file.d/plugin/action/join_template"
	_ "github.com/ozontech/file.d/plugin/action/json_decode"
	_ "github.com/ozontech/file.d/plugin/action/json_encode"
	_ "github.com/ozontech/file.d/plugin/action/json_extract"
	_ "github.com/ozontech/file.d/plugin/action/keep_fields"
	_ "github.com/ozontech/file.d/plugin/action/mask"
	_ "github.com/ozontech/file.d/plugin/action/modify"
	_ "github.com/ozontech/file.d/plugin/action/move"
	_ "github.com/ozontech/file.d/plugin/action/parse_es"
	_ "github.com/ozontech/file.d/plugin/action/parse_re2"
	_ "github.com/ozontech/file.d/plugin/action/remove_fields"
	_ "github.com/ozontech/file.d/plugin/action/rename"
	_ "github.com/ozontech/file.d/plugin/action/set_time"
	_ "github.com/ozontech/file.d/plugin/action/split"
	_ "github.com/ozontech/file.d/plugin/action/throttle"
	_ "github.com/ozontech/file.d/plugin/input/k8s"
	k8smeta "github.com/ozontech/file.d/plugin/input/k8s/meta"
	"github.com/ozontech/file.d/zzverif/fdkit"
	"github.com/ozontech/file.d/zzverif/vkit"
	insaneJSON "github.com/ozontech/insane-json"
	"github.com/prometheus/client_golang/prometheus"
	"go.uber.org/zap"
	"go.uber.org/zap/zapcore"
	corev1 "k8s.io/api/core/v1"
)

const P = "C13"

func TestMain(m *testing.M) {
	fdkit.InstallLogger()
	if os.Getenv("C13_TIMING") != "" { // development aid: wall time per plugin
		defer func() {}()
		timing = map[string]time.Duration{}
	}
	vkit.Main(m)
}

var timing map[string]time.Duration

func TestReplay(t *testing.T) { vkit.Replay(t) }

// plugins is the list the property quantifies over: the 27 directories of
// plugin/action plus the k8s input's multiline action.
// (rapid.SampledFrom prefers the front of a list: the plugins with the most logic come first.)
var plugins = []string{
	"k8s-multiline", "throttle", "modify", "mask", "hash", "join", "join_template", "decode", "json_extract",
	"cardinality", "move", "json_decode", "convert_utf8_bytes", "parse_re2", "flatten", "rename", "split",
	"convert_date", "keep_fields", "remove_fields", "json_encode", "convert_log_level", "parse_es", "set_time",
	"debug", "add_host", "add_file_name", "discard",
}

// ---------------------------------------------------------------- case

// Settings are the pipeline settings an action can see through its params
// (all of them plain `settings:` keys of a pipeline).
type Settings struct {
	MaxEventSize        int    `json:"max_event_size,omitempty"`
	CutOff              bool   `json:"cut_off_event_by_limit,omitempty"`
	CutOffField         string `json:"cut_off_event_by_limit_field,omitempty"`
	SourceNameMetaField string `json:"source_name_meta_field,omitempty"`
	MaxLabelValueLength int    `json:"max_label_value_length,omitempty"`
}

// Ev is one event of the sequence a plugin instance processes.
type Ev struct {
	Text    string `json:"text,omitempty"`          // the record as JSON text
	Raw     []byte `json:"raw,omitempty"`           // used instead of Text when the text is not valid UTF-8 (base64 in files)
	Source  string `json:"source,omitempty"`        // Event.SourceName
	Timeout bool   `json:"timeout_after,omitempty"` // send a time-out event afterwards if (and only if) the action asked for the next event
}

func (e Ev) bytes() []byte {
	if e.Raw != nil {
		return e.Raw
	}
	return []byte(e.Text)
}

func newEv(text string) Ev {
	if utf8.ValidString(text) {
		return Ev{Text: text}
	}
	return Ev{Raw: []byte(text)}
}

// Case: one plugin instance, its configuration as the user writes it (JSON form
// of the yaml), the settings, the events.
type Case struct {
	Plugin   string          `json:"plugin"`
	Config   json.RawMessage `json:"config"`
	Paths    [][]string      `json:"paths,omitempty"` // event fields the configuration names (for the non-triviality rule)
	Settings Settings        `json:"settings"`
	Events   []Ev            `json:"events"`
	Recycle  bool            `json:"recycle,omitempty"` // return each finished event's memory at once (like the event pool) instead of at the end
	// StopBusy (pipeline replay only): the pipeline is stopped right after the last event, without waiting for
	// the stream time-out that would flush an action in the middle of a sequence
	StopBusy bool `json:"stop_busy,omitempty"`
}

// ---------------------------------------------------------------- k8s meta (precondition of k8s-multiline)

const (
	k8sNS        = "sre"
	k8sPod       = "advanced-logs-checker-1111111111-trtrq"
	k8sContainer = "duty-bot"
	k8sCID       = "4e0301b633eaa2bfdcafdeba59ba0c72a3815911a6a820bf273534b0f32d98e0"
	k8sCID2      = "0000000000000000000000000000000000000000000000000000000000000002"
)

var k8sOnce sync.Once

// setupK8sMeta does what the k8s input's Start does before its multiline action
// ever sees an event: the meta gatherer is enabled (here without a kubernetes
// API: DisableMetaUpdates), the node name is known, one pod is known with labels.
func setupK8sMeta() {
	k8sOnce.Do(func() {
		k8smeta.DisableMetaUpdates = true
		k8smeta.MetaExpireDuration = 1000 * time.Hour
		k8smeta.MetaWaitTimeout = time.Millisecond // an unknown pod costs one recheck interval, then it is cached as deleted
		k8smeta.EnableGatherer(fdkit.NewLogger().Sugar())
		k8smeta.SelfNodeName = "node_1"
		pod := &corev1.Pod{}
		pod.Namespace = k8sNS
		pod.Name = k8sPod
		pod.Labels = map[string]string{"allowed_label": "allowed_value", "app": "x\"y", "zone.name": "é"}
		pod.Status.ContainerStatuses = []corev1.ContainerStatus{{Name: k8sContainer, ContainerID: "containerd://" + k8sCID}}
		k8smeta.PutMeta(pod)
	})
}

// ---------------------------------------------------------------- execution

var values = map[string]int{"capacity": 64, "gomaxprocs": 1}

type runner struct {
	c      Case
	o      *vkit.Outcome
	ap     pipeline.ActionPlugin
	busy   bool // the action asked for the next event of the stream
	held   map[*pipeline.Event]int
	inDo   int // index of the event being processed (for messages)
	maxExc *metric.CounterVec
	docs   []*vkit.JNode
	stop   bool
	roots  []*insaneJSON.Root
	passed []passedEvent
}

type passedEvent struct {
	ev  *pipeline.Event
	enc string
	idx int
}

// controller is the ActionPluginController the processor would be.
type controller struct{ r *runner }

// Propagate: processor.Propagate resets the busy mark of the action and runs the
// event through the rest of the pipeline; here the event is judged like one that passed.
func (c controller) Propagate(ev *pipeline.Event) {
	r := c.r
	r.busy = false
	if ev == nil {
		r.o.Failf(P, "propagated-nil-event:"+r.c.Plugin, "%s propagated a nil event while processing event #%d", r.c.Plugin, r.inDo)
		return
	}
	idx, ok := r.held[ev]
	if !ok {
		r.o.Class("propagated-an-event-not-held")
	}
	delete(r.held, ev)
	r.o.Class("propagated:" + r.c.Plugin)
	r.checkEvent(ev, "propagated-event-not-json", fmt.Sprintf("event #%d propagated while processing #%d", idx, r.inDo))
}

// Spawn: processor.Spawn marks the parent, wraps every node into a child event
// (MutateToNode into a fresh root) and runs it through the following actions.
func (c controller) Spawn(parent *pipeline.Event, nodes []*insaneJSON.Node) {
	r := c.r
	parent.SetChildParentKind()
	for i, node := range nodes {
		child := &pipeline.Event{Root: insaneJSON.Spawn(), SourceName: parent.SourceName}
		r.roots = append(r.roots, child.Root)
		child.Root.MutateToNode(node)
		child.SetChildKind()
		r.o.Class("spawned:" + r.c.Plugin)
		r.checkEvent(child, "spawned-event-not-json", fmt.Sprintf("child %d of event #%d", i, r.inDo))
	}
}

// IncMaxEventSizeExceeded does what Pipeline.IncMaxEventSizeExceeded does.
func (c controller) IncMaxEventSizeExceeded(lvs ...string) {
	c.r.maxExc.WithLabelValues(lvs...).Inc()
}

// newLogger is the logger handed to the plugin: like fdkit.NewLogger its Fatal and
// Panic become recoverable panics (fdkit.FatalPanic / fdkit.LoggedPanic), but it is
// enabled from debug level on and really encodes every entry (to nowhere), so
// that the plugins' logging of event content (debug action, "withnode" modes,
// mask's debug line) is executed as it is under a real logger.
type fatalHook struct{}

func (fatalHook) OnWrite(e *zapcore.CheckedEntry, _ []zapcore.Field) {
	panic(fdkit.FatalPanic{Msg: e.Message})
}

type panicHook struct{}

func (panicHook) OnWrite(e *zapcore.CheckedEntry, _ []zapcore.Field) {
	panic(fdkit.LoggedPanic{Msg: e.Message})
}

var logCore = zapcore.NewCore(zapcore.NewJSONEncoder(zap.NewProductionEncoderConfig()), zapcore.AddSync(io.Discard), zapcore.DebugLevel)

func newLogger() *zap.Logger {
	return zap.New(logCore, zap.WithFatalHook(fatalHook{}), zap.WithPanicHook(panicHook{}))
}

func pluginInfo(name string) (*pipeline.PluginStaticInfo, error) {
	return fd.DefaultPluginRegistry.Get(pipeline.PluginKindAction, name)
}

// pipelineName: hash keeps normalizers in a package-level cache keyed by pipeline
// name + action index and throttle keeps limiters per pipeline name; a fresh name
// per case keeps cases independent. For hash the name is derived from the
// normalizer configuration so that the cache (correctly) maps equal configurations
// to one compiled lexer instead of growing by one lexer per case.
func pipelineName(c Case) string {
	if c.Plugin == "hash" {
		var m map[string]json.RawMessage
		_ = json.Unmarshal(c.Config, &m)
		return fmt.Sprintf("c13_hash_%x", vkit.Hash([]byte(m["normalizer"])))
	}
	return fdkit.UniqueName("c13")
}

func resultName(r pipeline.ActionResult) string {
	switch r {
	case pipeline.ActionPass:
		return "pass"
	case pipeline.ActionCollapse:
		return "collapse"
	case pipeline.ActionDiscard:
		return "discard"
	case pipeline.ActionHold:
		return "hold"
	case pipeline.ActionBreak:
		return "break"
	}
	return "undefined(" + strconv.Itoa(int(r)) + ")"
}

var reDigits = regexp.MustCompile(`[0-9]+`)

// panicKind maps a panic message to a stable short class.
func panicKind(msg string) string {
	for _, k := range []string{"slice bounds out of range", "index out of range", "nil pointer dereference", "integer divide by zero",
		"not valid UTF-8", "inconsistent label cardinality", "makeslice", "interface conversion", "assignment to entry in nil map",
		"insane json really goes outta its mind", "concurrent map"} {
		if strings.Contains(msg, k) {
			return strings.ReplaceAll(k, " ", "-")
		}
	}
	msg = reDigits.ReplaceAllString(msg, "N")
	f := strings.Fields(msg)
	if len(f) > 4 {
		f = f[:4]
	}
	return strings.Join(f, "-")
}

// firstFileDFrame returns the first stack frame inside file.d (not the harness).
func firstFileDFrame(stack string) string {
	for _, line := range strings.Split(stack, "\n") {
		if strings.HasPrefix(line, "github.com/ozontech/file.d/") && !strings.Contains(line, "/zzverif/") {
			f := strings.TrimPrefix(line, "github.com/ozontech/file.d/")
			if i := strings.LastIndex(f, "("); i > 0 {
				f = f[:i]
			}
			return f
		}
	}
	return "?"
}

func shortStack(stack string) string {
	lines := strings.Split(stack, "\n")
	var out []string
	for i := 0; i < len(lines) && len(out) < 14; i++ {
		if strings.Contains(lines[i], "ozontech") || strings.Contains(lines[i], "prometheus") {
			out = append(out, strings.TrimSpace(lines[i]))
		}
	}
	return strings.Join(out, "\n")
}

// do calls Do once and applies the no-panic / defined-result clauses.
// ok=false: the instance must not be used further.
func (r *runner) do(ev *pipeline.Event, what string) (res pipeline.ActionResult, ok bool) {
	t0 := time.Now()
	rec, stack := fdkit.CatchPanic(func() { res = r.ap.Do(ev) })
	if timing != nil && time.Since(t0) > 100*time.Millisecond {
		fmt.Fprintf(os.Stderr, "SLOWDO %v %s\n", time.Since(t0), what)
	}
	suffix := ""
	if ev.IsTimeoutKind() {
		suffix = ":on-timeout"
	}
	if rec != nil {
		ctx := fmt.Sprintf("plugin %s config %s settings %+v, %s", r.c.Plugin, r.c.Config, r.c.Settings, what)
		switch p := rec.(type) {
		case fdkit.FatalPanic:
			r.o.Failf(P, "do-fatal:"+r.c.Plugin+":"+firstFatalWords(p.Msg)+suffix, "Do called logger.Fatal (the collector exits): %q\n%s\n%s", p.Msg, ctx, shortStack(stack))
		case fdkit.LoggedPanic:
			r.o.Failf(P, "do-logged-panic:"+r.c.Plugin+":"+firstFatalWords(p.Msg)+suffix, "Do called logger.Panic: %q\n%s\n%s", p.Msg, ctx, shortStack(stack))
		default:
			msg := fmt.Sprint(rec)
			r.o.Failf(P, "do-panics:"+r.c.Plugin+":"+firstFileDFrame(stack)+":"+panicKind(msg)+suffix, "Do panicked: %s\n%s\n%s", clip(msg, 300), ctx, shortStack(stack))
		}
		return res, false
	}
	switch res {
	case pipeline.ActionPass, pipeline.ActionCollapse, pipeline.ActionDiscard, pipeline.ActionHold, pipeline.ActionBreak:
	default:
		r.o.Failf(P, "undefined-action-result:"+r.c.Plugin+suffix, "Do returned %d which is none of the five ActionResults (%s)", int(res), what)
		return res, false
	}
	r.o.Class("result:" + resultName(res) + suffix)
	return res, true
}

func firstFatalWords(msg string) string {
	msg = reDigits.ReplaceAllString(msg, "N")
	f := strings.FieldsFunc(msg, func(r rune) bool { return !(r >= 'a' && r <= 'z' || r >= 'A' && r <= 'Z' || r == 'N') })
	if len(f) > 5 {
		f = f[:5]
	}
	return strings.Join(f, "-")
}

func clip(s string, n int) string {
	if len(s) > n {
		return s[:n] + "…"
	}
	return s
}

// boundedTree walks the event through the public node API and reports whether
// it is a finite tree of reasonable size (MutateToNode can build cycles; Encode
// would then never return).
func boundedTree(n *insaneJSON.Node) bool {
	budget := 200000
	var walk func(n *insaneJSON.Node, depth int) bool
	walk = func(n *insaneJSON.Node, depth int) bool {
		budget--
		if budget < 0 || depth > 2000 {
			return false
		}
		switch {
		case n == nil:
			return true
		case n.IsObject():
			for _, f := range n.AsFields() {
				if !walk(f.AsFieldValue(), depth+1) {
					return false
				}
			}
		case n.IsArray():
			for _, e := range n.AsArray() {
				if !walk(e, depth+1) {
					return false
				}
			}
		}
		return true
	}
	return walk(n, 0)
}

// lazyJSONPlugins decode a string field of the event as JSON with insane-json,
// which (known finding invalid-json-accepted-and-reemitted:json of C12) accepts
// some invalid JSON and re-emits it verbatim.
var lazyJSONPlugins = map[string]bool{"json_decode": true, "decode": true, "json_extract": true}

// nestedInvalidJSON reports whether the configured field of event doc holds a
// string that encoding/json rejects (the shape of the known finding).
func (r *runner) nestedInvalidJSON(doc *vkit.JNode) bool {
	if !lazyJSONPlugins[r.c.Plugin] || doc == nil {
		return false
	}
	var m map[string]any
	if json.Unmarshal(r.c.Config, &m) != nil {
		return false
	}
	if r.c.Plugin == "decode" {
		if d, _ := m["decoder"].(string); d != "" && d != "json" {
			return false
		}
	}
	f, _ := m["field"].(string)
	n := digJ(doc, cfg.ParseFieldSelector(f))
	return n != nil && n.Kind == 's' && !json.Valid([]byte(n.Str))
}

const sigNestedLazy = "invalid-nested-json-accepted-and-reemitted"

// checkEvent applies the "event stays a well-formed JSON document" clause.
func (r *runner) checkEvent(ev *pipeline.Event, clause, what string) string {
	if ev.Root == nil || ev.Root.Node == nil {
		r.o.Failf(P, clause+":nil-root:"+r.c.Plugin, "%s: the event has no root after Do", what)
		return ""
	}
	if !boundedTree(ev.Root.Node) {
		r.o.Failf(P, "event-tree-not-finite:"+r.c.Plugin, "%s: the event is not a finite tree after Do (cycle built by MutateToNode?); config %s", what, r.c.Config)
		r.stop = true
		return ""
	}
	var enc string
	if rec, stack := fdkit.CatchPanic(func() { enc = ev.Root.EncodeToString() }); rec != nil {
		r.o.Failf(P, "encode-panics:"+r.c.Plugin, "%s: encoding the event panicked: %v\n%s", what, rec, shortStack(stack))
		r.stop = true
		return ""
	}
	if !json.Valid([]byte(enc)) {
		var doc *vkit.JNode
		if r.inDo >= 0 && r.inDo < len(r.docs) {
			doc = r.docs[r.inDo]
		}
		if r.nestedInvalidJSON(doc) {
			// same root cause as the listed known finding of C12 (insane-json parses lazily), reached through an action
			sig := sigNestedLazy + ":" + r.c.Plugin
			if vkit.IsKnown(P, sig) {
				r.o.Failf(P, sig, "%s: %q", what, clip(enc, 300))
			} else {
				r.o.Excluded(P)
				r.o.Class("excluded:" + sig)
				lastExec.excluded = true
			}
			return enc
		}
		r.o.Failf(P, clause+":"+r.c.Plugin, "%s does not encode to valid JSON after %s.Do: %q\nconfig %s settings %+v\nevents %s", what, r.c.Plugin, clip(enc, 600), r.c.Config, r.c.Settings, r.eventsText())
	}
	return enc
}

func (r *runner) eventsText() string {
	var sb strings.Builder
	for i, e := range r.c.Events {
		if i > r.inDo {
			break
		}
		fmt.Fprintf(&sb, "\n #%d %q", i, clip(string(e.bytes()), 400))
		if e.Timeout {
			sb.WriteString(" +timeout")
		}
	}
	return sb.String()
}

// digJ follows a path the way insane-json's Dig does: object members by name,
// array elements by decimal index.
func digJ(n *vkit.JNode, path []string) *vkit.JNode {
	cur := n
	for _, seg := range path {
		if cur == nil {
			return nil
		}
		switch cur.Kind {
		case 'o':
			cur = cur.Get(seg)
		case 'a':
			i, err := strconv.Atoi(seg)
			if err != nil || i < 0 || i >= len(cur.Vals) {
				return nil
			}
			cur = cur.Vals[i]
		default:
			return nil
		}
	}
	return cur
}

var reNow = regexp.MustCompile(`@now([+-][0-9a-z]+)?/(rfc3339nano|rfc3339|unix|unixmilli|unixfloat|nginx)`)

// substNow replaces "@now-90s/rfc3339" style placeholders (generated for time
// fields of throttle / convert_date) by a time relative to the wall clock.
// The clock only selects which bucket an event falls into; the oracle does not depend on it.
func substNow(text []byte) []byte {
	if !bytes.Contains(text, []byte("@now")) {
		return text
	}
	now := time.Now()
	return reNow.ReplaceAllFunc(text, func(m []byte) []byte {
		sm := reNow.FindSubmatch(m)
		t := now
		if len(sm[1]) > 0 {
			if d, err := time.ParseDuration(string(sm[1])); err == nil {
				t = t.Add(d)
			}
		}
		switch string(sm[2]) {
		case "rfc3339nano":
			return []byte(t.UTC().Format(time.RFC3339Nano))
		case "rfc3339":
			return []byte(t.UTC().Format(time.RFC3339))
		case "unix":
			return []byte(strconv.FormatInt(t.Unix(), 10))
		case "unixmilli":
			return []byte(strconv.FormatInt(t.UnixMilli(), 10))
		case "unixfloat":
			return []byte(fmt.Sprintf("%d.%03d", t.Unix(), t.Nanosecond()/1e6))
		default:
			return []byte(t.UTC().Format("2006/01/02 15:04:05"))
		}
	})
}

func pipelineSettings(s Settings) *pipeline.Settings {
	st := fdkit.DefaultSettings()
	st.MaxEventSize = s.MaxEventSize
	st.CutOffEventByLimit = s.CutOff
	st.CutOffEventByLimitField = s.CutOffField
	st.SourceNameMetaField = s.SourceNameMetaField
	st.Metric.MaxLabelValueLength = s.MaxLabelValueLength
	st.AvgEventSize = 256
	return st
}

// exec runs one case. Pure function of the case and the code under test (plus
// the wall clock for "@now" placeholders and the plugins' own use of time.Now).
func exec(c Case) *vkit.Outcome {
	o := vkit.NewOutcome()
	info, err := pluginInfo(c.Plugin)
	if err != nil {
		o.Class("bad-case:unknown-plugin")
		return o
	}
	if c.Plugin == "k8s-multiline" {
		setupK8sMeta()
	}
	o.Class("plugin=" + c.Plugin)

	// --- configuration: GetConfig (cfg.DecodeConfig + cfg.Parse) then Start
	var config pipeline.AnyConfig
	if rec, _ := fdkit.CatchPanic(func() { config, err = pipeline.GetConfig(info, c.Config, values) }); rec != nil {
		o.Class("rejected:" + c.Plugin)
		o.Class("rejected-by-getconfig-panic:" + c.Plugin)
		vkit.Note(P, fmt.Sprintf("GetConfig panicked for %s: %v (config %s)", c.Plugin, clip(fmt.Sprint(rec), 120), clip(string(c.Config), 200)))
		return o
	}
	if err != nil {
		o.Class("rejected:" + c.Plugin)
		o.Class("rejected-by-getconfig:" + c.Plugin)
		if timing != nil {
			fmt.Fprintf(os.Stderr, "REJECT %s getconfig: %v\n", c.Plugin, err)
		}
		return o
	}
	st := pipelineSettings(c.Settings)
	name := pipelineName(c)
	// what pipeline.New builds for its plugins
	mctl := metric.NewCtl("pipeline_"+name, prometheus.NewRegistry(), st.Metric.HoldDuration, st.Metric.MaxLabelValueLength)
	r := &runner{c: c, o: o, held: map[*pipeline.Event]int{}, inDo: -1}
	r.maxExc = mctl.RegisterCounterVec("max_event_size_exceeded_total", "Max event size exceeded counter", "source_name")
	params := &pipeline.ActionPluginParams{
		PluginDefaultParams: pipeline.PluginDefaultParams{PipelineName: name, PipelineSettings: st, MetricCtl: mctl},
		Controller:          controller{r},
		Logger:              newLogger().Sugar().Named("action").Named(c.Plugin),
		Index:               0,
	}
	plug, _ := info.Factory()
	ap, isAction := plug.(pipeline.ActionPlugin)
	if !isAction {
		o.Class("bad-case:not-an-action")
		return o
	}
	r.ap = ap
	if rec, _ := fdkit.CatchPanic(func() { ap.Start(config, params) }); rec != nil {
		o.Class("rejected:" + c.Plugin)
		if timing != nil {
			fmt.Fprintf(os.Stderr, "REJECT %s start: %v CONFIG %s\n", c.Plugin, clip(fmt.Sprint(rec), 150), c.Config)
		}
		if _, fatal := rec.(fdkit.FatalPanic); fatal {
			o.Class("rejected-by-start-fatal:" + c.Plugin)
		} else {
			o.Class("rejected-by-start-panic:" + c.Plugin)
			vkit.Note(P, fmt.Sprintf("Start of %s panicked (counted as rejected configuration): %v", c.Plugin, clip(reDigits.ReplaceAllString(fmt.Sprint(rec), "N"), 120)))
		}
		_, _ = fdkit.CatchPanic(ap.Stop) // goroutines Start may already have spawned
		return o
	}
	o.Class("accepted:" + c.Plugin)
	lastExec.accepted = true
	defer func() {
		if rec, stack := fdkit.CatchPanic(ap.Stop); rec != nil {
			o.Failf(P, "stop-panics:"+c.Plugin, "Stop panicked: %v\n%s", rec, shortStack(stack))
		}
		for _, root := range r.roots {
			insaneJSON.Release(root)
		}
	}()

	// --- events
	touched := false
	for i, e := range c.Events {
		text := substNow(e.bytes())
		r.docs = append(r.docs, nil)
		if !json.Valid(text) {
			// the domain is "valid JSON text" (what insane-json does with invalid text is C12's known finding)
			o.Class("generator-produced-invalid-json")
			continue
		}
		doc, perr := vkit.ParseJSON(text)
		if perr != nil {
			o.Class("generator-produced-invalid-json")
			continue
		}
		r.docs[i] = doc
		root := insaneJSON.Spawn()
		if derr := root.DecodeBytes(text); derr != nil { // exactly what Pipeline.In does for the json decoder
			insaneJSON.Release(root)
			o.Class("event-rejected-by-decoder")
			continue
		}
		if doc.Kind != 'o' {
			o.Class("event-root-not-an-object")
		}
		for _, p := range c.Paths {
			if digJ(doc, p) != nil {
				touched = true
			}
		}
		src := e.Source
		if src == "" {
			src = "c13"
		}
		ev := &pipeline.Event{Root: root, SourceName: src, Size: len(text), Offset: int64(i + 1), SeqID: uint64(i + 1), SourceID: 1}
		r.inDo = i
		res, ok := r.do(ev, fmt.Sprintf("event #%d %q (events so far:%s)", i, clip(string(text), 400), r.eventsText()))
		if !ok {
			r.roots = append(r.roots, root)
			break
		}
		released := false
		switch res {
		case pipeline.ActionPass, pipeline.ActionBreak:
			r.busy = false
			if ev.IsChildParentKind() {
				// the action handed the event's subtrees to Controller.Spawn: processor.Spawn moves them into the
				// child events, and outputs skip parent events (Batch.ForEach) — the parent is never encoded again
				o.Class("parent-of-spawned-children-not-encoded:" + c.Plugin)
				break
			}
			enc := r.checkEvent(ev, "event-not-json-after-do", fmt.Sprintf("event #%d %q", i, clip(string(text), 400)))
			if c.Recycle {
				insaneJSON.Release(root)
				released = true
			} else {
				r.passed = append(r.passed, passedEvent{ev, enc, i})
			}
		case pipeline.ActionDiscard:
			r.busy = false
			if c.Recycle {
				insaneJSON.Release(root)
				released = true
			}
		case pipeline.ActionCollapse:
			r.busy = true
			if c.Recycle {
				insaneJSON.Release(root)
				released = true
			}
		case pipeline.ActionHold:
			r.busy = true
			r.held[ev] = i
		}
		if !released {
			r.roots = append(r.roots, root)
		}
		if o.Failed() || r.stop {
			break
		}
		if e.Timeout && r.busy {
			// streamer heartbeat: the stream stayed silent for event_timeout; Root is nil for time-out events
			to := &pipeline.Event{SourceName: "timeout", SeqID: uint64(i + 1), SourceID: 1}
			to.SetTimeoutKind()
			o.Class("timeout-sent:" + c.Plugin)
			tres, tok := r.do(to, fmt.Sprintf("time-out event after event #%d (events so far:%s)", i, r.eventsText()))
			if !tok {
				break
			}
			r.busy = tres == pipeline.ActionHold || tres == pipeline.ActionCollapse
			if o.Failed() || r.stop {
				break
			}
		}
	}

	// observation (not part of the property's clauses, never a failure): an event
	// that left the action must not change when the same instance processes later events
	if !o.Failed() {
		for _, pe := range r.passed {
			if pe.enc == "" || !boundedTree(pe.ev.Root.Node) {
				continue
			}
			var now string
			if rec, _ := fdkit.CatchPanic(func() { now = pe.ev.Root.EncodeToString() }); rec != nil {
				continue
			}
			if now != pe.enc && !json.Valid([]byte(now)) {
				// an output that batches encodes the event only now: what is sent on is not a JSON document
				o.Failf(P, "passed-event-not-json-after-later-events:"+c.Plugin, "event #%d left the action as %q; after the same instance processed the later events of the sequence it encodes to %q, which is not valid JSON (a batching output encodes after Out returned)\nconfig %s events:%s", pe.idx, clip(pe.enc, 300), clip(now, 300), clip(string(c.Config), 300), r.eventsText())
				break
			}
			if now != pe.enc {
				o.Class("observed:passed-event-changed-by-later-events:" + c.Plugin)
				vkit.Note(P, fmt.Sprintf("observation (not a C13 clause): an event that %s already passed changed when the instance processed later events: %q -> %q (config %s)", c.Plugin, clip(pe.enc, 160), clip(now, 160), clip(string(c.Config), 200)))
				break
			}
		}
	}

	// non-trivial: accepted configuration and (if it names event fields) an event carrying one of them
	if len(c.Paths) == 0 || touched {
		o.Nontrivial(P)
		o.Class("nontrivial:" + c.Plugin)
	}
	return o
}

// run wraps exec with a generous liveness deadline: an action that never
// returns is a violation too, and must not wedge the shard.
func run(c Case) *vkit.Outcome {
	if timing != nil {
		t0 := time.Now()
		defer func() {
			timing[c.Plugin] += time.Since(t0)
			fmt.Fprintf(os.Stderr, "TIMING %s %v total %v\n", c.Plugin, time.Since(t0), timing[c.Plugin])
			if time.Since(t0) > 100*time.Millisecond {
				b, _ := json.Marshal(c)
				fmt.Fprintf(os.Stderr, "SLOW %s\n", b)
			}
		}()
	}
	type result struct {
		o     *vkit.Outcome
		rec   any
		stack string
	}
	ch := make(chan result, 1)
	go func() {
		var res result
		res.rec, res.stack = fdkit.CatchPanic(func() { res.o = exec(c) })
		ch <- res
	}()
	select {
	case res := <-ch:
		if res.rec != nil {
			panic(&vkit.PanicWithStack{Val: res.rec, Stack: res.stack})
		}
		return res.o
	case <-time.After(240 * time.Second):
		o := vkit.NewOutcome()
		o.Failf(P, "case-does-not-terminate:"+c.Plugin, "plugin %s config %s: the case did not finish within 240 s", c.Plugin, c.Config)
		return o
	}
}

var prop = vkit.NewProp([]string{P}, "c13actions", gen, run)

func TestC13Actions(t *testing.T) { prop.Check(t) }
