package c13

// Configuration generator: a REFLECTIVE walk over each plugin's Config struct
// (tags json, default, options, required, parse, child, slice — semantics in
// cfg/config.go) drawing values from curated pools, plus per-plugin overrides
// where the reflective guess would be rejected too often or where the config is
// not a struct (rename, modify) or dials out (throttle redis backend).

import (
	"encoding/json"
	"fmt"
	"os"
	"reflect"
	"regexp"
	"strconv"
	"strings"

	"github.com/ozontech/file.d/cfg"
	"github.com/ozontech/file.d/zzverif/vkit"
	"pgregory.net/rapid"
)

// G carries the rapid source and what the configuration generator learned
// (paths named by the config, texts that make its regexps match).
type G struct {
	t      *rapid.T
	plugin string
	paths  [][]string
	texts  []string
}

// chance is true in roughly pct % of the draws; shrinks towards false.
// rapid's IntRange(0,9) is not uniform (measured: 16,16,10.5,10.5,8,8,8,8,7,9 %),
// the thresholds below follow the measured cumulative weights from the top.
func (g *G) chance(pct int, label string) bool {
	v := rapid.IntRange(0, 9).Draw(g.t, label)
	th := 0
	switch {
	case pct <= 0:
		return false
	case pct <= 4:
		return v >= 9 && rapid.IntRange(0, 9).Draw(g.t, label+"/rare") >= 6 // ~3 %
	case pct <= 9:
		th = 9
	case pct <= 16:
		th = 8
	case pct <= 24:
		th = 7
	case pct <= 32:
		th = 6
	case pct <= 40:
		th = 5
	case pct <= 48:
		th = 4
	case pct <= 58:
		th = 3
	case pct <= 69:
		th = 2
	case pct <= 90:
		th = 1
	}
	return v >= th
}

func pick[T any](g *G, label string, xs []T) T { return rapid.SampledFrom(xs).Draw(g.t, label) }

func (g *G) intn(label string, lo, hi int) int { return rapid.IntRange(lo, hi).Draw(g.t, label) }

// ---------------------------------------------------------------- pools

// names: field names shared with the event generator. Identifier-like names first
// (rapid prefers the front), hostile ones (dot inside, space, unicode, digit, empty) later.
var names = []string{"message", "log", "level", "time", "ts", "stream", "service", "k8s_pod", "user", "id", "a", "b", "c", "data", "nested", "arr",
	"user.name", "x y", "ключ", "A", "0", "q\"uote", "tab\tname", "msg"}

var identNames = []string{"message", "log", "level", "time", "ts", "stream", "service", "k8s_pod", "user", "id", "a", "b", "c", "data"}

var words = []string{"x", "error", "info", "debug", "warn", "value", "", "***", "a\"b", "é", "WARN", "3", "unknown", "x y", "{}"}

var prefixes = []string{"", "p_", "x.", "é", "a\"", "level", "_"}

var durations = []string{"1s", "1m", "1h", "100ms", "5s", "30m", "1ns", "0s", "24h", "1m30s", "bad", "-1s"}

var dataUnits = []string{"1 MB", "10 KB", "1 b", "5 mib", "0 kb", "x MB", "10MB"}

var expressions = []string{"8", "capacity/4", "gomaxprocs*2", "capacity-1", "1", "0", "nope*2", "capacity/0x"}

var timeFormats = []string{"rfc3339nano", "rfc3339", "unixtime", "unixtimemilli", "unixtimemicro", "unixtimenano", "nginx_errorlog", "ansic", "rfc822", "stamp", "kitchen",
	"timestampmilli", "timestampnano", "2006-01-02 15:04:05", "2006-01-02T15:04:05.000Z07:00", "02/Jan/2006:15:04:05 -0700", "15:04", "Jan _2 15:04:05", "x", "\"2006\"", "RFC1123Z"}

var metricNames = []string{"c13_metric", "mask_applied_total", "m1", "", "bad-name", "é"}

var templateNames = []string{"go_panic", "cs_exception", "go_data_race", "go_panic", "cs_exception", "go_data_race", "go_panic", "cs_exception", "go_data_race", "go_panic", "cs_exception", "nope", "", "go_data_race"}

var levelWords = []string{"", "info", "error", "3", "WARN", "unknown", "debug"}

type reSample struct {
	re      string
	samples []string
	named   bool
}

// regexPool: plain, nested, optional, alternated, repeated, empty-matching,
// case-insensitive, multi-byte and named groups; samples make them match.
var regexPool = []reSample{
	{re: `^\s`, samples: []string{" at foo.bar()", "\tx", "x", ""}},
	{re: `^panic:`, samples: []string{"panic: boom", "no panic: here", "goroutine 1 [running]:"}},
	{re: `(\d{4})-(\d{2})-(\d{2})`, samples: []string{"2023-10-30", "on 2023-10-30 and 2024-01-02", "2023-1-1"}},
	{re: `\b(\d{1,4})\D?(\d{1,4})\D?(\d{1,4})\D?(\d{1,4})\b`, samples: []string{"4111 1111 1111 1111", "card 5469-3800-2401-6155 ok", "1 2 3 4", "12"}},
	{re: `(a(b))`, samples: []string{"ab", "aab", "a", "xabx"}},
	{re: `(a)|(b)`, samples: []string{"a", "b", "ab", "c"}},
	{re: `(a)?b`, samples: []string{"b", "ab", "bb"}},
	{re: `((a)|(b))+`, samples: []string{"abab", "ba", "c"}},
	{re: `(?i)error`, samples: []string{"ERROR x", "an Error", "err"}},
	{re: `.*`, samples: []string{"anything"}},
	{re: `^$`, samples: []string{"", "x"}},
	{re: `x*`, samples: []string{"xxx", "", "axb"}},
	{re: `(é+)`, samples: []string{"ééé", "café", "e"}},
	{re: `([^ ]*) (y)?`, samples: []string{"foo y", "foo ", "foo"}},
	{re: `(\w+)@(\w+)\.com`, samples: []string{"bob@example.com", "a@b.com c@d.com"}},
	{re: `(?P<date>[\d]{4}-[\d]{2}-[\d]{2}) (?P<level>\w+) (?P<msg>.*)`, samples: []string{"2023-10-30 info hello world", "2023-10-30 info ", "2023-10-30"}, named: true},
	{re: `(?P<a>\w+)=(?P<b>\w+)?`, samples: []string{"k=v", "k=", "=v"}, named: true},
	{re: `(?P<ts>\d+)(?:\.(?P<frac>\d+))?`, samples: []string{"1698672933.123", "1698672933", "x"}, named: true},
	{re: `(?P<level>é|x)(?P<message>.*)`, samples: []string{"éabc", "x", "y"}, named: true},
}

var brokenRegexps = []reSample{{re: `(`}, {re: `[a`}, {re: ``}, {re: `a{2,1}`}}

func (g *G) regex(label string, wantNamed bool) reSample {
	if g.chance(3, label+"/broken") {
		return pick(g, label+"/brokenre", brokenRegexps)
	}
	pool := regexPool
	if wantNamed {
		pool = nil
		for _, r := range regexPool {
			if r.named {
				pool = append(pool, r)
			}
		}
		pool = append(pool, regexPool[2]) // unnamed groups only
	}
	r := pick(g, label, pool)
	g.texts = append(g.texts, r.samples...)
	return r
}

// ---------------------------------------------------------------- selectors

func renderSelector(path []string) string {
	parts := make([]string, len(path))
	for i, p := range path {
		parts[i] = strings.ReplaceAll(p, ".", `\.`)
	}
	return strings.Join(parts, ".")
}

// path draws an event field path: mostly one name, sometimes nested / through an array.
func (g *G) path(label string) []string {
	n := 1
	switch v := g.intn(label+"/depth", 0, 9); {
	case v >= 6 && v <= 7:
		n = 2
	case v == 8:
		n = 3
	}
	var p []string
	for i := 0; i < n; i++ {
		seg := pick(g, label+"/seg", names)
		if i > 0 && g.chance(12, label+"/idx") {
			seg = pick(g, label+"/idxv", []string{"0", "1", "7"})
		}
		p = append(p, seg)
	}
	return p
}

// selector draws a path, remembers it and renders it with the documented escaping.
func (g *G) selector(label string) string {
	p := g.path(label)
	s := renderSelector(p)
	g.paths = append(g.paths, cfg.ParseFieldSelector(s))
	return s
}

// fieldName draws a plain (not selector-parsed) top-level field name and remembers it.
func (g *G) fieldName(label string, pool []string) string {
	n := pick(g, label, pool)
	g.paths = append(g.paths, []string{n})
	return n
}

// ---------------------------------------------------------------- reflective walk

type override func(g *G) (v any, set bool)

func skip(*G) (any, bool) { return nil, false }

func oneOf(vals ...any) override {
	return func(g *G) (any, bool) { return pick(g, "ov", vals), true }
}

func optional(pct int, o override) override {
	return func(g *G) (any, bool) {
		if !g.chance(pct, "ov/include") {
			return nil, false
		}
		return o(g)
	}
}

// overrides: "<plugin>:<json path>" -> generator. Everything not listed is generated from the struct tags.
var overrides = map[string]override{
	// throttle: memory backend only (the redis backend dials out); its redis_backend_config block is never generated
	"throttle:limiter_backend":      optional(30, oneOf("memory")),
	"throttle:redis_backend_config": skip,
	"throttle:default_limit":        optional(85, oneOf(1, 2, 3, 1, 2, 10, 5000, -1, 0)),
	"throttle:buckets_count":        optional(70, oneOf(1, 2, 3, 60, 5, 1, 2, 3, 60, 5, 2, -1, 3)),
	"throttle:bucket_interval":      optional(70, oneOf("1s", "1m", "1h", "100ms", "24h", "1m30s", "1s", "1m", "1h", "100ms", "1m", "0s", "-1s", "24h")),
	"throttle:limiter_expiration":   optional(30, oneOf("30m", "1s", "1ms", "1h")),
	"throttle:throttle_field":       optional(70, func(g *G) (any, bool) { return g.selector("throttle_field"), true }),
	"throttle:time_field": optional(70, func(g *G) (any, bool) {
		return g.fieldName("time_field", []string{"time", "ts", "time", "message"}), true
	}),
	"throttle:time_field_format":  optional(70, func(g *G) (any, bool) { return pick(g, "tff", timeFormats), true }),
	"throttle:rules":              optional(50, throttleRules),
	"throttle:limit_distribution": optional(50, func(g *G) (any, bool) { return throttleDistribution(g), true }),

	// k8s-multiline gets the k8s input's config; only the options the action reads are generated
	"k8s-multiline:offsets_file":            oneOf("/tmp/c13-k8s-offsets.yaml"),
	"k8s-multiline:file_config":             skip,
	"k8s-multiline:meta":                    skip,
	"k8s-multiline:meta_file":               skip,
	"k8s-multiline:watching_dir":            skip,
	"k8s-multiline:deleted_pods_cache_size": skip,
	"k8s-multiline:split_event_size":        optional(60, oneOf(1000000, 131072+40, 131072+200, 131072+1000, 100, 1)),
	"k8s-multiline:only_node":               optional(30, oneOf(false, false, false, true)),
	"k8s-multiline:allowed_pod_labels":      optional(40, oneOf([]string{"allowed_label"}, []string{"app", "zone.name"}, []string{"nope"})),
	"k8s-multiline:allowed_node_labels":     optional(20, oneOf([]string{"zone"}, []string{})),
	"hash:normalizer":                       hashNormalizer,
	"mask:masks":                            masks,
	"mask:applied_metric_name":              optional(40, func(g *G) (any, bool) { return pick(g, "amn", metricNames), true }),
	"mask:applied_metric_labels":            optional(40, func(g *G) (any, bool) { return g.nameList("aml", identNames, 1, 2), true }),
	"mask:mask_applied_field":               optional(40, func(g *G) (any, bool) { return g.fieldName("maf", names), true }),
	"mask:ignore_fields":                    optional(20, func(g *G) (any, bool) { return g.selectorList("mif", 1, 2), true }),
	"mask:process_fields":                   optional(15, func(g *G) (any, bool) { return g.selectorList("mpf", 1, 2), true }),
	"decode:params":                         skip, // filled in by fixDecode (depends on the decoder drawn)
	"join_template:template":                optional(40, func(g *G) (any, bool) { return pick(g, "tpl", templateNames), true }),
	"join_template:templates":               optional(69, func(g *G) (any, bool) { return g.nameList("tpls", templateNames, 1, 3), true }),
	"parse_re2:re2":                         func(g *G) (any, bool) { return g.regex("re2", true).re, true },
	"cardinality:metric_prefix":             optional(40, oneOf("", "x", "my_prefix", "bad-prefix")),
	"cardinality:key":                       func(g *G) (any, bool) { return g.identSelectorList("ckey", 1, 2), true },
	"cardinality:fields":                    func(g *G) (any, bool) { return g.identSelectorList("cfields", 1, 2), true },
	"cardinality:limit":                     optional(80, oneOf(1, 2, 0, 3, 10000, -1)),
	"cardinality:ttl":                       optional(40, oneOf("1h", "1s", "1ns", "1ms")),
	"json_extract:extract_field":            optional(60, func(g *G) (any, bool) { return pick(g, "xf", innerSelectors), true }),
	"json_extract:extract_fields":           optional(85, func(g *G) (any, bool) { return g.nameList("xfs", innerSelectors, 1, 3), true }),
	"move:mode":                             oneOf("allow", "block", "allow", "block", "allow", "block", "allow", "both", "", "block"),
	"convert_log_level:default_level":       optional(50, func(g *G) (any, bool) { return pick(g, "dl", levelWords), true }),
	"convert_date:source_formats":           optional(70, func(g *G) (any, bool) { return g.nameList("sf", timeFormats, 1, 3), true }),
	"set_time:field":                        optional(60, func(g *G) (any, bool) { return g.fieldName("stf", names), true }),
	"add_host:field":                        optional(60, func(g *G) (any, bool) { return g.fieldName("ahf", names), true }),
	"debug:first":                           optional(50, oneOf(0, 1, 2, 10)),
	"debug:thereafter":                      optional(50, oneOf(0, 1, 2, 10)),
	"debug:interval":                        optional(50, oneOf("1s", "1ms", "0s", "1h")),
}

var innerSelectors = []string{"a", "b", "level", "message", "nested.x", "a.b", "n", "arr", `user\.name`, "a.b.c", "m", "", "nested"}

func (g *G) nameList(label string, pool []string, lo, hi int) []string {
	n := g.intn(label+"/n", lo, hi)
	out := []string{}
	for i := 0; i < n; i++ {
		out = append(out, pick(g, label, pool))
	}
	return out
}

func (g *G) selectorList(label string, lo, hi int) []string {
	n := g.intn(label+"/n", lo, hi)
	out := []string{}
	for i := 0; i < n; i++ {
		out = append(out, g.selector(label))
	}
	return out
}

// identSelectorList: selectors made of identifier-like names (they become prometheus label names).
func (g *G) identSelectorList(label string, lo, hi int) []string {
	n := g.intn(label+"/n", lo, hi)
	out := []string{}
	for i := 0; i < n; i++ {
		p := []string{pick(g, label, identNames)}
		if g.chance(20, label+"/nested") {
			p = append(p, pick(g, label+"/2", identNames))
		}
		if g.chance(6, label+"/odd") {
			p = []string{pick(g, label+"/oddname", names)}
		}
		s := renderSelector(p)
		g.paths = append(g.paths, cfg.ParseFieldSelector(s))
		out = append(out, s)
	}
	return out
}

func jsonName(f reflect.StructField) string {
	tag := f.Tag.Get("json")
	if tag == "" || tag == "-" {
		return ""
	}
	return strings.Split(tag, ",")[0]
}

// genStruct walks a config struct type and returns the JSON object for it.
func (g *G) genStruct(t reflect.Type, prefix string) map[string]any {
	return g.genStructIn(t, prefix, false)
}

// genStructIn: inElem = the struct is an element of a slice. cfg.SetDefaultValues runs before the JSON is decoded,
// i.e. while slices are still empty, so elements never get their `default:` values: options / required fields of an
// element have to be written out by the user (throttle rules' limit_kind, hash fields' format).
func (g *G) genStructIn(t reflect.Type, prefix string, inElem bool) map[string]any {
	m := map[string]any{}
	for i := 0; i < t.NumField(); i++ {
		f := t.Field(i)
		name := jsonName(f)
		if name == "" || !f.IsExported() {
			continue // computed fields (Field_, …) have no json tag: a user cannot set them
		}
		key := g.plugin + ":" + prefix + name
		if ov, ok := overrides[key]; ok {
			if v, set := ov(g); set {
				m[name] = v
			}
			continue
		}
		required := f.Tag.Get("required") == "true"
		include := g.chance(55, key+"/include")
		if strings.Contains(strings.ToLower(name), "field") {
			include = g.chance(85, key+"/include-field")
		}
		if required || (inElem && f.Tag.Get("options") != "") {
			include = !g.chance(4, key+"/omit-required")
		}
		if !include {
			continue
		}
		if v, ok := g.genValue(f, key, prefix+name+"."); ok {
			m[name] = v
		}
	}
	return m
}

// genValue draws a value for one struct field from its type, tags and name.
func (g *G) genValue(f reflect.StructField, key, prefix string) (any, bool) {
	lname := strings.ToLower(jsonName(f))
	ft := f.Type
	switch ft.Kind() {
	case reflect.String:
		return g.genString(f, key, lname), true
	case reflect.Bool:
		return g.chance(50, key+"/bool"), true
	case reflect.Int, reflect.Int8, reflect.Int16, reflect.Int32, reflect.Int64, reflect.Uint, reflect.Uint8, reflect.Uint16, reflect.Uint32, reflect.Uint64:
		return g.genInt(key, lname), true
	case reflect.Float32, reflect.Float64:
		return pick(g, key+"/float", []float64{0.5, 0.1, 0, 1, 0.25, 2, -1}), true
	case reflect.Struct:
		return g.genStruct(ft, prefix), true
	case reflect.Slice:
		et := ft.Elem()
		switch et.Kind() {
		case reflect.String:
			n := g.intn(key+"/len", 1, 3)
			if g.chance(9, key+"/empty") {
				n = 0
			}
			out := []string{}
			for i := 0; i < n; i++ {
				out = append(out, g.genListString(f, key, lname, et))
			}
			return out, true
		case reflect.Struct:
			n := g.intn(key+"/len", 1, 2)
			if g.chance(9, key+"/empty") {
				n = 0
			}
			out := []any{}
			for i := 0; i < n; i++ {
				out = append(out, g.genStructIn(et, prefix, true))
			}
			return out, true
		case reflect.Int:
			n := g.intn(key+"/len", 0, 3)
			out := []int{}
			for i := 0; i < n; i++ {
				out = append(out, g.intn(key+"/item", 0, 3))
			}
			return out, true
		}
		return nil, false
	case reflect.Map:
		if ft.Key().Kind() == reflect.String && ft.Elem().Kind() == reflect.String {
			n := g.intn(key+"/len", 0, 2)
			out := map[string]string{}
			for i := 0; i < n; i++ {
				out[g.fieldName(key+"/k", names)] = pick(g, key+"/v", words)
			}
			return out, true
		}
		return nil, false // map[string]any and friends: only through overrides
	}
	return nil, false // interfaces, funcs, pointers: not user-settable in a useful way
}

func (g *G) genString(f reflect.StructField, key, lname string) string {
	if opts := f.Tag.Get("options"); opts != "" {
		parts := strings.Split(opts, "|")
		if g.chance(4, key+"/badopt") {
			return "nope"
		}
		return pick(g, key+"/opt", parts)
	}
	switch f.Tag.Get("parse") {
	case "selector":
		return g.selector(key)
	case "regexp":
		r := g.regex(key, false)
		if g.chance(3, key+"/noslash") {
			return r.re
		}
		return "/" + r.re + "/"
	case "duration":
		return pick(g, key+"/dur", durations)
	case "data_unit":
		return pick(g, key+"/du", dataUnits)
	case "expression":
		return pick(g, key+"/expr", expressions)
	case "list", "list-map":
		return strings.Join(g.nameList(key+"/list", names, 1, 3), ",")
	case "base8":
		return pick(g, key+"/b8", []string{"0644", "644", "9", ""})
	}
	if f.Type.Name() == "FieldSelector" {
		return g.selector(key)
	}
	switch {
	case strings.Contains(lname, "format"):
		return pick(g, key+"/fmt", timeFormats)
	case lname == "re" || lname == "re2":
		return g.regex(key, false).re
	case strings.Contains(lname, "field") || lname == "key":
		return g.fieldName(key, names)
	case strings.Contains(lname, "prefix"):
		return pick(g, key+"/prefix", prefixes)
	case strings.Contains(lname, "template"):
		return pick(g, key+"/tpl", templateNames)
	case strings.Contains(lname, "metric"):
		return pick(g, key+"/metric", metricNames)
	case strings.Contains(lname, "level"):
		return pick(g, key+"/level", levelWords)
	}
	return pick(g, key+"/word", words)
}

func (g *G) genListString(f reflect.StructField, key, lname string, et reflect.Type) string {
	switch {
	case et.Name() == "FieldSelector" || strings.Contains(lname, "field") || lname == "key":
		return g.selector(key)
	case strings.Contains(lname, "label"):
		return g.fieldName(key, identNames)
	case strings.Contains(lname, "format"):
		return pick(g, key+"/fmt", timeFormats)
	case strings.Contains(lname, "template"):
		return pick(g, key+"/tpl", templateNames)
	}
	return pick(g, key+"/word", words)
}

func (g *G) genInt(key, lname string) int {
	switch {
	case strings.Contains(lname, "size"):
		return pick(g, key+"/int", []int{0, 1, 5, 16, 64, 1000000, 3, -1})
	case strings.Contains(lname, "limit"):
		return pick(g, key+"/int", []int{1, 2, 3, 0, 100, -1})
	case strings.Contains(lname, "count"):
		return pick(g, key+"/int", []int{1, 2, 3, 60, 0, -1})
	}
	return pick(g, key+"/int", []int{0, 1, 2, 10, 3, -1})
}

// ---------------------------------------------------------------- per-plugin pieces

func throttleDistribution(g *G) map[string]any {
	d := map[string]any{"field": g.fieldName("ld/field", []string{"level", "service", "level", "user.name"})}
	n := g.intn("ld/nratios", 0, 3)
	ratios := []any{}
	budget := 10 // tenths
	vals := []string{"error", "info", "debug", "warn", "x", "é", ""}
	used := 0
	for i := 0; i < n; i++ {
		r := g.intn("ld/ratio", 1, 6)
		if g.chance(90, "ld/fit") && r > budget {
			r = budget // 0 = "required" ratio missing: rejected
		}
		budget -= r
		if budget < 0 {
			budget = 0
		}
		nv := g.intn("ld/nvals", 1, 2)
		var vs []string
		for j := 0; j < nv && used < len(vals); j++ {
			vs = append(vs, vals[used])
			used++
		}
		if g.chance(3, "ld/dupval") {
			vs = append(vs, vals[0])
		}
		ratios = append(ratios, map[string]any{"ratio": float64(r) / 10, "values": vs})
	}
	if len(ratios) > 0 {
		d["ratios"] = ratios
	}
	if g.chance(40, "ld/labels") {
		d["metric_labels"] = g.nameList("ld/lbl", identNames, 1, 2)
		for _, l := range d["metric_labels"].([]string) {
			g.paths = append(g.paths, []string{l})
		}
	}
	return d
}

func throttleRules(g *G) (any, bool) {
	n := g.intn("rules/n", 1, 2)
	rules := []any{}
	for i := 0; i < n; i++ {
		r := map[string]any{"limit": pick(g, "rules/limit", []int{1, 2, 0, 3, -1, 100})}
		if !g.chance(4, "rules/nokind") { // no default inside slice elements: must be written out
			r["limit_kind"] = pick(g, "rules/kindv", []string{"count", "size"})
		}
		if g.chance(80, "rules/cond") {
			r["conditions"] = map[string]string{g.fieldName("rules/ck", []string{"level", "service", "k8s_pod", "stream"}): pick(g, "rules/cv", []string{"error", "info", "x", ""})}
		}
		if g.chance(30, "rules/ld") {
			r["limit_distribution"] = throttleDistribution(g)
		}
		rules = append(rules, r)
	}
	return rules, true
}

// hashNormalizer: a small pool (each distinct configuration compiles one lexer, which is cached per pipeline name).
func hashNormalizer(g *G) (any, bool) {
	custom := []any{map[string]any{"placeholder": "<quoted>", "re": `"[^"]*"`, "priority": "first"}, map[string]any{"placeholder": "<nginx_datetime>", "re": `\d\d\d\d/\d\d/\d\d\ \d\d:\d\d:\d\d`, "priority": "last"}}
	pool := []any{
		map[string]any{},
		map[string]any{"builtin_patterns": "int|float"},
		map[string]any{"builtin_patterns": "double_quoted|curly_bracketed|square_bracketed|parenthesized|single_quoted|grave_quoted"},
		map[string]any{"builtin_patterns": "no", "custom_patterns": custom},
		map[string]any{"builtin_patterns": "uuid|ip|double_quoted", "custom_patterns": custom[:1]},
		map[string]any{"builtin_patterns": "email|url|filepath|datetime|duration|hex|bool"},
		map[string]any{"builtin_patterns": "nope"},
		map[string]any{"builtin_patterns": "no"},
	}
	v := pick(g, "hash/normalizer", pool)
	if m, _ := v.(map[string]any); len(m) == 0 && !allowDefaultNormalizer() {
		// compiling the default lexer (all built-in patterns) takes ~8 s of CPU once per process:
		// the quick tier pays that in every second shard only
		v = pool[1]
	}
	return v, true
}

func allowDefaultNormalizer() bool {
	if vkit.Thorough() {
		return true
	}
	sh, err := strconv.Atoi(os.Getenv("VERIF_SHARD"))
	return err != nil || sh%2 == 0
}

// masks: 1–2 masks with groups that fit the regexp (the deep exploration of mask is C17's job).
func masks(g *G) (any, bool) {
	n := g.intn("masks/n", 1, 2)
	out := []any{}
	for i := 0; i < n; i++ {
		m := map[string]any{}
		r := g.regex("masks/re", false)
		m["re"] = r.re
		ng := 0
		if cre, err := regexp.Compile(r.re); err == nil {
			ng = cre.NumSubexp()
		}
		switch {
		case ng == 0 || g.chance(30, "masks/g0"):
			m["groups"] = []int{0}
			if ng == 0 && g.chance(70, "masks/wrap") { // groups [0] needs >= 1 capture group to pass VerifyGroupNumbers
				m["re"] = "(" + r.re + ")"
			}
		default:
			k := g.intn("masks/ngroups", 1, ng)
			perm := rapid.Permutation(seq(1, ng)).Draw(g.t, "masks/perm")
			m["groups"] = perm[:k]
		}
		if g.chance(3, "masks/badgroup") {
			m["groups"] = []int{ng + 1}
		}
		switch g.intn("masks/mode", 0, 5) {
		case 1:
			m["max_count"] = g.intn("masks/maxcount", 1, 3)
		case 2:
			m["replace_word"] = pick(g, "masks/word", words)
		case 3:
			m["cut_values"] = true
		}
		if g.chance(30, "masks/af") {
			m["applied_field"] = g.fieldName("masks/afn", names)
			m["applied_value"] = pick(g, "masks/afv", words)
		}
		if g.chance(30, "masks/metric") {
			m["metric_name"] = pick(g, "masks/mn", []string{"c13_mask_a", "c13_mask_b", "mask_applied_total"})
			if g.chance(60, "masks/ml") {
				m["metric_labels"] = g.nameList("masks/mlv", identNames, 1, 2)
				for _, l := range m["metric_labels"].([]string) {
					g.paths = append(g.paths, []string{l})
				}
			}
		}
		if g.chance(10, "masks/pf") {
			m["process_fields"] = g.selectorList("masks/pfv", 1, 2)
		} else if g.chance(10, "masks/if") {
			m["ignore_fields"] = g.selectorList("masks/ifv", 1, 2)
		}
		if g.chance(10, "masks/rules") {
			m["match_rules"] = []any{map[string]any{"cond": "or", "rules": []any{map[string]any{"values": []string{pick(g, "masks/rv", []string{"a", "4", "card", "é"})}, "mode": pick(g, "masks/rm", []string{"contains", "prefix", "suffix"}), "case_insensitive": g.chance(50, "masks/ci")}}}}
		}
		if g.chance(8, "masks/doif") {
			m["do_if"] = map[string]any{"op": "equal", "field": g.fieldName("masks/doif/f", identNames), "values": []any{pick(g, "masks/doif/v", words), nil}}
		}
		out = append(out, m)
	}
	return out, true
}

func seq(lo, hi int) []int {
	var out []int
	for i := lo; i <= hi; i++ {
		out = append(out, i)
	}
	return out
}

const protoContent = `syntax = "proto3";
package test;
option go_package = "test.v1";
message Data {
  string stringData = 1 [json_name="string_data"];
  int32 intData = 2 [json_name="int_data"];
}
message MyMessage {
  message InternalData {
    repeated string myStrings = 1 [json_name="my_strings"];
    bool isValid = 2 [json_name="is_valid"];
  }
  Data data = 1;
  InternalData internalData = 2 [json_name="internal_data"];
  uint64 version = 3;
}
`

// fixDecode fills decode.params to fit the decoder that was drawn.
func fixDecode(g *G, m map[string]any) {
	dec, _ := m["decoder"].(string)
	p := map[string]any{}
	switch dec {
	case "", "json":
		if g.chance(40, "decode/limit") {
			lim := map[string]any{}
			for i, n := 0, g.intn("decode/nlim", 1, 2); i < n; i++ {
				lim[pick(g, "decode/limpath", []string{"a", "message", "a.b", "level", "m"})] = g.intn("decode/lim", 0, 8)
			}
			p["json_max_fields_size"] = lim
		}
	case "nginx_error":
		if g.chance(50, "decode/custom") {
			p["nginx_with_custom_fields"] = true
		}
	case "syslog_rfc3164", "syslog_rfc5424":
		if g.chance(50, "decode/ff") {
			p["syslog_facility_format"] = pick(g, "decode/ffv", []string{"number", "string"})
		}
		if g.chance(50, "decode/sf") {
			p["syslog_severity_format"] = pick(g, "decode/sfv", []string{"number", "string"})
		}
	case "csv":
		if g.chance(60, "decode/cols") {
			p["columns"] = g.nameList("decode/col", []string{"a", "b", "ts", "ip", "x\"y", "message"}, 0, 4)
		}
		if g.chance(40, "decode/pfx") {
			p["prefix"] = pick(g, "decode/pfxv", []string{"csv_", "", "\"", "é"})
		}
		if g.chance(40, "decode/dl") {
			p["delimiter"] = pick(g, "decode/dlv", []string{",", ";", "\t", " "})
		}
		if g.chance(40, "decode/ilm") {
			p["invalid_line_mode"] = pick(g, "decode/ilmv", []string{"continue", "default"})
		}
	case "protobuf":
		if !g.chance(5, "decode/noproto") {
			p["proto_file"] = protoContent
			p["proto_message"] = "MyMessage"
		}
	}
	if len(p) > 0 || g.chance(20, "decode/emptyparams") {
		m["params"] = p
	}
}

// substitution strings of modify: raw text, field references, filters.
func (g *G) substitution() string {
	var sb strings.Builder
	n := g.intn("subst/n", 1, 3)
	for i := 0; i < n; i++ {
		switch g.intn("subst/kind", 0, 9) {
		case 0, 1:
			sb.WriteString(pick(g, "subst/raw", []string{"value is ", "x", " ", "é", "$$", "$", "a\"b", "value is ", "x", " ", "-", "_", ":", "|", "}", "${", "="}))
		case 2, 3, 4:
			sb.WriteString("${" + g.selector("subst/field") + "}")
		default:
			sb.WriteString("${" + g.selector("subst/ffield"))
			nf := g.intn("subst/nfilters", 1, 2)
			for j := 0; j < nf; j++ {
				sb.WriteString("|" + g.filter())
			}
			sb.WriteString("}")
		}
	}
	return sb.String()
}

func (g *G) filter() string {
	q := func(s string) string { b, _ := json.Marshal(s); return string(b) }
	switch g.intn("filter/kind", 0, 4) {
	case 0, 1:
		r := g.regex("filter/re", false)
		ng := 0
		if cre, err := regexp.Compile(r.re); err == nil {
			ng = cre.NumSubexp()
		}
		var groups []int
		if ng == 0 {
			groups = []int{0}
			if !g.chance(9, "filter/nowrap") {
				r.re = "(" + r.re + ")" // group 0 alone needs at least one capture group to pass VerifyGroupNumbers
			}
		} else {
			k := g.intn("filter/ngroups", 1, ng)
			groups = rapid.Permutation(seq(1, ng)).Draw(g.t, "filter/perm")[:k]
			if g.chance(15, "filter/g0") {
				groups = []int{0}
			}
		}
		gs, _ := json.Marshal(groups)
		s := fmt.Sprintf("re(%s,%d,%s,%s", q(r.re), pick(g, "filter/limit", []int{-1, 1, 2, 0}), gs, q(pick(g, "filter/sep", []string{",", "", " | ", "é"})))
		if g.chance(40, "filter/eonm") {
			s += fmt.Sprintf(",%v", g.chance(50, "filter/eonmv"))
		}
		return s + ")"
	case 2:
		return fmt.Sprintf("trim(%s,%s)", q(pick(g, "filter/tmode", []string{"all", "left", "right", "all", "left", "right", "all", "both", "left"})), q(pick(g, "filter/cutset", []string{"\n", " ", "{}", "é", "", "x"})))
	case 3:
		return fmt.Sprintf("trim_to(%s,%s)", q(pick(g, "filter/ttmode", []string{"all", "left", "right"})), q(pick(g, "filter/ttcut", []string{"{", "}", "é", " ", "ab", ""})))
	default:
		return fmt.Sprintf("cut(%s,%d)", q(pick(g, "filter/cmode", []string{"first", "last", "first", "last", "first", "last", "first", "mid", "last"})), pick(g, "filter/ccount", []int{1, 2, 5, 10, 3, 1, 2, 5, 10, 3, 0, 8}))
	}
}

// genConfig returns the configuration (JSON) for g.plugin; t is the plugin's Config type.
func (g *G) genConfig(t reflect.Type) json.RawMessage {
	switch g.plugin {
	case "rename":
		// type Config []string filled from an ordered JSON object: path -> new name, plus "override"
		obj := vkit.JObj()
		for i, n := 0, g.intn("rename/n", 1, 3); i < n; i++ {
			k := g.selector("rename/from")
			if g.chance(8, "rename/underscore") {
				k = "_" + k
			}
			obj.Set(k, vkit.JStr(pick(g, "rename/to", names)))
		}
		if g.chance(50, "rename/override") {
			obj.Set("override", vkit.JStr(pick(g, "rename/ov", []string{"true", "false", "yes"})))
		}
		return json.RawMessage(obj.Encode())
	case "modify":
		// type Config map[string]string: target field -> substitution
		m := map[string]string{}
		for i, n := 0, g.intn("modify/n", 1, 3); i < n; i++ {
			m[g.selector("modify/target")] = g.substitution()
		}
		if g.chance(30, "modify/skipempty") {
			m["_skip_empty"] = pick(g, "modify/se", []string{"true", "false"})
		}
		b, _ := json.Marshal(m)
		return b
	}
	if t.Kind() != reflect.Struct {
		return json.RawMessage(`{}`)
	}
	m := g.genStruct(t, "")
	switch g.plugin {
	case "decode":
		fixDecode(g, m)
	case "mask":
		if _, a := m["ignore_fields"]; a {
			if !g.chance(5, "mask/both") {
				delete(m, "process_fields")
			}
		}
	}
	b, err := json.Marshal(m)
	if err != nil {
		return json.RawMessage(`{}`)
	}
	return b
}
