package c13

// Second route (DESIGN.md C13): the same generated sequences, after they went
// through the direct Do route without a finding, are replayed through a real
// one-processor pipeline (harness input and output, the plugin under test as
// the only action) in virtual time. It adds what only the processor's call
// pattern does: matching, metrics per action, Propagate / Spawn of the real
// controller (children through doActions, time-outs to busy actions after a
// Spawn), stream time-outs from the streamer's heartbeat, the event pool.
// A panic on the processor goroutine takes the process down (as in production):
// the unit runs with CrashFile so that the driver keeps the in-flight case.

import (
	"encoding/json"
	"fmt"
	"os"
	"strings"
	"sync"
	"testing"
	"testing/synctest"
	"time"

	"github.com/ozontech/file.d/fd"
	"github.com/ozontech/file.d/pipeline"
	_ "github.com/ozontech/file.d/plugin/output/stdout"
	"github.com/ozontech/file.d/zzverif/fdkit"
	"github.com/ozontech/file.d/zzverif/vkit"
)

type replayInput struct{}

func (*replayInput) Start(pipeline.AnyConfig, *pipeline.InputPluginParams) {}
func (*replayInput) Stop()                                                 {}
func (*replayInput) Commit(*pipeline.Event)                                {}
func (*replayInput) PassEvent(*pipeline.Event) bool                        { return true }

// replayOutput judges every event the way a batching output would see it
// (encode, parents of spawned children skipped) and then hands it to the real
// `stdout` output plugin (the output of the README's quick start), which encodes
// and commits it. A panic of stdout.Out is recovered here (it runs on the
// processor goroutine and would take the process down).
type replayOutput struct {
	real     pipeline.OutputPlugin
	ctl      pipeline.OutputPluginController
	mu       sync.Mutex
	n        int
	bad      []string
	outPanic string
}

func (o *replayOutput) Start(_ pipeline.AnyConfig, p *pipeline.OutputPluginParams) {
	o.ctl = p.Controller
	if info, err := fd.DefaultPluginRegistry.Get(pipeline.PluginKindOutput, "stdout"); err == nil {
		plug, cfg := info.Factory()
		o.real = plug.(pipeline.OutputPlugin)
		o.real.Start(cfg, p)
	}
}
func (o *replayOutput) Stop() {
	if o.real != nil {
		o.real.Stop()
	}
}
func (o *replayOutput) Out(e *pipeline.Event) {
	if !e.IsChildParentKind() { // Batch.ForEach skips the parents of spawned children
		var enc string
		rec, _ := fdkit.CatchPanic(func() {
			if boundedTree(e.Root.Node) {
				enc = e.Root.EncodeToString()
			} else {
				enc = "<not a finite tree>"
			}
		})
		o.mu.Lock()
		o.n++
		if rec != nil {
			o.bad = append(o.bad, fmt.Sprintf("encoding panicked: %v", rec))
		} else if !json.Valid([]byte(enc)) {
			o.bad = append(o.bad, enc)
		}
		o.mu.Unlock()
	}
	if o.real == nil {
		o.ctl.Commit(e)
		return
	}
	if rec, stack := fdkit.CatchPanic(func() { o.real.Out(e) }); rec != nil {
		o.mu.Lock()
		if o.outPanic == "" {
			o.outPanic = fmt.Sprintf("%v (event kind parent-of-children=%v)\n%s", rec, e.IsChildParentKind(), shortStack(stack))
		}
		o.mu.Unlock()
		o.ctl.Commit(e) // stdout.Out commits after printing
	}
}

// lastExec: what the direct route learned about the case (set by exec; cases run one after the other).
var lastExec struct {
	accepted bool
	excluded bool
}

func runPipe(c Case) *vkit.Outcome {
	lastExec.accepted, lastExec.excluded = false, false
	o := run(c)
	if o.Failed() || !lastExec.accepted || lastExec.excluded {
		return o
	}
	info, err := pluginInfo(c.Plugin)
	if err != nil {
		return o
	}
	out := &replayOutput{}
	var leftover any
	func() {
		defer func() { leftover = recover() }()
		// the stdout output prints to os.Stdout
		if devnull, derr := os.OpenFile(os.DevNull, os.O_WRONLY, 0); derr == nil {
			saved := os.Stdout
			os.Stdout = devnull
			defer func() { os.Stdout = saved; _ = devnull.Close() }()
		}
		vkit.Bubble(func() {
			st := pipelineSettings(c.Settings)
			st.Capacity = 16
			st.EventTimeout = time.Second
			st.MaintenanceInterval = time.Hour
			st.Antispam.MaintenanceInterval = time.Hour
			name := pipelineName(c)
			if c.Plugin != "hash" {
				name = fdkit.UniqueName("c13pipe")
			}
			p := fdkit.NewPipeline(name, st)
			p.DisableParallelism()
			p.SetInput(&pipeline.InputPluginInfo{
				PluginStaticInfo:  &pipeline.PluginStaticInfo{Type: "c13_in"},
				PluginRuntimeInfo: &pipeline.PluginRuntimeInfo{Plugin: &replayInput{}, ID: "c13_in"},
			})
			config, cerr := pipeline.GetConfig(info, c.Config, values)
			if cerr != nil {
				return
			}
			infoCopy := *info
			infoCopy.Config = config
			infoCopy.Type = c.Plugin
			p.AddAction(&pipeline.ActionPluginStaticInfo{PluginStaticInfo: &infoCopy, MatchMode: pipeline.MatchModeAnd, MetricName: "c13", MetricLabels: []string{"level"}})
			p.SetOutput(&pipeline.OutputPluginInfo{
				PluginStaticInfo:  &pipeline.PluginStaticInfo{Type: "c13_out"},
				PluginRuntimeInfo: &pipeline.PluginRuntimeInfo{Plugin: out, ID: "c13_out"},
			})
			p.Start()
			for i, e := range c.Events {
				text := substNow(e.bytes())
				if !json.Valid(text) {
					continue
				}
				src := e.Source
				if src == "" {
					src = "c13"
				}
				p.In(pipeline.SourceID(1), src, pipeline.NewOffsets(int64(i+1), nil), text, i == 0, nil)
				if e.Timeout {
					// let the stream fall silent for longer than event_timeout: the streamer's heartbeat
					// sends a time-out event if (and only if) the action waits for the next event
					synctest.Wait()
					time.Sleep(3 * time.Second)
				}
			}
			synctest.Wait()
			if !c.StopBusy {
				time.Sleep(5 * time.Second) // held events are flushed by the stream time-out
				synctest.Wait()
			}
			p.Stop()
			p.VerifWakeProcessors()
			time.Sleep(3 * time.Hour) // maintenance loops observe the stop flag
		})
	}()
	o.Class("pipeline-replay:" + c.Plugin)
	if c.StopBusy {
		o.Class("pipeline-replay-stopped-without-waiting-for-time-outs")
	}
	out.mu.Lock()
	defer out.mu.Unlock()
	if out.n > 0 {
		o.Class("pipeline-replay-with-output:" + c.Plugin)
	}
	if out.outPanic != "" {
		o.Failf(P, "stdout-output-panics:"+c.Plugin+":"+panicKind(out.outPanic), "replayed through a real pipeline whose output is the real stdout plugin: stdout.Out panicked on the processor goroutine (the collector goes down): %s\nconfig %s settings %+v events %s", clip(out.outPanic, 1200), c.Config, c.Settings, eventsOf(c))
	}
	if len(out.bad) > 0 {
		o.Failf(P, "pipeline-output-event-not-json:"+c.Plugin, "replayed through a real pipeline, the output received an event that does not encode to valid JSON: %q\nconfig %s settings %+v", clip(out.bad[0], 600), c.Config, c.Settings)
	}
	if leftover != nil && !strings.Contains(fmt.Sprint(leftover), "deadlock") {
		st := ""
		if pw, ok := leftover.(*vkit.PanicWithStack); ok {
			st = shortStack(pw.Stack)
		}
		o.Failf(P, "pipeline-replay-panics:"+c.Plugin+":"+panicKind(fmt.Sprint(leftover)), "replaying the sequence through a real pipeline panicked: %v\n%s\nconfig %s settings %+v", clip(fmt.Sprint(leftover), 300), st, c.Config, c.Settings)
	} else if leftover != nil {
		// not a clause of C13: goroutines of the pipeline or the plugin that never end after Stop
		o.Class("pipeline-replay-leftover-goroutines:" + c.Plugin)
		vkit.Note(P, fmt.Sprintf("pipeline replay of %s: the bubble did not end cleanly: %v", c.Plugin, clip(fmt.Sprint(leftover), 200)))
	}
	return o
}

func eventsOf(c Case) string {
	var sb strings.Builder
	for i, e := range c.Events {
		fmt.Fprintf(&sb, "\n #%d %q", i, clip(string(e.bytes()), 300))
	}
	return sb.String()
}

var propPipe = vkit.NewProp([]string{P}, "c13pipeline", gen, runPipe)

func TestC13Pipeline(t *testing.T) { propPipe.CrashFile = true; propPipe.Check(t) }
