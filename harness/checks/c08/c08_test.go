// Package c08 decides C08 — Batcher: bounded size, bounded staleness, in-order
// exactly-once commit, Stop never panics — black-box through the exported
// Batcher API (NewBatcher/Start/Add/Stop, Batch.ForEach).
package c08

import (
	"context"
	"fmt"
	"runtime"
	"sync"
	"sync/atomic"
	"testing"
	"time"

	"github.com/ozontech/file.d/pipeline"
	"github.com/ozontech/file.d/zzverif/fdkit"
	"github.com/ozontech/file.d/zzverif/vkit"
	"pgregory.net/rapid"
)

const P = "C08"

func TestMain(m *testing.M)   { fdkit.InstallLogger(); vkit.Main(m) }
func TestReplay(t *testing.T) { vkit.Replay(t) }

// ---------------------------------------------------------------- shared

type Add struct {
	GapMs int    `json:"gap_ms"`
	Size  int    `json:"size"`
	Kind  string `json:"kind"` // "r" regular, "p" child-parent, "c" child
}

type recorder struct {
	mu      sync.Mutex
	seq     int64
	commits []commitRec
	errors  []string
}

type commitRec struct {
	ID  uint64
	Seq int64
}

func (r *recorder) next() int64 { return atomic.AddInt64(&r.seq, 1) }

func (r *recorder) Commit(e *pipeline.Event) {
	r.mu.Lock()
	r.commits = append(r.commits, commitRec{ID: e.SeqID, Seq: r.next()})
	r.mu.Unlock()
}
func (r *recorder) Error(s string) {
	r.mu.Lock()
	r.errors = append(r.errors, s)
	r.mu.Unlock()
}

func mkEvent(id int, a Add) *pipeline.Event {
	e := &pipeline.Event{SeqID: uint64(id), Size: a.Size}
	switch a.Kind {
	case "p":
		e.SetChildParentKind()
	case "c":
		e.SetChildKind()
	}
	return e
}

func genAdds(t *rapid.T, maxN int, withGaps bool, gapMax int) []Add {
	n := rapid.IntRange(1, maxN).Draw(t, "n")
	adds := make([]Add, n)
	for i := range adds {
		k := "r"
		switch rapid.IntRange(0, 9).Draw(t, "kind") {
		case 0, 1:
			k = "p"
		case 2:
			k = "c"
		}
		g := 0
		if withGaps && rapid.IntRange(0, 3).Draw(t, "hasgap") == 0 {
			g = rapid.IntRange(1, gapMax).Draw(t, "gap")
		}
		adds[i] = Add{GapMs: g, Size: rapid.SampledFrom([]int{0, 1, 5, 10, 50, 100, 1000}).Draw(t, "size"), Kind: k}
	}
	return adds
}

// ---------------------------------------------------------------- (a) size + staleness, virtual time

type SizeCase struct {
	Workers int   `json:"workers"`
	Count   int   `json:"count"`
	Bytes   int   `json:"bytes"`
	FlushMs int   `json:"flush_ms"`
	Adds    []Add `json:"adds"`
}

func genSize(t *rapid.T) SizeCase {
	c := SizeCase{
		Workers: rapid.IntRange(1, 4).Draw(t, "workers"),
		Count:   rapid.IntRange(0, 6).Draw(t, "count"),
		Bytes:   rapid.SampledFrom([]int{0, 1, 10, 100, 120, 1000, 5000}).Draw(t, "bytes"),
		FlushMs: rapid.SampledFrom([]int{1, 20, 100, 150, 250, 1000}).Draw(t, "flush"),
	}
	if c.Count == 0 && c.Bytes == 0 {
		c.Count = 3
	}
	c.Adds = genAdds(t, 30, true, 700)
	return c
}

type outRec struct {
	at      time.Duration
	ids     []uint64
	sizes   []int
	outSeq  int64
	retSeq  int64
}

func runSize(c SizeCase) *vkit.Outcome {
	o := vkit.NewOutcome()
	// run inside a synctest bubble: time is virtual
	vkit.Bubble(func() {
		rec := &recorder{}
		var mu sync.Mutex
		var outs []outRec
		start := time.Now()
		addAt := map[uint64]time.Duration{}
		b := pipeline.NewBatcher(pipeline.BatcherOptions{
			PipelineName: "c08", OutputType: "verif",
			OutFn: func(_ *pipeline.WorkerData, batch *pipeline.Batch) {
				r := outRec{at: time.Since(start), outSeq: rec.next()}
				batch.ForEach(func(e *pipeline.Event) {
					r.ids = append(r.ids, e.SeqID)
					r.sizes = append(r.sizes, e.Size)
				})
				mu.Lock()
				outs = append(outs, r)
				mu.Unlock()
			},
			Controller: rec, Workers: c.Workers, BatchSizeCount: c.Count, BatchSizeBytes: c.Bytes,
			FlushTimeout: time.Duration(c.FlushMs) * time.Millisecond,
			MetricCtl:    fdkit.MetricCtl("c08"),
		})
		ctx, cancel := context.WithCancel(context.Background())
		b.Start(ctx)
		kinds := map[uint64]string{}
		for i, a := range c.Adds {
			if a.GapMs > 0 {
				time.Sleep(time.Duration(a.GapMs) * time.Millisecond)
			}
			id := uint64(i + 1)
			addAt[id] = time.Since(start)
			kinds[id] = a.Kind
			b.Add(mkEvent(i+1, a))
		}
		// let every timer-driven flush happen: flush timeout + heartbeat period + slack
		time.Sleep(time.Duration(c.FlushMs)*time.Millisecond + 350*time.Millisecond)
		bound := time.Duration(c.FlushMs)*time.Millisecond + 100*time.Millisecond
		mu.Lock()
		seenOut := map[uint64]time.Duration{}
		timeoutOnly := false
		for _, r := range outs {
			if c.Count > 0 && len(r.ids) > c.Count {
				o.Failf(P, "batch-over-count", "batch handed to the output holds %d events, limit %d", len(r.ids), c.Count)
			}
			sum := 0
			for _, s := range r.sizes {
				sum += s
			}
			if c.Bytes > 0 && len(r.sizes) > 0 && sum-r.sizes[len(r.sizes)-1] >= c.Bytes {
				o.Failf(P, "batch-over-bytes", "batch of %d bytes exceeds limit %d by more than its last event (%d)", sum, c.Bytes, r.sizes[len(r.sizes)-1])
			}
			if len(r.ids) == 0 {
				o.Failf(P, "all-parent-batch-sent", "a batch without deliverable events reached the output")
			}
			full := (c.Count > 0 && len(r.ids) >= c.Count) || (c.Bytes > 0 && sum >= c.Bytes)
			if !full {
				timeoutOnly = true
			}
			for _, id := range r.ids {
				if _, dup := seenOut[id]; dup {
					o.Failf(P, "event-sent-twice", "event %d handed to the output twice", id)
				}
				seenOut[id] = r.at
			}
		}
		mu.Unlock()
		for id, at := range addAt {
			if kinds[id] == "p" {
				if _, sent := seenOut[id]; sent {
					o.Failf(P, "parent-event-sent", "child-parent event %d was iterated by ForEach", id)
				}
				continue
			}
			outAt, ok := seenOut[id]
			if !ok {
				o.Failf(P, "event-stale", "event %d added at %v was not handed to the output within flush_timeout+350ms (flush %dms)", id, at, c.FlushMs)
				continue
			}
			if outAt-at > bound {
				o.Failf(P, "event-stale", "event %d added at %v handed to the output at %v: later than flush_timeout(%dms)+100ms", id, at, outAt, c.FlushMs)
			}
		}
		// exactly-once commit
		rec.mu.Lock()
		cnt := map[uint64]int{}
		for _, cm := range rec.commits {
			cnt[cm.ID]++
		}
		rec.mu.Unlock()
		for id := range addAt {
			if cnt[id] != 1 {
				o.Failf(P, "commit-count", "event %d committed %d times (want 1)", id, cnt[id])
			}
		}
		if timeoutOnly {
			o.Class("flushed-by-timeout")
			o.Nontrivial(P)
		}
		if len(outs) >= 2 {
			o.Class("multi-batch")
		}
		cancel()
		b.Stop()
		time.Sleep(200 * time.Millisecond) // heartbeat goroutine notices shouldStop
	})
	return o
}

var propSize = vkit.NewProp([]string{P}, "c08size", genSize, runSize)

func TestC08SizeStaleness(t *testing.T) { propSize.CrashFile = true; propSize.Check(t) }

// ---------------------------------------------------------------- (b) order + exactly once, real time

type OrderCase struct {
	Workers    int     `json:"workers"`
	Count      int     `json:"count"`
	Bytes      int     `json:"bytes"`
	FlushMs    int     `json:"flush_ms"`
	Producers  [][]Add `json:"producers"`
	Serialized bool    `json:"serialized"` // Add calls serialised by a harness lock: global add order known
	// WaitFor[k] = j >= 0: the k-th started send does not return before the j-th started send returned
	WaitFor []int `json:"wait_for"`
}

func genOrder(t *rapid.T) OrderCase {
	c := OrderCase{
		Workers: rapid.IntRange(1, 4).Draw(t, "workers"),
		Count:   rapid.IntRange(1, 4).Draw(t, "count"),
		Bytes:   rapid.SampledFrom([]int{0, 0, 60, 300}).Draw(t, "bytes"),
		FlushMs: rapid.SampledFrom([]int{1, 5, 30}).Draw(t, "flush"),
	}
	np := rapid.IntRange(1, 3).Draw(t, "producers")
	for i := 0; i < np; i++ {
		c.Producers = append(c.Producers, genAdds(t, 14, false, 0))
	}
	c.Serialized = np == 1 || rapid.Bool().Draw(t, "serialized")
	n := rapid.IntRange(0, 12).Draw(t, "nwait")
	for k := 0; k < n; k++ {
		w := -1
		if rapid.IntRange(0, 2).Draw(t, "haswait") > 0 {
			// a later (k+1..k+3) or earlier send
			w = k + rapid.IntRange(-2, 3).Draw(t, "wait")
			if w == k || w < 0 {
				w = k + 1
			}
		}
		c.WaitFor = append(c.WaitFor, w)
	}
	return c
}

func runOrder(c OrderCase) *vkit.Outcome {
	o := vkit.NewOutcome()
	rec := &recorder{}
	var mu sync.Mutex
	started := 0
	returned := map[int]chan struct{}{}
	getRet := func(k int) chan struct{} {
		ch := returned[k]
		if ch == nil {
			ch = make(chan struct{})
			returned[k] = ch
		}
		return ch
	}
	sentSeq := map[uint64]int64{} // event id -> seq at which its send returned
	batchOf := map[uint64]int{}   // event id -> send ordinal
	droppedConstraints, inversions := 0, 0
	returnOrder := []int{}
	b := pipeline.NewBatcher(pipeline.BatcherOptions{
		PipelineName: "c08", OutputType: "verif",
		OutFn: func(_ *pipeline.WorkerData, batch *pipeline.Batch) {
			mu.Lock()
			k := started
			started++
			mine := getRet(k)
			var waitCh chan struct{}
			if k < len(c.WaitFor) && c.WaitFor[k] >= 0 {
				waitCh = getRet(c.WaitFor[k])
			}
			mu.Unlock()
			if waitCh != nil {
				select {
				case <-waitCh:
				case <-time.After(150 * time.Millisecond):
					mu.Lock()
					droppedConstraints++
					mu.Unlock()
				}
			}
			mu.Lock()
			s := rec.next()
			batch.ForEach(func(e *pipeline.Event) {
				sentSeq[e.SeqID] = s
				batchOf[e.SeqID] = k
			})
			for _, prev := range returnOrder {
				if prev > k {
					inversions++
					break
				}
			}
			returnOrder = append(returnOrder, k)
			close(mine)
			mu.Unlock()
		},
		Controller: rec, Workers: c.Workers, BatchSizeCount: c.Count, BatchSizeBytes: c.Bytes,
		FlushTimeout: time.Duration(c.FlushMs) * time.Millisecond,
		MetricCtl:    fdkit.MetricCtl("c08"),
	})
	ctx, cancel := context.WithCancel(context.Background())
	b.Start(ctx)
	var addMu sync.Mutex
	var globalOrder []uint64
	kinds := map[uint64]string{}
	perProducer := make([][]uint64, len(c.Producers))
	total := 0
	for pi, adds := range c.Producers {
		for i, a := range adds {
			id := uint64(pi*1000 + i + 1)
			kinds[id] = a.Kind
			perProducer[pi] = append(perProducer[pi], id)
			total++
		}
	}
	var wg sync.WaitGroup
	for pi, adds := range c.Producers {
		wg.Add(1)
		go func(pi int, adds []Add) {
			defer wg.Done()
			for i, a := range adds {
				id := pi*1000 + i + 1
				ev := mkEvent(id, a)
				if c.Serialized {
					addMu.Lock()
					globalOrder = append(globalOrder, uint64(id))
					b.Add(ev)
					addMu.Unlock()
				} else {
					b.Add(ev)
				}
				if i%3 == 2 {
					runtime.Gosched()
				}
			}
		}(pi, adds)
	}
	wg.Wait()
	deadline := time.Now().Add(20 * time.Second)
	for {
		rec.mu.Lock()
		n := len(rec.commits)
		rec.mu.Unlock()
		if n >= total {
			break
		}
		if time.Now().After(deadline) {
			o.Failf(P, "commit-missing", "only %d of %d added events were committed 20 s after the last Add (flush %dms)", n, total, c.FlushMs)
			break
		}
		time.Sleep(2 * time.Millisecond)
	}
	time.Sleep(2 * time.Millisecond)
	cancel()
	b.Stop()

	rec.mu.Lock()
	commits := append([]commitRec{}, rec.commits...)
	rec.mu.Unlock()
	mu.Lock()
	defer mu.Unlock()
	cnt := map[uint64]int{}
	pos := map[uint64]int{}
	for i, cm := range commits {
		cnt[cm.ID]++
		pos[cm.ID] = i
		if kinds[cm.ID] != "p" {
			s, ok := sentSeq[cm.ID]
			if !ok {
				o.Failf(P, "commit-before-send", "event %d committed but no send that carried it has returned", cm.ID)
			} else if s > cm.Seq {
				o.Failf(P, "commit-before-send", "event %d committed (seq %d) before its own send returned (seq %d)", cm.ID, cm.Seq, s)
			}
		}
	}
	for id := range kinds {
		if cnt[id] != 1 && !o.Failed() {
			o.Failf(P, "commit-count", "event %d committed %d times (want exactly 1)", id, cnt[id])
		}
	}
	if !o.Failed() {
		// per producer add order preserved
		for pi, ids := range perProducer {
			for i := 1; i < len(ids); i++ {
				if pos[ids[i-1]] > pos[ids[i]] {
					o.Failf(P, "commit-order", "producer %d: event %d was added before %d but committed after it", pi, ids[i-1], ids[i])
				}
			}
		}
		if c.Serialized {
			for i, id := range globalOrder {
				if i < len(commits) && commits[i].ID != id {
					o.Failf(P, "commit-order", "commit #%d is event %d, but the %d-th added event is %d (batches must commit in formation order)", i, commits[i].ID, i, id)
					break
				}
			}
		}
		// events of one send are committed contiguously (a batch commits as a unit)
		last := -1
		seenBatch := map[int]bool{}
		for _, cm := range commits {
			if kinds[cm.ID] == "p" {
				continue
			}
			k := batchOf[cm.ID]
			if k != last {
				if seenBatch[k] {
					o.Failf(P, "commit-order", "events of send #%d are not committed contiguously", k)
					break
				}
				seenBatch[k] = true
				last = k
			}
		}
	}
	if c.Workers >= 2 && inversions > 0 {
		o.Class("inverted-completion")
		o.Nontrivial(P)
	}
	if droppedConstraints > 0 {
		o.Class("constraint-dropped")
	}
	if len(c.Producers) > 1 {
		o.Class("multi-producer")
	}
	o.History = map[string]any{"commits": commits, "return_order": returnOrder}
	return o
}

var propOrder = vkit.NewProp([]string{P}, "c08order", genOrder, runOrder)

func TestC08Order(t *testing.T) { propOrder.CrashFile = true; propOrder.Check(t) }

// ---------------------------------------------------------------- (c) Stop vs Add

type StopCase struct {
	Workers   int     `json:"workers"`
	Count     int     `json:"count"`
	FlushMs   int     `json:"flush_ms"`
	Producers [][]Add `json:"producers"`
	Gated     bool    `json:"gated"`      // park the N-th arrival at the gate, Stop, release
	GateAt    int     `json:"gate_at"`    // which arrival at batcher.beforeSend is parked (0-based)
	StopAfter int     `json:"stop_after"` // ungated: Stop after this many Add calls returned (approx.)
}

func genStop(t *rapid.T) StopCase {
	c := StopCase{
		Workers: rapid.IntRange(1, 3).Draw(t, "workers"),
		Count:   rapid.IntRange(1, 3).Draw(t, "count"),
		FlushMs: rapid.SampledFrom([]int{1, 50}).Draw(t, "flush"),
		Gated:   rapid.Bool().Draw(t, "gated"),
	}
	np := rapid.IntRange(1, 3).Draw(t, "producers")
	for i := 0; i < np; i++ {
		c.Producers = append(c.Producers, genAdds(t, 12, false, 0))
	}
	c.GateAt = rapid.IntRange(0, 5).Draw(t, "gate_at")
	c.StopAfter = rapid.IntRange(0, 20).Draw(t, "stop_after")
	return c
}

var gateMu sync.Mutex // one gated case at a time per process

func runStop(c StopCase) *vkit.Outcome {
	o := vkit.NewOutcome()
	gateMu.Lock()
	defer gateMu.Unlock()
	rec := &recorder{}
	var mu sync.Mutex
	sent := map[uint64]bool{}
	b := pipeline.NewBatcher(pipeline.BatcherOptions{
		PipelineName: "c08", OutputType: "verif",
		OutFn: func(_ *pipeline.WorkerData, batch *pipeline.Batch) {
			mu.Lock()
			batch.ForEach(func(e *pipeline.Event) { sent[e.SeqID] = true })
			mu.Unlock()
		},
		Controller: rec, Workers: c.Workers, BatchSizeCount: c.Count,
		FlushTimeout: time.Duration(c.FlushMs) * time.Millisecond,
		MetricCtl:    fdkit.MetricCtl("c08"),
	})
	parked := make(chan struct{})
	release := make(chan struct{})
	var arrivals atomic.Int64
	var didPark atomic.Bool
	if c.Gated {
		pipeline.VerifSetGate(func(point string) {
			if point != "batcher.beforeSend" {
				return
			}
			n := arrivals.Add(1) - 1
			if int(n) == c.GateAt && didPark.CompareAndSwap(false, true) {
				close(parked)
				<-release
			}
		})
		defer pipeline.VerifSetGate(nil)
	}
	ctx, cancel := context.WithCancel(context.Background())
	defer cancel()
	b.Start(ctx)
	var adds atomic.Int64
	var panics []string
	var pmu sync.Mutex
	kinds := map[uint64]string{}
	for pi, as := range c.Producers {
		for i, a := range as {
			kinds[uint64(pi*1000+i+1)] = a.Kind
		}
	}
	var wg sync.WaitGroup
	for pi, as := range c.Producers {
		wg.Add(1)
		go func(pi int, as []Add) {
			defer wg.Done()
			defer func() {
				if r := recover(); r != nil {
					pmu.Lock()
					panics = append(panics, fmt.Sprint(r))
					pmu.Unlock()
				}
			}()
			for i, a := range as {
				b.Add(mkEvent(pi*1000+i+1, a))
				adds.Add(1)
			}
		}(pi, as)
	}
	stopDone := make(chan struct{})
	doStop := func() {
		go func() {
			defer close(stopDone)
			defer func() {
				if r := recover(); r != nil {
					pmu.Lock()
					panics = append(panics, "Stop: "+fmt.Sprint(r))
					pmu.Unlock()
				}
			}()
			b.Stop()
		}()
	}
	if c.Gated {
		select {
		case <-parked:
			// an Add (or the heartbeat) sits between "batch ready" and "batch handed to a worker"
			doStop()
			// give Stop time to take effect while the goroutine is parked
			select {
			case <-stopDone:
			case <-time.After(20 * time.Millisecond):
			}
			close(release)
			o.Class("stop-while-batch-in-handover")
			o.Nontrivial(P)
		case <-time.After(300 * time.Millisecond):
			// the plan never produced that many ready batches
			didPark.Store(true)
			doStop()
			o.Class("gate-not-reached")
		}
	} else {
		dl := time.Now().Add(200 * time.Millisecond)
		for int(adds.Load()) < c.StopAfter && time.Now().Before(dl) {
			runtime.Gosched()
		}
		doStop()
		o.Class("ungated-race")
		if c.StopAfter > 0 {
			o.Nontrivial(P)
		}
	}
	done := make(chan struct{})
	go func() { wg.Wait(); <-stopDone; close(done) }()
	select {
	case <-done:
	case <-time.After(20 * time.Second):
		o.Failf(P, "stop-hangs", "producers/Stop did not finish within 20 s after Stop was requested")
		return o
	}
	pmu.Lock()
	for _, p := range panics {
		o.Failf(P, "stop-add-panic", "panic while Stop raced with Add: %s", p)
	}
	pmu.Unlock()
	rec.mu.Lock()
	mu.Lock()
	cnt := map[uint64]int{}
	for _, cm := range rec.commits {
		cnt[cm.ID]++
		if kinds[cm.ID] != "p" && !sent[cm.ID] {
			o.Failf(P, "commit-unsent-after-stop", "event %d was committed although no send carried it", cm.ID)
		}
		if cnt[cm.ID] > 1 {
			o.Failf(P, "commit-count", "event %d committed %d times", cm.ID, cnt[cm.ID])
		}
	}
	mu.Unlock()
	rec.mu.Unlock()
	return o
}

var propStop = vkit.NewProp([]string{P}, "c08stop", genStop, runStop)

func TestC08Stop(t *testing.T) { propStop.CrashFile = true; propStop.Check(t) }
