#!/bin/bash
# usage: import_par2.sh <logfile> NN:k ...   (round 6: /tmp/seed6-cNN, stored as C<NN>-<k+10>)
log=$1; shift
cd /verif
for item in "$@"; do
  nn=${item%%:*}; k=${item##*:}
  if [ -f /tmp/seed6-c$nn/SEEDS/change$k.diff ]; then
    echo "=== C$nn round6 change $k" >> $log
    SEED_NO=$((k+10)) SEED_IMPORT=1 bin/seedverify /tmp/seed6-c$nn/SEEDS $k C$nn 2>&1 | grep '"demo_clean_rc"\|"demo_changed_rc"\|"existing_tests_rc"\|"patch_applies"\|"check_rc"\|"confirmed"\|"imported_to"\|check_sigs' -A1 | grep -v "^--" | tr -d '\n' | sed 's/  */ /g' >> $log; echo >> $log
  fi
done
